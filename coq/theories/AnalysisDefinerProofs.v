(** AnalysisDefinerProofs.v — clause W3 ("every state / computed variable is computed by exactly one equation or by
    the equations of one NLA system") at the level of the RESULT: the invariant of the loop (AnalysisOwnProofs) is
    carried through the second half of analyseModel (validation, NLA grouping, requalification, packaging). *)
From Coq Require Import List Bool Arith PeanoNat Lia Permutation.
From LC Require Import AnalysisDefs AnalysisSpec AnalysisProofs AnalysisWfProofs AnalysisOwnProofs AnalysisConfluenceProofs.
Import ListNotations.
Local Open Scope bool_scope.

(* ------------------------------------------------------------------ lists *)

Lemma gete_upd : forall es k x i, gete (upd es k x) i = if (i =? k) && (k <? length es) then x else gete es i.
Proof.
  intros es k x i. unfold gete. destruct (Nat.eqb_spec i k) as [->|Hd]; cbn [andb].
  - destruct (Nat.ltb_spec k (length es)) as [L|L]; [apply nth_upd_same; exact L|rewrite upd_beyond by exact L; reflexivity].
  - apply nth_upd_other. congruence.
Qed.

Lemma filter_ext_in' : forall {A} (f g : A -> bool) l, (forall x, In x l -> f x = g x) -> filter f l = filter g l.
Proof.
  intros A f g l H. induction l as [|x r IH]; cbn; [reflexivity|].
  rewrite (H x (or_introl eq_refl)), IH; [reflexivity|]. intros y Hy. apply H. right. exact Hy.
Qed.

Lemma seq_filter_nth_off : forall {A} (l : list A) (d : A) (f : A -> bool) k,
  map (fun j => nth (j - k) l d) (filter (fun j => f (nth (j - k) l d)) (seq k (length l))) = filter f l.
Proof.
  intros A l d f. induction l as [|x r IH]; intro k; [reflexivity|].
  cbn [length seq filter]. rewrite Nat.sub_diag. change (nth 0 (x :: r) d) with x.
  assert (H : map (fun j => nth (j - k) (x :: r) d) (filter (fun j => f (nth (j - k) (x :: r) d)) (seq (S k) (length r))) = filter f r).
  { rewrite <- (IH (S k)).
    rewrite (filter_ext_in' (fun j => f (nth (j - k) (x :: r) d)) (fun j => f (nth (j - S k) r d))).
    - apply map_ext_in. intros j Hj. apply filter_In in Hj. destruct Hj as (Hj & _). apply in_seq in Hj.
      replace (j - k) with (S (j - S k)) by lia. reflexivity.
    - intros j Hj. apply in_seq in Hj. replace (j - k) with (S (j - S k)) by lia. reflexivity. }
  destruct (f x); cbn [map]; rewrite ?Nat.sub_diag; change (nth 0 (x :: r) d) with x; rewrite H; reflexivity.
Qed.

Lemma seq_filter_nth : forall {A} (l : list A) (d : A) (f : A -> bool),
  map (fun j => nth j l d) (filter (fun j => f (nth j l d)) (seq 0 (length l))) = filter f l.
Proof.
  intros A l d f. rewrite <- (seq_filter_nth_off l d f 0).
  rewrite (filter_ext_in' (fun j => f (nth j l d)) (fun j => f (nth (j - 0) l d))) by (intros; rewrite Nat.sub_0_r; reflexivity).
  apply map_ext. intro j. rewrite Nat.sub_0_r. reflexivity.
Qed.

Lemma filter_map_comm : forall {A B} (g : A -> B) (f : B -> bool) l, filter f (map g l) = map g (filter (fun x => f (g x)) l).
Proof. intros A B g f l. induction l as [|x r IH]; cbn; [reflexivity|]. destruct (f (g x)); cbn; rewrite IH; reflexivity. Qed.

(* ------------------------------------------------------------------ NLA grouping keeps the equations that compute something *)

Definition nlaok (e : ieq) : Prop := is_nla e = true -> ie_nla e <> None.
Definition has_unknown (e : ieq) : bool := match ie_unknown e with [] => false | _ => true end.

Lemma upd_nlaok : forall l k x, (nlaok (gete l k) -> nlaok x) -> forall j, nlaok (gete l j) -> nlaok (gete (upd l k x) j).
Proof.
  intros l k x H j Hj. rewrite gete_upd. destruct ((j =? k) && (k <? length l)) eqn:E; [|exact Hj].
  apply andb_true_iff in E. destruct E as (E & _). apply Nat.eqb_eq in E. subst. apply H. exact Hj.
Qed.

Lemma set_nla_ok : forall e i, nlaok (set_nla e (Some i)).
Proof. intros e i _. cbn. discriminate. Qed.

Lemma nla_step_more : forall ivs st k, Forall (fun v => iv_external v = false) ivs -> ns_added_vars st = [] ->
  ns_removed (nla_step ivs st k) = ns_removed st ++ (if has_unknown (gete (ns_es st) k) then [] else [k]) /\
  (forall j, nlaok (gete (ns_es st) j) -> nlaok (gete (ns_es (nla_step ivs st k)) j)) /\
  (k < length (ns_es st) -> nlaok (gete (ns_es (nla_step ivs st k)) k)).
Proof.
  intros ivs st k Hne Hadd. unfold nla_step.
  set (es := ns_es st). set (e := gete es k).
  assert (Hfil : forall l, filter (fun p => negb (iv_external (geti ivs p))) l = l).
  { intro l. apply filter_id. intro p. rewrite (noext_geti _ p Hne). reflexivity. }
  assert (He1 : set_unknown e (ie_unknown e) = e) by (destruct e; reflexivity).
  assert (Hes1 : upd es k e = es).
  { destruct (Nat.lt_ge_cases k (length es)) as [L|L]; [|apply upd_beyond; exact L].
    apply nth_ext with (d := dieq) (d' := dieq); [apply upd_length|]. intros n Hn. rewrite upd_length in Hn.
    destruct (Nat.eq_dec k n) as [->|Hd]; [rewrite nth_upd_same by exact Hn; reflexivity|rewrite nth_upd_other by exact Hd; reflexivity]. }
  assert (Hrem : forall r, match ie_unknown e with [] => r ++ [k] | _ :: _ => r end = r ++ (if has_unknown e then [] else [k])).
  { intro r. unfold has_unknown. destruct (ie_unknown e); [reflexivity|rewrite app_nil_r; reflexivity]. }
  destruct (is_nla e) eqn:En.
  - rewrite Hfil, He1, Hes1, En. cbn [negb].
    match goal with |- context [let '(idx, next) := ?m in _] => destruct m as [idx next] end.
    match goal with |- context [filter ?f (seq 0 (length ?l))] => set (others := filter f (seq 0 (length l))) end.
    cbn [ns_es ns_removed]. split; [apply Hrem|].
    set (es2 := upd es k (set_nla e (Some idx))).
    assert (H2 : forall j, nlaok (gete es j) -> nlaok (gete es2 j)).
    { apply upd_nlaok. intros _. apply set_nla_ok. }
    assert (H3 : forall os l j, nlaok (gete l j) -> nlaok (gete (fold_left (fun l j => upd l j (set_nla (gete l j) (Some idx))) os l) j)).
    { induction os as [|o r IHo]; intros l j Hj; cbn [fold_left]; [exact Hj|]. apply IHo. apply upd_nlaok; [|exact Hj]. intros _. apply set_nla_ok. }
    set (es3 := fold_left (fun l j => upd l j (set_nla (gete l j) (Some idx))) others es2).
    assert (H4 : forall j, nlaok (gete es3 j) -> nlaok (gete (upd es3 k (set_sibs (gete es3 k) (ie_sibs (gete es3 k) ++ others))) j)).
    { apply upd_nlaok. intros H. exact H. }
    split.
    + intros j Hj. apply H4. apply H3. apply H2. exact Hj.
    + intro Lk. apply H4. apply H3. unfold es2. rewrite gete_upd, Nat.eqb_refl. cbn [andb].
      destruct (Nat.ltb_spec k (length es)) as [L|L]; [apply set_nla_ok|lia].
  - rewrite En. cbn [negb ns_es ns_removed]. rewrite Hes1. split; [apply Hrem|]. split; [auto|].
    intros _ K. fold e in K. congruence.
Qed.

Lemma nla_fold_more : forall ivs es n st,
  Forall (fun v => iv_external v = false) ivs -> ns_added_vars st = [] -> map core (ns_es st) = map core es ->
  n <= length es ->
  let st' := fold_left (nla_step ivs) (seq 0 n) st in
  (forall j, j < n -> True) ->
  map core (ns_es st') = map core es /\ ns_added_vars st' = [] /\
  ns_removed st' = ns_removed st ++ filter (fun j => negb (has_unknown (gete es j))) (seq 0 n) /\
  (forall j, nlaok (gete (ns_es st) j) -> nlaok (gete (ns_es st') j)) /\
  (forall j, j < n -> nlaok (gete (ns_es st') j)).
Proof.
  intros ivs es n. induction n as [|m IH]; intros st Hne Hadd Hcore Hn st' _.
  - cbn in st'. subst st'. rewrite app_nil_r. repeat split; auto. intros j Hj. lia.
  - subst st'. rewrite seq_S. cbn [plus]. rewrite fold_left_app. cbn [fold_left].
    destruct (IH st Hne Hadd Hcore) as (A1 & A2 & A3 & A4 & A5); [lia|exact (fun _ _ => I)|].
    set (stm := fold_left (nla_step ivs) (seq 0 m) st) in *.
    destruct (nla_step_core ivs stm m Hne A2) as (B1 & B2).
    destruct (nla_step_more ivs stm m Hne A2) as (C1 & C2 & C3).
    assert (Hlen : length (ns_es stm) = length es).
    { pose proof (f_equal (@length _) A1) as K. rewrite !map_length in K. exact K. }
    assert (Hunk : has_unknown (gete (ns_es stm) m) = has_unknown (gete es m)).
    { unfold has_unknown. pose proof (gete_core (ns_es stm) m) as K1. pose proof (gete_core es m) as K2. rewrite A1 in K1.
      rewrite <- K2 in K1. unfold core in K1. injection K1 as _ K. rewrite K. reflexivity. }
    split; [congruence|]. split; [exact B2|]. split; [|split].
    + rewrite C1, A3, Hunk. rewrite filter_app. cbn [filter]. rewrite <- app_assoc.
      destruct (has_unknown (gete es m)); reflexivity.
    + intros j Hj. apply C2. apply A4. exact Hj.
    + intros j Hj. destruct (Nat.eq_dec j m) as [->|Hd]; [apply C3; lia|apply C2; apply A5; lia].
Qed.

Definition hu_core (c : etype * list nat) : bool := match snd c with [] => false | _ => true end.

Lemma mem_filter_seq : forall (P : nat -> bool) n j, j < n -> mem_nat j (filter P (seq 0 n)) = P j.
Proof.
  intros P n j Hj. destruct (P j) eqn:E.
  - apply mem_nat_In. apply filter_In. split; [apply in_seq; lia|exact E].
  - destruct (mem_nat j (filter P (seq 0 n))) eqn:M; [|reflexivity]. apply mem_nat_In in M. apply filter_In in M. destruct M as (_ & M). congruence.
Qed.

Lemma nla_group_cores : forall ivs es, Forall (fun v => iv_external v = false) ivs ->
  map core (nla_group ivs es) = map core (filter has_unknown es) /\ Forall nlaok (nla_group ivs es).
Proof.
  intros ivs es Hne. unfold nla_group.
  destruct (nla_fold_more ivs es (length es) (mkNs es 0 [] []) Hne eq_refl eq_refl (le_n _) (fun _ _ => I)) as (A1 & A2 & A3 & _ & A5).
  set (st := fold_left (nla_step ivs) (seq 0 (length es)) (mkNs es 0 [] [])) in *. cbn [ns_removed app] in A3.
  rewrite A2. cbn [map]. rewrite app_nil_r.
  assert (Hlen : length (ns_es st) = length es).
  { pose proof (f_equal (@length _) A1) as K. rewrite !map_length in K. exact K. }
  rewrite Hlen.
  assert (Hkeep : filter (fun j => negb (mem_nat j (ns_removed st))) (seq 0 (length es)) = filter (fun j => has_unknown (gete es j)) (seq 0 (length es))).
  { apply filter_ext_in'. intros j Hj. apply in_seq in Hj. rewrite A3, mem_filter_seq by lia. apply negb_involutive. }
  rewrite Hkeep. split.
  - rewrite map_map.
    assert (Hc : forall j, core (set_sibs (gete (ns_es st) j) (filter_map (renumber (ns_removed st)) (ie_sibs (gete (ns_es st) j)))) = nth j (map core es) (core dieq)).
    { intro j. rewrite <- A1. rewrite <- gete_core. reflexivity. }
    rewrite (map_ext _ _ Hc).
    assert (Hf : filter (fun j => has_unknown (gete es j)) (seq 0 (length es)) = filter (fun j => hu_core (nth j (map core es) (core dieq))) (seq 0 (length (map core es)))).
    { rewrite map_length. apply filter_ext_in'. intros j _. rewrite <- gete_core. reflexivity. }
    rewrite Hf, seq_filter_nth. rewrite filter_map_comm. reflexivity.
  - rewrite Forall_forall. intros x Hx. apply in_map_iff in Hx. destruct Hx as (j & <- & Hj).
    apply filter_In in Hj. destruct Hj as (Hj & _). apply in_seq in Hj.
    intro K. apply (A5 j); [lia|exact K].
Qed.

(* ------------------------------------------------------------------ an NLA unknown with a guess is listed by some equation *)

Lemma init_fold_id : forall xs ivs, (forall i, In i xs -> is_initialised_kind (iv_type (geti ivs i)) = false) ->
  fold_left init_step xs ivs = ivs.
Proof.
  induction xs as [|x r IH]; intros ivs H; cbn [fold_left]; [reflexivity|].
  assert (Hx : init_step ivs x = ivs) by (unfold init_step; rewrite (H x (or_introl eq_refl)); reflexivity).
  rewrite Hx. apply IH. intros i Hi. apply H. right. exact Hi.
Qed.

Lemma filter_nil_all : forall {A} (f : A -> bool) l, filter f l = [] -> forall x, In x l -> f x = false.
Proof.
  intros A f l H x Hx. destruct (f x) eqn:E; [|reflexivity].
  assert (K : In x (filter f l)) by (apply filter_In; split; assumption). rewrite H in K. destruct K.
Qed.

Lemma check_untyped_initalg : forall s nla st e st' e' b,
  check s nla st e = (st', e', b) -> ie_type e = EUnknown -> eq_inv (cs_ivs st) e -> ie_type e' = EUnknown ->
  forall q, iv_type (geti (cs_ivs st') q) = VInitAlgebraic -> iv_type (geti (cs_ivs st) q) = VInitAlgebraic.
Proof.
  intros s nla st e st' e' b H Hty (_ & _ & I3 & _) Hty' q Hq. unfold check in H.
  rewrite Hty in H. cbn [etype_eqb negb] in H. cbv zeta in H.
  set (ivs := cs_ivs st) in *.
  set (vars := filter (fun i => negb (is_known ivs i)) (ie_vars e)) in *.
  set (odes := filter (fun i => negb (is_known_ode ivs i)) (ie_odes e)) in *.
  set (do_nla := nla && (length vars + length odes =? 0)) in *.
  set (inits := if do_nla then filter (fun i => is_initialised_kind (iv_type (geti ivs i))) (ie_all e) else []) in *.
  change (fun (l : list ivar) (i : nat) => if is_initialised_kind (iv_type (geti l i)) then upd l i (set_type (geti l i) VInitAlgebraic) else l)
    with init_step in H.
  change (fun (l : list ivar) (i : nat) => upd l i (set_type (geti l i) VOverconstrained)) with over_step in H.
  set (ivs1 := if do_nla then fold_left init_step (ie_all e) ivs else ivs) in *.
  assert (Hid : inits = [] -> ivs1 = ivs).
  { intro Hi. unfold ivs1. destruct do_nla eqn:Ed; [|reflexivity]. apply init_fold_id.
    unfold inits in Hi. apply (filter_nil_all _ _ Hi). }
  match type of H with (if ?c then _ else _) = _ => destruct c eqn:C1 end.
  { inversion H; subst st' e' b. cbn [cs_ivs] in Hq.
    assert (Hi : inits = []) by (apply andb_true_iff in C1; destruct C1 as (_ & C1); destruct inits; [reflexivity|discriminate]).
    rewrite (Hid Hi) in Hq. destruct (over_fold_spec (ie_all e) ivs q) as (_ & _ & [T|T]); congruence. }
  match type of H with (if ?c then _ else _) = _ => destruct c eqn:C2 end.
  { inversion H; subst st' e' b. cbn [cs_ivs] in Hq.
    assert (Hi : inits = []).
    { apply negb_true_iff in C2. apply orb_false_iff in C2. destruct C2 as (_ & C2). destruct inits; [reflexivity|discriminate]. }
    rewrite (Hid Hi) in Hq. exact Hq. }
  match type of H with context [type_variables ?a ?b ?c ?d ?e0 ?f ?g] =>
    destruct (type_variables a b c d e0 f g) as [[st2 unk] ok] eqn:TV end.
  destruct ok; cbn [negb] in H.
  { (* typed: contradiction *)
    inversion H; subst st' e' b. exfalso. cbn [ie_type] in Hty'. revert Hty'.
    match goal with |- match ?lv with _ => _ end = _ -> _ => destruct lv end; [|discriminate].
    match goal with |- (if ?c then _ else _) = _ -> _ => destruct c end; [discriminate|].
    match goal with |- match ?t with _ => _ end = _ -> _ => destruct t end; discriminate. }
  inversion H; subst st' e' b.
  (* abandoned: the list typed is a singleton or the initialised ones, which never abandon *)
  destruct (length vars + length odes =? 1) eqn:L1.
  - apply Nat.eqb_eq in L1.
    assert (Hnla0 : do_nla = false) by (unfold do_nla; rewrite L1; cbn; apply andb_false_r).
    assert (Hivs1 : ivs1 = ivs) by (unfold ivs1; rewrite Hnla0; reflexivity).
    assert (Hinits : inits = []) by (unfold inits; rewrite Hnla0; reflexivity).
    assert (Hsingle : exists p, (match vars with [] => match odes with [] => inits | _ :: _ => odes end | _ :: _ => vars end) = [p]).
    { destruct vars as [|v0 [|v1 vr]]; cbn in L1.
      - destruct odes as [|o0 [|o1 orr]]; cbn in L1; try lia. eexists; reflexivity.
      - destruct odes; cbn in L1; [eexists; reflexivity|lia].
      - lia. }
    destruct Hsingle as (p & Hs). rewrite Hs, Hivs1 in TV.
    apply type_variables_single in TV. cbv zeta in TV. destruct TV as (TVf & _). destruct (TVf eq_refl) as (_ & Eivs & N1 & N2 & N3).
    cbn [cs_ivs] in Eivs. rewrite Eivs in Hq. unfold geti in Hq |- *.
    destruct (Nat.eq_dec p q) as [<-|Hd]; [|rewrite nth_upd_other in Hq by exact Hd; exact Hq].
    destruct (Nat.lt_ge_cases p (length ivs)) as [L|L]; [|rewrite upd_beyond in Hq by exact L; exact Hq].
    rewrite nth_upd_same in Hq by exact L. contradiction.
  - (* not one left: fires only through the initialised ones, and then it does not abandon *)
    exfalso. apply negb_false_iff in C2. cbn [orb] in C2.
    assert (Hin : inits <> []) by (destruct inits; discriminate).
    assert (Hnla1 : do_nla = true) by (unfold inits in Hin; destruct do_nla; [reflexivity|contradiction]).
    assert (Hleft : vars = [] /\ odes = []).
    { unfold do_nla in Hnla1. apply andb_true_iff in Hnla1. destruct Hnla1 as (_ & Hl). apply Nat.eqb_eq in Hl.
      destruct vars; [|cbn in Hl; lia]. destruct odes; [|cbn in Hl; lia]. split; reflexivity. }
    destruct Hleft as (Ev & Eo). rewrite Ev, Eo in TV.
    assert (Hivs1 : ivs1 = fold_left init_step (ie_all e) ivs) by (unfold ivs1; rewrite Hnla1; reflexivity).
    assert (Hinits : inits = filter (fun i => is_initialised_kind (iv_type (geti ivs i))) (ie_all e)) by (unfold inits; rewrite Hnla1; reflexivity).
    assert (Hmem : forall x, In x inits -> In x (ie_all e) /\ x < length ivs /\ is_initialised_kind (iv_type (geti ivs x)) = true).
    { intros x Hx. rewrite Hinits in Hx. apply filter_In in Hx. destruct Hx as (Hx1 & Hx2).
      split; [exact Hx1|]. split; [|exact Hx2]. rewrite Forall_forall in I3. apply I3. exact Hx1. }
    match type of TV with type_variables ?a ?b ?c ?d ?st0 ?u inits = _ =>
      destruct (type_variables_initalg a b c d inits st0 u) as (st3 & TV3 & _) end.
    { cbn [cs_ivs]. rewrite Forall_forall. intros x Hx. rewrite Hivs1, (proj1 (init_fold_spec (ie_all e) ivs 0)). apply Hmem. exact Hx. }
    { cbn [cs_ivs]. intros x Hx. destruct (Hmem x Hx) as (A & B & C). rewrite Hivs1.
      apply (proj1 (proj2 (proj2 (proj2 (init_fold_spec (ie_all e) ivs x))))); assumption. }
    rewrite TV3 in TV. discriminate.
Qed.

Definition nonempty_inv (ivs : list ivar) (es : list ieq) : Prop :=
  forall p, p < length ivs -> iv_type (geti ivs p) = VInitAlgebraic -> owners es p <> [].

Lemma owners_has : forall pre e post p, mem_nat p (ie_unknown e) = true -> owners (pre ++ e :: post) p <> [].
Proof.
  intros pre e post p H. rewrite owners_mid, H. intro K. apply app_eq_nil in K. destruct K as (_ & K). discriminate.
Qed.

Lemma check_nonempty : forall s nla st e st' e' b pre post,
  check s nla st e = (st', e', b) -> own_inv (cs_ivs st) (pre ++ e :: post) ->
  nonempty_inv (cs_ivs st) (pre ++ e :: post) -> nonempty_inv (cs_ivs st') (pre ++ e' :: post).
Proof.
  intros s nla st e st' e' b pre post H Hinv Hn.
  assert (He : eq_inv (cs_ivs st) e).
  { pose proof (oi_bounds _ _ Hinv) as HB. rewrite Forall_forall in HB. apply HB. apply in_mid. auto. }
  destruct (check_inv _ _ _ _ _ _ _ H He) as ((L & _) & _).
  destruct (etype_eqb (ie_type e) EUnknown) eqn:Et.
  2:{ unfold check in H. rewrite Et in H. cbn [negb] in H. inversion H; subst. exact Hn. }
  apply etype_eqb_eq in Et.
  assert (He0 : ie_unknown e = []) by (apply (oi_untyped _ _ Hinv); [apply in_mid; auto|exact Et]).
  intros q Hq Hty. rewrite L in Hq.
  destruct (check_cases _ _ _ _ _ _ _ H Et He) as [(A1 & A2 & A3 & A4)|[(p & A)|(inits & A)]].
  - rewrite (owners_skip pre e e' post q He0) by (rewrite A2, He0; reflexivity).
    apply Hn; [exact Hq|]. eapply check_untyped_initalg; eassumption.
  - destruct A as (A1 & A2 & A3 & A4 & A5 & A6 & A7 & A8 & A9 & A10 & A11). rewrite He0 in A2. cbn in A2.
    destruct (Nat.eq_dec q p) as [->|Hd].
    + apply owners_has. rewrite A2, mem_nat_single. apply Nat.eqb_refl.
    + rewrite (owners_skip pre e e' post q He0) by (rewrite A2, mem_nat_single; apply Nat.eqb_neq; exact Hd).
      apply Hn; [exact Hq|]. rewrite <- (A6 q Hd). exact Hty.
  - destruct A as (A1 & A2 & A3 & A4 & A5 & A6 & A7). rewrite He0 in A3. cbn in A3.
    destruct (in_dec Nat.eq_dec q inits) as [Hi|Hi].
    + apply owners_has. rewrite A3. apply mem_nat_In. exact Hi.
    + rewrite (owners_skip pre e e' post q He0).
      * apply Hn; [exact Hq|]. destruct (A7 q Hi) as (T & _). rewrite <- T. exact Hty.
      * rewrite A3. destruct (mem_nat q inits) eqn:Em; [apply mem_nat_In in Em; contradiction|reflexivity].
Qed.

Lemma sweep_nonempty : forall s nla es pre st st' es' b,
  sweep s nla st es = (st', es', b) -> own_inv (cs_ivs st) (pre ++ es) -> nonempty_inv (cs_ivs st) (pre ++ es) ->
  nonempty_inv (cs_ivs st') (pre ++ es').
Proof.
  intros s nla es. induction es as [|e r IH]; intros pre st st' es' b H Hinv Hn; cbn in H.
  - inversion H; subst. exact Hn.
  - destruct (check s nla st e) as [[st1 e1] b1] eqn:Hc.
    destruct (sweep s nla st1 r) as [[st2 r1] b2] eqn:Hs.
    inversion H; subst. clear H.
    pose proof (check_own _ _ _ _ _ _ _ pre r Hc Hinv) as H1.
    pose proof (check_nonempty _ _ _ _ _ _ _ pre r Hc Hinv Hn) as N1.
    change (pre ++ e1 :: r) with (pre ++ [e1] ++ r) in H1, N1. rewrite app_assoc in H1, N1.
    pose proof (IH _ _ _ _ _ Hs H1 N1) as N2. rewrite <- app_assoc in N2. exact N2.
Qed.

Lemma loop_nonempty : forall s fuel loopn nla st es st' es',
  loop s fuel loopn nla st es = Some (st', es') ->
  Forall (fun v => iv_external v = false) (cs_ivs st) ->
  own_inv (cs_ivs st) es -> nonempty_inv (cs_ivs st) es -> nonempty_inv (cs_ivs st') es'.
Proof.
  intros s fuel. induction fuel as [|f IH]; intros loopn nla st es st' es' H Hne Hinv Hn; [discriminate|].
  cbn [loop] in H. destruct (sweep s nla st es) as [[st1 es1] rel] eqn:Hs.
  pose proof (sweep_own _ _ _ [] _ _ _ _ Hs Hinv) as H1. pose proof (sweep_nonempty _ _ _ [] _ _ _ _ Hs Hinv Hn) as N1. cbn [app] in H1, N1.
  destruct (sweep_inv _ _ _ _ _ _ _ Hs (oi_bounds _ _ Hinv)) as (Hev & _).
  pose proof (noext_evolves _ _ _ Hev Hne) as Hne1.
  destruct rel; [eapply IH; eassumption|].
  destruct ((loopn =? 1) || (loopn =? 3)); [eapply IH; eassumption|].
  assert (Hmark : map (fun v => if iv_external v && vtype_eqb (iv_type v) VUnknown then set_type v VInitialised else v) (cs_ivs st1) = cs_ivs st1).
  { clear - Hne1. induction (cs_ivs st1) as [|v r IHr]; cbn; [reflexivity|]. inversion Hne1; subst.
    rewrite H1. cbn. rewrite IHr by assumption. reflexivity. }
  destruct (loopn =? 2).
  - rewrite Hmark in H. destruct (existsb iv_external (cs_ivs st1)).
    + eapply IH; [exact H| | |]; cbn [cs_ivs]; assumption.
    + inversion H; subst. cbn [cs_ivs]. exact N1.
  - inversion H; subst. exact N1.
Qed.

(* ------------------------------------------------------------------ no variable is a CONSTANT before the validation *)

Definition noconst (ivs : list ivar) : Prop := forall q, iv_type (geti ivs q) <> VConstant.

Lemma check_noconst : forall s nla st e st' e' b,
  check s nla st e = (st', e', b) -> eq_inv (cs_ivs st) e -> noconst (cs_ivs st) -> noconst (cs_ivs st').
Proof.
  intros s nla st e st' e' b H He Hn q.
  destruct (etype_eqb (ie_type e) EUnknown) eqn:Et.
  2:{ unfold check in H. rewrite Et in H. cbn [negb] in H. inversion H; subst. apply Hn. }
  apply etype_eqb_eq in Et.
  destruct (check_cases _ _ _ _ _ _ _ H Et He) as [(_ & _ & _ & (_ & K))|[(p & A)|(inits & A)]].
  - destruct (K q) as (_ & [T|[(_ & T)|T]]); rewrite T; [apply Hn|discriminate|discriminate].
  - destruct A as (_ & _ & _ & _ & _ & A6 & _ & _ & _ & A10 & _).
    destruct (Nat.eq_dec q p) as [->|Hd]; [|rewrite (A6 q Hd); apply Hn].
    destruct A10 as [T|[T|T]]; [rewrite T; discriminate| |rewrite T; discriminate].
    intro K. rewrite K in T. discriminate.
  - destruct A as (_ & _ & _ & _ & _ & A6 & A7).
    destruct (in_dec Nat.eq_dec q inits) as [Hi|Hi].
    + destruct (A6 q Hi) as (_ & _ & T & _). rewrite T. discriminate.
    + destruct (A7 q Hi) as (T & _). rewrite T. apply Hn.
Qed.

Lemma sweep_noconst : forall s nla es st st' es' b,
  sweep s nla st es = (st', es', b) -> Forall (eq_inv (cs_ivs st)) es -> noconst (cs_ivs st) -> noconst (cs_ivs st').
Proof.
  intros s nla es. induction es as [|e r IH]; intros st st' es' b H Hinv Hn; cbn in H.
  - inversion H; subst. exact Hn.
  - destruct (check s nla st e) as [[st1 e1] b1] eqn:Hc.
    destruct (sweep s nla st1 r) as [[st2 r1] b2] eqn:Hs.
    inversion H; subst. clear H. inversion Hinv as [|? ? He Hr]; subst.
    destruct (check_inv _ _ _ _ _ _ _ Hc He) as (Hev & _).
    eapply IH; [exact Hs| |eapply check_noconst; eassumption].
    eapply Forall_impl; [|exact Hr]. intros x Hx. eapply eq_inv_evolves; eassumption.
Qed.

Lemma loop_noconst : forall s fuel loopn nla st es st' es',
  loop s fuel loopn nla st es = Some (st', es') -> Forall (eq_inv (cs_ivs st)) es ->
  noconst (cs_ivs st) -> noconst (cs_ivs st').
Proof.
  intros s fuel. induction fuel as [|f IH]; intros loopn nla st es st' es' H Hinv Hn; [discriminate|].
  cbn [loop] in H. destruct (sweep s nla st es) as [[st1 es1] rel] eqn:Hs.
  pose proof (sweep_noconst _ _ _ _ _ _ _ Hs Hinv Hn) as N1.
  destruct (sweep_inv _ _ _ _ _ _ _ Hs Hinv) as (_ & I1).
  assert (Hmark : noconst (map (fun v => if iv_external v && vtype_eqb (iv_type v) VUnknown then set_type v VInitialised else v) (cs_ivs st1))).
  { intro q. destruct (Nat.lt_ge_cases q (length (cs_ivs st1))) as [L|L].
    - rewrite geti_map by exact L. destruct (iv_external _ && _); [discriminate|apply N1].
    - unfold geti. rewrite nth_overflow by (rewrite map_length; exact L). discriminate. }
  assert (Imark : Forall (eq_inv (map (fun v => if iv_external v && vtype_eqb (iv_type v) VUnknown then set_type v VInitialised else v) (cs_ivs st1))) es1).
  { eapply Forall_impl; [|exact I1]. intros x Hx. eapply (eq_inv_evolves s); [|exact Hx].
    apply map_evolves. intro v. destruct (iv_external v && vtype_eqb (iv_type v) VUnknown) eqn:E; [|apply step_ok_refl].
    apply andb_true_iff in E. destruct E as (_ & E). apply vtype_eqb_eq in E. apply set_type_step. rewrite E.
    unfold tok. repeat split; intros; try discriminate; auto. }
  destruct rel; [eapply IH; eassumption|].
  destruct ((loopn =? 1) || (loopn =? 3)); [eapply IH; eassumption|].
  destruct (loopn =? 2).
  - destruct (existsb iv_external (cs_ivs st1)).
    + eapply IH; [exact H| |]; cbn [cs_ivs]; assumption.
    + inversion H; subst. cbn [cs_ivs]. exact Hmark.
  - inversion H; subst. exact N1.
Qed.

(* ------------------------------------------------------------------ the final structure, on (type, unknown list) pairs *)

Definition cown (C : list (etype * list nat)) (p : nat) : list (etype * list nat) := filter (fun c => mem_nat p (snd c)) C.

Lemma cown_owners : forall es p, cown (map core es) p = map core (owners es p).
Proof. intros. unfold cown, owners. rewrite filter_map_comm. reflexivity. Qed.

Definition fin_at (ivs : list ivar) (C : list (etype * list nat)) (p : nat) : Prop :=
  match iv_type (geti ivs p) with
  | VState | VCompTrue | VCompVarBased | VAlgebraic =>
      exists et, cown C p = [(et, [p])] /\ agree (iv_type (geti ivs p)) et = true
  | VInitAlgebraic => cown C p <> [] /\ forall c, In c (cown C p) -> fst c = ENla
  | _ => cown C p = []
  end.

Definition computed_type (t : vtype) : bool :=
  match t with VState | VCompTrue | VCompVarBased | VInitAlgebraic | VAlgebraic => true | _ => false end.

Record fin_inv (ivs : list ivar) (C : list (etype * list nat)) : Prop := {
  fi_types : Forall (fun v => final_type (iv_type v) = true) ivs;
  fi_at : forall p, p < length ivs -> fin_at ivs C p;
  fi_eqs : forall c, In c C -> fst c <> EUnknown /\ snd c <> [] /\
                            forall p, In p (snd c) -> p < length ivs /\ computed_type (iv_type (geti ivs p)) = true }.

Lemma validate_types : forall ivs vidx ivs1 n,
  validate_vars ivs vidx = (ivs1, n, []) ->
  length ivs1 = length ivs /\
  forall p, iv_type (geti ivs1 p) = (if vtype_eqb (iv_type (geti ivs p)) VInitialised then VConstant else iv_type (geti ivs p)).
Proof.
  induction ivs as [|v r IH]; intros vidx ivs1 n H; cbn in H.
  - inversion H; subst. split; [reflexivity|]. intro p. unfold geti. destruct p; reflexivity.
  - destruct (iv_type v) eqn:Et;
      match type of H with context [validate_vars r ?k] => destruct (validate_vars r k) as [[r1 n1] i1] eqn:E end;
      inversion H; subst;
      destruct (IH _ _ _ E) as (L & T); (split; [cbn; congruence|]); intros [|p];
      first [apply (T p) | (unfold geti; cbn [nth set_index set_type iv_type]; rewrite ?Et; reflexivity)].
Qed.

(* from the state in which the loop stops to the state after the validation of the variables *)
Lemma fin_after_validate : forall ivs es vidx ivs1 n,
  own_inv ivs es -> nonempty_inv ivs es -> noconst ivs ->
  (forall p, iv_type (geti ivs p) = VState -> has_index (geti ivs p) = true) ->
  validate_vars ivs vidx = (ivs1, n, []) -> Forall (fun v => final_type (iv_type v) = true) ivs1 ->
  fin_inv ivs1 (map core (filter has_unknown es)).
Proof.
  intros ivs es vidx ivs1 n [U O X W B] Hn Hnc Hst Hv Hfin.
  destruct (validate_types _ _ _ _ Hv) as (L & T).
  assert (Hcown : forall p, cown (map core (filter has_unknown es)) p = map core (owners es p)).
  { intro p. unfold cown, owners. rewrite filter_map_comm. f_equal.
    apply (AnalysisConfluenceProofs.filter_filter_mono (fun e => mem_nat p (snd (core e))) has_unknown es).
    intros e He. cbn in He. unfold has_unknown. destruct (ie_unknown e); [discriminate|reflexivity]. }
  constructor.
  - exact Hfin.
  - intros p Hp. rewrite L in Hp. specialize (W p Hp). destruct W as (W1 & W2 & W3).
    unfold fin_at. rewrite Hcown, T.
    assert (Hfp : final_type (iv_type (geti ivs1 p)) = true).
    { rewrite Forall_forall in Hfin. apply Hfin. apply geti_In. rewrite L. exact Hp. }
    rewrite T in Hfp.
    destruct (iv_type (geti ivs p)) eqn:Et; cbn [vtype_eqb] in *; try discriminate.
    + rewrite W1 by (left; reflexivity). reflexivity.
    + rewrite W1 by (left; reflexivity). reflexivity.
    + destruct W2 as (e & E1 & E2 & E3); [right; split; [reflexivity|apply Hst; exact Et]|].
      rewrite E1. cbn. exists (ie_type e). unfold core. rewrite E2. split; [reflexivity|exact E3].
    + exfalso. apply (Hnc p). exact Et.
    + destruct W2 as (e & E1 & E2 & E3); [left; reflexivity|]. rewrite E1. cbn. exists (ie_type e). unfold core. rewrite E2. split; [reflexivity|exact E3].
    + destruct W2 as (e & E1 & E2 & E3); [left; reflexivity|]. rewrite E1. cbn. exists (ie_type e). unfold core. rewrite E2. split; [reflexivity|exact E3].
    + split.
      * intro K. apply map_eq_nil in K. apply (Hn p Hp Et). exact K.
      * intros c Hc. apply in_map_iff in Hc. destruct Hc as (e & <- & He). cbn. apply (W3 eq_refl). exact He.
    + destruct W2 as (e & E1 & E2 & E3); [left; reflexivity|]. rewrite E1. cbn. exists (ie_type e). unfold core. rewrite E2. split; [reflexivity|exact E3].
  - intros c Hc. apply in_map_iff in Hc. destruct Hc as (e & <- & He). apply filter_In in He. destruct He as (He & Hu).
    rewrite Forall_forall in B. destruct (B e He) as (_ & _ & _ & B4 & B5). cbn [core fst snd].
    assert (Hty : ie_type e <> EUnknown).
    { intro K. unfold has_unknown in Hu. rewrite (U e He K) in Hu. discriminate. }
    split; [exact Hty|]. split; [apply B5; exact Hty|].
    intros p Hp. rewrite Forall_forall in B4. specialize (B4 p Hp). pose proof (idx_type_in_bounds _ _ B4) as Hb.
    split; [rewrite L; exact Hb|]. rewrite T.
    assert (Hfp : final_type (iv_type (geti ivs1 p)) = true).
    { rewrite Forall_forall in Hfin. apply Hfin. apply geti_In. rewrite L. exact Hb. }
    rewrite T in Hfp. destruct (iv_type (geti ivs p)); cbn in B4, Hfp |- *; try discriminate; reflexivity.
Qed.

(* ------------------------------------------------------------------ requalification keeps the structure *)

Lemma cown_mid : forall Cd c Cr p, cown (Cd ++ c :: Cr) p = cown Cd p ++ (if mem_nat p (snd c) then [c] else []) ++ cown Cr p.
Proof. intros. unfold cown. rewrite filter_app. cbn [filter]. destruct (mem_nat p (snd c)); reflexivity. Qed.

Lemma app_single_mid : forall {A} (a b : list A) x y, a ++ [x] ++ b = [y] -> a = [] /\ b = [] /\ x = y.
Proof.
  intros A a b x y H. destruct a as [|z a]; cbn in H.
  - inversion H; subst. auto.
  - inversion H as [[Hz Ha]]. destruct a; discriminate.
Qed.

Lemma requalify_step_fin : forall ivs done over iss e r ivs' done' over',
  requalify_step (ivs, done, over, iss) e = (ivs', done', over', []) ->
  fin_inv ivs (map core (done ++ e :: r)) -> Forall nlaok (done ++ e :: r) ->
  exists e', done' = done ++ [e'] /\ ie_unknown e' = ie_unknown e /\ ie_nla e' = ie_nla e /\ length ivs' = length ivs /\
             fin_inv ivs' (map core (done' ++ r)) /\ Forall nlaok (done' ++ r).
Proof.
  intros ivs done over iss e r ivs' done' over' H Hfin Hok.
  assert (Hsame : (ivs', done') = (ivs, done ++ [e]) ->
          exists e', done' = done ++ [e'] /\ ie_unknown e' = ie_unknown e /\ ie_nla e' = ie_nla e /\ length ivs' = length ivs /\
             fin_inv ivs' (map core (done' ++ r)) /\ Forall nlaok (done' ++ r)).
  { intro K. inversion K; subst. exists e. rewrite <- app_assoc. cbn [app].
    split; [reflexivity|]. split; [reflexivity|]. split; [reflexivity|]. split; [reflexivity|]. split; assumption. }
  unfold requalify_step in H. destruct (ie_type e) eqn:Et; try (apply Hsame; inversion H; reflexivity).
  - destruct (existsb _ (ie_all e)) eqn:Ex; [|apply Hsame; inversion H; reflexivity].
    inversion H; subst ivs' done' over'. clear H Hsame.
    set (u := hd 0 (ie_unknown e)) in *. exists (set_etype e EAlgebraic).
    destruct Hfin as [Ft Fa Fe]. rewrite map_app in Fa, Fe. cbn [map] in Fa, Fe.
    set (Cd := map core done) in *. set (Cr := map core r) in *.
    assert (Hc : In (core e) (Cd ++ core e :: Cr)) by (apply in_app_iff; right; left; reflexivity).
    destruct (Fe _ Hc) as (_ & Hne & Hmem). cbn [core snd] in Hne, Hmem.
    assert (Hu : In u (ie_unknown e)) by (unfold u; destruct (ie_unknown e); [contradiction|left; reflexivity]).
    destruct (Hmem u Hu) as (Hub & Huc).
    (* the equation is the only owner of u, which is a variable-based constant *)
    assert (Hstruct : ie_unknown e = [u] /\ iv_type (geti ivs u) = VCompVarBased /\ cown Cd u = [] /\ cown Cr u = []).
    { specialize (Fa u Hub). unfold fin_at in Fa. rewrite cown_mid in Fa. cbn [core snd] in Fa.
      assert (Hm : mem_nat u (ie_unknown e) = true) by (apply mem_nat_In; exact Hu). rewrite Hm in Fa.
      destruct (iv_type (geti ivs u)) eqn:Tu; cbn in Huc; try discriminate.
      - destruct Fa as (et & Fa & Ag). apply app_single_mid in Fa. destruct Fa as (A & B & C). unfold core in C. inversion C; subst et.
        rewrite Et in Ag. discriminate.
      - destruct Fa as (et & Fa & Ag). apply app_single_mid in Fa. destruct Fa as (A & B & C). unfold core in C. inversion C; subst et.
        rewrite Et in Ag. discriminate.
      - destruct Fa as (et & Fa & Ag). apply app_single_mid in Fa. destruct Fa as (A & B & C). unfold core in C. inversion C. auto.
      - destruct Fa as (_ & Fa). specialize (Fa (core e)). cbn [core fst] in Fa. rewrite Et in Fa.
        exfalso. assert (K : EVarBasedConst = ENla) by (apply Fa; apply in_app_iff; right; left; reflexivity). discriminate.
      - destruct Fa as (et & Fa & Ag). apply app_single_mid in Fa. destruct Fa as (A & B & C). unfold core in C. inversion C; subst et.
        rewrite Et in Ag. discriminate. }
    destruct Hstruct as (Hunk & Htu & Hd0 & Hr0).
    assert (Hty : forall q, iv_type (geti (upd ivs u (set_type (geti ivs u) VAlgebraic)) q) = (if q =? u then VAlgebraic else iv_type (geti ivs q))).
    { intro q. unfold geti. destruct (Nat.eqb_spec q u) as [->|Hd]; [rewrite nth_upd_same by exact Hub; reflexivity|rewrite nth_upd_other by congruence; reflexivity]. }
    split; [reflexivity|]. split; [reflexivity|]. split; [reflexivity|]. split; [apply upd_length|]. split.
    + rewrite <- app_assoc. cbn [app]. rewrite map_app. cbn [map]. fold Cd Cr.
      assert (Hcore' : core (set_etype e EAlgebraic) = (EAlgebraic, [u])) by (unfold core; cbn; rewrite Hunk; reflexivity).
      rewrite Hcore'. constructor.
      * apply Forall_upd; [exact Ft|reflexivity].
      * intros q Hq. rewrite upd_length in Hq. unfold fin_at. rewrite Hty, cown_mid. cbn [snd]. rewrite mem_nat_single.
        destruct (Nat.eqb_spec q u) as [->|Hd].
        -- rewrite Hd0, Hr0. cbn. exists EAlgebraic. split; reflexivity.
        -- specialize (Fa q Hq). unfold fin_at in Fa. rewrite cown_mid in Fa. cbn [core snd] in Fa. rewrite Hunk, mem_nat_single in Fa.
           apply Nat.eqb_neq in Hd. rewrite Hd in Fa. exact Fa.
      * intros c Hc'. apply in_app_iff in Hc'.
        assert (Hold : In c (Cd ++ core e :: Cr) -> fst c <> EUnknown /\ snd c <> [] /\
                       forall p, In p (snd c) -> p < length (upd ivs u (set_type (geti ivs u) VAlgebraic)) /\
                                 computed_type (iv_type (geti (upd ivs u (set_type (geti ivs u) VAlgebraic)) p)) = true).
        { intro K. destruct (Fe c K) as (E1 & E2 & E3). split; [exact E1|]. split; [exact E2|].
          intros p Hp. destruct (E3 p Hp) as (P1 & P2). rewrite upd_length. split; [exact P1|]. rewrite Hty.
          destruct (p =? u); [reflexivity|exact P2]. }
        destruct Hc' as [Hc'|[<-|Hc']]; [apply Hold; apply in_app_iff; left; exact Hc'| |apply Hold; apply in_app_iff; right; right; exact Hc'].
        cbn [fst snd]. split; [discriminate|]. split; [discriminate|]. intros p [<-|[]]. rewrite upd_length. split; [exact Hub|].
        rewrite Hty, Nat.eqb_refl. reflexivity.
    + rewrite <- app_assoc. cbn [app]. rewrite Forall_forall in *. intros x Hx. apply in_app_iff in Hx.
      destruct Hx as [Hx|[<-|Hx]]; [apply Hok; apply in_app_iff; left; exact Hx| |apply Hok; apply in_app_iff; right; right; exact Hx].
      intro K. discriminate.
  - destruct (length (ie_unknown e) <? length (ie_sibs e) + 1); [|apply Hsame; inversion H; reflexivity].
    match type of H with context [fold_left ?f (ie_unknown e) ?a] =>
      destruct (fold_left f (ie_unknown e) a) as [[ivs3 over3] iss3] eqn:Ef end.
    inversion H; subst. destruct (over_inner_fold _ _ _ _ _ _ _ Ef eq_refl) as (_ & ->). apply Hsame. reflexivity.
Qed.

Lemma requalify_fold_fin : forall es ivs done over iss ivs2 es2 over2,
  fold_left requalify_step es (ivs, done, over, iss) = (ivs2, es2, over2, []) ->
  fin_inv ivs (map core (done ++ es)) -> Forall nlaok (done ++ es) ->
  fin_inv ivs2 (map core es2) /\ Forall nlaok es2 /\ length ivs2 = length ivs.
Proof.
  induction es as [|e r IH]; intros ivs done over iss ivs2 es2 over2 H Hfin Hok; cbn [fold_left] in H.
  - inversion H; subst. rewrite app_nil_r in *. auto.
  - destruct (requalify_step (ivs, done, over, iss) e) as [[[ivs1 done1] over1] iss1] eqn:E.
    pose proof (requalify_fold_issues _ _ _ _ _ _ _ _ H) as K. subst iss1.
    destruct (requalify_step_fin _ _ _ _ _ r _ _ _ E Hfin Hok) as (e' & -> & _ & _ & L & F1 & O1).
    destruct (IH _ _ _ _ _ _ _ H F1 O1) as (F2 & O2 & L2). split; [exact F2|]. split; [exact O2|congruence].
Qed.

(* ------------------------------------------------------------------ the state handed to the packaging *)

(** What the second half of analyseModel hands to the packaging of a valid model: every internal variable of a
    direct type has exactly one equation, which computes only it and has the matching type; NLA unknowns are computed
    by at least one equation, all of them NLA and carrying an NLA system index; constants and the voi by none. *)
Lemma finish_state : forall (s : system) ivs es vidx ivs1 n ivs2 es2 over2,
  own_inv ivs es -> nonempty_inv ivs es -> noconst ivs ->
  Forall (fun v => iv_external v = false) ivs ->
  (forall p, iv_type (geti ivs p) = VState -> has_index (geti ivs p) = true) ->
  validate_vars ivs vidx = (ivs1, n, []) ->
  fold_left requalify_step (nla_group ivs1 es) (ivs1, [], [], []) = (ivs2, es2, over2, []) ->
  fin_inv ivs2 (map core es2) /\ Forall nlaok es2 /\ length ivs2 = length ivs /\ Forall (fun v => iv_external v = false) ivs2.
Proof.
  intros s ivs es vidx ivs1 n ivs2 es2 over2 Hown Hn Hnc Hne Hst Hv Hr.
  destruct (validate_vars_spec s _ _ _ _ _ Hv) as (V1 & V2). specialize (V2 eq_refl).
  pose proof (Forall2_evolves _ _ _ V1) as Hev1.
  pose proof (noext_evolves _ _ _ Hev1 Hne) as Hne1.
  pose proof (fin_after_validate _ _ _ _ _ Hown Hn Hnc Hst Hv V2) as F1.
  destruct (nla_group_cores ivs1 es Hne1) as (G1 & G2).
  rewrite <- G1 in F1.
  destruct (requalify_fold_fin _ _ _ _ _ _ _ _ Hr F1 G2) as (F2 & O2 & L2).
  split; [exact F2|]. split; [exact O2|]. split; [destruct Hev1 as (L1 & _); congruence|].
  (* external flags are untouched by the requalification *)
  destruct F2 as [Ft _ _].
  assert (Hunk : Forall (unk_inv ivs1) (nla_group ivs1 es)).
  { rewrite Forall_forall. intros e' He'. destruct F1 as [_ _ Fe].
    assert (Hc : In (core e') (map core (nla_group ivs1 es))) by (apply in_map; exact He').
    destruct (Fe _ Hc) as (E1 & E2 & E3). split; [|intros _; exact E2].
    rewrite Forall_forall. intros p Hp. destruct (E3 p Hp) as (_ & P2). cbn [core snd] in *.
    destruct (iv_type (geti ivs1 p)); cbn in P2 |- *; try discriminate; reflexivity. }
  destruct (requalify_fold_spec s _ _ _ _ _ _ _ _ Hr V2 Hunk) as (R1 & _).
  eapply noext_evolves; eassumption.
Qed.

(* ------------------------------------------------------------------ the packaging *)

Definition wf_definer_weak_of (r : result) (a : avar) : bool :=
  let eqs := filter_map (find_aeq r) (av_eqs a) in
  match av_type a with
  | AConstant => match eqs with [] => true | _ => false end
  | AExternal => true
  | _ =>
      (length eqs =? length (av_eqs a)) && nodupb (av_eqs a) &&
      match eqs with
      | [] => false
      | e :: rest =>
          if q_nla e
          then forallb (fun x => q_nla x && mem_vref (av_var a) (ae_vars x)) eqs
               && match ae_nla e with Some _ => true | None => false end
          else match rest with
               | [] => direct_types_agree (av_type a) (ae_type e)
                       && match ae_vars e with [v] => vref_eqb v (av_var a) | _ => false end
               | _ => false
               end
      end
  end.
Definition wf_definers_weak (r : result) : bool := forallb (wf_definer_weak_of r) (all_avars r).

(* the part that the open finding C05-nla-system-split violates: the NLA equations computing one variable carry
   one NLA system index *)
Definition nla_index_consistent_of (r : result) (a : avar) : bool :=
  match filter_map (find_aeq r) (av_eqs a) with
  | [] => true
  | e :: rest => forallb (fun x => opt_eqb (ae_nla x) (ae_nla e)) (e :: rest)
  end.
Definition nla_index_consistent (r : result) : bool := forallb (nla_index_consistent_of r) (all_avars r).

Lemma forallb_and : forall {A} (f g : A -> bool) l, forallb f l = true -> forallb g l = true -> forallb (fun x => f x && g x) l = true.
Proof. intros A f g l. induction l as [|x r IH]; cbn; [reflexivity|]. intros H1 H2. apply andb_true_iff in H1, H2. destruct H1, H2. rewrite H, H1. cbn. apply IH; assumption. Qed.

Lemma wf_definers_split : forall r, wf_definers_weak r = true -> nla_index_consistent r = true -> wf_definers r = true.
Proof.
  intros r Hw Hc. unfold wf_definers, wf_definers_weak, nla_index_consistent in *. rewrite forallb_forall in *.
  intros a Ha. specialize (Hw a Ha). specialize (Hc a Ha).
  unfold wf_definer_of, wf_definer_weak_of, nla_index_consistent_of in *.
  destruct (av_type a); try exact Hw;
    (destruct (filter_map (find_aeq r) (av_eqs a)) as [|e rest]; [exact Hw|];
     apply andb_true_iff in Hw; destruct Hw as (Hw1 & Hw2); rewrite Hw1; cbn [andb];
     destruct (q_nla e); [|exact Hw2];
     apply andb_true_iff in Hw2; destruct Hw2 as (Hw2 & Hw3); rewrite Hw3, andb_true_r;
     rewrite forallb_forall in *; intros x Hx; specialize (Hw2 x Hx); specialize (Hc x Hx);
     apply andb_true_iff in Hw2; destruct Hw2 as (A & B); rewrite A, B, Hc; reflexivity).
Qed.

Definition eqs_of (es : list ieq) (q : nat) : list nat := filter (fun j => mem_nat q (ie_unknown (gete es j))) (seq 0 (length es)).

Lemma make_avars_fst : forall es ivs p si vi x, In x (make_avars es ivs p si vi) -> p <= fst x.
Proof.
  intros es ivs. induction ivs as [|v r IH]; intros p si vi x H; cbn [make_avars] in H; [destruct H|].
  destruct (atype_of v) as [t|]; [|specialize (IH _ _ _ _ H); lia].
  destruct t; destruct H as [<-|H]; cbn; try lia; specialize (IH _ _ _ _ H); lia.
Qed.

(* the API variable made for the internal variable at position q *)
Lemma make_avars_lookup : forall es ivs p si vi q t,
  p <= q -> q < p + length ivs -> atype_of (nth (q - p) ivs divar) = Some t ->
  exists a, lookup_avar (make_avars es ivs p si vi) q = Some a /\ In (q, a) (make_avars es ivs p si vi) /\
            av_type a = t /\ av_var a = iv_var (nth (q - p) ivs divar) /\ av_eqs a = eqs_of es q.
Proof.
  intros es ivs. induction ivs as [|v r IH]; intros p si vi q t H1 H2 Ht; cbn [length] in H2; [lia|].
  cbn [make_avars]. destruct (Nat.eq_dec q p) as [->|Hd].
  - rewrite Nat.sub_diag in *. cbn [nth] in *. rewrite Ht. unfold lookup_avar.
    destruct t; cbn [find fst]; rewrite Nat.eqb_refl; cbn [option_map snd];
      eexists; (split; [reflexivity|]); (split; [left; reflexivity|]); cbn; auto.
  - replace (q - p) with (S (q - S p)) in * by lia. cbn [nth] in *.
    assert (Hrec : forall si' vi', exists a, lookup_avar (make_avars es r (S p) si' vi') q = Some a /\ In (q, a) (make_avars es r (S p) si' vi') /\
                      av_type a = t /\ av_var a = iv_var (nth (q - S p) r divar) /\ av_eqs a = eqs_of es q).
    { intros si' vi'. apply IH; [lia|lia|exact Ht]. }
    destruct (atype_of v) as [t0|]; [|apply Hrec].
    assert (Hskip : forall x0 l, fst x0 = p -> lookup_avar (x0 :: l) q = lookup_avar l q).
    { intros x0 l Hx. unfold lookup_avar. cbn [find]. rewrite Hx. destruct (Nat.eqb_spec p q); [lia|reflexivity]. }
    destruct t0;
      match goal with |- context [(p, ?a0) :: make_avars es r (S p) ?s1 ?v1] =>
        destruct (Hrec s1 v1) as (a & A1 & A2 & A3); exists a; rewrite Hskip by reflexivity; split; [exact A1|]; split; [right; exact A2|exact A3] end.
Qed.

Lemma make_avars_In : forall es ivs p si vi q a,
  In (q, a) (make_avars es ivs p si vi) ->
  p <= q /\ q < p + length ivs /\ atype_of (nth (q - p) ivs divar) = Some (av_type a) /\
  av_var a = iv_var (nth (q - p) ivs divar) /\ av_eqs a = eqs_of es q.
Proof.
  intros es ivs. induction ivs as [|v r IH]; intros p si vi q a H; cbn [make_avars] in H; [destruct H|].
  assert (Hrec : forall si' vi', In (q, a) (make_avars es r (S p) si' vi') ->
            p <= q /\ q < p + length (v :: r) /\ atype_of (nth (q - p) (v :: r) divar) = Some (av_type a) /\
            av_var a = iv_var (nth (q - p) (v :: r) divar) /\ av_eqs a = eqs_of es q).
  { intros si' vi' K. destruct (IH _ _ _ _ _ K) as (B1 & B2 & B3 & B4 & B5). cbn [length].
    replace (q - p) with (S (q - S p)) by lia. cbn [nth]. repeat split; try assumption; lia. }
  destruct (atype_of v) as [t|] eqn:Et; [|apply (Hrec _ _ H)].
  destruct t; (destruct H as [H|H]; [inversion H; subst; cbn [length]; rewrite Nat.sub_diag; cbn [nth av_type av_var av_eqs];
                                     repeat split; try assumption; try reflexivity; lia|apply (Hrec _ _ H)]).
Qed.

Lemma find_pos_seq : forall (F : nat -> option aeq) (g : aeq -> aeq),
  (forall j x, F j = Some x -> ae_pos x = j) -> (forall x, ae_pos (g x) = ae_pos x) ->
  forall n a j, find (fun e => ae_pos e =? j) (map g (filter_map F (seq a n))) =
                (if (a <=? j) && (j <? a + n) then option_map g (F j) else None).
Proof.
  intros F g HF Hg. induction n as [|m IH]; intros a j; cbn [seq filter_map map find].
  - destruct (Nat.leb_spec a j); cbn [andb]; [|reflexivity]. destruct (Nat.ltb_spec j (a + 0)); [lia|reflexivity].
  - assert (Hrange : forall b1, (if (S a <=? j) && (j <? S a + m) then b1 else None) =
                                (if Nat.eqb a j then None else if (a <=? j) && (j <? a + S m) then b1 else @None aeq)).
    { intro b1. destruct (Nat.eqb_spec a j) as [->|Hd].
      - destruct (Nat.leb_spec (S j) j); [lia|reflexivity].
      - destruct (Nat.leb_spec (S a) j), (Nat.leb_spec a j); cbn [andb]; try lia; try reflexivity.
        destruct (Nat.ltb_spec j (S a + m)), (Nat.ltb_spec j (a + S m)); try lia; reflexivity. }
    destruct (F a) as [x|] eqn:Fa.
    + cbn [map find]. rewrite Hg, (HF _ _ Fa), IH, Hrange. destruct (Nat.eqb_spec a j) as [->|Hd]; [|reflexivity].
      rewrite Nat.leb_refl. destruct (Nat.ltb_spec j (j + S m)); [|lia]. cbn [andb]. rewrite Fa. reflexivity.
    + rewrite IH, Hrange. destruct (Nat.eqb_spec a j) as [->|Hd]; [|reflexivity].
      rewrite Nat.leb_refl. destruct (Nat.ltb_spec j (j + S m)); [|lia]. cbn [andb]. rewrite Fa. reflexivity.
Qed.

Definition qtype_of (t : etype) : qtype :=
  match t with ETrueConst => QTrueConst | EVarBasedConst => QVarBasedConst | EOde => QOde | ENla => QNla
             | EAlgebraic => QAlgebraic | EUnknown => QExternal end.

Lemma atype_neq_ext : forall t, t <> AExternal -> atype_eqb t AExternal = false.
Proof. intros t H. destruct t; try reflexivity. contradiction. Qed.

Lemma make_aeq_typed : forall s ivs es3 avs j p a0 rest,
  ie_type (gete es3 j) <> EUnknown -> ie_unknown (gete es3 j) = p :: rest ->
  lookup_avar avs p = Some a0 -> av_type a0 <> AExternal ->
  exists x, make_aeq s ivs es3 avs j = Some x /\ ae_pos x = j /\ ae_nla x = ie_nla (gete es3 j) /\
            ae_vars x = map av_var (filter_map (lookup_avar avs) (ie_unknown (gete es3 j))) /\
            ae_type x = qtype_of (ie_type (gete es3 j)).
Proof.
  intros s ivs es3 avs j p a0 rest Hty Hunk Hl Ha. unfold make_aeq.
  rewrite Hunk. cbn [filter_map]. rewrite Hl. cbn [forallb]. rewrite (atype_neq_ext _ Ha). cbn [andb].
  destruct (ie_type (gete es3 j)); try contradiction; eexists; (split; [reflexivity|]); cbn; auto.
Qed.

Lemma make_aeq_dummy : forall s ivs es3 avs j c a0,
  ie_type (gete es3 j) = EUnknown -> ie_unknown (gete es3 j) = [c] ->
  lookup_avar avs c = Some a0 -> av_type a0 <> AExternal -> make_aeq s ivs es3 avs j = None.
Proof.
  intros s ivs es3 avs j c a0 Hty Hunk Hl Ha. unfold make_aeq.
  rewrite Hunk. cbn [filter_map]. rewrite Hl. cbn [forallb]. rewrite (atype_neq_ext _ Ha). cbn [andb]. rewrite Hty. reflexivity.
Qed.

Lemma clean_deps_proj : forall pop x, ae_pos (clean_deps pop x) = ae_pos x /\ ae_type (clean_deps pop x) = ae_type x /\
  ae_vars (clean_deps pop x) = ae_vars x /\ ae_nla (clean_deps pop x) = ae_nla x.
Proof. intros. unfold clean_deps. cbn. auto. Qed.

Lemma eqs_of_app : forall es dum q,
  eqs_of (es ++ dum) q = eqs_of es q ++ filter (fun j => mem_nat q (ie_unknown (gete (es ++ dum) j))) (seq (length es) (length dum)).
Proof.
  intros es dum q. unfold eqs_of. rewrite app_length, seq_app, filter_app. cbn [plus]. f_equal.
  apply filter_ext_in'. intros j Hj. apply in_seq in Hj. unfold gete. rewrite app_nth1 by lia. reflexivity.
Qed.

Lemma eqs_of_owners : forall es q, map (gete es) (eqs_of es q) = owners es q.
Proof. intros. unfold eqs_of, owners, gete. apply (seq_filter_nth es dieq (fun e => mem_nat q (ie_unknown e))). Qed.

Lemma NoDup_filter_seq : forall (f : nat -> bool) a n, nodupb (filter f (seq a n)) = true.
Proof. intros. apply nodupb_NoDup. apply NoDup_filter. apply seq_NoDup. Qed.

Lemma map_single_inv : forall {A B} (f : A -> B) l y, map f l = [y] -> exists x, l = [x] /\ f x = y.
Proof. intros A B f l y H. destruct l as [|x [|z r]]; cbn in H; try discriminate. inversion H. eauto. Qed.

Lemma package_definers : forall s ty voi ivs es,
  fin_inv ivs (map core es) -> Forall nlaok es -> Forall (fun v => iv_external v = false) ivs ->
  wf_definers_weak (package s ty voi ivs es) = true.
Proof.
  intros s ty voi ivs es [Ft Fa Fe] Hok Hne. unfold wf_definers_weak, package, all_avars. cbn [r_states r_vars].
  set (consts := filter (fun p => vtype_eqb (iv_type (geti ivs p)) VConstant) (seq 0 (length ivs))).
  set (dum := map (new_var_eq ivs) consts).
  set (es3 := es ++ dum).
  set (avs := make_avars es3 ivs 0 0 0).
  set (F := make_aeq s ivs es3 avs).
  set (pop := map ae_pos (filter_map F (seq 0 (length es3)))).
  set (r := mkResult ty [] voi _ _ _ _).
  (* the API variable of an internal variable *)
  assert (Hat : forall q, q < length ivs -> forall t, atype_of (geti ivs q) = Some t -> t <> AExternal /\
            exists a, lookup_avar avs q = Some a /\ av_type a = t /\ av_var a = iv_var (geti ivs q) /\ av_eqs a = eqs_of es3 q).
  { intros q Hq t Ht. split.
    - unfold atype_of in Ht. rewrite (noext_geti _ q Hne) in Ht. destruct (iv_type (geti ivs q)); inversion Ht; discriminate.
    - destruct (make_avars_lookup es3 ivs 0 0 0 q t) as (a & A1 & _ & A3 & A4 & A5); [lia|lia|rewrite Nat.sub_0_r; exact Ht|].
      rewrite Nat.sub_0_r in A4. exists a. auto. }
  assert (Hcomp : forall q, q < length ivs -> computed_type (iv_type (geti ivs q)) = true -> exists t, atype_of (geti ivs q) = Some t).
  { intros q Hq Hc. unfold atype_of. rewrite (noext_geti _ q Hne). destruct (iv_type (geti ivs q)); cbn in Hc; try discriminate; eauto. }
  (* the equations of the model *)
  assert (HF : forall j, j < length es -> exists x, F j = Some x /\ ae_pos x = j /\ ae_nla x = ie_nla (gete es j) /\
            ae_vars x = map av_var (filter_map (lookup_avar avs) (ie_unknown (gete es j))) /\ ae_type x = qtype_of (ie_type (gete es j))).
  { intros j Hj. assert (Hg : gete es3 j = gete es j) by (unfold gete, es3; apply app_nth1; exact Hj).
    assert (Hin : In (core (gete es j)) (map core es)) by (apply in_map; apply nth_In; exact Hj).
    destruct (Fe _ Hin) as (E1 & E2 & E3). cbn [core fst snd] in E1, E2, E3.
    destruct (ie_unknown (gete es j)) as [|p rest] eqn:Eu; [contradiction|].
    destruct (E3 p (or_introl eq_refl)) as (P1 & P2). destruct (Hcomp p P1 P2) as (t & Ht).
    destruct (Hat p P1 t Ht) as (Hx & a0 & L0 & T0 & _).
    unfold F. destruct (make_aeq_typed s ivs es3 avs j p a0 rest) as (x & X1 & X2 & X3 & X4 & X5); try (rewrite Hg; assumption); try assumption.
    { rewrite T0. exact Hx. }
    exists x. rewrite Hg, Eu in *. auto. }
  assert (Hdum : forall j, length es <= j -> j < length es3 -> F j = None /\ exists c, ie_unknown (gete es3 j) = [c] /\ iv_type (geti ivs c) = VConstant).
  { intros j H1 H2. unfold es3 in H2. rewrite app_length in H2.
    assert (Hg : gete es3 j = nth (j - length es) dum dieq) by (unfold gete, es3; apply app_nth2; lia).
    assert (Hin : In (nth (j - length es) dum dieq) dum) by (apply nth_In; lia).
    unfold dum in Hin. apply in_map_iff in Hin. destruct Hin as (c & Hc1 & Hc2).
    unfold consts in Hc2. apply filter_In in Hc2. destruct Hc2 as (Hc2 & Hc3). apply in_seq in Hc2. apply vtype_eqb_eq in Hc3.
    assert (Ht : atype_of (geti ivs c) = Some AConstant) by (unfold atype_of; rewrite (noext_geti _ c Hne), Hc3; reflexivity).
    destruct (Hat c (proj2 Hc2) _ Ht) as (_ & a0 & L0 & T0 & _).
    assert (Hg' : gete es3 j = new_var_eq ivs c) by (rewrite Hg; unfold dum; symmetry; exact Hc1).
    split; [|exists c; rewrite Hg'; split; [reflexivity|exact Hc3]].
    unfold F. eapply (make_aeq_dummy s ivs es3 avs j c a0); [rewrite Hg'; reflexivity|rewrite Hg'; reflexivity|exact L0|rewrite T0; discriminate]. }
  assert (Hfind : forall j, find_aeq r j = if j <? length es3 then option_map (clean_deps pop) (F j) else None).
  { intro j. unfold find_aeq, r. cbn [r_eqs].
    rewrite (find_pos_seq F (clean_deps pop)); [reflexivity| |intro x; apply clean_deps_proj].
    intros k x Hk. unfold F, make_aeq in Hk.
    destruct (if forallb _ _ then Some QExternal else _); inversion Hk; reflexivity. }
  rewrite <- map_app. rewrite forallb_forall. intros a Ha. apply in_map_iff in Ha. destruct Ha as ([q a'] & Ha1 & Ha2). cbn in Ha1. subst a'.
  assert (Hin : In (q, a) avs).
  { apply in_app_iff in Ha2. destruct Ha2 as [K|K]; apply filter_In in K; apply K. }
  destruct (make_avars_In _ _ _ _ _ _ _ Hin) as (_ & Hq & Hty & Hvar & Heqs). rewrite Nat.sub_0_r in Hty, Hvar. cbn in Hq.
  fold (geti ivs q) in Hty, Hvar.
  specialize (Fa q Hq). unfold fin_at in Fa.
  (* the equations listing q, among the dummy ones *)
  assert (Hdumq : forall j, In j (filter (fun j => mem_nat q (ie_unknown (gete es3 j))) (seq (length es) (length dum))) ->
            iv_type (geti ivs q) = VConstant /\ find_aeq r j = None).
  { intros j Hj. apply filter_In in Hj. destruct Hj as (Hj1 & Hj2). apply in_seq in Hj1.
    assert (Hj3 : j < length es3) by (unfold es3; rewrite app_length; lia).
    destruct (Hdum j (proj1 Hj1) Hj3) as (D1 & c & D2 & D3). rewrite D2, mem_nat_single in Hj2. apply Nat.eqb_eq in Hj2. subst c.
    split; [exact D3|]. rewrite Hfind. destruct (Nat.ltb_spec j (length es3)); [rewrite D1; reflexivity|reflexivity]. }
  assert (Hfind_es : forall j, j < length es -> exists x, find_aeq r j = Some x /\ ae_nla x = ie_nla (gete es j) /\
            ae_vars x = map av_var (filter_map (lookup_avar avs) (ie_unknown (gete es j))) /\ ae_type x = qtype_of (ie_type (gete es j))).
  { intros j Hj. destruct (HF j Hj) as (x & X1 & X2 & X3 & X4 & X5). exists (clean_deps pop x).
    destruct (clean_deps_proj pop x) as (C1 & C2 & C3 & C4). rewrite Hfind, C2, C3, C4.
    assert (Hj3 : j < length es3) by (unfold es3; rewrite app_length; lia).
    destruct (Nat.ltb_spec j (length es3)); [|lia]. rewrite X1. auto. }
  set (Jd := filter (fun j => mem_nat q (ie_unknown (gete es3 j))) (seq (length es) (length dum))) in *.
  assert (Hsplit : eqs_of es3 q = eqs_of es q ++ Jd) by (unfold es3, Jd; apply eqs_of_app).
  unfold wf_definer_weak_of. rewrite Heqs, Hsplit.
  assert (Hcownq : cown (map core es) q = map core (map (gete es) (eqs_of es q))) by (rewrite eqs_of_owners; apply cown_owners).
  assert (Hpos : forall j, In j (eqs_of es q) -> j < length es /\ mem_nat q (ie_unknown (gete es j)) = true).
  { intros j Hj. unfold eqs_of in Hj. apply filter_In in Hj. destruct Hj as (K1 & K2). apply in_seq in K1. split; [lia|exact K2]. }
  assert (Hself : exists aq, lookup_avar avs q = Some aq /\ av_var aq = av_var a).
  { destruct (Hat q Hq _ Hty) as (_ & aq & L1 & _ & L3 & _). exists aq. split; [exact L1|congruence]. }
  destruct Hself as (aq & Laq & Vaq).
  assert (Hmemv : forall j, j < length es -> mem_nat q (ie_unknown (gete es j)) = true ->
            forall x, ae_vars x = map av_var (filter_map (lookup_avar avs) (ie_unknown (gete es j))) -> mem_vref (av_var a) (ae_vars x) = true).
  { intros j Hj Hm x Hx. rewrite Hx. apply mem_nat_In in Hm. unfold mem_vref. apply existsb_exists. exists (av_var aq).
    split; [|rewrite Vaq; unfold vref_eqb; rewrite !Nat.eqb_refl; reflexivity].
    apply in_map. clear - Hm Laq. induction (ie_unknown (gete es j)) as [|u r IH]; [destruct Hm|].
    cbn [filter_map]. destruct Hm as [->|Hm]; [rewrite Laq; left; reflexivity|].
    destruct (lookup_avar avs u); [right|]; apply IH; exact Hm. }
  assert (Hfm_app : forall l1 l2, filter_map (find_aeq r) (l1 ++ l2) = filter_map (find_aeq r) l1 ++ filter_map (find_aeq r) l2).
  { induction l1 as [|z l1 IH1]; intro l2; cbn [app filter_map]; [reflexivity|]. destruct (find_aeq r z); rewrite IH1; reflexivity. }
  assert (HJd0 : filter_map (find_aeq r) Jd = []).
  { clear - Hdumq. induction Jd as [|z l IH]; [reflexivity|]. cbn [filter_map].
    rewrite (proj2 (Hdumq z (or_introl eq_refl))). apply IH. intros j Hj. apply Hdumq. right. exact Hj. }
  assert (HJdnil : iv_type (geti ivs q) <> VConstant -> Jd = []).
  { intro K. destruct Jd as [|z l] eqn:EJ; [reflexivity|]. exfalso. apply K. apply (Hdumq z). left. reflexivity. }
  rewrite Hfm_app, HJd0, app_nil_r.
  (* a variable with exactly one equation *)
  assert (Hdirect : forall et, cown (map core es) q = [(et, [q])] -> agree (iv_type (geti ivs q)) et = true ->
            iv_type (geti ivs q) <> VConstant -> av_type a <> AConstant -> av_type a <> AExternal ->
            (et <> ENla -> direct_types_agree (av_type a) (qtype_of et) = true) ->
            (let eqs := filter_map (find_aeq r) (eqs_of es q) in
             match av_type a with
             | AConstant => match eqs with [] => true | _ => false end
             | AExternal => true
             | _ => (length eqs =? length (eqs_of es q ++ Jd)) && nodupb (eqs_of es q ++ Jd) &&
                    match eqs with
                    | [] => false
                    | e :: rest => if q_nla e then forallb (fun x => q_nla x && mem_vref (av_var a) (ae_vars x)) eqs && match ae_nla e with Some _ => true | None => false end
                                   else match rest with [] => direct_types_agree (av_type a) (ae_type e) && match ae_vars e with [v] => vref_eqb v (av_var a) | _ => false end | _ => false end
                    end
             end) = true).
  { intros et Hc Hag Hnc Hna1 Hna2 Hdt. rewrite (HJdnil Hnc), app_nil_r.
    rewrite Hcownq in Hc. apply map_single_inv in Hc. destruct Hc as (e0 & He0 & Hce0).
    apply map_single_inv in He0. destruct He0 as (j0 & Hj0 & Hge).
    assert (Hj0in : In j0 (eqs_of es q)) by (rewrite Hj0; left; reflexivity).
    destruct (Hpos j0 Hj0in) as (Hjl & Hjm).
    destruct (Hfind_es j0 Hjl) as (x & X1 & X2 & X3 & X4).
    rewrite Hge in X2, X3, X4. unfold core in Hce0. inversion Hce0 as [[Ht0 Hu0]]. rewrite Hu0 in X3. rewrite Ht0 in X4.
    cbn [filter_map] in X3. rewrite Laq in X3. cbn [map] in X3.
    rewrite Hj0. cbn [filter_map]. rewrite X1. cbv zeta. cbn [length Nat.eqb nodupb mem_nat existsb negb andb].
    assert (Hqn : q_nla x = is_nla e0).
    { unfold q_nla, is_nla. rewrite X4, Ht0. destruct et; reflexivity. }
    assert (Hbody : (if q_nla x then forallb (fun x0 => q_nla x0 && mem_vref (av_var a) (ae_vars x0)) [x] && match ae_nla x with Some _ => true | None => false end
                     else direct_types_agree (av_type a) (ae_type x) && match ae_vars x with [v] => vref_eqb v (av_var a) | _ => false end) = true).
    { destruct (q_nla x) eqn:Eq.
      - cbn [forallb]. rewrite Eq, X3. cbn [mem_vref existsb]. rewrite Vaq. unfold vref_eqb. rewrite !Nat.eqb_refl. cbn [andb orb].
        rewrite X2. rewrite Forall_forall in Hok. assert (Hin0 : In e0 es) by (rewrite <- Hge; apply nth_In; exact Hjl).
        specialize (Hok e0 Hin0). symmetry in Hqn. specialize (Hok Hqn). destruct (ie_nla e0); [reflexivity|contradiction].
      - rewrite X4, X3, Vaq. unfold vref_eqb. rewrite !Nat.eqb_refl. cbn [andb]. rewrite andb_true_r. apply Hdt.
        intro K. unfold is_nla in Hqn. rewrite Ht0, K in Hqn. discriminate. }
    destruct (av_type a); try contradiction; exact Hbody. }
  assert (Hav : av_type a = match iv_type (geti ivs q) with
                            | VState => AState | VConstant => AConstant | VCompTrue | VCompVarBased => ACompConst
                            | VAlgebraic | VInitAlgebraic => AAlgebraic | _ => AExternal end /\ computed_type (iv_type (geti ivs q)) = true
                \/ iv_type (geti ivs q) = VConstant /\ av_type a = AConstant).
  { unfold atype_of in Hty. rewrite (noext_geti _ q Hne) in Hty. destruct (iv_type (geti ivs q)); inversion Hty; auto. }
  destruct Hav as [(Hav & Hct)|(Htc & Hav)].
  - destruct (iv_type (geti ivs q)) eqn:Tq; cbn in Hct; try discriminate.
    + destruct Fa as (et & Fc & Fg). apply (Hdirect et Fc Fg); try discriminate; try (rewrite Hav; discriminate).
      intros Hn. rewrite Hav. destruct et; cbn in Fg; try discriminate; try reflexivity. contradiction.
    + destruct Fa as (et & Fc & Fg). apply (Hdirect et Fc Fg); try discriminate; try (rewrite Hav; discriminate).
      intros Hn. rewrite Hav. destruct et; cbn in Fg; try discriminate; try reflexivity. contradiction.
    + destruct Fa as (et & Fc & Fg). apply (Hdirect et Fc Fg); try discriminate; try (rewrite Hav; discriminate).
      intros Hn. rewrite Hav. destruct et; cbn in Fg; try discriminate; try reflexivity. contradiction.
    + (* NLA unknown with an initial guess *)
      destruct Fa as (Fne & Fall). rewrite (HJdnil ltac:(discriminate)), app_nil_r. rewrite Hav. cbv zeta.
      assert (Hall : forall l, (forall j, In j l -> In j (eqs_of es q)) ->
                exists xs, filter_map (find_aeq r) l = xs /\ length xs = length l /\
                           Forall (fun x => q_nla x = true /\ mem_vref (av_var a) (ae_vars x) = true /\ ae_nla x <> None) xs).
      { induction l as [|j l IHl]; intro Hsub; [exists []; repeat split; constructor|].
        destruct (IHl (fun z Hz => Hsub z (or_intror Hz))) as (xs & Xs1 & Xs2 & Xs3).
        destruct (Hpos j (Hsub j (or_introl eq_refl))) as (Hjl & Hjm).
        destruct (Hfind_es j Hjl) as (x & X1 & X2 & X3 & X4).
        exists (x :: xs). cbn [filter_map]. rewrite X1, Xs1. split; [reflexivity|]. split; [cbn; congruence|].
        constructor; [|exact Xs3].
        assert (Hnla : ie_type (gete es j) = ENla).
        { apply (Fall (core (gete es j))). rewrite Hcownq. apply in_map. apply in_map. apply Hsub. left. reflexivity. }
        split; [unfold q_nla; rewrite X4, Hnla; reflexivity|]. split; [eapply Hmemv; eassumption|].
        rewrite X2. rewrite Forall_forall in Hok. apply (Hok (gete es j)); [apply nth_In; exact Hjl|]. unfold is_nla. rewrite Hnla. reflexivity. }
      destruct (Hall (eqs_of es q) (fun z Hz => Hz)) as (xs & Xs1 & Xs2 & Xs3). rewrite Xs1, Xs2, Nat.eqb_refl.
      unfold eqs_of at 1. rewrite NoDup_filter_seq. cbn [andb].
      destruct xs as [|x0 xr].
      { exfalso. apply Fne. rewrite Hcownq. destruct (eqs_of es q); [reflexivity|discriminate]. }
      inversion Xs3 as [|? ? (Q1 & Q2 & Q3) Xr]; subst. rewrite Q1.
      apply andb_true_iff. split; [|destruct (ae_nla x0); [reflexivity|contradiction]].
      rewrite forallb_forall. intros z Hz. rewrite Forall_forall in Xs3. destruct (Xs3 z Hz) as (Z1 & Z2 & _). rewrite Z1, Z2. reflexivity.
    + destruct Fa as (et & Fc & Fg). apply (Hdirect et Fc Fg); try discriminate; try (rewrite Hav; discriminate).
      intros Hn. rewrite Hav. destruct et; cbn in Fg; try discriminate; try reflexivity. contradiction.
  - (* a constant: only its dummy equation, which is never populated *)
    rewrite Htc in Fa. rewrite Hav. cbv zeta.
    assert (He : eqs_of es q = []).
    { destruct (eqs_of es q) as [|j l] eqn:Ej; [reflexivity|]. exfalso. rewrite Hcownq in Fa. discriminate. }
    rewrite He. reflexivity.
Qed.

(* ------------------------------------------------------------------ the theorem *)

Definition loop_state (s : system) : option (cstate * list ieq) :=
  match build s with
  | Some (ivs0, es0) => loop s (loop_fuel es0) 1 false (mkCs (vs_ivs (analyse_asts s ivs0 es0)) 0 0) es0
  | None => None
  end.

(* excludes the finding C05-state-without-equation: when the loop stops every state has received its index, i.e.
   its ODE was found (an equation in which two states are still without index is never typed, and no issue is raised) *)
Definition states_have_odes (s : system) : Prop :=
  forall st es, loop_state s = Some (st, es) ->
  forall p, iv_type (geti (cs_ivs st) p) = VState -> has_index (geti (cs_ivs st) p) = true.

Lemma finish_definers : forall s voi ivs es vidx,
  own_inv ivs es -> nonempty_inv ivs es -> noconst ivs -> Forall (fun v => iv_external v = false) ivs ->
  (forall p, iv_type (geti ivs p) = VState -> has_index (geti ivs p) = true) ->
  valid_type (r_type (finish s voi ivs es vidx)) = true -> wf_definers_weak (finish s voi ivs es vidx) = true.
Proof.
  intros s voi ivs es vidx Hown Hn Hnc Hne Hst Hvalid. unfold finish in *.
  destruct (validate_vars ivs vidx) as [[ivs1 vidx1] iss1] eqn:Ev.
  destruct iss1 as [|i1 ir1].
  2:{ cbn in Hvalid. destruct (existsb _ ivs1); [destruct (existsb _ ivs1)|]; discriminate. }
  destruct (fold_left requalify_step (nla_group ivs1 es) (ivs1, [], [], [])) as [[[ivs2 es2] ov] iss2] eqn:Er.
  destruct iss2 as [|i2 ir2]; [|discriminate].
  destruct (finish_state s _ _ _ _ _ _ _ _ Hown Hn Hnc Hne Hst Ev Er) as (F & O & _ & Hne2).
  destruct (model_type voi ivs2 es2); try discriminate; apply package_definers; assumption.
Qed.

Theorem result_wf_definers_weak : forall s r,
  analyse s = Done r -> valid_type (r_type r) = true -> states_have_odes s -> wf_definers_weak r = true.
Proof.
  intros s r H Hvalid Hso. unfold analyse, analyse_ext in H.
  destruct (negb (resolvable s)); [discriminate|].
  destruct (build s) as [[ivs0 es0]|] eqn:Eb; [|discriminate].
  destruct (check_inits s ivs0 0 s); [|inversion H; subst; discriminate].
  cbn [fold_left] in H.
  destruct (vs_issues (analyse_asts s ivs0 es0)) eqn:Ei; [|inversion H; subst; discriminate].
  destruct (loop s (loop_fuel es0) 1 false (mkCs (vs_ivs (analyse_asts s ivs0 es0)) 0 0) es0) as [[st es1]|] eqn:El; [|discriminate].
  inversion H; subst r. clear H.
  destruct (own_inv_initial _ _ _ Eb) as (H0 & Hlen).
  destruct (build_spec _ _ _ Eb) as (B1 & B2 & B3). pose proof (build_fresh _ _ _ Eb) as B4.
  destruct (analyse_asts_inv s ivs0 es0 B1 B3 B4 B2 Ei) as ((_ & _ & _ & _ & Hne) & _).
  assert (HA : Forall asts_iv ivs0).
  { eapply Forall_impl; [|exact B4]. intros v ([T|T] & _ & I); split; try exact I; rewrite T; reflexivity. }
  assert (Hpos : forall e d, In e es0 -> In d (ie_diffs e) -> ivar_of s ivs0 (snd d) < length ivs0).
  { intros e d He Hd. rewrite Forall_forall in B2. destruct (B2 e He) as (D & _). rewrite Forall_forall in D.
    destruct (D d Hd) as (_ & R). apply ivar_of_spec; [exact B1|]. apply B3; [exact R|]. apply in_range_comp in R. apply R. }
  destruct (analyse_asts_types s ivs0 es0 HA Hpos) as (T1 & _ & _).
  set (ivs := vs_ivs (analyse_asts s ivs0 es0)) in *.
  assert (Htypes : forall q, asts_type (iv_type (geti ivs q)) = true).
  { intro q. apply (Forall_geti (fun v => asts_type (iv_type v) = true)); [|reflexivity].
    eapply Forall_impl; [|exact T1]. intros v (A & _). exact A. }
  assert (Hn0 : nonempty_inv ivs es0).
  { intros p _ K. specialize (Htypes p). rewrite K in Htypes. discriminate. }
  assert (Hc0 : noconst ivs).
  { intros q K. specialize (Htypes q). rewrite K in Htypes. discriminate. }
  pose proof (loop_own _ _ _ _ _ _ _ _ El Hne H0) as Hown.
  pose proof (loop_nonempty _ _ _ _ _ _ _ _ El Hne H0 Hn0) as Hn1.
  pose proof (loop_noconst _ _ _ _ _ _ _ _ El (oi_bounds _ _ H0) Hc0) as Hc1.
  destruct (loop_inv _ _ _ _ _ _ _ _ El (oi_bounds _ _ H0)) as (Hev & _).
  pose proof (noext_evolves _ _ _ Hev Hne) as Hne1. cbn [cs_ivs] in *.
  apply finish_definers; try assumption.
  apply (Hso st es1). unfold loop_state. rewrite Eb. exact El.
Qed.

(** Result-level W3: with the two hypotheses that exclude the open findings C05-state-without-equation and
    C05-nla-system-split, every state and every computed variable of a valid result is computed by exactly one
    equation (which computes nothing else and has the matching type) or by the equations of exactly one NLA system. *)
Theorem result_wf_definers : forall s r,
  analyse s = Done r -> valid_type (r_type r) = true ->
  states_have_odes s -> nla_index_consistent r = true -> wf_definers r = true.
Proof.
  intros s r H Hv Hs Hc. apply wf_definers_split; [eapply result_wf_definers_weak; eassumption|exact Hc].
Qed.
