(** AnalysisDepProofs.v — clause W4 of C05 with the repair fixes/C05-dependency-retarget.diff (dependency_fix = true):
    each equation depends on exactly the equations computing the variables it reads. *)
From Coq Require Import List Bool Arith PeanoNat Lia Permutation.
From LC Require Import AnalysisDefs AnalysisSpec AnalysisProofs AnalysisWfProofs AnalysisOwnProofs AnalysisConfluenceProofs AnalysisDefinerProofs.
Import ListNotations.
Local Open Scope bool_scope.

(* ------------------------------------------------------------------ what check() does to mVariables / mDependencies *)

Definition deps1 (ivs : list ivar) (e : ieq) : list vref :=
  ie_deps e ++ map (fun i => iv_var (geti ivs i)) (filter (is_known ivs) (ie_vars e)).

Lemma check_deps : forall s nla st e st' e' b,
  check s nla st e = (st', e', b) -> ie_type e = EUnknown -> eq_inv (cs_ivs st) e ->
  ie_id e' = ie_id e /\ ie_vars e' = filter (nk (cs_ivs st)) (ie_vars e) /\
  (ie_type e' = EUnknown -> ie_deps e' = deps1 (cs_ivs st) e) /\
  (ie_type e' <> EUnknown ->
     ie_deps e' = fold_left (fun d p => dep_remove dependency_fix s (geti (cs_ivs st') p) d) (ie_unknown e') (deps1 (cs_ivs st) e) /\
     forall p, In p (ie_vars e') -> In p (ie_unknown e')).
Proof.
  intros s nla st e st' e' b H Hty Hinv. unfold check in H.
  rewrite Hty in H. cbn [etype_eqb negb] in H. cbv zeta in H. destruct Hinv as (I1 & I2 & I3 & _).
  set (ivs := cs_ivs st) in *.
  change (filter (fun i => negb (is_known ivs i)) (ie_vars e)) with (filter (nk ivs) (ie_vars e)) in H.
  set (vars := filter (nk ivs) (ie_vars e)) in *.
  set (odes := filter (fun i => negb (is_known_ode ivs i)) (ie_odes e)) in *.
  fold (deps1 ivs e) in H.
  match type of H with (if ?c then _ else _) = _ => destruct c eqn:C1 end.
  { inversion H; subst. cbn. split; [reflexivity|]. split; [reflexivity|]. split; [reflexivity|]. intro K. contradiction. }
  match type of H with (if ?c then _ else _) = _ => destruct c eqn:C2 end.
  { inversion H; subst. cbn. split; [reflexivity|]. split; [reflexivity|]. split; [reflexivity|]. intro K. contradiction. }
  match type of H with context [type_variables ?a ?b ?c ?d ?e0 ?f ?g] =>
    destruct (type_variables a b c d e0 f g) as [[st2 unk] ok] eqn:TV end.
  destruct ok; cbn [negb] in H.
  2:{ inversion H; subst. cbn. split; [reflexivity|]. split; [reflexivity|]. split; [reflexivity|]. intro K. contradiction. }
  inversion H; subst st' e' b. cbn [ie_id ie_vars ie_type ie_deps ie_unknown cs_ivs].
  split; [reflexivity|]. split; [reflexivity|]. split.
  - intro K. exfalso. revert K.
    match goal with |- match ?lv with _ => _ end = _ -> _ => destruct lv end; [|discriminate].
    match goal with |- (if ?c then _ else _) = _ -> _ => destruct c end; [discriminate|].
    match goal with |- match ?t with _ => _ end = _ -> _ => destruct t end; discriminate.
  - intros _. split; [reflexivity|].
    apply type_variables_spec in TV.
    + destruct TV as (_ & _ & _ & T4). intros p Hp. apply (T4 eq_refl).
      destruct vars as [|v0 vr]; [destruct Hp|exact Hp].
    + cbn [cs_ivs]. match goal with |- Forall _ ?l => assert (Hsub : forall x, In x l -> In x (ie_vars e) \/ In x (ie_odes e) \/ In x (ie_all e)) end.
      { intros x Hx. destruct vars as [|v0 vr] eqn:Ev.
        - destruct odes as [|o0 orr] eqn:Eo.
          + right. right. match type of Hx with In x (if ?c then _ else _) => destruct c end; [apply filter_In in Hx; apply Hx|destruct Hx].
          + right. left. assert (K : In x odes) by (rewrite Eo; exact Hx). unfold odes in K. apply filter_In in K. apply K.
        - left. assert (K : In x vars) by (rewrite Ev; exact Hx). unfold vars in K. apply filter_In in K. apply K. }
      rewrite Forall_forall. intros x Hx.
      assert (Hl : length (if nla && (length vars + length odes =? 0) then fold_left (fun l i => if is_initialised_kind (iv_type (geti l i)) then upd l i (set_type (geti l i) VInitAlgebraic) else l) (ie_all e) ivs else ivs) = length ivs).
      { destruct (nla && _); [apply (init_fold_evolves s)|reflexivity]. }
      rewrite Hl. rewrite Forall_forall in I1, I2, I3. destruct (Hsub x Hx) as [K|[K|K]]; auto.
Qed.

(* ------------------------------------------------------------------ the invariant on mDependencies *)

Definition dcls (s : system) (l : list vref) : list nat := map (cls_of s) l.

Record dep_inv (s : system) (ivs : list ivar) (e0 e : ieq) : Prop := {
  di_nodup : NoDup (ie_vars e);
  di_incl : incl (ie_vars e) (ie_vars e0);
  di_dnodup : NoDup (dcls s (ie_deps e));
  di_cover : forall p, In p (ie_vars e0) ->
               In p (ie_vars e) \/ In p (ie_unknown e) \/ In (iv_cls (geti ivs p)) (dcls s (ie_deps e));
  di_sound : forall d, In d (ie_deps e) -> exists p, In p (ie_vars e0) /\ ~ In p (ie_vars e) /\ cls_of s d = iv_cls (geti ivs p);
  di_own : ie_type e <> EUnknown -> forall d u, In d (ie_deps e) -> In u (ie_unknown e) -> cls_of s d <> iv_cls (geti ivs u);
  di_vu : ie_type e <> EUnknown -> incl (ie_vars e) (ie_unknown e);
  di_id : ie_id e = ie_id e0 }.

Lemma filter_id_in : forall {A} (f : A -> bool) l, (forall x, In x l -> f x = true) -> filter f l = l.
Proof.
  intros A f l H. induction l as [|x r IH]; cbn; [reflexivity|]. rewrite (H x (or_introl eq_refl)), IH; [reflexivity|].
  intros y Hy. apply H. right. exact Hy.
Qed.

Lemma remove_first_cls_filter : forall s k l, NoDup (dcls s l) ->
  remove_first_cls s k l = filter (fun d => negb (cls_of s d =? k)) l.
Proof.
  intros s k l. unfold dcls, cls_of. induction l as [|x r IH]; intro Hn; cbn [remove_first_cls filter map] in *; [reflexivity|].
  inversion Hn; subst.
  destruct (v_cls (get_var s x) =? k) eqn:E; cbn [negb].
  - apply Nat.eqb_eq in E. symmetry. apply filter_id_in. intros y Hy. apply negb_true_iff. apply Nat.eqb_neq. intro K.
    apply H1. rewrite E, <- K. apply (in_map (fun r0 => v_cls (get_var s r0))). exact Hy.
  - rewrite IH by assumption. reflexivity.
Qed.

Lemma NoDup_filter_map : forall {A} (g : A -> nat) (f : A -> bool) l, NoDup (map g l) -> NoDup (map g (filter f l)).
Proof. intros. apply NoDup_map_filter. assumption. Qed.

Lemma filter_filter_comm : forall {A} (f g : A -> bool) l, filter f (filter g l) = filter (fun x => g x && f x) l.
Proof. intros A f g l. induction l as [|x r IH]; cbn; [reflexivity|]. destruct (g x); cbn; [destruct (f x)|]; rewrite IH; reflexivity. Qed.

Lemma fold_remove_filter : forall s (ivs : list ivar) unk l, dependency_fix = true -> NoDup (dcls s l) ->
  fold_left (fun d p => dep_remove dependency_fix s (geti ivs p) d) unk l =
  filter (fun d => negb (existsb (fun p => cls_of s d =? iv_cls (geti ivs p)) unk)) l.
Proof.
  intros s ivs unk. induction unk as [|u r IH]; intros l Hfx Hn; cbn [fold_left existsb].
  - symmetry. apply filter_id_in. reflexivity.
  - unfold dep_remove at 2. rewrite Hfx. rewrite remove_first_cls_filter by exact Hn.
    rewrite IH; [|exact Hfx|apply NoDup_filter_map; exact Hn].
    rewrite filter_filter_comm. apply filter_ext_in'. intros d _. rewrite negb_orb. reflexivity.
Qed.

Lemma NoDup_app_intro : forall {A} (a b : list A), NoDup a -> NoDup b -> (forall x, In x a -> In x b -> False) -> NoDup (a ++ b).
Proof.
  intros A a b Ha Hb H. induction Ha as [|x r Hx Hr IH]; cbn; [exact Hb|].
  constructor.
  - rewrite in_app_iff. intros [K|K]; [contradiction|]. apply (H x); [left; reflexivity|exact K].
  - apply IH. intros y Hy1 Hy2. apply (H y); [right; exact Hy1|exact Hy2].
Qed.

Lemma existsb_ext2 : forall {A} (p q : A -> bool) l, (forall x, p x = q x) -> existsb p l = existsb q l.
Proof. intros A p q l H. induction l as [|x r IH]; cbn; [reflexivity|]. rewrite H, IH. reflexivity. Qed.

Lemma cls_stable : forall s a b p, evolves s a b -> iv_cls (geti b p) = iv_cls (geti a p).
Proof.
  intros s a b p H. pose proof (evolves_classes _ _ _ H) as Hc. unfold geti.
  rewrite <- (map_nth iv_cls b divar p), <- (map_nth iv_cls a divar p), Hc. reflexivity.
Qed.

Lemma cls_inj : forall s ivs p u, ivs_ok s ivs -> p < length ivs -> u < length ivs -> iv_cls (geti ivs p) = iv_cls (geti ivs u) -> p = u.
Proof.
  intros s ivs p u (Hn & _) Hp Hu H. unfold geti in H.
  rewrite <- (map_nth iv_cls ivs divar p), <- (map_nth iv_cls ivs divar u) in H.
  apply (proj1 (NoDup_nth (map iv_cls ivs) (iv_cls divar)) Hn); rewrite ?map_length; assumption.
Qed.

Lemma check_dep_inv : forall s nla st e0 e st' e' b,
  check s nla st e = (st', e', b) -> dependency_fix = true ->
  ivs_ok s (cs_ivs st) -> eq_inv (cs_ivs st) e -> Forall (fun p => p < length (cs_ivs st)) (ie_vars e0) ->
  (ie_type e = EUnknown -> ie_unknown e = []) ->
  dep_inv s (cs_ivs st) e0 e -> dep_inv s (cs_ivs st') e0 e'.
Proof.
  intros s nla st e0 e st' e' b H Hfx Hok He Hb0 Hu0 [Dn Di Dd Dc Ds Do Dv Did].
  destruct (check_inv _ _ _ _ _ _ _ H He) as (Hev & He').
  assert (Hcl : forall p, iv_cls (geti (cs_ivs st') p) = iv_cls (geti (cs_ivs st) p)) by (intro p; eapply cls_stable; exact Hev).
  destruct (etype_eqb (ie_type e) EUnknown) eqn:Et.
  2:{ unfold check in H. rewrite Et in H. cbn [negb] in H. inversion H; subst. constructor; assumption. }
  apply etype_eqb_eq in Et. specialize (Hu0 Et).
  destruct (check_deps _ _ _ _ _ _ _ H Et He) as (Cid & Cv & Cu & Ct).
  set (ivs := cs_ivs st) in *. rewrite Forall_forall in Hb0.
  assert (Hbv : forall p, In p (ie_vars e) -> p < length ivs) by (intros p Hp; apply Hb0; apply Di; exact Hp).
  assert (Hvcls : forall i, i < length ivs -> cls_of s (iv_var (geti ivs i)) = iv_cls (geti ivs i)).
  { intros i Hi. destruct (ivs_ok_geti _ _ _ Hok Hi) as (_ & K & _). exact K. }
  (* the state of the bookkeeping before the removal of the equation's own unknowns *)
  assert (Hd1n : NoDup (dcls s (deps1 ivs e))).
  { unfold deps1, dcls. rewrite map_app, map_map. apply NoDup_app_intro.
    - exact Dd.
    - rewrite (map_ext_in _ (fun i => iv_cls (geti ivs i))).
      + apply NoDup_filter_map. clear - Dn Hok Hbv. induction (ie_vars e) as [|x r IH]; [constructor|].
        inversion Dn; subst. cbn [map]. constructor; [|apply IH; [assumption|intros p Hp; apply Hbv; right; exact Hp]].
        intro K. apply in_map_iff in K. destruct K as (y & Hy1 & Hy2). apply H1.
        assert (x = y); [|subst; exact Hy2]. symmetry. eapply cls_inj; [exact Hok|apply Hbv; right; exact Hy2|apply Hbv; left; reflexivity|exact Hy1].
      + intros i Hi. apply filter_In in Hi. apply Hvcls. apply Hbv. apply Hi.
    - intros k Hk1 Hk2. apply in_map_iff in Hk1. destruct Hk1 as (d & <- & Hd). destruct (Ds d Hd) as (p & P1 & P2 & P3).
      apply in_map_iff in Hk2. destruct Hk2 as (i & Hi1 & Hi2). apply filter_In in Hi2. destruct Hi2 as (Hi2 & _).
      rewrite Hvcls in Hi1 by (apply Hbv; exact Hi2). apply P2.
      assert (p = i); [|subst; exact Hi2]. eapply cls_inj; [exact Hok|apply Hb0; exact P1|apply Hbv; exact Hi2|congruence]. }
  assert (Hd1c : forall p, In p (ie_vars e0) -> In p (filter (nk ivs) (ie_vars e)) \/ In (iv_cls (geti ivs p)) (dcls s (deps1 ivs e))).
  { intros p Hp. destruct (Dc p Hp) as [K|[K|K]].
    - destruct (is_known ivs p) eqn:Ek.
      + right. unfold deps1, dcls. rewrite map_app, in_app_iff. right. rewrite map_map. apply in_map_iff. exists p.
        split; [apply Hvcls; apply Hbv; exact K|apply filter_In; split; assumption].
      + left. apply filter_In. split; [exact K|unfold nk; rewrite Ek; reflexivity].
    - rewrite Hu0 in K. destruct K.
    - right. unfold deps1, dcls. rewrite map_app, in_app_iff. left. exact K. }
  assert (Hd1s : forall d, In d (deps1 ivs e) -> exists p, In p (ie_vars e0) /\ ~ In p (filter (nk ivs) (ie_vars e)) /\ cls_of s d = iv_cls (geti ivs p)).
  { intros d Hd. unfold deps1 in Hd. apply in_app_iff in Hd. destruct Hd as [Hd|Hd].
    - destruct (Ds d Hd) as (p & P1 & P2 & P3). exists p. split; [exact P1|]. split; [|exact P3]. intro K. apply P2. apply filter_In in K. apply K.
    - apply in_map_iff in Hd. destruct Hd as (i & <- & Hi). apply filter_In in Hi. destruct Hi as (Hi1 & Hi2).
      exists i. split; [apply Di; exact Hi1|]. split; [|apply Hvcls; apply Hbv; exact Hi1].
      intro K. apply filter_In in K. destruct K as (_ & K). unfold nk in K. rewrite Hi2 in K. discriminate. }
  destruct (etype_eqb (ie_type e') EUnknown) eqn:Et'.
  - apply etype_eqb_eq in Et'. specialize (Cu Et').
    constructor.
    + rewrite Cv. apply NoDup_filter. exact Dn.
    + rewrite Cv. intros p Hp. apply Di. apply filter_In in Hp. apply Hp.
    + rewrite Cu. exact Hd1n.
    + intros p Hp. rewrite Cv, Cu, Hcl. destruct (Hd1c p Hp) as [K|K]; auto.
    + intros d Hd. rewrite Cu in Hd. destruct (Hd1s d Hd) as (p & P1 & P2 & P3). exists p. rewrite Cv, Hcl. auto.
    + intro K. contradiction.
    + intro K. contradiction.
    + congruence.
  - assert (Hty' : ie_type e' <> EUnknown) by (intro K; rewrite K in Et'; discriminate).
    destruct (Ct Hty') as (Cd & Cvu).
    rewrite (fold_remove_filter s (cs_ivs st') (ie_unknown e') (deps1 ivs e) Hfx Hd1n) in Cd.
    constructor.
    + rewrite Cv. apply NoDup_filter. exact Dn.
    + rewrite Cv. intros p Hp. apply Di. apply filter_In in Hp. apply Hp.
    + rewrite Cd. apply NoDup_filter_map. exact Hd1n.
    + intros p Hp. destruct (Hd1c p Hp) as [K|K]; [right; left; apply Cvu; rewrite Cv; exact K|].
      destruct (existsb (fun u => iv_cls (geti ivs p) =? iv_cls (geti (cs_ivs st') u)) (ie_unknown e')) eqn:Ex.
      * (* the class of p is the class of an unknown of the equation: p is that unknown *)
        apply existsb_exists in Ex. destruct Ex as (u & Hu & Eu). apply Nat.eqb_eq in Eu. rewrite Hcl in Eu.
        right. left. assert (p = u); [|subst; exact Hu].
        eapply cls_inj; [exact Hok|apply Hb0; exact Hp| |exact Eu].
        destruct He' as (_ & _ & _ & U4 & _). rewrite Forall_forall in U4. pose proof (idx_type_in_bounds _ _ (U4 u Hu)) as Hb.
        destruct Hev as (L & _). rewrite <- L. exact Hb.
      * right. right. rewrite Cd, Hcl. unfold dcls in *. apply in_map_iff in K. destruct K as (d & Hd1 & Hd2).
        apply in_map_iff. exists d. split; [exact Hd1|]. apply filter_In. split; [exact Hd2|].
        apply negb_true_iff. rewrite <- Ex. apply existsb_ext2. intro u. rewrite Hd1. reflexivity.
    + intros d Hd. rewrite Cd in Hd. apply filter_In in Hd. destruct Hd as (Hd & _).
      destruct (Hd1s d Hd) as (p & P1 & P2 & P3). exists p. rewrite Cv, Hcl. auto.
    + intros _ d u Hd Hu K. rewrite Cd in Hd. apply filter_In in Hd. destruct Hd as (_ & Hd). apply negb_true_iff in Hd.
      assert (Ht : existsb (fun p => cls_of s d =? iv_cls (geti (cs_ivs st') p)) (ie_unknown e') = true).
      { apply existsb_exists. exists u. split; [exact Hu|apply Nat.eqb_eq; exact K]. }
      congruence.
    + intros _ p Hp. apply Cvu. exact Hp.
    + congruence.
Qed.

Definition uinv (e : ieq) : Prop := ie_type e = EUnknown -> ie_unknown e = [].

Lemma check_uinv : forall s nla st e st' e' b,
  check s nla st e = (st', e', b) -> eq_inv (cs_ivs st) e -> uinv e -> uinv e'.
Proof.
  intros s nla st e st' e' b H He Hu Hty'.
  destruct (etype_eqb (ie_type e) EUnknown) eqn:Et.
  2:{ unfold check in H. rewrite Et in H. cbn [negb] in H. inversion H; subst. apply Hu. exact Hty'. }
  apply etype_eqb_eq in Et.
  destruct (check_cases _ _ _ _ _ _ _ H Et He) as [(_ & A2 & _)|[(p & A)|(inits & A)]].
  - rewrite A2. apply Hu. exact Et.
  - destruct A as (_ & _ & _ & A4 & _). contradiction.
  - destruct A as (_ & A2 & _). rewrite A2 in Hty'. discriminate.
Qed.

Lemma dep_inv_evolves : forall s a b e0 e, evolves s a b -> dep_inv s a e0 e -> dep_inv s b e0 e.
Proof.
  intros s a b e0 e Hev [Dn Di Dd Dc Ds Do Dv Did].
  assert (Hcl : forall p, iv_cls (geti b p) = iv_cls (geti a p)) by (intro p; eapply cls_stable; exact Hev).
  constructor; try assumption.
  - intros p Hp. rewrite Hcl. apply Dc. exact Hp.
  - intros d Hd. destruct (Ds d Hd) as (p & P1 & P2 & P3). exists p. rewrite Hcl. auto.
  - intros Ht d u Hd Hu. rewrite Hcl. apply Do; assumption.
Qed.

Definition vbounded (n : nat) (e0 : ieq) : Prop := Forall (fun p => p < n) (ie_vars e0).

Lemma sweep_dep : forall s nla es E st st' es' b,
  sweep s nla st es = (st', es', b) -> dependency_fix = true -> ivs_ok s (cs_ivs st) ->
  Forall (eq_inv (cs_ivs st)) es -> Forall uinv es -> Forall (vbounded (length (cs_ivs st))) E ->
  Forall2 (dep_inv s (cs_ivs st)) E es ->
  Forall2 (dep_inv s (cs_ivs st')) E es' /\ Forall uinv es'.
Proof.
  intros s nla es. induction es as [|e r IH]; intros E st st' es' b H Hfx Hok Hinv Hu Hb Hd; cbn in H.
  - inversion H; subst. inversion Hd; subst. split; constructor.
  - destruct (check s nla st e) as [[st1 e1] b1] eqn:Hc.
    destruct (sweep s nla st1 r) as [[st2 r1] b2] eqn:Hs.
    inversion H; subst st' es' b. clear H.
    inversion Hd as [|e0 ? E' ? Hde Hdr]; subst. inversion Hinv as [|? ? Hie Hir]; subst.
    inversion Hu as [|? ? Hue Hur]; subst. inversion Hb as [|? ? Hbe Hbr]; subst.
    destruct (check_inv _ _ _ _ _ _ _ Hc Hie) as (Hev1 & _).
    pose proof (check_dep_inv _ _ _ _ _ _ _ _ Hc Hfx Hok Hie Hbe Hue Hde) as D1.
    pose proof (check_uinv _ _ _ _ _ _ _ Hc Hie Hue) as U1.
    assert (L1 : length (cs_ivs st1) = length (cs_ivs st)) by apply Hev1.
    destruct (IH E' st1 st2 r1 b2 Hs Hfx) as (D2 & U2).
    + eapply evolves_ivs_ok; eassumption.
    + eapply Forall_impl; [|exact Hir]. intros x Hx. eapply eq_inv_evolves; eassumption.
    + exact Hur.
    + rewrite L1. exact Hbr.
    + clear - Hdr Hev1. induction Hdr; constructor; [eapply dep_inv_evolves; eassumption|assumption].
    + destruct (sweep_inv _ _ _ _ _ _ _ Hs) as (Hev2 & _).
      { eapply Forall_impl; [|exact Hir]. intros x Hx. eapply eq_inv_evolves; eassumption. }
      split; [constructor; [eapply dep_inv_evolves; eassumption|exact D2]|constructor; assumption].
Qed.

Lemma loop_dep : forall s fuel loopn nla E st es st' es',
  loop s fuel loopn nla st es = Some (st', es') -> dependency_fix = true -> ivs_ok s (cs_ivs st) ->
  Forall (eq_inv (cs_ivs st)) es -> Forall uinv es -> Forall (vbounded (length (cs_ivs st))) E ->
  Forall2 (dep_inv s (cs_ivs st)) E es ->
  Forall2 (dep_inv s (cs_ivs st')) E es'.
Proof.
  intros s fuel. induction fuel as [|f IH]; intros loopn nla E st es st' es' H Hfx Hok Hinv Hu Hb Hd; [discriminate|].
  cbn [loop] in H. destruct (sweep s nla st es) as [[st1 es1] rel] eqn:Hs.
  destruct (sweep_dep _ _ _ _ _ _ _ _ Hs Hfx Hok Hinv Hu Hb Hd) as (D1 & U1).
  destruct (sweep_inv _ _ _ _ _ _ _ Hs Hinv) as (Hev & I1).
  pose proof (evolves_ivs_ok _ _ _ Hok Hev) as Hok1.
  assert (L1 : length (cs_ivs st1) = length (cs_ivs st)) by apply Hev.
  assert (Hb1 : Forall (vbounded (length (cs_ivs st1))) E) by (rewrite L1; exact Hb).
  assert (Hmark : evolves s (cs_ivs st1) (map (fun v => if iv_external v && vtype_eqb (iv_type v) VUnknown then set_type v VInitialised else v) (cs_ivs st1))).
  { apply map_evolves. intro v. destruct (iv_external v && vtype_eqb (iv_type v) VUnknown) eqn:E0; [|apply step_ok_refl].
    apply andb_true_iff in E0. destruct E0 as (_ & E0). apply vtype_eqb_eq in E0. apply set_type_step. rewrite E0.
    unfold tok. repeat split; intros; try discriminate; auto. }
  destruct rel; [eapply IH; eassumption|].
  destruct ((loopn =? 1) || (loopn =? 3)); [eapply IH; eassumption|].
  assert (Dm : Forall2 (dep_inv s (map (fun v => if iv_external v && vtype_eqb (iv_type v) VUnknown then set_type v VInitialised else v) (cs_ivs st1))) E es1).
  { clear - D1 Hmark. induction D1; constructor; [eapply dep_inv_evolves; eassumption|assumption]. }
  destruct (loopn =? 2).
  - destruct (existsb iv_external (cs_ivs st1)).
    + eapply IH; [exact H|exact Hfx| | |exact U1| |exact Dm]; cbn [cs_ivs].
      * eapply evolves_ivs_ok; eassumption.
      * eapply Forall_impl; [|exact I1]. intros x Hx. eapply eq_inv_evolves; eassumption.
      * rewrite map_length. exact Hb1.
    + inversion H; subst. cbn [cs_ivs]. exact Dm.
  - inversion H; subst. exact D1.
Qed.

(* ------------------------------------------------------------------ building: the variables of an equation are what it reads *)

Definition names_cls (s : system) (c : nat) (e : expr) : list nat :=
  filter_map (fun n => option_map (fun i => cls_of s (c, i)) (find_var (get_comp s c) n)) (expr_names e).
Definition reads (s : system) (c : nat) (q : eqn) : list nat := names_cls s c (q_lhs q) ++ names_cls s c (q_rhs q).

Definition pcls (ivs : list ivar) (l : list nat) : list nat := map (fun p => iv_cls (geti ivs p)) l.

Lemma filter_map_app : forall {A B} (f : A -> option B) a b, filter_map f (a ++ b) = filter_map f a ++ filter_map f b.
Proof. intros A B f a b. induction a as [|x r IH]; cbn; [reflexivity|]. destruct (f x); rewrite IH; reflexivity. Qed.

Lemma pcls_prefix : forall a b l, cls_prefix a b -> Forall (fun p => p < length a) l -> pcls b l = pcls a l.
Proof.
  intros a b l (tl & Hp) Hl. unfold pcls. apply map_ext_in. intros p Hp0. rewrite Forall_forall in Hl. specialize (Hl p Hp0).
  unfold geti. rewrite <- (map_nth iv_cls b divar p), <- (map_nth iv_cls a divar p), Hp.
  apply app_nth1. rewrite map_length. exact Hl.
Qed.

Record node_ok (s : system) (ivs : list ivar) (q : ieq) : Prop := {
  no_nodup : NoDup (ie_vars q);
  no_bound : Forall (fun p => p < length ivs) (ie_vars q) }.

Lemma analyse_node_vars : forall s c e acc acc',
  analyse_node s c e acc = Some acc' -> ivs_ok s (fst acc) -> eq_ok s (length (fst acc)) (snd acc) -> node_ok s (fst acc) (snd acc) ->
  node_ok s (fst acc') (snd acc') /\ ie_id (snd acc') = ie_id (snd acc) /\ ie_deps (snd acc') = ie_deps (snd acc) /\
  (forall k, In k (pcls (fst acc') (ie_vars (snd acc'))) <-> In k (pcls (fst acc) (ie_vars (snd acc))) \/ In k (names_cls s c e)).
Proof.
  intros s c e. induction e as [n|t x| |a IHa b IHb]; intros [ivs q] acc' H Hok Heq [Nn Nb]; cbn [analyse_node fst snd] in *.
  - destruct (find_var (get_comp s c) n) as [i|] eqn:F; [|discriminate].
    destruct (internal_variable s ivs (c, i)) as [ivs1 p] eqn:I.
    destruct (internal_variable_spec _ _ _ _ _ I Hok (find_var_in_range _ _ _ _ F)) as (H1 & H2 & H3 & H4).
    assert (Hpre : pcls ivs1 (ie_vars q) = pcls ivs (ie_vars q)) by (apply pcls_prefix; [apply extends_cls_prefix; exact H4|exact Nb]).
    assert (Hnc : names_cls s c (EVar n) = [cls_of s (c, i)]) by (unfold names_cls; cbn; rewrite F; reflexivity).
    assert (Nb1 : Forall (fun p0 => p0 < length ivs1) (ie_vars q)).
    { eapply Forall_lt_mono; [apply extends_length; exact H4|exact Nb]. }
    destruct (mem_nat p (ie_vars q)) eqn:Em; inversion H; subst; cbn [fst snd ie_vars ie_id ie_deps].
    + split; [constructor; assumption|]. split; [reflexivity|]. split; [reflexivity|].
      intro k. rewrite Hpre, Hnc. split; [auto|]. intros [K|[<-|[]]]; [exact K|].
      rewrite <- Hpre, <- H3. apply mem_nat_In in Em. unfold pcls. apply in_map_iff. exists p. auto.
    + split; [constructor|].
      * apply NoDup_snoc; [exact Nn|]. intro K. apply mem_nat_In in K. congruence.
      * apply Forall_snoc; assumption.
      * split; [reflexivity|]. split; [reflexivity|]. intro k. unfold pcls at 1. rewrite map_app, in_app_iff. fold (pcls ivs1 (ie_vars q)).
        rewrite Hpre, Hnc. cbn [map In]. rewrite H3. tauto.
  - destruct (find_var (get_comp s c) t) as [ti|] eqn:Ft; [|discriminate].
    destruct (find_var (get_comp s c) x) as [xi|] eqn:Fx; [|discriminate].
    destruct (internal_variable s ivs (c, xi)) as [ivs1 p] eqn:I.
    destruct (internal_variable_spec _ _ _ _ _ I Hok (find_var_in_range _ _ _ _ Fx)) as (H1 & H2 & H3 & H4).
    assert (Hpre : pcls ivs1 (ie_vars q) = pcls ivs (ie_vars q)) by (apply pcls_prefix; [apply extends_cls_prefix; exact H4|exact Nb]).
    assert (Nb1 : Forall (fun p0 => p0 < length ivs1) (ie_vars q)).
    { eapply Forall_lt_mono; [apply extends_length; exact H4|exact Nb]. }
    destruct (mem_nat p (ie_odes q)); inversion H; subst; cbn [fst snd ie_vars ie_id ie_deps];
      (split; [constructor; assumption|]); (split; [reflexivity|]); (split; [reflexivity|]);
      intro k; rewrite Hpre; unfold names_cls; cbn; tauto.
  - inversion H; subst. split; [constructor; assumption|]. split; [reflexivity|]. split; [reflexivity|]. intro k. unfold names_cls. cbn. tauto.
  - destruct (analyse_node s c a (ivs, q)) as [acc1|] eqn:Ea; [|discriminate].
    destruct (analyse_node_spec _ _ _ _ _ Ea Hok Heq) as (A1 & A2 & A3).
    destruct (IHa _ _ Ea Hok Heq (Build_node_ok _ _ _ Nn Nb)) as (B1 & B2 & B3 & B4).
    destruct (IHb _ _ H A1 A2 B1) as (C1 & C2 & C3 & C4). cbn [fst snd] in *.
    split; [exact C1|]. split; [congruence|]. split; [congruence|].
    intro k. rewrite C4, B4. unfold names_cls. cbn [expr_names]. rewrite filter_map_app, in_app_iff. tauto.
Qed.

Definition built_ok (s : system) (ivs : list ivar) (cq : nat * eqn) (e : ieq) : Prop :=
  ie_id e = Some (q_id (snd cq)) /\ ie_deps e = [] /\ NoDup (ie_vars e) /\ Forall (fun p => p < length ivs) (ie_vars e) /\
  forall k, In k (pcls ivs (ie_vars e)) <-> In k (reads s (fst cq) (snd cq)).

Lemma cls_prefix_length : forall a b, cls_prefix a b -> length a <= length b.
Proof. intros a b (tl & H). pose proof (f_equal (@length _) H) as K. rewrite app_length, !map_length in K. lia. Qed.

Lemma built_ok_mono : forall s a b cq e, cls_prefix a b -> built_ok s a cq e -> built_ok s b cq e.
Proof.
  intros s a b cq e Hp (B1 & B2 & B3 & B4 & B5). unfold built_ok.
  split; [exact B1|]. split; [exact B2|]. split; [exact B3|].
  split; [eapply Forall_lt_mono; [apply cls_prefix_length; exact Hp|exact B4]|].
  intro k. rewrite (pcls_prefix a b _ Hp B4). apply B5.
Qed.

Lemma build_eq_built : forall s c ivs q ivs' e,
  build_eq s c ivs q = Some (ivs', e) -> ivs_ok s ivs -> built_ok s ivs' (c, q) e.
Proof.
  intros s c ivs q ivs' e H Hok. unfold build_eq in H.
  match type of H with match analyse_node s c ?l (?i, ?q0) with _ => _ end = _ =>
    destruct (analyse_node s c l (i, q0)) as [acc1|] eqn:E1; [|discriminate];
    assert (Hq0 : eq_ok s (length i) q0) by (unfold eq_ok; cbn; repeat (split; [constructor|]); reflexivity);
    assert (Hn0 : node_ok s i q0) by (constructor; cbn; constructor) end.
  destruct (analyse_node_spec _ _ _ _ _ E1 Hok Hq0) as (A1 & A2 & _).
  destruct (analyse_node_vars _ _ _ _ _ E1 Hok Hq0 Hn0) as (B1 & B2 & B3 & B4).
  destruct (analyse_node_vars _ _ _ _ _ H A1 A2 B1) as ([C1n C1b] & C2 & C3 & C4). cbn [fst snd] in *.
  unfold built_ok. cbn [fst snd ie_id ie_deps] in *. split; [rewrite C2, B2; reflexivity|]. split; [rewrite C3, B3; reflexivity|].
  split; [exact C1n|]. split; [exact C1b|].
  intro k. rewrite C4, B4. unfold reads. rewrite in_app_iff. cbn. tauto.
Qed.

Definition eqns_of_comp (c : nat) (k : comp) : list (nat * eqn) := map (fun q => (c, q)) (c_eqs k).
Definition all_eqns_from (c : nat) (cs : list comp) : list (nat * eqn) :=
  flat_map (fun ck => eqns_of_comp (fst ck) (snd ck)) (combine (seq c (length cs)) cs).

Lemma build_eqs_built : forall s c qs acc acc' E,
  build_eqs s c qs acc = Some acc' -> ivs_ok s (fst acc) -> Forall (eq_ok s (length (fst acc))) (snd acc) ->
  Forall2 (built_ok s (fst acc)) E (snd acc) ->
  Forall2 (built_ok s (fst acc')) (E ++ map (fun q => (c, q)) qs) (snd acc').
Proof.
  intros s c qs. induction qs as [|q r IH]; intros acc acc' E H Hok Heq Hb; cbn in H.
  - inversion H; subst. cbn. rewrite app_nil_r. exact Hb.
  - destruct (build_eq s c (fst acc) q) as [[ivs1 e]|] eqn:Eb; [|discriminate].
    destruct (build_eq_spec _ _ _ _ _ _ Eb Hok) as (A1 & A2 & A3).
    pose proof (build_eq_built _ _ _ _ _ _ Eb Hok) as B1.
    cbn [map]. replace (E ++ (c, q) :: map (fun q0 => (c, q0)) r) with ((E ++ [(c, q)]) ++ map (fun q0 => (c, q0)) r) by (rewrite <- app_assoc; reflexivity).
    apply (IH _ _ _ H); cbn [fst snd].
    + exact A1.
    + apply Forall_snoc; [|exact A2]. eapply Forall_impl; [|exact Heq]. intros x Hx. eapply eq_ok_mono; [|exact Hx]. apply extends_length. exact A3.
    + apply Forall2_app; [|constructor; [exact B1|constructor]].
      clear - Hb A3. induction Hb; constructor; [eapply built_ok_mono; [apply extends_cls_prefix; exact A3|assumption]|assumption].
Qed.

Lemma build_comps_built : forall s cs c acc acc' E,
  build_comps s c cs acc = Some acc' -> cs = skipn c s ->
  ivs_ok s (fst acc) -> Forall (eq_ok s (length (fst acc))) (snd acc) -> Forall2 (built_ok s (fst acc)) E (snd acc) ->
  Forall2 (built_ok s (fst acc')) (E ++ all_eqns_from c cs) (snd acc').
Proof.
  intros s cs. induction cs as [|k r IH]; intros c acc acc' E H Hs Hok Heq Hb; cbn in H.
  - inversion H; subst. cbn. rewrite app_nil_r. exact Hb.
  - symmetry in Hs. destruct (skipn_cons_inv _ _ _ _ dcomp Hs) as (S1 & S2 & S3).
    destruct (build_eqs s c (c_eqs k) acc) as [[ivs1 es1]|] eqn:Ee; [|discriminate].
    destruct (build_eqs_spec _ _ _ _ _ Ee Hok Heq) as (A1 & A2 & A3).
    pose proof (build_eqs_built _ _ _ _ _ _ Ee Hok Heq Hb) as A4. cbn [fst snd] in *.
    assert (Hk : get_comp s c = k) by exact S1.
    destruct (track_inits_spec s c (length (c_vars k)) 0 ivs1 A1) as (B1 & B2 & B3 & B4).
    { intros j Hj. apply in_range_intro; [exact S3|]. rewrite Hk. lia. }
    unfold all_eqns_from. cbn [length seq combine flat_map fst snd]. fold (all_eqns_from (S c) r). rewrite app_assoc.
    apply (IH (S c) _ _ _ H); cbn [fst snd]; [symmetry; exact S2|exact B1| |].
    + eapply Forall_impl; [|exact A2]. intros x Hx. eapply eq_ok_mono; [|exact Hx]. exact B4.
    + unfold eqns_of_comp. clear - A4. induction A4; constructor; [eapply built_ok_mono; [apply track_inits_cls_prefix|assumption]|assumption].
Qed.

Lemma build_built : forall s ivs es, build s = Some (ivs, es) -> Forall2 (built_ok s ivs) (all_eqns_from 0 s) es.
Proof.
  intros s ivs es H. unfold build in H.
  apply (build_comps_built s s 0 ([], []) (ivs, es) [] H); cbn; [reflexivity|split; constructor|constructor|constructor].
Qed.

(* ------------------------------------------------------------------ the second half of analyseModel keeps ids, dependencies, unknowns *)

Definition same_dep (e e' : ieq) : Prop :=
  ie_id e' = ie_id e /\ ie_deps e' = ie_deps e /\ ie_unknown e' = ie_unknown e /\ ie_vars e' = ie_vars e /\
  (ie_type e' = EUnknown <-> ie_type e = EUnknown).

Lemma same_dep_refl : forall e, same_dep e e.
Proof. intro e. unfold same_dep. tauto. Qed.
Lemma same_dep_trans : forall a b c, same_dep a b -> same_dep b c -> same_dep a c.
Proof. intros a b c (A1 & A2 & A3 & A4 & A5) (B1 & B2 & B3 & B4 & B5). unfold same_dep. repeat split; try congruence; tauto. Qed.

Lemma upd_pointwise : forall (P : ieq -> ieq -> Prop) es l k x,
  (forall j, P (gete es j) (gete l j)) -> (P (gete es k) (gete l k) -> P (gete es k) x) -> forall j, P (gete es j) (gete (upd l k x) j).
Proof.
  intros P es l k x H Hx j. rewrite gete_upd. destruct ((j =? k) && (k <? length l)) eqn:E; [|apply H].
  apply andb_true_iff in E. destruct E as (E & _). apply Nat.eqb_eq in E. subst. apply Hx. apply H.
Qed.

Lemma nla_step_same : forall ivs es st k, Forall (fun v => iv_external v = false) ivs ->
  (forall j, same_dep (gete es j) (gete (ns_es st) j)) ->
  forall j, same_dep (gete es j) (gete (ns_es (nla_step ivs st k)) j).
Proof.
  intros ivs es st k Hne H. unfold nla_step.
  set (l := ns_es st) in *. set (e := gete l k).
  assert (Hfil : forall x, filter (fun p => negb (iv_external (geti ivs p))) x = x).
  { intro x. apply filter_id. intro p. rewrite (noext_geti _ p Hne). reflexivity. }
  assert (He1 : set_unknown e (ie_unknown e) = e) by (destruct e; reflexivity).
  assert (Hkeep : forall (y : ieq), same_dep (gete es k) e -> same_dep e y -> same_dep (gete es k) y).
  { intros y A B. eapply same_dep_trans; eassumption. }
  destruct (is_nla e) eqn:En.
  - rewrite Hfil, He1, En. cbn [negb].
    match goal with |- context [let '(idx, next) := ?m in _] => destruct m as [idx next] end.
    cbn [ns_es].
    set (l1 := upd l k e).
    assert (H1 : forall j, same_dep (gete es j) (gete l1 j)) by (apply upd_pointwise; [exact H|intro K; exact K]).
    set (l2 := upd l1 k (set_nla e (Some idx))).
    assert (H2 : forall j, same_dep (gete es j) (gete l2 j)).
    { apply upd_pointwise; [exact H1|]. intros _. apply (Hkeep _ (H k)). unfold same_dep. cbn. tauto. }
    match goal with |- context [fold_left ?f ?oo l2] => set (os := oo); set (l3 := fold_left f os l2) end.
    assert (H3 : forall j, same_dep (gete es j) (gete l3 j)).
    { unfold l3. generalize os. intro o. revert H2. generalize l2. induction o as [|z o IHo]; intros l0 H0; cbn [fold_left]; [exact H0|].
      apply IHo. apply upd_pointwise; [exact H0|]. intro K. eapply same_dep_trans; [exact K|]. unfold same_dep. cbn. tauto. }
    apply upd_pointwise; [exact H3|]. intro K. eapply same_dep_trans; [exact K|]. unfold same_dep. cbn. tauto.
  - rewrite En. cbn [negb ns_es]. apply upd_pointwise; [exact H|intro K; exact K].
Qed.

Lemma nla_group_elem : forall ivs es e', Forall (fun v => iv_external v = false) ivs ->
  In e' (nla_group ivs es) -> exists e, In e es /\ same_dep e e'.
Proof.
  intros ivs es e' Hne Hin. unfold nla_group in Hin.
  assert (Hfold : forall ks st, (forall j, same_dep (gete es j) (gete (ns_es st) j)) ->
             forall j, same_dep (gete es j) (gete (ns_es (fold_left (nla_step ivs) ks st)) j)).
  { induction ks as [|k r IH]; intros st H0; cbn [fold_left]; [exact H0|]. apply IH. apply nla_step_same; assumption. }
  destruct (nla_fold_more ivs es (length es) (mkNs es 0 [] []) Hne eq_refl eq_refl (le_n _) (fun _ _ => I)) as (A1 & A2 & _).
  pose proof (Hfold (seq 0 (length es)) (mkNs es 0 [] []) (fun j => same_dep_refl _)) as Hs.
  set (st := fold_left (nla_step ivs) (seq 0 (length es)) (mkNs es 0 [] [])) in *.
  rewrite A2 in Hin. cbn [map] in Hin. rewrite app_nil_r in Hin.
  assert (Hlen : length (ns_es st) = length es).
  { pose proof (f_equal (@length _) A1) as K. rewrite !map_length in K. exact K. }
  apply in_map_iff in Hin. destruct Hin as (j & <- & Hj). apply filter_In in Hj. destruct Hj as (Hj & _). apply in_seq in Hj.
  exists (gete es j). split; [apply nth_In; lia|].
  eapply same_dep_trans; [apply Hs|]. unfold same_dep. cbn. tauto.
Qed.

Lemma requalify_step_elem : forall ivs done over iss e ivs' done' over' iss',
  requalify_step (ivs, done, over, iss) e = (ivs', done', over', iss') ->
  exists e', done' = done ++ [e'] /\ same_dep e e'.
Proof.
  intros ivs done over iss e ivs' done' over' iss' H. unfold requalify_step in H.
  destruct (ie_type e) eqn:Et; try (inversion H; subst; exists e; split; [reflexivity|apply same_dep_refl]).
  - destruct (existsb _ (ie_all e)); inversion H; subst; [|exists e; split; [reflexivity|apply same_dep_refl]].
    exists (set_etype e EAlgebraic). split; [reflexivity|]. unfold same_dep. cbn. rewrite Et. repeat split; try reflexivity; intro K; discriminate.
  - destruct (length (ie_unknown e) <? length (ie_sibs e) + 1).
    + match type of H with context [fold_left ?f (ie_unknown e) ?a] => destruct (fold_left f (ie_unknown e) a) as [[ivs3 over3] iss3] end.
      inversion H; subst. exists e. split; [reflexivity|apply same_dep_refl].
    + inversion H; subst. exists e. split; [reflexivity|apply same_dep_refl].
Qed.

Lemma requalify_fold_elem : forall es ivs done over iss ivs2 es2 over2 iss2,
  fold_left requalify_step es (ivs, done, over, iss) = (ivs2, es2, over2, iss2) ->
  forall e2, In e2 es2 -> In e2 done \/ exists e, In e es /\ same_dep e e2.
Proof.
  induction es as [|e r IH]; intros ivs done over iss ivs2 es2 over2 iss2 H e2 He2; cbn [fold_left] in H.
  - inversion H; subst. left. exact He2.
  - destruct (requalify_step (ivs, done, over, iss) e) as [[[ivs1 done1] over1] iss1] eqn:E.
    destruct (requalify_step_elem _ _ _ _ _ _ _ _ _ E) as (e' & -> & Hs).
    destruct (IH _ _ _ _ _ _ _ _ H e2 He2) as [K|(x & Hx & Hsx)].
    + apply in_app_iff in K. destruct K as [K|[<-|[]]]; [left; exact K|right]. exists e. split; [left; reflexivity|exact Hs].
    + right. exists x. split; [right; exact Hx|exact Hsx].
Qed.

(* ------------------------------------------------------------------ dependency lists in the packaging *)

Lemma dedup_app_spec : forall l acc, (forall j, In j (dedup_app acc l) <-> In j acc \/ In j l) /\ (NoDup acc -> NoDup (dedup_app acc l)).
Proof.
  induction l as [|x r IH]; intro acc; cbn [dedup_app].
  - split; [intro j; cbn; tauto|auto].
  - destruct (mem_nat x acc) eqn:Em.
    + destruct (IH acc) as (A & B). split; [|exact B]. intro j. rewrite A. cbn. apply mem_nat_In in Em. split; [tauto|]. intros [K|[<-|K]]; auto.
    + destruct (IH (acc ++ [x])) as (A & B). split.
      * intro j. rewrite A, in_app_iff. cbn. tauto.
      * intro Hn. apply B. apply NoDup_snoc; [exact Hn|]. intro K. apply mem_nat_In in K. congruence.
Qed.

Definition dep_fold (g : vref -> option avar) (ds : list vref) (acc : list nat) : list nat :=
  fold_left (fun acc d => match g d with Some a => dedup_app acc (av_eqs a) | None => acc end) ds acc.

Lemma dep_fold_spec : forall g ds acc,
  (forall j, In j (dep_fold g ds acc) <-> In j acc \/ exists d a, In d ds /\ g d = Some a /\ In j (av_eqs a)) /\
  (NoDup acc -> NoDup (dep_fold g ds acc)).
Proof.
  intros g ds. induction ds as [|d r IH]; intro acc; unfold dep_fold; cbn [fold_left].
  - split; [|auto]. intro j. split; [auto|]. intros [K|(d & a & [] & _)]. exact K.
  - fold (dep_fold g r (match g d with Some a => dedup_app acc (av_eqs a) | None => acc end)).
    destruct (g d) as [a|] eqn:Eg.
    + destruct (IH (dedup_app acc (av_eqs a))) as (A & B). destruct (dedup_app_spec (av_eqs a) acc) as (C & D). split.
      * intro j. rewrite A, C. split.
        -- intros [[K|K]|(d' & a' & H1 & H2 & H3)]; [left; exact K|right; exists d, a; cbn; auto|right; exists d', a'; cbn; auto].
        -- intros [K|(d' & a' & [<-|H1] & H2 & H3)]; [auto| |right; exists d', a'; auto]. rewrite Eg in H2. inversion H2; subst. auto.
      * intro Hn. apply B. apply D. exact Hn.
    + destruct (IH acc) as (A & B). split; [|exact B]. intro j. rewrite A. split.
      * intros [K|(d' & a' & H1 & H2 & H3)]; [auto|right; exists d', a'; cbn; auto].
      * intros [K|(d' & a' & [<-|H1] & H2 & H3)]; [auto|congruence|right; exists d', a'; auto].
Qed.

Lemma make_aeq_typed2 : forall s ivs es3 avs j p a0 rest,
  ie_type (gete es3 j) <> EUnknown -> ie_unknown (gete es3 j) = p :: rest ->
  lookup_avar avs p = Some a0 -> av_type a0 <> AExternal ->
  exists x, make_aeq s ivs es3 avs j = Some x /\ ae_pos x = j /\ ae_id x = ie_id (gete es3 j) /\
            ae_vars x = map av_var (filter_map (lookup_avar avs) (ie_unknown (gete es3 j))) /\
            ae_deps x = dep_fold (dep_lookup dependency_fix s ivs avs) (ie_deps (gete es3 j)) [].
Proof.
  intros s ivs es3 avs j p a0 rest Hty Hunk Hl Ha. unfold make_aeq.
  rewrite Hunk. cbn [filter_map]. rewrite Hl. cbn [forallb]. rewrite (atype_neq_ext _ Ha). cbn [andb].
  destruct (ie_type (gete es3 j)); try contradiction; eexists; (split; [reflexivity|]); cbn; auto.
Qed.

Lemma find_pos_in : forall l j, find (fun e => ae_pos e =? j) l <> None <-> In j (map ae_pos l).
Proof.
  induction l as [|x r IH]; intro j; cbn.
  - split; [intro K; contradiction|intros []].
  - destruct (Nat.eqb_spec (ae_pos x) j) as [->|Hd].
    + split; [auto|]. intros _ K. discriminate.
    + rewrite IH. split; [auto|]. intros [K|K]; [contradiction|exact K].
Qed.

Lemma lookup_avar_In : forall avs q a, lookup_avar avs q = Some a -> In (q, a) avs.
Proof.
  intros avs q a H. unfold lookup_avar in H. destruct (find (fun x => fst x =? q) avs) as [[q' a']|] eqn:F; [|discriminate].
  cbn in H. inversion H; subst. apply find_some in F. destruct F as (F1 & F2). cbn in F2. apply Nat.eqb_eq in F2. subst. exact F1.
Qed.

Definition unique_ids (s : system) : Prop := NoDup (map (fun cq => q_id (snd cq)) (all_eqns_from 0 s)).

Lemma find_eqn_unique : forall s c q, unique_ids s -> In (c, q) (all_eqns_from 0 s) -> find_eqn s (q_id q) = Some (c, q).
Proof.
  intros s c q Hu Hin. unfold find_eqn. change (flat_map _ (combine (seq 0 (length s)) s)) with (all_eqns_from 0 s).
  unfold unique_ids in Hu. induction (all_eqns_from 0 s) as [|x r IH]; [destruct Hin|].
  cbn [find]. cbn [map] in Hu. inversion Hu; subst. destruct Hin as [->|Hin].
  - cbn. rewrite Nat.eqb_refl. reflexivity.
  - destruct (Nat.eqb_spec (q_id (snd x)) (q_id q)) as [E|E].
    + exfalso. apply H1. rewrite E. apply (in_map (fun cq => q_id (snd cq)) r (c, q)). exact Hin.
    + apply IH; assumption.
Qed.

Lemma classes_read_reads : forall s id c q, find_eqn s id = Some (c, q) -> classes_read s id = reads s c q.
Proof. intros s id c q H. unfold classes_read, reads, names_cls. rewrite H. apply filter_map_app. Qed.

Definition dep_ok (s : system) (ivs : list ivar) (e : ieq) : Prop :=
  exists id c q, ie_id e = Some id /\ find_eqn s id = Some (c, q) /\
    (forall k, In k (reads s c q) -> (exists u, In u (ie_unknown e) /\ iv_cls (geti ivs u) = k) \/ In k (dcls s (ie_deps e))) /\
    (forall d, In d (ie_deps e) -> In (cls_of s d) (reads s c q) /\
                                  (forall u, In u (ie_unknown e) -> cls_of s d <> iv_cls (geti ivs u)) /\
                                  exists p, p < length ivs /\ iv_cls (geti ivs p) = cls_of s d).

(* what the packaging needs of the equations: each has a type and computes known variables of a computed type *)
Definition eqs_fin (ivs : list ivar) (es : list ieq) : Prop :=
  forall e, In e es -> ie_type e <> EUnknown /\ ie_unknown e <> [] /\
    forall p, In p (ie_unknown e) -> p < length ivs /\ computed_type (iv_type (geti ivs p)) = true.

Lemma package_deps : forall s ty voi ivs es,
  eqs_fin ivs es -> Forall (fun v => iv_external v = false) ivs -> ivs_ok s ivs -> dependency_fix = true ->
  Forall (dep_ok s ivs) es ->
  wf_deps_complete s (package s ty voi ivs es) = true /\ wf_deps_sound s (package s ty voi ivs es) = true.
Proof.
  intros s ty voi ivs es Hfe Hne Hok Hfx Hdep.
  assert (Fe : forall c, In c (map core es) -> fst c <> EUnknown /\ snd c <> [] /\
                 forall p, In p (snd c) -> p < length ivs /\ computed_type (iv_type (geti ivs p)) = true).
  { intros c Hc. apply in_map_iff in Hc. destruct Hc as (e & <- & He). exact (Hfe e He). }
  unfold package.
  set (consts := filter (fun p => vtype_eqb (iv_type (geti ivs p)) VConstant) (seq 0 (length ivs))).
  set (dum := map (new_var_eq ivs) consts).
  set (es3 := es ++ dum).
  set (avs := make_avars es3 ivs 0 0 0).
  set (F := make_aeq s ivs es3 avs).
  set (aeqs := filter_map F (seq 0 (length es3))).
  set (pop := map ae_pos aeqs).
  set (r := mkResult ty [] voi _ _ _ _).
  assert (Hreqs : r_eqs r = map (clean_deps pop) aeqs) by reflexivity.
  assert (Hvcls : forall i, i < length ivs -> cls_of s (iv_var (geti ivs i)) = iv_cls (geti ivs i)).
  { intros i Hi. destruct (ivs_ok_geti _ _ _ Hok Hi) as (_ & K & _). exact K. }
  assert (Hat : forall q, q < length ivs -> forall t, atype_of (geti ivs q) = Some t -> t <> AExternal /\
            exists a, lookup_avar avs q = Some a /\ av_type a = t /\ av_var a = iv_var (geti ivs q) /\ av_eqs a = eqs_of es3 q).
  { intros q Hq t Ht. split.
    - unfold atype_of in Ht. rewrite (noext_geti _ q Hne) in Ht. destruct (iv_type (geti ivs q)); inversion Ht; discriminate.
    - destruct (make_avars_lookup es3 ivs 0 0 0 q t) as (a & A1 & _ & A3 & A4 & A5); [lia|lia|rewrite Nat.sub_0_r; exact Ht|].
      rewrite Nat.sub_0_r in A4. exists a. auto. }
  assert (Hcomp : forall q, q < length ivs -> computed_type (iv_type (geti ivs q)) = true -> exists t, atype_of (geti ivs q) = Some t).
  { intros q Hq Hc. unfold atype_of. rewrite (noext_geti _ q Hne). destruct (iv_type (geti ivs q)); cbn in Hc; try discriminate; eauto. }
  assert (Havs : forall q a, In (q, a) avs -> q < length ivs /\ av_var a = iv_var (geti ivs q) /\ av_eqs a = eqs_of es3 q).
  { intros q a Hin. destruct (make_avars_In _ _ _ _ _ _ _ Hin) as (_ & Hq & _ & Hv & He). rewrite Nat.sub_0_r in Hv. cbn in Hq. auto. }
  assert (Hall : forall a, In a (all_avars r) <-> exists q, In (q, a) avs).
  { intro a. unfold all_avars, r. cbn [r_states r_vars]. rewrite <- map_app. rewrite in_map_iff. split.
    - intros ([q a'] & E & Hin). cbn in E. subst a'. exists q. apply in_app_iff in Hin. destruct Hin as [K|K]; apply filter_In in K; apply K.
    - intros (q & Hin). exists (q, a). split; [reflexivity|]. apply in_app_iff.
      destruct (atype_eqb (av_type a) AState) eqn:E; [left|right]; apply filter_In; cbn; rewrite E; auto. }
  (* the equations that are made *)
  assert (HF : forall j y, j < length es3 -> F j = Some y -> j < length es /\ ae_pos y = j /\ ae_id y = ie_id (gete es j) /\
            ae_vars y = map av_var (filter_map (lookup_avar avs) (ie_unknown (gete es j))) /\
            ae_deps y = dep_fold (dep_lookup dependency_fix s ivs avs) (ie_deps (gete es j)) []).
  { intros j y Hj3 Hy. destruct (Nat.lt_ge_cases j (length es)) as [Hj|Hj].
    - assert (Hg : gete es3 j = gete es j) by (unfold gete, es3; apply app_nth1; exact Hj).
      assert (Hin : In (core (gete es j)) (map core es)) by (apply in_map; apply nth_In; exact Hj).
      destruct (Fe _ Hin) as (E1 & E2 & E3). cbn [core fst snd] in E1, E2, E3.
      destruct (ie_unknown (gete es j)) as [|p rest] eqn:Eu; [contradiction|].
      destruct (E3 p (or_introl eq_refl)) as (P1 & P2). destruct (Hcomp p P1 P2) as (t & Ht).
      destruct (Hat p P1 t Ht) as (Hx & a0 & L0 & T0 & _).
      destruct (make_aeq_typed2 s ivs es3 avs j p a0 rest) as (x & X1 & X2 & X3 & X4 & X5); try (rewrite Hg; assumption); try assumption.
      { rewrite T0. exact Hx. }
      unfold F in Hy. rewrite X1 in Hy. inversion Hy; subst y. rewrite Hg, Eu in *. auto.
    - exfalso.
      + unfold es3 in Hj3. rewrite app_length in Hj3.
        assert (Hg : gete es3 j = nth (j - length es) dum dieq) by (unfold gete, es3; apply app_nth2; lia).
        assert (Hin : In (nth (j - length es) dum dieq) dum) by (apply nth_In; lia).
        unfold dum in Hin. apply in_map_iff in Hin. destruct Hin as (c & Hc1 & Hc2).
        unfold consts in Hc2. apply filter_In in Hc2. destruct Hc2 as (Hc2 & Hc3). apply in_seq in Hc2. apply vtype_eqb_eq in Hc3.
        assert (Ht : atype_of (geti ivs c) = Some AConstant) by (unfold atype_of; rewrite (noext_geti _ c Hne), Hc3; reflexivity).
        destruct (Hat c (proj2 Hc2) _ Ht) as (_ & a0 & L0 & T0 & _).
        assert (Hg' : gete es3 j = new_var_eq ivs c) by (rewrite Hg; unfold dum; symmetry; exact Hc1).
        unfold F in Hy. rewrite (make_aeq_dummy s ivs es3 avs j c a0) in Hy; [discriminate|rewrite Hg'; reflexivity|rewrite Hg'; reflexivity|exact L0|rewrite T0; discriminate].
  }
  assert (Haeqs : forall y, In y aeqs -> exists j, j < length es3 /\ F j = Some y).
  { intros y Hy. unfold aeqs in Hy.
    assert (G : forall l, In y (filter_map F l) -> exists j, In j l /\ F j = Some y).
    { induction l as [|j l IH]; intro K; [destruct K|]. cbn [filter_map] in K.
      destruct (F j) as [y'|] eqn:Fj; [destruct K as [<-|K]; [exists j; split; [left; reflexivity|exact Fj]|]|];
        destruct (IH K) as (j' & J1 & J2); exists j'; split; [right; exact J1|exact J2|right; exact J1|exact J2]. }
    destruct (G _ Hy) as (j & J1 & J2). apply in_seq in J1. exists j. split; [lia|exact J2]. }
  assert (Hpop : forall j, find_aeq r j <> None <-> In j pop).
  { intro j. unfold find_aeq. rewrite Hreqs, find_pos_in, map_map. unfold pop.
    rewrite (map_ext (fun x => ae_pos (clean_deps pop x)) ae_pos) by (intro x; apply clean_deps_proj). reflexivity. }
  assert (Hfilt : forall a, filter (fun p => match find_aeq r p with Some _ => true | None => false end) (av_eqs a) = filter (fun p => mem_nat p pop) (av_eqs a)).
  { intro a. apply filter_ext_in'. intros j _. destruct (mem_nat j pop) eqn:Em.
    - apply mem_nat_In in Em. apply Hpop in Em. destruct (find_aeq r j); [reflexivity|contradiction].
    - destruct (find_aeq r j) eqn:Ef; [|reflexivity]. exfalso. assert (K : find_aeq r j <> None) by (rewrite Ef; discriminate).
      apply Hpop in K. apply mem_nat_In in K. congruence. }
  (* one equation of the result *)
  assert (Hone : forall x, In x (r_eqs r) -> subset (required_deps s r x) (ae_deps x) = true /\ nodupb (ae_deps x) = true /\ subset (ae_deps x) (required_deps s r x) = true).
  { intros x Hx. rewrite Hreqs in Hx. apply in_map_iff in Hx. destruct Hx as (y & <- & Hy).
    destruct (Haeqs y Hy) as (j & Hj3 & Fj). destruct (HF j y Hj3 Fj) as (Hj & Y1 & Y2 & Y3 & Y4).
    set (e := gete es j) in *. assert (Hein : In e es) by (apply nth_In; exact Hj).
    rewrite Forall_forall in Hdep. destruct (Hdep e Hein) as (id & c & q & D1 & D2 & DC & DS).
    assert (Hcin : In (core e) (map core es)) by (apply in_map; exact Hein).
    destruct (Fe _ Hcin) as (_ & _ & E3). cbn [core snd] in E3.
    (* own classes *)
    assert (Hown : forall k, In k (map (cls_of s) (ae_vars y)) <-> exists u, In u (ie_unknown e) /\ iv_cls (geti ivs u) = k).
    { intro k. rewrite Y3, map_map. split.
      - intro K. apply in_map_iff in K. destruct K as (a & K1 & K2).
        assert (Hu : exists u, In u (ie_unknown e) /\ lookup_avar avs u = Some a).
        { clear - K2. induction (ie_unknown e) as [|u l IH]; [destruct K2|]. cbn [filter_map] in K2.
          destruct (lookup_avar avs u) as [a'|] eqn:El; [destruct K2 as [<-|K2]; [exists u; split; [left; reflexivity|exact El]|]|];
            destruct (IH K2) as (u' & U1 & U2); exists u'; split; [right; exact U1|exact U2|right; exact U1|exact U2]. }
        destruct Hu as (u & U1 & U2). exists u. split; [exact U1|]. apply lookup_avar_In in U2. destruct (Havs _ _ U2) as (Q1 & Q2 & _).
        rewrite <- K1, Q2. symmetry. apply Hvcls. exact Q1.
      - intros (u & U1 & U2). destruct (E3 u U1) as (P1 & P2). destruct (Hcomp u P1 P2) as (t & Ht).
        destruct (Hat u P1 t Ht) as (_ & a & L1 & _ & L3 & _). apply in_map_iff. exists a. split; [rewrite L3, Hvcls by exact P1; exact U2|].
        clear - U1 L1. induction (ie_unknown e) as [|u' l IH]; [destruct U1|]. cbn [filter_map].
        destruct U1 as [->|U1]; [rewrite L1; left; reflexivity|]. destruct (lookup_avar avs u'); [right|]; apply IH; exact U1. }
    (* the dependencies of the made equation *)
    destruct (dep_fold_spec (dep_lookup dependency_fix s ivs avs) (ie_deps e) []) as (Gin & Gnd).
    assert (Hlook : forall d p, p < length ivs -> iv_cls (geti ivs p) = cls_of s d -> dep_lookup dependency_fix s ivs avs d = lookup_avar avs p).
    { intros d p Hp Hc. unfold dep_lookup. rewrite Hfx. f_equal.
      destruct (ivar_of_spec s ivs d Hok) as (I1 & I2).
      { rewrite <- Hc. apply in_map. apply geti_In. exact Hp. }
      eapply cls_inj; [exact Hok|exact I1|exact Hp|congruence]. }
    destruct (clean_deps_proj pop y) as (C1 & C2 & C3 & C4).
    assert (Hdeps : ae_deps (clean_deps pop y) = filter (fun j0 => mem_nat j0 pop) (ae_deps y)) by reflexivity.
    assert (Hreq : forall j', In j' (required_deps s r (clean_deps pop y)) <->
              exists k a, In k (reads s c q) /\ ~ In k (map (cls_of s) (ae_vars y)) /\ In a (all_avars r) /\ cls_of s (av_var a) = k /\ In j' (av_eqs a) /\ In j' pop).
    { intro j'. unfold required_deps. cbn [ae_id clean_deps ae_vars]. rewrite Y2. fold e. rewrite D1, (classes_read_reads _ _ _ _ D2).
      rewrite in_flat_map. split.
      - intros (k & Hk & Hin). destruct (mem_nat k (map (cls_of s) (ae_vars y))) eqn:Em; [destruct Hin|].
        apply in_flat_map in Hin. destruct Hin as (a & Ha & Hin). destruct (cls_of s (av_var a) =? k) eqn:Ec; [|destruct Hin].
        apply Nat.eqb_eq in Ec. rewrite Hfilt in Hin. apply filter_In in Hin. destruct Hin as (H1 & H2). apply mem_nat_In in H2.
        exists k, a. repeat split; try assumption. intro K. apply mem_nat_In in K. congruence.
      - intros (k & a & H1 & H2 & H3 & H4 & H5 & H6). exists k. split; [exact H1|].
        destruct (mem_nat k (map (cls_of s) (ae_vars y))) eqn:Em; [apply mem_nat_In in Em; contradiction|].
        apply in_flat_map. exists a. split; [exact H3|]. rewrite (proj2 (Nat.eqb_eq _ _) H4). rewrite Hfilt. apply filter_In. split; [exact H5|apply mem_nat_In; exact H6]. }
    split; [|split].
    - (* complete *)
      apply subset_spec. intros j' Hj'. apply Hreq in Hj'. destruct Hj' as (k & a & H1 & H2 & H3 & H4 & H5 & H6).
      rewrite Hdeps. apply filter_In. split; [|apply mem_nat_In; exact H6]. rewrite Y4. apply Gin. right.
      destruct (DC k H1) as [(u & U1 & U2)|K]; [exfalso; apply H2; apply Hown; eauto|].
      unfold dcls in K. apply in_map_iff in K. destruct K as (d & Kd & Hd).
      apply Hall in H3. destruct H3 as (qa & Hqa). destruct (Havs _ _ Hqa) as (Q1 & Q2 & Q3).
      assert (Hqk : iv_cls (geti ivs qa) = cls_of s d) by (rewrite Kd, <- H4, Q2; symmetry; apply Hvcls; exact Q1).
      assert (Hqc : computed_type (iv_type (geti ivs qa)) = true \/ True) by (right; exact I).
      destruct (make_avars_In _ _ _ _ _ _ _ Hqa) as (_ & _ & Hta & _). rewrite Nat.sub_0_r in Hta. fold (geti ivs qa) in Hta.
      destruct (Hat qa Q1 _ Hta) as (_ & a' & L1 & _ & _ & L4).
      exists d, a'. split; [exact Hd|]. split; [rewrite (Hlook d qa Q1 Hqk); exact L1|]. rewrite L4, <- Q3. exact H5.
    - (* no duplicates *)
      rewrite Hdeps. apply nodupb_NoDup. apply NoDup_filter. rewrite Y4. apply Gnd. constructor.
    - (* sound *)
      apply subset_spec. intros j' Hj'. rewrite Hdeps in Hj'. apply filter_In in Hj'. destruct Hj' as (Hj1 & Hj2). apply mem_nat_In in Hj2.
      rewrite Y4 in Hj1. apply Gin in Hj1. destruct Hj1 as [[]|(d & a' & Hd & Hl & Hja)].
      destruct (DS d Hd) as (S1 & S2 & (p & P1 & P2)).
      rewrite (Hlook d p P1 P2) in Hl. apply lookup_avar_In in Hl. destruct (Havs _ _ Hl) as (Q1 & Q2 & Q3).
      apply Hreq. exists (cls_of s d), a'. split; [exact S1|]. split.
      + intro K. apply Hown in K. destruct K as (u & U1 & U2). apply (S2 u U1). congruence.
      + split; [apply Hall; exists p; exact Hl|]. split; [rewrite Q2, Hvcls by exact Q1; exact P2|]. split; assumption. }
  unfold wf_deps_complete, wf_deps_sound. split; rewrite forallb_forall; intros x Hx; destruct (Hone x Hx) as (A & B & C); [exact A|rewrite B, C; reflexivity].
Qed.

(* ------------------------------------------------------------------ the second half of analyseModel keeps the kinds *)

Definition same2 (e e' : ieq) : Prop :=
  same_dep e e' /\ (ie_type e' = ENla <-> ie_type e = ENla) /\ (ie_type e' = EOde <-> ie_type e = EOde).

Lemma same2_refl : forall e, same2 e e.
Proof. intro e. unfold same2, same_dep. tauto. Qed.
Lemma same2_trans : forall a b c, same2 a b -> same2 b c -> same2 a c.
Proof.
  intros a b c (A & A6 & A7) (B & B6 & B7). split; [eapply same_dep_trans; eassumption|]. tauto.
Qed.

Lemma nla_step_same2 : forall ivs es st k, Forall (fun v => iv_external v = false) ivs ->
  (forall j, same2 (gete es j) (gete (ns_es st) j)) ->
  forall j, same2 (gete es j) (gete (ns_es (nla_step ivs st k)) j).
Proof.
  intros ivs es st k Hne H. unfold nla_step.
  set (l := ns_es st) in *. set (e := gete l k).
  assert (Hfil : forall x, filter (fun p => negb (iv_external (geti ivs p))) x = x).
  { intro x. apply filter_id. intro p. rewrite (noext_geti _ p Hne). reflexivity. }
  assert (He1 : set_unknown e (ie_unknown e) = e) by (destruct e; reflexivity).
  assert (Hkeep : forall (y : ieq), same2 (gete es k) e -> same2 e y -> same2 (gete es k) y).
  { intros y A B. eapply same2_trans; eassumption. }
  destruct (is_nla e) eqn:En.
  - rewrite Hfil, He1, En. cbn [negb].
    match goal with |- context [let '(idx, next) := ?m in _] => destruct m as [idx next] end.
    cbn [ns_es].
    set (l1 := upd l k e).
    assert (H1 : forall j, same2 (gete es j) (gete l1 j)) by (apply upd_pointwise; [exact H|intro K; exact K]).
    set (l2 := upd l1 k (set_nla e (Some idx))).
    assert (H2 : forall j, same2 (gete es j) (gete l2 j)).
    { apply upd_pointwise; [exact H1|]. intros _. apply (Hkeep _ (H k)). unfold same2, same_dep. cbn. tauto. }
    match goal with |- context [fold_left ?f ?oo l2] => set (os := oo); set (l3 := fold_left f os l2) end.
    assert (H3 : forall j, same2 (gete es j) (gete l3 j)).
    { unfold l3. generalize os. intro o. revert H2. generalize l2. induction o as [|z o IHo]; intros l0 H0; cbn [fold_left]; [exact H0|].
      apply IHo. apply upd_pointwise; [exact H0|]. intro K. eapply same2_trans; [exact K|]. unfold same2, same_dep. cbn. tauto. }
    apply upd_pointwise; [exact H3|]. intro K. eapply same2_trans; [exact K|]. unfold same2, same_dep. cbn. tauto.
  - rewrite En. cbn [negb ns_es]. apply upd_pointwise; [exact H|intro K; exact K].
Qed.

Lemma nla_group_elem2 : forall ivs es e', Forall (fun v => iv_external v = false) ivs ->
  In e' (nla_group ivs es) -> exists e, In e es /\ same2 e e'.
Proof.
  intros ivs es e' Hne Hin. unfold nla_group in Hin.
  assert (Hfold : forall ks st, (forall j, same2 (gete es j) (gete (ns_es st) j)) ->
             forall j, same2 (gete es j) (gete (ns_es (fold_left (nla_step ivs) ks st)) j)).
  { induction ks as [|k r IH]; intros st H0; cbn [fold_left]; [exact H0|]. apply IH. apply nla_step_same2; assumption. }
  destruct (nla_fold_more ivs es (length es) (mkNs es 0 [] []) Hne eq_refl eq_refl (le_n _) (fun _ _ => I)) as (A1 & A2 & _).
  pose proof (Hfold (seq 0 (length es)) (mkNs es 0 [] []) (fun j => same2_refl _)) as Hs.
  set (st := fold_left (nla_step ivs) (seq 0 (length es)) (mkNs es 0 [] [])) in *.
  rewrite A2 in Hin. cbn [map] in Hin. rewrite app_nil_r in Hin.
  assert (Hlen : length (ns_es st) = length es).
  { pose proof (f_equal (@length _) A1) as K. rewrite !map_length in K. exact K. }
  apply in_map_iff in Hin. destruct Hin as (j & <- & Hj). apply filter_In in Hj. destruct Hj as (Hj & _). apply in_seq in Hj.
  exists (gete es j). split; [apply nth_In; lia|].
  eapply same2_trans; [apply Hs|]. unfold same2, same_dep. cbn. tauto.
Qed.

Lemma requalify_step_elem2 : forall ivs done over iss e ivs' done' over' iss',
  requalify_step (ivs, done, over, iss) e = (ivs', done', over', iss') ->
  exists e', done' = done ++ [e'] /\ same2 e e'.
Proof.
  intros ivs done over iss e ivs' done' over' iss' H. unfold requalify_step in H.
  destruct (ie_type e) eqn:Et; try (inversion H; subst; exists e; split; [reflexivity|apply same2_refl]).
  - destruct (existsb _ (ie_all e)); inversion H; subst; [|exists e; split; [reflexivity|apply same2_refl]].
    exists (set_etype e EAlgebraic). split; [reflexivity|]. unfold same2, same_dep. cbn. rewrite Et.
    repeat split; try reflexivity; intro K; discriminate.
  - destruct (length (ie_unknown e) <? length (ie_sibs e) + 1).
    + match type of H with context [fold_left ?f (ie_unknown e) ?a] => destruct (fold_left f (ie_unknown e) a) as [[ivs3 over3] iss3] end.
      inversion H; subst. exists e. split; [reflexivity|apply same2_refl].
    + inversion H; subst. exists e. split; [reflexivity|apply same2_refl].
Qed.

Lemma requalify_fold_elem2 : forall es ivs done over iss ivs2 es2 over2 iss2,
  fold_left requalify_step es (ivs, done, over, iss) = (ivs2, es2, over2, iss2) ->
  forall e2, In e2 es2 -> In e2 done \/ exists e, In e es /\ same2 e e2.
Proof.
  induction es as [|e r IH]; intros ivs done over iss ivs2 es2 over2 iss2 H e2 He2; cbn [fold_left] in H.
  - inversion H; subst. left. exact He2.
  - destruct (requalify_step (ivs, done, over, iss) e) as [[[ivs1 done1] over1] iss1] eqn:E.
    destruct (requalify_step_elem2 _ _ _ _ _ _ _ _ _ E) as (e' & -> & Hs).
    destruct (IH _ _ _ _ _ _ _ _ H e2 He2) as [K|(x & Hx & Hsx)].
    + apply in_app_iff in K. destruct K as [K|[<-|[]]]; [left; exact K|right]. exists e. split; [left; reflexivity|exact Hs].
    + right. exists x. split; [right; exact Hx|exact Hsx].
Qed.


(* ------------------------------------------------------------------ the second half of analyseModel, without any hypothesis on the states *)

Definition single (es : list ieq) : Prop :=
  forall e p, In e es -> ie_type e <> EUnknown -> ie_type e <> ENla -> In p (ie_unknown e) -> ie_unknown e = [p].

Lemma finish_weak : forall s ivs es vidx ivs1 n ivs2 es2 over2,
  own_inv ivs es -> Forall (fun v => iv_external v = false) ivs ->
  validate_vars ivs vidx = (ivs1, n, []) ->
  fold_left requalify_step (nla_group ivs1 es) (ivs1, [], [], []) = (ivs2, es2, over2, []) ->
  evolves s ivs ivs2 /\ Forall (fun v => iv_external v = false) ivs2 /\
  (forall e2, In e2 es2 -> exists e1, In e1 es /\ same2 e1 e2) /\ eqs_fin ivs2 es2 /\ single es2.
Proof.
  intros s ivs es vidx ivs1 n ivs2 es2 over2 Hown Hne Ev Er.
  destruct (validate_vars_spec s _ _ _ _ _ Ev) as (V1 & V2). specialize (V2 eq_refl).
  destruct (validate_types _ _ _ _ Ev) as (L1 & T1).
  pose proof (Forall2_evolves _ _ _ V1) as Hev1. pose proof (noext_evolves _ _ _ Hev1 Hne) as Hne1.
  pose proof (oi_bounds _ _ Hown) as HB. rewrite Forall_forall in HB.
  assert (Hnz : forall e', In e' (nla_group ivs1 es) -> ie_unknown e' <> []).
  { intros e' He'. destruct (nla_group_cores ivs1 es Hne1) as (G1 & _).
    assert (Hc : In (core e') (map core (nla_group ivs1 es))) by (apply in_map; exact He').
    rewrite G1 in Hc. apply in_map_iff in Hc. destruct Hc as (e0 & E0 & He0). apply filter_In in He0. destruct He0 as (_ & Hu).
    assert (K : ie_unknown e' = ie_unknown e0) by (unfold core in E0; inversion E0; reflexivity).
    rewrite K. unfold has_unknown in Hu. destruct (ie_unknown e0); [discriminate|discriminate]. }
  assert (Hunk : Forall (unk_inv ivs1) (nla_group ivs1 es)).
  { rewrite Forall_forall. intros e' He'. destruct (nla_group_elem2 ivs1 es e' Hne1 He') as (e1 & He1 & (S1 & S2 & S3 & _) & _).
    split; [|intros _; apply Hnz; exact He'].
    destruct (HB e1 He1) as (_ & _ & _ & B4 & _). rewrite S3. eapply Forall_impl; [|exact B4].
    intros p Hp. eapply evolves_idx; eassumption. }
  destruct (requalify_fold_spec s _ _ _ _ _ _ _ _ Er V2 Hunk) as (R1 & F2).
  assert (Hev2 : evolves s ivs ivs2) by (eapply evolves_trans; eassumption).
  assert (Hpull : forall e2, In e2 es2 -> exists e', In e' (nla_group ivs1 es) /\ same2 e' e2 /\ exists e1, In e1 es /\ same2 e1 e').
  { intros e2 He2. destruct (requalify_fold_elem2 _ _ _ _ _ _ _ _ _ Er e2 He2) as [[]|(e' & He' & S2)].
    destruct (nla_group_elem2 ivs1 es e' Hne1 He') as (e1 & He1 & S1). exists e'. split; [exact He'|]. split; [exact S2|]. exists e1. auto. }
  split; [exact Hev2|]. split; [eapply noext_evolves; eassumption|]. split; [|split].
  - intros e2 He2. destruct (Hpull e2 He2) as (e' & _ & S2 & e1 & He1 & S1). exists e1. split; [exact He1|eapply same2_trans; eassumption].
  - intros e2 He2. destruct (Hpull e2 He2) as (e' & He' & S2 & e1 & He1 & S1).
    pose proof (same2_trans _ _ _ S1 S2) as ((A1 & A2 & A3 & A4 & A5) & _).
    destruct S2 as ((Q1 & Q2 & Q3 & _) & _).
    assert (Hnz2 : ie_unknown e2 <> []) by (rewrite Q3; apply Hnz; exact He').
    assert (Hty1 : ie_type e1 <> EUnknown).
    { intro K. apply Hnz2. rewrite A3. apply (oi_untyped _ _ Hown e1 He1 K). }
    split; [intro K; apply Hty1; apply A5; exact K|]. split; [exact Hnz2|].
    intros p Hp. rewrite A3 in Hp. destruct (HB e1 He1) as (_ & _ & _ & B4 & _). rewrite Forall_forall in B4.
    pose proof (evolves_idx _ _ _ p Hev2 (B4 p Hp)) as Hi. pose proof (idx_type_in_bounds _ _ Hi) as Hb.
    split; [exact Hb|]. rewrite Forall_forall in F2. specialize (F2 _ (geti_In _ _ Hb)).
    destruct (iv_type (geti ivs2 p)); cbn in Hi, F2 |- *; try discriminate; reflexivity.
  - intros e2 p He2 Ht2 Hn2 Hp. destruct (Hpull e2 He2) as (e' & He' & S2 & e1 & He1 & S1).
    pose proof (same2_trans _ _ _ S1 S2) as ((A1 & A2 & A3 & A4 & A5) & A6 & A7).
    rewrite A3 in *.
    assert (Hn1 : ie_type e1 <> ENla) by (intro K; apply Hn2; apply A6; exact K).
    destruct (HB e1 He1) as (_ & _ & _ & B4 & _). rewrite Forall_forall in B4. specialize (B4 p Hp).
    pose proof (idx_type_in_bounds _ _ B4) as Hb.
    destruct (oi_own _ _ Hown p Hb) as (W1 & W2 & W3).
    assert (Hin : In e1 (owners es p)) by (unfold owners; apply filter_In; split; [exact He1|apply mem_nat_In; exact Hp]).
    assert (Hcase : comp_type (iv_type (geti ivs p)) = true \/ (iv_type (geti ivs p) = VState /\ has_index (geti ivs p) = true)).
    { destruct (iv_type (geti ivs p)) eqn:Ty; cbn in B4; try discriminate; try (left; reflexivity).
      - destruct (has_index (geti ivs p)) eqn:Hi; [right; split; reflexivity|].
        rewrite W1 in Hin by (right; split; reflexivity). destruct Hin.
      - exfalso. apply Hn1. apply (W3 eq_refl). exact Hin.
      - exfalso. rewrite Forall_forall in V2. rewrite <- L1 in Hb. specialize (V2 _ (geti_In _ _ Hb)).
        rewrite T1, Ty in V2. cbn in V2. discriminate. }
    destruct (W2 Hcase) as (e & E1 & E2 & _). rewrite E1 in Hin. destruct Hin as [<-|[]]. exact E2.
Qed.

Lemma finish_deps : forall s voi ivs es vidx,
  own_inv ivs es -> Forall (fun v => iv_external v = false) ivs -> ivs_ok s ivs ->
  dependency_fix = true ->
  (forall ivs2, evolves s ivs ivs2 -> forall e1 e2, In e1 es -> same_dep e1 e2 -> ie_type e2 <> EUnknown -> dep_ok s ivs2 e2) ->
  valid_type (r_type (finish s voi ivs es vidx)) = true ->
  wf_deps_complete s (finish s voi ivs es vidx) = true /\ wf_deps_sound s (finish s voi ivs es vidx) = true.
Proof.
  intros s voi ivs es vidx Hown Hne Hok Hfx Hdep Hvalid. unfold finish in *.
  destruct (validate_vars ivs vidx) as [[ivs1 vidx1] iss1] eqn:Ev.
  destruct iss1 as [|i1 ir1].
  2:{ cbn in Hvalid. destruct (existsb _ ivs1); [destruct (existsb _ ivs1)|]; discriminate. }
  destruct (fold_left requalify_step (nla_group ivs1 es) (ivs1, [], [], [])) as [[[ivs2 es2] ov] iss2] eqn:Er.
  destruct iss2 as [|i2 ir2]; [|discriminate].
  destruct (finish_weak s _ _ _ _ _ _ _ _ Hown Hne Ev Er) as (Hev2 & Hne2 & Hpull & Hfe & _).
  pose proof (evolves_ivs_ok _ _ _ Hok Hev2) as Hok2.
  assert (Hdep2 : Forall (dep_ok s ivs2) es2).
  { rewrite Forall_forall. intros e2 He2. destruct (Hpull e2 He2) as (e1 & He1 & (S1 & _)).
    apply (Hdep ivs2 Hev2 e1 e2 He1 S1). apply (Hfe e2 He2). }
  destruct (model_type voi ivs2 es2); try discriminate; apply package_deps; assumption.
Qed.

(** Result-level W5/W6 with the repaired dependency bookkeeping: in every valid result each equation's dependency
    list covers every class its document equation reads (other than the classes it computes itself), lists no class
    it does not read, no class it computes, and only classes that appear among the result's variables.
    [unique_ids s] says that the abstract system gives different ids to different equations (the specification
    function [find_eqn] looks a document equation up by its id). *)
Theorem result_wf_deps : forall s r,
  analyse s = Done r -> valid_type (r_type r) = true -> dependency_fix = true -> unique_ids s ->
  wf_deps_complete s r = true /\ wf_deps_sound s r = true.
Proof.
  intros s r H Hvalid Hfx Huniq. unfold analyse, analyse_ext in H.
  destruct (negb (resolvable s)); [discriminate|].
  destruct (build s) as [[ivs0 es0]|] eqn:Eb; [|discriminate].
  destruct (check_inits s ivs0 0 s); [|inversion H; subst; discriminate].
  cbn [fold_left] in H.
  destruct (vs_issues (analyse_asts s ivs0 es0)) eqn:Ei; [|inversion H; subst; discriminate].
  destruct (loop s (loop_fuel es0) 1 false (mkCs (vs_ivs (analyse_asts s ivs0 es0)) 0 0) es0) as [[st es1]|] eqn:El; [|discriminate].
  inversion H; subst r. clear H.
  destruct (own_inv_initial _ _ _ Eb) as (H0 & Hlen).
  destruct (build_spec _ _ _ Eb) as (B1 & B2 & B3). pose proof (build_fresh _ _ _ Eb) as B4.
  pose proof (build_built _ _ _ Eb) as Hbuilt.
  destruct (analyse_asts_inv s ivs0 es0 B1 B3 B4 B2 Ei) as ((Hok & _ & _ & _ & Hne) & _).
  assert (HA : Forall asts_iv ivs0).
  { eapply Forall_impl; [|exact B4]. intros v ([T|T] & _ & I); split; try exact I; rewrite T; reflexivity. }
  assert (Hpos : forall e d, In e es0 -> In d (ie_diffs e) -> ivar_of s ivs0 (snd d) < length ivs0).
  { intros e d He Hd. rewrite Forall_forall in B2. destruct (B2 e He) as (D & _). rewrite Forall_forall in D.
    destruct (D d Hd) as (_ & R). apply ivar_of_spec; [exact B1|]. apply B3; [exact R|]. apply in_range_comp in R. apply R. }
  destruct (analyse_asts_types s ivs0 es0 HA Hpos) as (T1 & T2 & _).
  set (ivs := vs_ivs (analyse_asts s ivs0 es0)) in *.
  assert (Htypes : forall q, asts_type (iv_type (geti ivs q)) = true).
  { intro q. apply (Forall_geti (fun v => asts_type (iv_type v) = true)); [|reflexivity].
    eapply Forall_impl; [|exact T1]. intros v (A & _). exact A. }
  assert (Hn0 : nonempty_inv ivs es0).
  { intros p _ K. specialize (Htypes p). rewrite K in Htypes. discriminate. }
  assert (Hc0 : noconst ivs).
  { intros q K. specialize (Htypes q). rewrite K in Htypes. discriminate. }
  pose proof (loop_own _ _ _ _ _ _ _ _ El Hne H0) as Hown.
  pose proof (loop_nonempty _ _ _ _ _ _ _ _ El Hne H0 Hn0) as Hn1.
  pose proof (loop_noconst _ _ _ _ _ _ _ _ El (oi_bounds _ _ H0) Hc0) as Hc1.
  destruct (loop_inv _ _ _ _ _ _ _ _ El (oi_bounds _ _ H0)) as (Hev & _).
  pose proof (noext_evolves _ _ _ Hev Hne) as Hne1.
  (* the dependency invariant through the loop *)
  assert (Hcl0 : forall p, iv_cls (geti ivs p) = iv_cls (geti ivs0 p)).
  { intro p. unfold geti. rewrite <- (map_nth iv_cls ivs divar p), <- (map_nth iv_cls ivs0 divar p), T2. reflexivity. }
  assert (Hu0 : Forall uinv es0).
  { eapply Forall_impl; [|exact B2]. intros e (_ & _ & _ & _ & U & _) _. exact U. }
  assert (Hb0 : Forall (vbounded (length ivs)) es0).
  { eapply Forall_impl; [|exact B2]. intros e (_ & V & _). unfold vbounded. rewrite Hlen. exact V. }
  assert (Hd0 : Forall2 (dep_inv s ivs) es0 es0).
  { assert (G : forall l, Forall (fun e => exists cq, built_ok s ivs0 cq e) l -> Forall (eq_ok s (length ivs0)) l -> Forall2 (dep_inv s ivs) l l).
    { induction l as [|e l IH]; intros F1 F2; constructor; inversion F1; inversion F2; subst; [|apply IH; assumption].
      destruct H2 as (cq & _ & Dn & Nd & _). destruct H6 as (_ & _ & _ & _ & U & Ty).
      constructor.
      - exact Nd.
      - apply incl_refl.
      - rewrite Dn. constructor.
      - intros p Hp. left. exact Hp.
      - rewrite Dn. intros d [].
      - intro K. contradiction.
      - intro K. contradiction.
      - reflexivity. }
    apply G; [|exact B2].
    clear - Hbuilt. induction Hbuilt; constructor; [exists x; assumption|assumption]. }
  pose proof (loop_dep _ _ _ _ es0 _ _ _ _ El Hfx Hok (oi_bounds _ _ H0) Hu0 Hb0 Hd0) as Hd1.
  cbn [cs_ivs] in *.
  apply finish_deps; try assumption.
  - eapply evolves_ivs_ok; eassumption.
  - intros ivs2 Hev2 e1 e2 He1 (S1 & S2 & S3 & S4 & S5) Hty2.
    destruct (Forall2_In_r _ _ _ _ Hd1 He1) as (e0 & He0 & [Dn Di Dd Dc Ds Do Dv Did]).
    destruct (Forall2_In_r _ _ _ _ Hbuilt He0) as ((c, q) & Hcq & Bid & _ & _ & Bb & Br). cbn [fst snd] in *.
    assert (Hty1 : ie_type e1 <> EUnknown) by (intro K; apply Hty2; apply S5; exact K).
    assert (Hcl2 : forall p, iv_cls (geti ivs2 p) = iv_cls (geti (cs_ivs st) p)) by (intro p; eapply cls_stable; exact Hev2).
    assert (HclL : forall p, iv_cls (geti (cs_ivs st) p) = iv_cls (geti ivs0 p)).
    { intro p. rewrite (cls_stable _ _ _ p Hev). apply Hcl0. }
    exists (q_id q), c, q. split; [rewrite S1, Did; exact Bid|]. split; [apply find_eqn_unique; assumption|]. split.
    + intros k Hk. apply Br in Hk. unfold pcls in Hk. apply in_map_iff in Hk. destruct Hk as (p & Pk & Pin).
      destruct (Dc p Pin) as [Pv|[Pu|Pd]].
      * left. exists p. split; [rewrite S3; apply Dv; assumption|]. rewrite Hcl2, HclL. exact Pk.
      * left. exists p. split; [rewrite S3; exact Pu|]. rewrite Hcl2, HclL. exact Pk.
      * right. rewrite S2. rewrite HclL, Pk in Pd. exact Pd.
    + intros d Hd. rewrite S2 in Hd. destruct (Ds d Hd) as (p & P1 & P2 & P3). split; [|split].
      * apply Br. unfold pcls. apply in_map_iff. exists p. split; [|exact P1]. rewrite P3, HclL. reflexivity.
      * intros u Hu. rewrite S3 in Hu. rewrite Hcl2. apply Do; assumption.
      * exists p. split; [|rewrite Hcl2; symmetry; exact P3].
        rewrite Forall_forall in Bb. specialize (Bb p P1). destruct Hev2 as (L2 & _). destruct Hev as (L1 & _). cbn [cs_ivs] in *. lia.
Qed.

Theorem result_wf_deps_complete : forall s r,
  analyse s = Done r -> valid_type (r_type r) = true -> dependency_fix = true -> unique_ids s ->
  wf_deps_complete s r = true.
Proof. intros s r H1 H2 H3 H4. exact (proj1 (result_wf_deps s r H1 H2 H3 H4)). Qed.

Theorem result_wf_deps_sound : forall s r,
  analyse s = Done r -> valid_type (r_type r) = true -> dependency_fix = true -> unique_ids s ->
  wf_deps_sound s r = true.
Proof. intros s r H1 H2 H3 H4. exact (proj2 (result_wf_deps s r H1 H2 H3 H4)). Qed.
