(** ValidConnProofs.v — C04 proofs, part 4: validateConnections against ValidSpec.ConnectionsOK. *)
From Coq Require Import String Ascii List Bool Arith ZArith Lia.
From LC Require Import Common NumDefs MathDefs ValidDefs ValidSpec ValidLeaf.
From LCGen Require Import IfaceTable.
Import ListNotations.
Local Open Scope string_scope.
Local Open Scope list_scope.
Local Open Scope nat_scope.

Lemma ploc_eqb_eq : forall a b, ploc_eqb a b = true <-> a = b.
Proof.
  intros [|x] [|y]; simpl; split; intro H; try reflexivity; try discriminate H.
  - apply Nat.eqb_eq in H. subst. reflexivity.
  - inversion H; subst. apply Nat.eqb_refl.
Qed.

Lemma siblings_iff : forall a b, siblings a b = true <-> Sibling a b.
Proof. intros. unfold siblings, Sibling. apply ploc_eqb_eq. Qed.
Lemma child_of_iff : forall a b, child_of a b = true <-> ChildOf a b.
Proof. intros. unfold child_of, ChildOf. apply ploc_eqb_eq. Qed.

(** the three kinds of mapping of [me] *)
Definition e_good (L : list vloc) (me : vloc) (e : eqv) : bool :=
  match lookup_var L (e_to e) with Some o => reachable me o | None => false end.
Definition e_pub (L : list vloc) (me : vloc) (e : eqv) : bool :=
  match lookup_var L (e_to e) with Some o => siblings me o || child_of me o | None => false end.
Definition e_priv (L : list vloc) (me : vloc) (e : eqv) : bool :=
  match lookup_var L (e_to e) with Some o => negb (siblings me o || child_of me o) && child_of o me | None => false end.

Lemma iface_required_spec : forall L me es pub priv,
  iface_required false L me es pub priv =
  if forallb (e_good L me) es then (pub || existsb (e_pub L me) es, priv || existsb (e_priv L me) es)
  else (false, false).
Proof.
  intros L me es. induction es as [|e r IH]; intros pub priv; cbn [iface_required forallb existsb].
  - rewrite !orb_false_r. reflexivity.
  - cbn [andb]. unfold e_good at 1, e_pub at 1, e_priv at 1. destruct (lookup_var L (e_to e)) as [o|]; [|reflexivity].
    unfold reachable. destruct (siblings me o || child_of me o) eqn:E1.
    + rewrite IH. assert (Hr : child_of me o || child_of o me || siblings me o = true).
      { apply orb_true_iff in E1. destruct E1 as [E1|E1]; rewrite E1; rewrite ?orb_true_r; reflexivity. }
      rewrite Hr. cbn [andb negb orb]. destruct (forallb (e_good L me) r); [|reflexivity].
      rewrite !orb_true_r. cbn [orb]. reflexivity.
    + apply orb_false_iff in E1. destruct E1 as [E1 E2]. rewrite E1, E2. cbn [orb negb andb].
      destruct (child_of o me) eqn:E3.
      * rewrite IH. cbn [andb orb]. destruct (forallb (e_good L me) r); [|reflexivity]. rewrite !orb_true_r. reflexivity.
      * cbn [andb]. reflexivity.
Qed.

(* ------------------------------------------------------------------ the interface strings *)

Lemma itype_strings : itype_string IPublic = "public" /\ itype_string IPrivate = "private"
                      /\ itype_string IBoth = "public_and_private".
Proof. vm_compute. repeat split. Qed.

Lemma contains_public : forall i, valid_iface i ->
  (contains "public" i = true <-> i = "public" \/ i = "public_and_private").
Proof.
  intros i [H|H]; [subst; vm_compute; split; [intro H; discriminate H | intros [H|H]; discriminate H]|].
  simpl in H. destruct H as [H|[H|[H|[H|[]]]]]; subst; vm_compute; split; intro H; try reflexivity; try discriminate H;
    try (left; reflexivity); try (right; reflexivity); destruct H as [H|H]; discriminate H.
Qed.
Lemma contains_private : forall i, valid_iface i ->
  (contains "private" i = true <-> i = "private" \/ i = "public_and_private").
Proof.
  intros i [H|H]; [subst; vm_compute; split; [intro H; discriminate H | intros [H|H]; discriminate H]|].
  simpl in H. destruct H as [H|[H|[H|[H|[]]]]]; subst; vm_compute; split; intro H; try reflexivity; try discriminate H;
    try (left; reflexivity); try (right; reflexivity); destruct H as [H|H]; discriminate H.
Qed.
Lemma contains_both : forall i, valid_iface i ->
  (contains "public_and_private" i = true <-> i = "public_and_private").
Proof.
  intros i [H|H]; [subst; vm_compute; split; intro H; discriminate H|].
  simpl in H. destruct H as [H|[H|[H|[H|[]]]]]; subst; vm_compute; split; intro H; try reflexivity; discriminate H.
Qed.

(* ------------------------------------------------------------------ one variable *)

Section One.
  Variable ueq : world -> string -> string -> option bool.
  Variable W : world.
  Variable L : list vloc.
  Variable me : vloc.

  Lemma structure_nil :
    validate_equivalence_structure L me = [] <->
    Forall (fun e => exists o, lookup_var L (e_to e) = Some o) (v_eqs (l_var me)).
  Proof.
    unfold validate_equivalence_structure. rewrite flat_map_nil_iff, !Forall_forall. split; intros H e He; specialize (H e He).
    - destruct (lookup_var L (e_to e)) as [o|]; [exists o; reflexivity | discriminate H].
    - destruct H as [o H]. rewrite H. reflexivity.
  Qed.

  Lemma units_nil :
    validate_equivalence_units ueq W L me = [] <->
    Forall (fun e => forall o, lookup_var L (e_to e) = Some o -> l_import o = false ->
                     forall un un2, v_units (l_var me) = Some un -> v_units (l_var o) = Some un2 -> ueq W un un2 = Some true)
           (v_eqs (l_var me)).
  Proof.
    unfold validate_equivalence_units. destruct (v_units (l_var me)) as [un|].
    - rewrite flat_map_nil_iff, !Forall_forall. split; intros H e He; specialize (H e He).
      + intros o Ho Hi un' un2 Hun Hun2. inversion Hun; subst un'. rewrite Ho, Hi, Hun2 in H.
        destruct (ueq W un un2) as [[|]|]; [reflexivity | discriminate H | discriminate H].
      + destruct (lookup_var L (e_to e)) as [o|] eqn:Ho; [|reflexivity].
        destruct (l_import o) eqn:Hi; [reflexivity|]. destruct (v_units (l_var o)) as [un2|] eqn:Hu; [|reflexivity].
        rewrite (H o eq_refl Hi un un2 eq_refl Hu). reflexivity.
    - split; [|reflexivity]. intros _. rewrite Forall_forall. intros e He o Ho Hi un un2 Hun. discriminate Hun.
  Qed.

  Lemma forallb_good_iff :
    forallb (e_good L me) (v_eqs (l_var me)) = true <->
    Forall (fun e => exists o, lookup_var L (e_to e) = Some o /\ (Sibling me o \/ ChildOf me o \/ ChildOf o me)) (v_eqs (l_var me)).
  Proof.
    rewrite forallb_forall, Forall_forall. split; intros H e He; specialize (H e He).
    - unfold e_good in H. destruct (lookup_var L (e_to e)) as [o|]; [|discriminate H]. exists o. split; [reflexivity|].
      unfold reachable in H. rewrite !orb_true_iff, !child_of_iff, siblings_iff in H. tauto.
    - destruct H as [o [Ho H]]. unfold e_good. rewrite Ho. unfold reachable.
      rewrite !orb_true_iff, !child_of_iff, siblings_iff. tauto.
  Qed.

  Lemma needs_public_iff : existsb (e_pub L me) (v_eqs (l_var me)) = true <-> NeedsPublic L me.
  Proof.
    rewrite existsb_exists. unfold NeedsPublic. split.
    - intros [e [He H]]. unfold e_pub in H. destruct (lookup_var L (e_to e)) as [o|] eqn:Ho; [|discriminate H].
      exists e, o. repeat split; try assumption. rewrite orb_true_iff, siblings_iff, child_of_iff in H. exact H.
    - intros [e [o [He [Ho H]]]]. exists e. split; [exact He|]. unfold e_pub. rewrite Ho.
      rewrite orb_true_iff, siblings_iff, child_of_iff. exact H.
  Qed.

  Lemma needs_private_iff : existsb (e_priv L me) (v_eqs (l_var me)) = true <-> NeedsPrivate L me.
  Proof.
    rewrite existsb_exists. unfold NeedsPrivate. split.
    - intros [e [He H]]. unfold e_priv in H. destruct (lookup_var L (e_to e)) as [o|] eqn:Ho; [|discriminate H].
      exists e, o. apply andb_true_iff in H. destruct H as [H1 H2]. apply negb_true_iff in H1.
      repeat split; try assumption.
      + intro Hc. rewrite <- siblings_iff, <- child_of_iff, <- orb_true_iff in Hc. congruence.
      + apply child_of_iff. exact H2.
    - intros [e [o [He [Ho [H1 H2]]]]]. exists e. split; [exact He|]. unfold e_priv. rewrite Ho.
      apply andb_true_iff. split; [|apply child_of_iff; exact H2]. apply negb_true_iff.
      destruct (siblings me o || child_of me o) eqn:E; [|reflexivity]. exfalso. apply H1.
      rewrite orb_true_iff, siblings_iff, child_of_iff in E. exact E.
  Qed.

  (** validateVariableInterface + validateEquivalenceStructure together (the tree as it is now: no early exit) *)
  Lemma interface_structure_nil : v_eqs (l_var me) <> [] -> valid_iface (v_iface (l_var me)) ->
    (validate_variable_interface false L me ++ validate_equivalence_structure L me = [] <->
     Forall (fun e => exists o, lookup_var L (e_to e) = Some o /\ (Sibling me o \/ ChildOf me o \/ ChildOf o me)) (v_eqs (l_var me))
     /\ InterfaceOK L me).
  Proof.
    intros Hne Hvi. rewrite app_nil_iff, structure_nil. unfold validate_variable_interface.
    rewrite iface_required_spec. cbn [orb].
    destruct (forallb (e_good L me) (v_eqs (l_var me))) eqn:Eg.
    - pose proof (proj1 forallb_good_iff Eg) as HG.
      assert (Hloc : Forall (fun e => exists o, lookup_var L (e_to e) = Some o) (v_eqs (l_var me))).
      { rewrite Forall_forall in *. intros e He. destruct (HG e He) as [o [Ho _]]. exists o. exact Ho. }
      (* at least one of the two flags is set because every mapping is of one of the two kinds *)
      assert (Hsome : existsb (e_pub L me) (v_eqs (l_var me)) = true \/ existsb (e_priv L me) (v_eqs (l_var me)) = true).
      { destruct (v_eqs (l_var me)) as [|e r] eqn:Ee; [exfalso; apply Hne; reflexivity|].
        cbn [forallb] in Eg. apply andb_true_iff in Eg. destruct Eg as [Eg _]. cbn [existsb].
        unfold e_good in Eg. unfold e_pub, e_priv. destruct (lookup_var L (e_to e)) as [o|]; [|discriminate Eg].
        unfold reachable in Eg. destruct (siblings me o || child_of me o) eqn:E1; [left; reflexivity|].
        right. apply orb_false_iff in E1. destruct E1 as [E1 E2]. rewrite E1, E2 in Eg. cbn [orb] in Eg.
        rewrite orb_false_r in Eg. rewrite Eg. reflexivity. }
      unfold InterfaceOK. cbv zeta. rewrite <- needs_public_iff, <- needs_private_iff.
      destruct itype_strings as [Sp [Sv Sb]].
      destruct (existsb (e_pub L me) (v_eqs (l_var me))) eqn:Ep, (existsb (e_priv L me) (v_eqs (l_var me))) eqn:Ev;
        cbn [interface_type_for].
      + rewrite Sb. pose proof (contains_both _ Hvi) as Hc.
        destruct (contains "public_and_private" (v_iface (l_var me))).
        * assert (Hi : v_iface (l_var me) = "public_and_private") by (apply Hc; reflexivity). rewrite Hi. intuition.
        * split; [intros [H _]; discriminate H|]. intros [_ [H1 H2]]. exfalso.
          assert (Hi : v_iface (l_var me) = "public_and_private").
          { destruct (H1 eq_refl) as [H|H]; [|exact H]. destruct (H2 eq_refl) as [H'|H']; [rewrite H in H'; discriminate H' | exact H']. }
          apply Hc in Hi. discriminate Hi.
      + rewrite Sp. pose proof (contains_public _ Hvi) as Hc.
        destruct (contains "public" (v_iface (l_var me))).
        * assert (Hi : v_iface (l_var me) = "public" \/ v_iface (l_var me) = "public_and_private") by (apply Hc; reflexivity).
          intuition discriminate.
        * split; [intros [H _]; discriminate H|]. intros [_ [H1 _]]. exfalso.
          assert (false = true) by (apply Hc; apply H1; reflexivity). discriminate.
      + rewrite Sv. pose proof (contains_private _ Hvi) as Hc.
        destruct (contains "private" (v_iface (l_var me))).
        * assert (Hi : v_iface (l_var me) = "private" \/ v_iface (l_var me) = "public_and_private") by (apply Hc; reflexivity).
          intuition discriminate.
        * split; [intros [H _]; discriminate H|]. intros [_ [_ H2]]. exfalso.
          assert (false = true) by (apply Hc; apply H2; reflexivity). discriminate.
      + destruct Hsome as [H|H]; discriminate H.
    - cbn [interface_type_for]. split.
      + intros [H1 H2]. exfalso.
        (* every mapping is located (structure) and none raised the unreachable issue: then all are good *)
        assert (Hall : forallb (e_good L me) (v_eqs (l_var me)) = true).
        { apply forallb_forall. intros e He. rewrite flat_map_nil_iff, Forall_forall in H1. specialize (H1 e He).
          rewrite Forall_forall in H2. destruct (H2 e He) as [o Ho]. unfold e_good. rewrite Ho in *.
          destruct (reachable me o); [reflexivity | discriminate H1]. }
        congruence.
      + intros [HG _]. apply forallb_good_iff in HG. congruence.
  Qed.
End One.

(* ------------------------------------------------------------------ validateConnections *)

Lemma validate_connections_nil : forall ueq W,
  (forall me, In me (model_locs (model_at W 0)) -> l_import me = false -> valid_iface (v_iface (l_var me))) ->
  (validate_connections ueq false W = [] <-> ConnectionsOK ueq W).
Proof.
  intros ueq W Hvi. unfold validate_connections, ConnectionsOK. cbv zeta.
  set (L := model_locs (model_at W 0)) in *.
  rewrite flat_map_nil_iff, Forall_forall. split.
  - intros H me Hme Himp. specialize (H me Hme). rewrite Himp in H.
    destruct (v_eqs (l_var me)) as [|e r] eqn:Ee.
    + split; [constructor|]. unfold InterfaceOK, NeedsPublic, NeedsPrivate. rewrite Ee. split; intros [e [o [[] _]]].
    + rewrite <- Ee in *. rewrite app_assoc in H.
      assert (Hne : v_eqs (l_var me) <> []) by (rewrite Ee; intro H0; discriminate H0).
      (* reorder: interface ++ units ++ structure *)
      assert (H' : validate_variable_interface false L me ++ validate_equivalence_structure L me = []
                   /\ validate_equivalence_units ueq W L me = []).
      { apply app_nil_iff in H. destruct H as [H1 H2]. apply app_nil_iff in H1. destruct H1 as [H1 H3].
        split; [apply app_nil_iff; split; assumption | assumption]. }
      destruct H' as [H1 H2]. apply (interface_structure_nil ueq W L me Hne (Hvi me Hme Himp)) in H1.
      destruct H1 as [HG HI]. split; [|exact HI]. apply units_nil in H2.
      rewrite Forall_forall in *. intros e' He'. destruct (HG e' He') as [o [Ho Hr]]. exists o. split; [exact Ho|].
      split; [exact Hr|]. intros Hio un un2 Hun Hun2. apply (H2 e' He' o Ho Hio un un2 Hun Hun2).
  - intros H me Hme.
    assert (Hmain : v_eqs (l_var me) <> [] -> l_import me = false ->
                    validate_variable_interface false L me ++ validate_equivalence_units ueq W L me
                    ++ validate_equivalence_structure L me = []).
    { intros Hne Himp. destruct (H me Hme Himp) as [HM HI].
      assert (H1 : validate_variable_interface false L me ++ validate_equivalence_structure L me = []).
      { apply (interface_structure_nil ueq W L me Hne (Hvi me Hme Himp)). split; [|exact HI].
        rewrite Forall_forall in *. intros e' He'. destruct (HM e' He') as [o [Ho [Hr _]]]. exists o. split; assumption. }
      assert (H2 : validate_equivalence_units ueq W L me = []).
      { apply units_nil. rewrite Forall_forall in *. intros e' He' o Ho Hio un un2 Hun Hun2.
        destruct (HM e' He') as [o' [Ho' [_ Hu]]]. rewrite Ho in Ho'. inversion Ho'; subst o'. apply Hu; assumption. }
      apply app_nil_iff in H1. destruct H1 as [H1 H3]. rewrite H1, H2, H3. reflexivity. }
    destruct (v_eqs (l_var me)) as [|e r] eqn:Ee; [reflexivity|].
    destruct (l_import me) eqn:Himp; [reflexivity|]. apply Hmain; [intro H0; discriminate H0 | reflexivity].
Qed.
