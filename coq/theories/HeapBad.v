(** HeapBad.v — C09: a bad argument (null, out of range, unknown name, not a child) makes the call a no-op that
    returns the refusal value.  No hypothesis on the state: this holds in every state, well-formed or not. *)
From Coq Require Import List String Bool Arith PeanoNat Lia.
From LC Require Import HeapDefs HeapBase.
Import ListNotations.

Lemma isnone_true : forall {A} (o : option A), isnone o = true -> o = None.
Proof. intros A o H. destruct o; [discriminate|reflexivity]. Qed.

Lemma is_refused_true : forall {A} (r : local A), is_refused r = true -> r = LRefused.
Proof. intros A r H. destruct r; try discriminate. reflexivity. Qed.

(** if g refuses wherever f does, the search with g finds nothing where the search with f found nothing *)
Lemma deep_mono : forall {A B} fuel s (f : nat -> local A) (g : nat -> local B),
  (forall k', f k' = LRefused -> g k' = LRefused) ->
  forall k, deep fuel s f k = LRefused -> deep fuel s g k = LRefused.
Proof.
  intros A B fuel s f g Hfg. induction fuel as [|fu IH]; intros k H; cbn [deep] in *; [discriminate|].
  revert H. generalize (children s CComps k). intros l. induction l as [|c t IHl]; intros H; cbn in *; [reflexivity|].
  destruct (f c) as [a| |] eqn:Ef; try discriminate. rewrite (Hfg _ Ef).
  destruct (deep fu s f c) as [a| |] eqn:Ed; try discriminate. rewrite (IH _ Ed). apply IHl. exact H.
Qed.

Lemma with_deep_mono : forall {A B} s dp (f : nat -> local A) (g : nat -> local B),
  (forall k', f k' = LRefused -> g k' = LRefused) ->
  forall k, with_deep s dp f k = LRefused -> with_deep s dp g k = LRefused.
Proof.
  intros A B s dp f g Hfg k H. unfold with_deep in *. destruct (f k) as [a| |] eqn:Ef; try discriminate.
  rewrite (Hfg _ Ef). destruct dp; [|reflexivity]. eapply deep_mono; eauto.
Qed.

Section Bad.
  Variable seq : state -> nat -> nat -> bool.

  Lemma oob_detach : forall s K k i, oob s K k i = true -> detach_at s K k i = None.
  Proof. intros s K k i H. apply isnone_true in H. unfold detach_at. rewrite H. reflexivity. Qed.

  Lemma replace_at_refused : forall s K k io co,
    (co = None \/ io = None \/ (exists i, io = Some i /\ oob s K k i = true)) ->
    replace_at true seq s K k io co = LRefused.
  Proof.
    intros s K k io co H. unfold replace_at. destruct io as [i|]; [|reflexivity].
    destruct (nth_error (children s K k) i) as [old|] eqn:E; [|reflexivity].
    destruct H as [->|[H|[j [Hj Ho]]]]; [reflexivity|discriminate|].
    inversion Hj; subst j. apply isnone_true in Ho. congruence.
  Qed.

  Lemma nowhere_refused : forall {B} s dp k nonnull finder (g : nat -> local B),
    nowhere s dp k nonnull finder = true ->
    (forall k', (if nonnull then of_opt (finder k') else LRefused) = LRefused -> g k' = LRefused) ->
    with_deep s dp g k = LRefused.
  Proof.
    intros B s dp k nonnull finder g H Hg. unfold nowhere in H. apply is_refused_true in H.
    exact (with_deep_mono s dp _ g Hg k H).
  Qed.

  Lemma of_opt_refused : forall {A} (o : option A), of_opt o = LRefused -> o = None.
  Proof. intros A o H. destruct o; [discriminate|reflexivity]. Qed.

  Ltac guard_or_ill :=
    match goal with |- (if ?c then _ else _) = _ \/ _ => destruct c; [left|right; reflexivity] end.

  (** state unchanged, refusal value returned (or the call is not one a caller can make: RIll, state unchanged) *)
  Theorem bad_arg_noop : forall s o, bad_arg true seq s o = true ->
    step true seq s o = Ok s (refusal o) \/ step true seq s o = Ok s RIll.
  Proof.
    intros s o H. destruct o; cbn [bad_arg] in H; try discriminate; cbn [step refusal]; guard_or_ill.
    - (* AddComponent *) apply isnone_true in H. subst. reflexivity.
    - (* RemoveComponentIdx *) unfold remove_at. rewrite (oob_detach _ _ _ _ H). reflexivity.
    - (* RemoveComponentName *)
      rewrite (nowhere_refused s deep k true _ (fun k' => of_opt (remove_at s CComps k' (find_named s CComps k' n))) H); [reflexivity|].
      intros k' E. apply of_opt_refused in E. rewrite E. reflexivity.
    - (* RemoveComponentPtr *) destruct c as [x|].
      + change (nowhere s deep k true (fun k' => find_child true seq s CComps k' x) = true) in H.
        rewrite (nowhere_refused s deep k true _ (fun k' => of_opt (remove_ptr_local true seq s CComps k' x)) H); [reflexivity|].
        intros k' E. apply of_opt_refused in E. unfold remove_ptr_local. rewrite E. reflexivity.
      + destruct deep; [|reflexivity].
        change (nowhere s true k false (fun k' => optfind true seq s CComps k' None) = true) in H.
        rewrite (nowhere_refused s true k false _ (fun _ => @LRefused state) H); [reflexivity|auto].
    - (* TakeComponentIdx *) unfold take_at. rewrite (oob_detach _ _ _ _ H). reflexivity.
    - (* TakeComponentName *)
      rewrite (nowhere_refused s deep k true _ (fun k' => of_opt (take_at s CComps k' (find_named s CComps k' n))) H); [reflexivity|].
      intros k' E. apply of_opt_refused in E. rewrite E. reflexivity.
    - (* ReplaceComponentIdx *) rewrite replace_at_refused; [reflexivity|].
      apply orb_true_iff in H. destruct H as [H|H]; [right; right; eauto|left; apply isnone_true; assumption].
    - (* ReplaceComponentName *)
      rewrite (nowhere_refused s deep k _ _ (fun k' => replace_at true seq s CComps k' (find_named s CComps k' n) c) H); [reflexivity|].
      intros k' E. apply replace_at_refused. destruct c; cbn in E; [right; left; apply of_opt_refused; assumption|left; reflexivity].
    - (* ReplaceComponentPtr *)
      rewrite (nowhere_refused s deep k _ _ (fun k' => replace_at true seq s CComps k'
                 (match old with Some x => find_child true seq s CComps k' x | None => None end) c) H); [reflexivity|].
      intros k' E. apply replace_at_refused. destruct c; cbn in E; [right; left; apply of_opt_refused; assumption|left; reflexivity].
    - (* AddVariable *) apply isnone_true in H. subst. reflexivity.
    - unfold remove_at. rewrite (oob_detach _ _ _ _ H). reflexivity.
    - apply isnone_true in H. rewrite H. reflexivity.
    - destruct v as [x|]; [|reflexivity]. cbn [optfind] in H. apply isnone_true in H. unfold remove_ptr_local. rewrite H. reflexivity.
    - unfold take_at. rewrite (oob_detach _ _ _ _ H). reflexivity.
    - apply isnone_true in H. rewrite H. reflexivity.
    - (* AddReset *) apply isnone_true in H. subst. reflexivity.
    - unfold remove_at. rewrite (oob_detach _ _ _ _ H). reflexivity.
    - destruct r as [x|]; [|reflexivity]. cbn [optfind] in H. apply isnone_true in H. unfold remove_ptr_local. rewrite H. reflexivity.
    - unfold take_at. rewrite (oob_detach _ _ _ _ H). reflexivity.
    - (* AddUnits *) apply isnone_true in H. subst. reflexivity.
    - unfold remove_at. rewrite (oob_detach _ _ _ _ H). reflexivity.
    - apply isnone_true in H. rewrite H. reflexivity.
    - destruct u as [x|]; [|reflexivity]. cbn [optfind] in H. apply isnone_true in H. unfold remove_ptr_local. rewrite H. reflexivity.
    - unfold take_at. rewrite (oob_detach _ _ _ _ H). reflexivity.
    - apply isnone_true in H. rewrite H. reflexivity.
    - (* ReplaceUnitsIdx *) rewrite replace_at_refused; [reflexivity|].
      apply orb_true_iff in H. destruct H as [H|H]; [right; right; eauto|left; apply isnone_true; assumption].
    - (* ReplaceUnitsName *) rewrite replace_at_refused; [reflexivity|].
      apply orb_true_iff in H. destruct H as [H|H]; [left; apply isnone_true; assumption|right; left; apply isnone_true; assumption].
    - (* ReplaceUnitsPtr *) rewrite replace_at_refused; [reflexivity|].
      apply orb_true_iff in H. destruct H as [H|H]; [left; apply isnone_true; assumption|right; left].
      apply isnone_true in H. destruct old; exact H.
    - (* AddEquivalence *) destruct a; [destruct b; [discriminate|reflexivity]|reflexivity].
    - destruct a; [destruct b; [discriminate|reflexivity]|reflexivity].
    - destruct a; [destruct b; [discriminate|reflexivity]|reflexivity].
  Qed.
End Bad.
