(** EquivSpec.v — C18: the vocabulary of the property statements (definitions only, no proofs).
    What "linked by a chain of variable equivalences" means, what a good cache key is, and which
    graphs / histories the theorems quantify over. *)
From Coq Require Import List Arith NArith Relations.
From LC Require Import KeyDefs GraphDefs.
Import ListNotations.

(** A key function identifies two pairs of addresses only if they are the same unordered pair. *)
Definition inj_unordered {K : Type} (key : N -> N -> K) : Prop :=
  forall a b c d, key a b = key c d -> (a = c /\ b = d) \/ (a = d /\ b = c).

(** Cache invariant: every stored entry is the true answer of some query that has that key.
    (The cache of a fresh AnalyserModel is empty; the analysis itself fills it through the same
    function before the user asks anything, which is why the theorems start from any cache with
    this invariant and not only from the empty one.) *)
Definition cache_inv {V K R : Type} (key : V -> V -> K) (compute : V -> V -> R) (c : cache K R) : Prop :=
  forall k r, In (k, r) c -> exists a b, key a b = k /\ r = compute a b.

(** [edge g x y]: y is returned by x.equivalentVariable(i) for some i (live entries only). *)
Definition edge (g : graph) (x y : nat) : Prop := In y (eqv g x).
(** a chain of equivalences followed in the direction of the lists *)
Definition reach (g : graph) : nat -> nat -> Prop := clos_refl_trans nat (edge g).
(** a chain of equivalences, each followed in either direction (the connection graph) *)
Definition connected (g : graph) : nat -> nat -> Prop := clos_refl_sym_trans nat (edge g).

Definition symmetric (g : graph) : Prop := forall x y, edge g x y -> edge g y x.
(** every variable that occurs in a live list is one of the [n] variables of the model *)
Definition bounded (g : graph) (n : nat) : Prop := forall v w, edge g v w -> w < n.

(** queries about the [n] variables of the model *)
Definition in_range (n : nat) (qs : list (nat * nat)) : Prop :=
  forall a b, In (a, b) qs -> a < n /\ b < n.

(** construction / edit steps about the [n] variables of the model *)
Definition op_below (n : nat) (o : op) : Prop :=
  match o with
  | AddEq a b | RemEq a b | AddEq4 a b | IdOp a b => a < n /\ b < n
  | Expire a | RemAll a => a < n
  | Reparse => True
  end.

(** well-formedness of the weak lists, kept by every edit (GraphProofs.step_wf) *)
Definition dead_empty (g : graph) : Prop := forall x, alive g x = false -> wadj g x = [].
Definition nodup_lists (g : graph) : Prop := forall x, NoDup (eqv g x).
Definition irreflexive (g : graph) : Prop := forall x, ~ edge g x x.
Definition wf (g : graph) : Prop := dead_empty g /\ symmetric g /\ nodup_lists g /\ irreflexive g.

(** What an edit means for the connection graph (the edges after, in terms of the edges before). *)
Definition spec_edge (g : graph) (o : op) (x y : nat) : Prop :=
  match o with
  | AddEq a b | AddEq4 a b => edge g x y \/
                 (alive g a = true /\ alive g b = true /\ a <> b /\ ((x = a /\ y = b) \/ (x = b /\ y = a)))
  | RemEq a b => edge g x y /\ ~ ((x = a /\ y = b) \/ (x = b /\ y = a))
  | RemAll a | Expire a => edge g x y /\ x <> a /\ y <> a
  | IdOp _ _ | Reparse => edge g x y
  end.

(** Histories of edits and questions. *)
Definition event_below (n : nat) (e : event) : Prop :=
  match e with Edit o => op_below n o | Ask _ a b => a < n /\ b < n end.

(** the graph each question of a history is asked on *)
Fixpoint graph_trace (n : nat) (g : graph) (h : list event) : list (graph * qkind * nat * nat) :=
  match h with
  | [] => []
  | Edit o :: t => graph_trace n (freeze n (step g o)) t
  | Ask k a b :: t => (g, k, a, b) :: graph_trace n g t
  end.

(** the right answer to a question on a given graph *)
Definition ask_spec (g : graph) (k : qkind) (a b : nat) (r : bool) : Prop :=
  match k with
  | QIndirect => r = true <-> a <> b /\ connected g a b
  | QDirect => r = true <-> edge g a b
  | QUtil | QCached => r = true <-> a = b \/ connected g a b
  end.

Definition answered (q : graph * qkind * nat * nat) (r : option bool) : Prop :=
  let '(g, k, a, b) := q in exists r0, r = Some r0 /\ ask_spec g k a b r0.

(** The same history without its identifier operations: 4-argument adds become plain adds, identifier
    edits and re-parsing disappear. *)
Definition strip_op (o : op) : option op :=
  match o with
  | AddEq4 a b => Some (AddEq a b)
  | IdOp _ _ | Reparse => None
  | _ => Some o
  end.

Fixpoint strip_ids (h : list event) : list event :=
  match h with
  | [] => []
  | Edit o :: t => match strip_op o with Some o' => Edit o' :: strip_ids t | None => strip_ids t end
  | Ask k a b :: t => Ask k a b :: strip_ids t
  end.
