(** EquivSpec.v — C18: the vocabulary of the property statements (definitions only, no proofs).
    What "linked by a chain of variable equivalences" means, what a good cache key is, and which
    graphs / histories the theorems quantify over. *)
From Coq Require Import List Arith NArith Relations.
From LC Require Import KeyDefs GraphDefs.
Import ListNotations.

(** A key function identifies two pairs of addresses only if they are the same unordered pair. *)
Definition inj_unordered {K : Type} (key : N -> N -> K) : Prop :=
  forall a b c d, key a b = key c d -> (a = c /\ b = d) \/ (a = d /\ b = c).

(** Cache invariant: every stored entry is the true answer of some query that has that key.
    (The cache of a fresh AnalyserModel is empty; the analysis itself fills it through the same
    function before the user asks anything, which is why the theorems start from any cache with
    this invariant and not only from the empty one.) *)
Definition cache_inv {V K R : Type} (key : V -> V -> K) (compute : V -> V -> R) (c : cache K R) : Prop :=
  forall k r, In (k, r) c -> exists a b, key a b = k /\ r = compute a b.

(** [edge g x y]: y is returned by x.equivalentVariable(i) for some i (live entries only). *)
Definition edge (g : graph) (x y : nat) : Prop := In y (eqv g x).
(** a chain of equivalences followed in the direction of the lists *)
Definition reach (g : graph) : nat -> nat -> Prop := clos_refl_trans nat (edge g).
(** a chain of equivalences, each followed in either direction (the connection graph) *)
Definition connected (g : graph) : nat -> nat -> Prop := clos_refl_sym_trans nat (edge g).

Definition symmetric (g : graph) : Prop := forall x y, edge g x y -> edge g y x.
(** every variable that occurs in a live list is one of the [n] variables of the model *)
Definition bounded (g : graph) (n : nat) : Prop := forall v w, edge g v w -> w < n.

(** queries about the [n] variables of the model *)
Definition in_range (n : nat) (qs : list (nat * nat)) : Prop :=
  forall a b, In (a, b) qs -> a < n /\ b < n.

(** construction steps about the [n] variables of the model *)
Definition op_below (n : nat) (o : op) : Prop :=
  match o with AddEq a b => a < n /\ b < n | Expire a => a < n end.
