(** EqualsValuesProofs.v — C10 at full strength for ANY comparison of doubles.

    The earlier theorems assume that the comparison [neq] of exponents / multipliers is an equivalence on ALL
    rationals ([neq_laws]).  The code's areNearlyEqual is not (one-ulp and absolute-epsilon chains), so those
    theorems say nothing about it directly.  Here [neq] is ARBITRARY and the hypothesis is a decidable premise on
    the INPUTS: on the finite list V of exponents / multipliers that occur in the entities compared, [neq] behaves
    as an equivalence ([equiv_on]; boolean checker [equiv_onb]) — i.e. the values are identical or further apart
    than the tolerance, no chains.  Then the repaired equals is reflexive, symmetric, transitive and permutation
    invariant on those entities.  Proof: [neq] restricted to V extends to a comparison that is an equivalence
    everywhere ([extend]) and equals only ever applies the comparison to values of its operands (EqualsExt). *)
From Coq Require Import String List Bool ZArith QArith Arith Permutation Lia.
From LC Require Import EqualsDefs EqualsSpec EqualsProofs EqualsSimProofs EqualsCorrect EqualsAsIs EqualsExt.
Import ListNotations.
Local Close Scope Q_scope.
Local Open Scope bool_scope.

Definition equiv_on (neq : Q -> Q -> bool) (V : list Q) : Prop :=
  (forall x, In x V -> neq x x = true)
  /\ (forall x y, In x V -> In y V -> neq x y = true -> neq y x = true)
  /\ (forall x y z, In x V -> In y V -> In z V -> neq x y = true -> neq y z = true -> neq x z = true).

(** the premise is decidable *)
Definition equiv_onb (neq : Q -> Q -> bool) (V : list Q) : bool :=
  forallb (fun x => neq x x) V
  && forallb (fun x => forallb (fun y => implb (neq x y) (neq y x)) V) V
  && forallb (fun x => forallb (fun y => forallb (fun z => implb (neq x y && neq y z) (neq x z)) V) V) V.

Lemma equiv_onb_sound : forall neq V, equiv_onb neq V = true -> equiv_on neq V.
Proof.
  intros neq V H. unfold equiv_onb in H. rewrite !andb_true_iff in H. destruct H as [[H1 H2] H3].
  rewrite forallb_forall in H1, H2, H3. repeat split.
  - exact H1.
  - intros x y Hx Hy Hxy. specialize (H2 x Hx). rewrite forallb_forall in H2. specialize (H2 y Hy).
    rewrite Hxy in H2. exact H2.
  - intros x y z Hx Hy Hz Hxy Hyz. specialize (H3 x Hx). rewrite forallb_forall in H3. specialize (H3 y Hy).
    rewrite forallb_forall in H3. specialize (H3 z Hz). rewrite Hxy, Hyz in H3. exact H3.
Qed.

Lemma equiv_onb_complete : forall neq V, equiv_on neq V -> equiv_onb neq V = true.
Proof.
  intros neq V (H1 & H2 & H3). unfold equiv_onb. rewrite !andb_true_iff. repeat split; rewrite forallb_forall.
  - exact H1.
  - intros x Hx. rewrite forallb_forall. intros y Hy. destruct (neq x y) eqn:Hxy; [|reflexivity].
    cbn. apply H2; assumption.
  - intros x Hx. rewrite forallb_forall. intros y Hy. rewrite forallb_forall. intros z Hz.
    destruct (neq x y) eqn:Hxy; [|reflexivity]. destruct (neq y z) eqn:Hyz; [|reflexivity]. cbn.
    exact (H3 x y z Hx Hy Hz Hxy Hyz).
Qed.

(** membership in V (identical rationals) *)
Definition memq (V : list Q) (x : Q) : bool := existsb (q_same x) V.

Lemma q_same_refl : forall x, q_same x x = true.
Proof. exact (neq_refl q_same q_same_laws). Qed.

Lemma memq_In : forall V x, memq V x = true <-> In x V.
Proof.
  intros V x. unfold memq. rewrite existsb_exists. split.
  - intros (y & Hy & Hq). apply q_same_eq in Hq. subst. exact Hy.
  - intros H. exists x. split; [exact H|apply q_same_refl].
Qed.

(** [neq] on V, identity elsewhere *)
Definition extend (neq : Q -> Q -> bool) (V : list Q) (x y : Q) : bool :=
  if memq V x && memq V y then neq x y else q_same x y.

Lemma extend_on : forall neq V x y, In x V -> In y V -> extend neq V x y = neq x y.
Proof.
  intros neq V x y Hx Hy. unfold extend. rewrite (proj2 (memq_In V x) Hx), (proj2 (memq_In V y) Hy). reflexivity.
Qed.

Lemma extend_off : forall neq V x y, extend neq V x y = true -> (In x V /\ In y V /\ neq x y = true) \/ x = y.
Proof.
  intros neq V x y H. unfold extend in H. destruct (memq V x && memq V y) eqn:Hm.
  - left. rewrite andb_true_iff in Hm. destruct Hm as [Hx Hy]. rewrite memq_In in Hx, Hy. auto.
  - right. apply q_same_eq. exact H.
Qed.

Lemma extend_laws : forall neq V, equiv_on neq V -> neq_laws (extend neq V).
Proof.
  intros neq V (Hr & Hs & Ht). split.
  - intros x. unfold extend. destruct (memq V x) eqn:Hx; cbn [andb]; [|apply q_same_refl].
    apply Hr. apply memq_In. exact Hx.
  - intros x y H. destruct (extend_off _ _ _ _ H) as [(Hx & Hy & Hn)|Heq].
    + rewrite extend_on by assumption. apply Hs; assumption.
    + subst. exact H.
  - intros x y z H1 H2.
    destruct (extend_off _ _ _ _ H1) as [(Hx & Hy & Hn1)|Heq1]; [|subst; exact H2].
    destruct (extend_off _ _ _ _ H2) as [(Hy' & Hz & Hn2)|Heq2]; [|subst; exact H1].
    rewrite extend_on by assumption. exact (Ht x y z Hx Hy Hz Hn1 Hn2).
Qed.

(** the transfer: on entities whose exponents / multipliers all lie in V, equals with [neq] IS equals with a
    comparison that is an equivalence everywhere — whatever the switches *)
Theorem equals_transfer : forall neq V, equiv_on neq V ->
  exists neq', neq_laws neq' /\
    forall fl a b, incl (doubles_e a) V -> incl (doubles_e b) V -> eq_entity neq fl a b = eq_entity neq' fl a b.
Proof.
  intros neq V HV. exists (extend neq V). split; [apply extend_laws; exact HV|].
  intros fl a b Ha Hb. apply ext_entity. intros x y Hx Hy. apply Ha in Hx. apply Hb in Hy.
  rewrite !extend_on by assumption. split; reflexivity.
Qed.

(** equals is an equivalence relation for ANY comparison of doubles, on entities whose values are free of
    tolerance chains (decidable premise on the three entities) *)
Theorem equals_equivalence_on_values : forall neq a b c,
  equiv_on neq (doubles_e a ++ doubles_e b ++ doubles_e c) ->
  eq_entity neq flags_fixed a a = true
  /\ eq_entity neq flags_fixed a b = eq_entity neq flags_fixed b a
  /\ (eq_entity neq flags_fixed a b = true -> eq_entity neq flags_fixed b c = true -> eq_entity neq flags_fixed a c = true).
Proof.
  intros neq a b c HV. destruct (equals_transfer neq _ HV) as (neq' & L & T).
  assert (Ia : incl (doubles_e a) (doubles_e a ++ doubles_e b ++ doubles_e c)) by (apply incl_appl; apply incl_refl).
  assert (Ib : incl (doubles_e b) (doubles_e a ++ doubles_e b ++ doubles_e c)) by (apply incl_appr; apply incl_appl; apply incl_refl).
  assert (Ic : incl (doubles_e c) (doubles_e a ++ doubles_e b ++ doubles_e c)) by (apply incl_appr; apply incl_appr; apply incl_refl).
  rewrite (T flags_fixed a a Ia Ia), (T flags_fixed a b Ia Ib), (T flags_fixed b a Ib Ia), (T flags_fixed b c Ib Ic), (T flags_fixed a c Ia Ic).
  split; [apply equals_refl; exact L|]. split; [apply equals_sym; exact L|apply equals_trans; exact L].
Qed.

(** ... and invariant under any permutation of any child list at any depth *)
Theorem equals_perm_invariant_on_values : forall neq a a' b,
  equiv_on neq (doubles_e a ++ doubles_e a' ++ doubles_e b) -> shuffled a a' ->
  eq_entity neq flags_fixed a a' = true /\ eq_entity neq flags_fixed a' a = true
  /\ eq_entity neq flags_fixed a' b = eq_entity neq flags_fixed a b
  /\ eq_entity neq flags_fixed b a' = eq_entity neq flags_fixed b a.
Proof.
  intros neq a a' b HV Hs. destruct (equals_transfer neq _ HV) as (neq' & L & T).
  assert (Ia : incl (doubles_e a) (doubles_e a ++ doubles_e a' ++ doubles_e b)) by (apply incl_appl; apply incl_refl).
  assert (Ia' : incl (doubles_e a') (doubles_e a ++ doubles_e a' ++ doubles_e b)) by (apply incl_appr; apply incl_appl; apply incl_refl).
  assert (Ib : incl (doubles_e b) (doubles_e a ++ doubles_e a' ++ doubles_e b)) by (apply incl_appr; apply incl_appr; apply incl_refl).
  rewrite (T flags_fixed a a' Ia Ia'), (T flags_fixed a' a Ia' Ia), (T flags_fixed a' b Ia' Ib), (T flags_fixed a b Ia Ib),
    (T flags_fixed b a' Ib Ia'), (T flags_fixed b a Ib Ia).
  apply equals_perm_invariant; assumption.
Qed.

(** the premise cannot be dropped: with the code's absolute tolerance and values that chain, transitivity fails *)
Lemma equivalence_on_values_refuted :
  exists a b c, equiv_onb neq_abs (doubles_e a ++ doubles_e b ++ doubles_e c) = false
    /\ eq_entity neq_abs flags_fixed a b = true /\ eq_entity neq_abs flags_fixed b c = true
    /\ eq_entity neq_abs flags_fixed a c = false.
Proof.
  exists (w_u (1 # 9007199254740992)%Q), (w_u (3 # 9007199254740992)%Q), (w_u (5 # 9007199254740992)%Q).
  vm_compute. auto.
Qed.

(** non-vacuity: the code's comparison (not an equivalence, see neq_abs_not_transitive) on far-apart values *)
Example equivalence_on_values_nonvacuous :
  let a := w_u 1%Q in let b := w_u (1 # 2)%Q in let c := w_u 1000%Q in
  equiv_onb neq_abs (doubles_e a ++ doubles_e b ++ doubles_e c) = true
  /\ eq_entity neq_abs flags_fixed a a = true /\ eq_entity neq_abs flags_fixed a b = false.
Proof. vm_compute. auto. Qed.
