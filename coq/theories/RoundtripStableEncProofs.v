(** RoundtripStableEncProofs.v — the second print beyond flat models (C02): models with an encapsulation hierarchy of
    any depth (no imports, no connections).  The model the strict parser builds from the printed document
    ([reparsed E m]: canon m with the hierarchy heads moved behind the childless top-level components) is printable
    again, and printing it and parsing again gives EXACTLY itself, without issues: from the second print on the
    document is a fixed point.  The FIRST print is not (the top-level order may change once): [first_print_differs].
    Hypotheses on the environment as in RoundtripStableProofs (satisfiable: E_stable). *)
From Coq Require Import String Ascii List Bool ZArith Arith Lia Permutation.
From LC Require Import Common NumDefs XmlDefs EntTreeDefs PrintDefs LoadDefs RoundtripSpec XmlTextProofs
     RoundtripReadProofs RoundtripLoadProofs RoundtripFlatProofs RoundtripEncProofs RoundtripStableProofs.
Import ListNotations.
Local Open Scope string_scope.
Local Open Scope bool_scope.
Local Open Scope list_scope.

Opaque str_ok num_ok order_ok math_ok isrc_ok.

Lemma forallb_perm : forall {A} (P : A -> bool) l l', Permutation l l' -> forallb P l = forallb P l'.
Proof.
  intros A P l l' H. induction H; cbn [forallb]; try congruence.
  destruct (P x), (P y); reflexivity.
Qed.

Lemma existsb_perm : forall {A} (P : A -> bool) l l', Permutation l l' -> existsb P l = existsb P l'.
Proof.
  intros A P l l' H. induction H; cbn [existsb]; try congruence.
  destruct (P x), (P y); reflexivity.
Qed.

Lemma NoDup_names_distinct : forall l, NoDup l -> names_distinct l = true.
Proof.
  induction 1 as [|x r Hn Hnd IH]; [reflexivity|]. cbn [names_distinct]. rewrite IH, andb_true_r.
  apply negb_true_iff. apply not_true_is_false. intros He. apply existsb_exists in He. destruct He as (y & Hy & Heq).
  apply String.eqb_eq in Heq. subst. contradiction.
Qed.

Lemma forallb_snd : forall {A B} (P : B -> bool) (l : list (A * B)), forallb (fun pc => P (snd pc)) l = forallb P (map snd l).
Proof. induction l as [|x l IH]; [reflexivity|]. cbn [forallb map]. now rewrite IH. Qed.

Lemma flat_map_snd : forall {A B C} (g : B -> list C) (l : list (A * B)), flat_map (fun pc => g (snd pc)) l = flat_map g (map snd l).
Proof. induction l as [|x l IH]; [reflexivity|]. cbn [flat_map map]. now rewrite IH. Qed.

Lemma filter_same : forall {A} (f : A -> bool) l, filter f (filter f l) = filter f l.
Proof. induction l as [|x l IH]; [reflexivity|]. cbn [filter]. destruct (f x) eqn:Ex; cbn [filter]; [rewrite Ex|]; now rewrite IH. Qed.

Lemma filter_pos_neg : forall {A} (f : A -> bool) l, filter f (filter (fun x => negb (f x)) l) = [].
Proof. induction l as [|x l IH]; [reflexivity|]. cbn [filter]. destruct (f x) eqn:Ex; cbn [negb filter]; [|rewrite Ex]; exact IH. Qed.

Lemma filter_neg_pos : forall {A} (f : A -> bool) l, filter (fun x => negb (f x)) (filter f l) = [].
Proof. induction l as [|x l IH]; [reflexivity|]. cbn [filter]. destruct (f x) eqn:Ex; cbn [negb filter]; [rewrite Ex|]; exact IH. Qed.

Lemma enc_order_idem : forall cs, enc_order (enc_order cs) = enc_order cs.
Proof.
  intros cs. unfold enc_order. rewrite !filter_app.
  rewrite (filter_same (fun c => negb (haskids c))), (filter_neg_pos haskids), (filter_pos_neg haskids), (filter_same haskids).
  rewrite app_nil_r. reflexivity.
Qed.

Lemma perm_dfs_enc_order : forall cs, Permutation (flat_map dfs (enc_order cs)) (flat_map dfs cs).
Proof. intros. apply Permutation_flat_map. apply enc_order_perm. Qed.

Section StableEnc.
Variable E : env.

Hypothesis num_stable : forall x, num_ok E x = true -> num_ok E (round15 E x) = true /\ round15 E (round15 E x) = round15 E x.
Hypothesis math_stable : forall s, math_ok E s = true ->
  math_ok E (canon_math E s) = true /\ canon_math E (canon_math E s) = canon_math E s
  /\ has_math E (canon_math E s) = has_math E s.

Lemma haskids_canon : forall c, haskids (canon_comp E c) = haskids c.
Proof. intros [s [|k ks]]; reflexivity. Qed.

Lemma is_import_canon : forall c, is_import_comp (canon_comp E c) = is_import_comp c.
Proof. intros [s ks]. reflexivity. Qed.

Lemma enc_order_canon : forall cs, enc_order (map (canon_comp E) cs) = map (canon_comp E) (enc_order cs).
Proof.
  intros cs. unfold enc_order. rewrite map_app. f_equal.
  - induction cs as [|c cs IH]; [reflexivity|]. cbn [map filter]. rewrite haskids_canon. destruct (haskids c); cbn [negb map]; now rewrite IH.
  - induction cs as [|c cs IH]; [reflexivity|]. cbn [map filter]. rewrite haskids_canon. destruct (haskids c); cbn [map]; now rewrite IH.
Qed.

(** the original with its top level in the loader's order and without equivalences *)
Definition reordered (m : model) : model :=
  {| m_name := m_name m; m_id := m_id m; m_encid := m_encid m; m_units := m_units m;
     m_comps := enc_order (m_comps m); m_eqv := [] |}.

(** the model the parser builds from the printed document (C02_roundtrip_encapsulation_exact) *)
Definition reparsed (m : model) : model := canon E (reordered m).

Lemma no_imports_comps_perm : forall cs cs', Permutation (flat_map dfs cs) (flat_map dfs cs') ->
  forallb (fun pc => negb (is_import_comp (snd pc))) (all_comps cs) = forallb (fun pc => negb (is_import_comp (snd pc))) (all_comps cs').
Proof.
  intros cs cs' Hp. rewrite !(forallb_snd (fun c => negb (is_import_comp c))). unfold all_comps. rewrite !all_comps_dfs.
  now apply forallb_perm.
Qed.

Lemma printable_reordered : forall m, printable E true m -> no_imports m = true -> no_connections m = true ->
  printable E true (reordered m) /\ no_imports (reordered m) = true /\ no_connections (reordered m) = true.
Proof.
  intros m H Hni Hnc.
  assert (Bni : no_imports (reordered m) = true).
  { unfold no_imports in *. cbn [reordered m_units m_comps]. apply andb_true_iff in Hni. destruct Hni as [Hu Hc].
    rewrite Hu. rewrite (no_imports_comps_perm (enc_order (m_comps m)) (m_comps m)) by apply perm_dfs_enc_order. exact Hc. }
  split; [|split; [exact Bni | reflexivity]].
  unfold printable, printableb in H. bsplit_all.
  assert (A1 : forallb (units_ok E true) (m_units (reordered m)) = true) by (cbn [reordered m_units]; assumption).
  assert (A2 : forallb (comp_ok E true (m_units (reordered m))) (m_comps (reordered m)) = true).
  { cbn [reordered m_units m_comps]. rewrite (forallb_perm _ _ _ (enc_order_perm (m_comps m))). assumption. }
  assert (A3 : names_distinct (map (fun pc => cname (snd pc)) (all_comps (m_comps (reordered m)))) = true).
  { cbn [reordered m_comps]. apply NoDup_names_distinct.
    assert (Hn : NoDup (map (fun pc => cname (snd pc)) (all_comps (m_comps m)))) by (apply names_distinct_NoDup; assumption).
    rewrite <- (map_map snd cname). rewrite <- (map_map snd cname) in Hn. unfold all_comps in *. rewrite all_comps_dfs in *.
    eapply Permutation_NoDup; [|exact Hn]. apply Permutation_map. apply Permutation_sym. apply perm_dfs_enc_order. }
  assert (A4 : enc_ids_representable (reordered m) = true).
  { match goal with Hx : enc_ids_representable m = true |- _ => unfold enc_ids_representable in *; cbn [reordered m_comps m_encid];
      rewrite (forallb_perm _ _ _ (enc_order_perm (m_comps m))), (existsb_perm _ _ _ (enc_order_perm (m_comps m))); exact Hx end. }
  assert (A5 : sources_consistent (reordered m) = true).
  { assert (Hp : Permutation (all_sources (reordered m)) (all_sources m)).
    { unfold all_sources. cbn [reordered m_units m_comps]. apply Permutation_app_head.
      rewrite !(flat_map_snd (fun c => match c_src (shell c) with Some i => [i] | None => [] end)). unfold all_comps. rewrite !all_comps_dfs.
      apply Permutation_flat_map. apply perm_dfs_enc_order. }
    match goal with Hs : sources_consistent m = true |- _ => unfold sources_consistent in *; rewrite <- Hs end.
    rewrite (forallb_perm _ _ _ Hp). apply forallb_ext'. intros i. apply forallb_perm. exact Hp. }
  assert (A6 : eqv_ok true (reordered m) = true).
  { unfold eqv_ok. cbn [reordered m_eqv forallb edges_distinct one_cid_per_pair andb orb]. rewrite andb_true_r.
    unfold placeholders_connected. unfold no_imports in Bni. apply andb_true_iff in Bni. destruct Bni as [_ Bc].
    apply forallb_forall. intros pc Hpc. rewrite (proj1 (forallb_forall _ _) Bc pc Hpc). reflexivity. }
  unfold printable, printableb. rewrite A1, A2, A3, A4, A5, A6. cbn [reordered m_name m_id m_encid].
  repeat match goal with Hx : _ = true |- _ => rewrite Hx; clear Hx end. reflexivity.
Qed.

Lemma no_imports_canon : forall m, no_imports m = true -> no_imports (canon E m) = true.
Proof.
  intros m H. unfold no_imports in *. cbn [canon m_units m_comps]. apply andb_true_iff in H. destruct H as [Hu Hc].
  apply andb_true_iff. split.
  - rewrite forallb_map. exact Hu.
  - rewrite (forallb_snd (fun c => negb (is_import_comp c))) in *. rewrite all_comps_snd_canon, forallb_map.
    erewrite forallb_ext'; [exact Hc|]. intros c. cbn beta. now rewrite is_import_canon.
Qed.

(** printable survives canon when there are no imports and no connections (hierarchy allowed) *)
Lemma printable_canon_nc : forall m, printable E true m -> no_imports m = true -> no_connections m = true ->
  printable E true (canon E m).
Proof.
  intros m H Hni Hnc. pose proof (no_imports_canon m Hni) as Hnic. unfold printable, printableb in H. bsplit_all.
  assert (A1 : forallb (units_ok E true) (m_units (canon E m)) = true).
  { cbn [canon m_units]. apply forallb_map_impl; [apply (units_ok_canon E num_stable) | assumption]. }
  assert (A2 : forallb (comp_ok E true (m_units (canon E m))) (m_comps (canon E m)) = true).
  { cbn [canon m_units m_comps]. rewrite forallb_map. apply forallb_forall. intros c Hc. apply (comp_ok_canon E math_stable). by_forallb. }
  assert (A3 : names_distinct (map (fun pc => cname (snd pc)) (all_comps (m_comps (canon E m)))) = true).
  { cbn [canon m_comps]. rewrite names_all_canon. assumption. }
  assert (A4 : enc_ids_representable (canon E m) = true) by now apply enc_ids_canon.
  assert (A5 : sources_consistent (canon E m) = true).
  { match goal with Hs : sources_consistent m = true |- _ => unfold sources_consistent, all_sources in *; cbn [canon m_units m_comps] end.
    rewrite src_all_canon. rewrite src_units_canon. assumption. }
  assert (A6 : eqv_ok true (canon E m) = true).
  { unfold no_connections in Hnc. assert (Heqv : m_eqv m = []) by (destruct (m_eqv m); [reflexivity | discriminate]).
    unfold eqv_ok. cbn [canon m_eqv m_comps]. rewrite Heqv. cbn [forallb edges_distinct one_cid_per_pair andb orb].
    rewrite andb_true_r. unfold placeholders_connected. cbn [canon m_comps m_eqv].
    unfold no_imports in Hnic. cbn [canon m_units m_comps] in Hnic. apply andb_true_iff in Hnic. destruct Hnic as [_ Bc].
    apply forallb_forall. intros pc Hpc. rewrite (proj1 (forallb_forall _ _) Bc pc Hpc). reflexivity. }
  unfold printable, printableb. rewrite A1, A2, A3, A4, A5, A6. cbn [canon m_name m_id m_encid].
  repeat match goal with Hx : _ = true |- _ => rewrite Hx; clear Hx end. reflexivity.
Qed.

(** the first round, restated with [reparsed] *)
Lemma first_round : forall fx m, printable E true m -> no_imports m = true -> no_connections m = true ->
  print_model E true m = Some (print_tree E m) /\ load E fx true (print_tree E m) = (reparsed m, []).
Proof.
  intros fx m H Hni Hnc. split; [now apply print_model_printable|].
  rewrite (load_print_tree_enc E fx m H Hni Hnc). reflexivity.
Qed.

(** the second round: the re-parsed model is printable, and printing + strict parsing gives exactly itself *)
Theorem second_print_enc : forall fx m, printable E true m -> no_imports m = true -> no_connections m = true ->
  printable E true (reparsed m)
  /\ print_model E true (reparsed m) = Some (print_tree E (reparsed m))
  /\ load E fx true (print_tree E (reparsed m)) = (reparsed m, [])
  /\ reparsed (reparsed m) = reparsed m.
Proof.
  intros fx m H Hni Hnc.
  destruct (printable_reordered m H Hni Hnc) as (Hp0 & Hni0 & Hnc0).
  assert (Hp1 : printable E true (reparsed m)) by (apply printable_canon_nc; assumption).
  assert (Hni1 : no_imports (reparsed m) = true) by (apply no_imports_canon; assumption).
  assert (Hnc1 : no_connections (reparsed m) = true) by reflexivity.
  assert (Hfix : reparsed (reparsed m) = reparsed m).
  { unfold reparsed at 1. 
    assert (Hr : reordered (reparsed m) = reparsed m).
    { unfold reordered, reparsed, canon. cbn [reordered m_name m_id m_encid m_units m_comps m_eqv].
      rewrite enc_order_canon, enc_order_idem. reflexivity. }
    rewrite Hr. unfold reparsed. apply (canon_idem_flat E num_stable math_stable). exact Hp0. }
  split; [exact Hp1|]. split; [now apply print_model_printable|]. split; [|exact Hfix].
  destruct (first_round fx (reparsed m) Hp1 Hni1 Hnc1) as [_ Hl]. rewrite Hl, Hfix. reflexivity.
Qed.

End StableEnc.

(** the first print is NOT stable in general: a hierarchy head before a childless component changes place *)
Definition w_order : model :=
  let sh n := {| c_name := n; c_id := ""; c_encid := ""; c_src := None; c_ref := ""; c_math := ""; c_vars := []; c_resets := [] |} in
  {| m_name := "m"; m_id := ""; m_encid := ""; m_units := [];
     m_comps := [Comp (sh "a") [Comp (sh "b") []]; Comp (sh "c") []]; m_eqv := [] |}.

Lemma first_print_differs :
  printableb E_stable true w_order = true /\ no_imports w_order = true /\ no_connections w_order = true
  /\ print_tree E_stable (reparsed E_stable w_order) <> print_tree E_stable w_order
  /\ print_tree E_stable (reparsed E_stable (reparsed E_stable w_order)) = print_tree E_stable (reparsed E_stable w_order).
Proof.
  split; [vm_compute; reflexivity|]. split; [reflexivity|]. split; [reflexivity|]. split.
  - intros H. vm_compute in H. congruence.
  - vm_compute. reflexivity.
Qed.

(** second_print_enc instantiated at the stable environment: hypothesis-free *)
Theorem second_print_enc_E_stable : forall fx m, printable E_stable true m -> no_imports m = true -> no_connections m = true ->
  printable E_stable true (reparsed E_stable m)
  /\ print_model E_stable true (reparsed E_stable m) = Some (print_tree E_stable (reparsed E_stable m))
  /\ load E_stable fx true (print_tree E_stable (reparsed E_stable m)) = (reparsed E_stable m, [])
  /\ reparsed E_stable (reparsed E_stable m) = reparsed E_stable m.
Proof. apply second_print_enc; apply stable_env_exists. Qed.

(** both rounds in one statement, the re-parsed model spelled out *)
Theorem second_print_stable_enc : forall E,
  (forall x, num_ok E x = true -> num_ok E (round15 E x) = true /\ round15 E (round15 E x) = round15 E x) ->
  (forall s, math_ok E s = true ->
     math_ok E (canon_math E s) = true /\ canon_math E (canon_math E s) = canon_math E s
     /\ has_math E (canon_math E s) = has_math E s) ->
  forall fx m, printable E true m -> no_imports m = true -> no_connections m = true ->
  let m1 := canon E {| m_name := m_name m; m_id := m_id m; m_encid := m_encid m; m_units := m_units m;
                       m_comps := enc_order (m_comps m); m_eqv := [] |} in
  load E fx true (print_tree E m) = (m1, [])
  /\ printable E true m1 /\ print_model E true m1 = Some (print_tree E m1)
  /\ load E fx true (print_tree E m1) = (m1, []).
Proof.
  intros E Hn Hm fx m H Hi Hc. cbv zeta. split; [exact (proj2 (first_round E fx m H Hi Hc))|].
  destruct (second_print_enc E Hn Hm fx m H Hi Hc) as (a & b & c & _). exact (conj a (conj b c)).
Qed.
