(** RoundtripImportProofs.v — stage 5 of the C02 plan (imports), first part: loadImport on a printed import element.
    For every model and every collated import source, the printed <import> element is read back as one fresh import
    source (numbered by the position of the element) carrying the url and id that were written, with exactly the
    imported units and imported components that the printer listed under it (names, ids, references), in order, and no
    issue.  Then: flat models with imports (no encapsulation hierarchy, no connections) round-trip. *)
From Coq Require Import String Ascii List Bool ZArith Arith Lia Permutation.
From LC Require Import Common NumDefs XmlDefs EntTreeDefs PrintDefs LoadDefs RoundtripSpec XmlTextProofs
     RoundtripReadProofs RoundtripLoadProofs RoundtripFlatProofs RoundtripEncProofs RoundtripOrderProofs.
Import ListNotations.
Local Open Scope string_scope.
Local Open Scope bool_scope.
Local Open Scope list_scope.

Opaque str_ok num_ok order_ok math_ok.

Definition new_src (k : nat) (j : isrc) : isrc := {| is_tag := k; is_url := is_url j; is_id := is_id j |}.

(** what the parser makes of an imported units / component listed under source j, read as the k-th import element *)
Definition lu (k : nat) (j : isrc) (u : units) : units :=
  {| u_name := u_name u; u_id := u_id u; u_src := Some (new_src k j); u_ref := u_ref u; u_defs := [] |}.
Definition lc (k : nat) (j : isrc) (c : component) : component :=
  Comp {| c_name := cname c; c_id := c_id (shell c); c_encid := ""; c_src := Some (new_src k j); c_ref := c_ref (shell c);
          c_math := ""; c_vars := []; c_resets := [] |} [].

Definition ik_of (us : list units) (cs : list component) (is : list issue) : ikids_acc :=
  {| ik_units := us; ik_comps := cs; ik_issues := is |}.

Lemma import_units_kids : forall src l us cs is,
  fold_left (load_import_kid src)
            (map (fun u => el "units" ([at_ "units_ref" (ident (u_ref u)); at_ "name" (ident (u_name u))] ++ opt_attr ident "id" (u_id u)) []) l)
            (ik_of us cs is)
  = ik_of (us ++ map (fun u => {| u_name := u_name u; u_id := u_id u; u_src := Some src; u_ref := u_ref u; u_defs := [] |}) l) cs is.
Proof.
  intros src. induction l as [|u l IH]; intros us cs is; [cbn; now rewrite app_nil_r|].
  cbn [map fold_left].
  assert (Hk : load_import_kid src (ik_of us cs is)
                 (el "units" ([at_ "units_ref" (ident (u_ref u)); at_ "name" (ident (u_name u))] ++ opt_attr ident "id" (u_id u)) [])
               = ik_of (us ++ [{| u_name := u_name u; u_id := u_id u; u_src := Some src; u_ref := u_ref u; u_defs := [] |}]) cs is).
  { unfold opt_attr, ident. destruct (nonempty (u_id u)) eqn:Ei; [|apply nonempty_false in Ei; rewrite Ei]; cbn; rewrite ?app_nil_r; reflexivity. }
  rewrite Hk, IH, <- app_assoc. reflexivity.
Qed.

Lemma import_comps_kids : forall src l us cs is,
  fold_left (load_import_kid src)
            (map (fun c => el "component" ([at_ "component_ref" (ident (c_ref (shell c))); at_ "name" (ident (cname c))] ++ opt_attr ident "id" (c_id (shell c))) []) l)
            (ik_of us cs is)
  = ik_of us (cs ++ map (fun c => Comp {| c_name := cname c; c_id := c_id (shell c); c_encid := ""; c_src := Some src; c_ref := c_ref (shell c);
                                          c_math := ""; c_vars := []; c_resets := [] |} []) l) is.
Proof.
  intros src. induction l as [|c l IH]; intros us cs is; [cbn; now rewrite app_nil_r|].
  cbn [map fold_left].
  assert (Hk : load_import_kid src (ik_of us cs is)
                 (el "component" ([at_ "component_ref" (ident (c_ref (shell c))); at_ "name" (ident (cname c))] ++ opt_attr ident "id" (c_id (shell c))) [])
               = ik_of us (cs ++ [Comp {| c_name := cname c; c_id := c_id (shell c); c_encid := ""; c_src := Some src; c_ref := c_ref (shell c);
                                          c_math := ""; c_vars := []; c_resets := [] |} []]) is).
  { unfold opt_attr, ident. destruct (nonempty (c_id (shell c))) eqn:Ei; [|apply nonempty_false in Ei; rewrite Ei]; cbn; rewrite ?app_nil_r; reflexivity. }
  rewrite Hk, IH, <- app_assoc. reflexivity.
Qed.

Definition units_of (m : model) (j : isrc) : list units := filter (fun u => tag_is (is_tag j) (u_src u)) (imported_units (m_units m)).
Definition comps_of (m : model) (j : isrc) : list component :=
  filter (fun c => tag_is (is_tag j) (c_src (shell c))) (imported_components (m_comps m)).

(** one printed import element *)
Theorem load_print_import : forall m j k, units_of m j <> [] \/ comps_of m j <> [] ->
  load_import k (print_import ident m j) = (map (lu k j) (units_of m j), map (lc k j) (comps_of m j), []).
Proof.
  intros m j k Hne.
  set (ukids := map (fun u => el "units" ([at_ "units_ref" (ident (u_ref u)); at_ "name" (ident (u_name u))] ++ opt_attr ident "id" (u_id u)) []) (units_of m j)).
  set (ckids := map (fun c => el "component" ([at_ "component_ref" (ident (c_ref (shell c))); at_ "name" (ident (cname c))] ++ opt_attr ident "id" (c_id (shell c))) []) (comps_of m j)).
  assert (Hx : print_import ident m j = el "import" (mkAttr XLINK_NS "href" (ident (is_url j)) :: opt_attr ident "id" (is_id j)) (ukids ++ ckids)) by reflexivity.
  assert (Ha : fold_left load_import_attr (xml_attrs (print_import ident m j))
                         {| ia_url := ""; ia_id := ""; ia_has_href := false; ia_issues := [] |}
               = {| ia_url := is_url j; ia_id := is_id j; ia_has_href := true; ia_issues := [] |}).
  { rewrite Hx. unfold el, xml_attrs, opt_attr, ident. destruct (nonempty (is_id j)) eqn:Ei; [|apply nonempty_false in Ei; rewrite Ei]; reflexivity. }
  assert (Hk : xml_kids (print_import ident m j) = ukids ++ ckids) by (rewrite Hx; reflexivity).
  assert (Hne2 : ukids ++ ckids <> []).
  { intros Hc. apply app_eq_nil in Hc. destruct Hc as [H1 H2]. apply map_eq_nil in H1. apply map_eq_nil in H2. destruct Hne as [Hne|Hne]; now apply Hne. }
  unfold load_import. rewrite Ha, Hk. cbv zeta. cbn [ia_url ia_id ia_has_href ia_issues app]. fold (new_src k j).
  assert (Hm : match ukids ++ ckids with [] => [warn "IMPORT_CHILD"] | _ => [] end = []) by (destruct (ukids ++ ckids); [contradiction | reflexivity]).
  rewrite Hm. rewrite fold_left_app.
  change {| ik_units := []; ik_comps := []; ik_issues := [] |} with (ik_of [] [] []).
  unfold ukids, ckids. rewrite import_units_kids, import_comps_kids.
  unfold ik_of. cbn [ik_units ik_comps ik_issues app]. reflexivity.
Qed.

(** * flat models with imports *)
Section FlatImports.
Variable E : env.
Variable fx : bool.
Variable m : model.
Hypothesis Hp : printable E true m.
Hypothesis Hnh : no_hierarchy m = true.
Hypothesis Hnc : no_connections m = true.

Let cs := m_comps m.
Let us := m_units m.
Let S := the_sources m.

Fixpoint iu_from (k : nat) (l : list isrc) : list units :=
  match l with [] => [] | j :: r => map (lu k j) (units_of m j) ++ iu_from (Datatypes.S k) r end.
Fixpoint ic_from (k : nat) (l : list isrc) : list component :=
  match l with [] => [] | j :: r => map (lc k j) (comps_of m j) ++ ic_from (Datatypes.S k) r end.

Lemma nokids_all_comps : forall l p j, forallb (fun c => match kids c with [] => true | _ => false end) l = true ->
  map snd (flat_cs p j l) = l.
Proof.
  induction l as [|c l IH]; intros p j H; [reflexivity|]. cbn [forallb] in H. apply andb_true_iff in H. destruct H as [Hc Hl].
  destruct c as [s ks]. cbn [kids] in Hc. destruct ks; [|discriminate]. cbn [flat_cs flat_c app map snd]. now rewrite IH.
Qed.

Lemma imported_components_flat : imported_components cs = filter is_import_comp cs.
Proof. unfold imported_components, all_comps. rewrite nokids_all_comps; [reflexivity | exact Hnh]. Qed.

Lemma source_has_entity : forall j, In j S -> units_of m j <> [] \/ comps_of m j <> [].
Proof.
  intros j Hj. unfold S, the_sources in Hj. apply collate_subset in Hj. destruct Hj as [Hj|[]].
  apply in_app_or in Hj. destruct Hj as [Hj|Hj]; apply in_flat_map in Hj; destruct Hj as (x & Hx & Hxj).
  - right. destruct (c_src (shell x)) as [i|] eqn:Es; [|contradiction]. destruct Hxj as [->|[]].
    intros Hc. assert (Hin : In x (comps_of m j)).
    { unfold comps_of. apply filter_In. split; [exact Hx|]. rewrite Es. cbn. apply Nat.eqb_refl. }
    rewrite Hc in Hin. contradiction.
  - left. destruct (u_src x) as [i|] eqn:Es; [|contradiction]. destruct Hxj as [->|[]].
    intros Hc. assert (Hin : In x (units_of m j)).
    { unfold units_of. apply filter_In. split; [exact Hx|]. rewrite Es. cbn. apply Nat.eqb_refl. }
    rewrite Hc in Hin. contradiction.
Qed.

Lemma kid_import : forall j k us0 cs0 e encs conns is, In j S ->
  load_model_kid E (ma_of us0 cs0 k e encs conns is) (print_import ident m j)
  = ma_of (us0 ++ map (lu k j) (units_of m j)) (cs0 ++ map (lc k j) (comps_of m j)) (Datatypes.S k) e encs conns is.
Proof.
  intros j k us0 cs0 e encs conns is Hj. unfold load_model_kid.
  replace (is_cellml20 "component" (print_import ident m j)) with false by reflexivity.
  replace (is_cellml20 "units" (print_import ident m j)) with false by reflexivity.
  replace (is_cellml20 "import" (print_import ident m j)) with true by reflexivity.
  unfold ma_of at 1. cbn [ma_units ma_comps ma_imports ma_encid ma_encs ma_conns ma_issues].
  rewrite (load_print_import m j k (source_has_entity j Hj)). unfold ma_of. rewrite app_nil_r. reflexivity.
Qed.

Lemma imports_fold : forall l k us0 cs0 e encs conns is, (forall j, In j l -> In j S) ->
  fold_left (load_model_kid E) (map (print_import ident m) l) (ma_of us0 cs0 k e encs conns is)
  = ma_of (us0 ++ iu_from k l) (cs0 ++ ic_from k l) (k + length l) e encs conns is.
Proof.
  induction l as [|j l IH]; intros k us0 cs0 e encs conns is Hs.
  - cbn. rewrite !app_nil_r, Nat.add_0_r. reflexivity.
  - cbn [map fold_left iu_from ic_from length]. rewrite kid_import by (apply Hs; now left).
    rewrite IH by (intros; apply Hs; now right). rewrite <- !app_assoc. replace (Datatypes.S k + length l) with (k + Datatypes.S (length l)) by lia. reflexivity.
Qed.

Definition local_u (u : units) : bool := negb (is_import_units u).
Definition local_c (c : component) : bool := negb (is_import_comp c).

Lemma units_fold_mixed : forall l us0 cs0 n e encs conns is, forallb (units_ok E true) l = true ->
  fold_left (load_model_kid E) (flat_map (print_units E ident) l) (ma_of us0 cs0 n e encs conns is)
  = ma_of (us0 ++ map (canon_units E) (filter local_u l)) cs0 n e encs conns is.
Proof.
  induction l as [|u l IH]; intros us0 cs0 n e encs conns is H; [cbn; now rewrite app_nil_r|].
  cbn [forallb] in H. apply andb_true_iff in H. destruct H as [Hu Hl]. cbn [flat_map filter]. rewrite fold_left_app. unfold local_u at 1.
  destruct (is_import_units u) eqn:Ei; cbn [negb].
  - assert (Hpr : print_units E ident u = []) by (unfold print_units; rewrite Ei; reflexivity). rewrite Hpr. cbn [fold_left]. now apply IH.
  - assert (Hs : u_src u = None) by (unfold is_import_units in Ei; destruct (u_src u); [discriminate | reflexivity]).
    rewrite (kid_units E u) by assumption. rewrite IH by assumption. cbn [map]. rewrite <- app_assoc. reflexivity.
Qed.

(** imported components of a flat printable model without connections are bare *)
Lemma comps_ok : forallb (comp_ok E true us) cs = true.
Proof. pose proof Hp as H. unfold printable, printableb in H. bsplit_all. assumption. Qed.

Lemma top_encid_empty : forall c, In c cs -> c_encid (shell c) = "" /\ kids c = [].
Proof.
  intros c Hc. pose proof Hp as H. unfold printable, printableb in H. bsplit_all.
  assert (He1 : forallb (fun c => match kids c with [] => negb (nonempty (c_encid (shell c))) | _ => true end) (m_comps m) = true).
  { match goal with He : enc_ids_representable m = true |- _ => unfold enc_ids_representable in He; apply andb_true_iff in He; exact (proj1 He) end. }
  pose proof Hnh as Hnh'. unfold no_hierarchy in Hnh'. rewrite forallb_forall in Hnh'. specialize (Hnh' c Hc).
  rewrite forallb_forall in He1. specialize (He1 c Hc).
  destruct (kids c); [|discriminate]. split; [|reflexivity]. apply negb_true_iff in He1. now apply nonempty_false.
Qed.

Lemma comps_fold_mixed : forall l us0 cs0 n e encs conns is, (forall c, In c l -> In c cs) ->
  fold_left (load_model_kid E) (flat_map (print_component E ident ident) l) (ma_of us0 cs0 n e encs conns is)
  = ma_of us0 (cs0 ++ map (canon_comp E) (filter local_c l)) n e encs conns is.
Proof.
  induction l as [|c l IH]; intros us0 cs0 n e encs conns is Hs; [cbn; now rewrite app_nil_r|].
  cbn [flat_map filter]. rewrite fold_left_app. destruct (top_encid_empty c (Hs c (or_introl eq_refl))) as [Henc Hk].
  pose proof comps_ok as Hok. rewrite forallb_forall in Hok. specialize (Hok c (Hs c (or_introl eq_refl))).
  destruct c as [s ks]. cbn [kids shell] in *. subst ks. rewrite print_component_unfold. cbn [flat_map app]. rewrite app_nil_r.
  rewrite comp_ok_unfold in Hok. apply andb_true_iff in Hok. destruct Hok as [Hs' _].
  unfold local_c at 1, is_import_comp. cbn [shell]. destruct (c_src s) eqn:Es; cbn [negb fold_left].
  - apply IH. intros; apply Hs; now right.
  - rewrite (kid_shell E us s) by assumption. rewrite IH by (intros; apply Hs; now right). cbn [map canon_comp]. rewrite <- app_assoc.
    assert (He : strip_encid (canon_shell E s) = canon_shell E s).
    { unfold strip_encid, canon_shell. cbn [c_name c_id c_encid c_src c_ref c_math c_vars c_resets]. rewrite Henc. reflexivity. }
    rewrite He. reflexivity.
Qed.

Definition U' : list units := iu_from 0 S ++ map (canon_units E) (filter local_u us).
Definition C' : list component := ic_from 0 S ++ map (canon_comp E) (filter local_c cs).

Lemma iu_from_named : forall l k j u, In j l -> In u (units_of m j) -> has_units_named (iu_from k l) (u_name u) = true.
Proof.
  induction l as [|j' l IH]; intros k j u Hj Hu; [contradiction|]. cbn [iu_from]. unfold has_units_named. rewrite existsb_app. apply orb_true_iff.
  destruct Hj as [->|Hj].
  - left. apply existsb_exists. exists (lu k j u). split; [now apply in_map | apply String.eqb_refl].
  - right. exact (IH (Datatypes.S k) j u Hj Hu).
Qed.

Lemma named_in_U' : forall n, has_units_named us n = true -> has_units_named U' n = true.
Proof.
  intros n H. unfold has_units_named in H. apply existsb_exists in H. destruct H as (u & Hu & Hn). apply String.eqb_eq in Hn. subst n.
  unfold U', has_units_named. rewrite existsb_app. apply orb_true_iff. destruct (is_import_units u) eqn:Ei.
  - left. unfold is_import_units in Ei. destruct (u_src u) as [i|] eqn:Es; [|discriminate].
    destruct (imported_units_covered m u i Hu Es) as (j & Hj & Ht).
    apply (iu_from_named S 0 j u Hj). unfold units_of. apply filter_In. split; [|exact Ht].
    unfold imported_units. apply filter_In. split; [exact Hu|]. unfold is_import_units. now rewrite Es.
  - right. apply existsb_exists. exists (canon_units E u). split; [|apply String.eqb_refl].
    apply in_map. apply filter_In. split; [exact Hu|]. unfold local_u. now rewrite Ei.
Qed.

Lemma C'_nokids : forallb (fun c => match kids c with [] => true | _ => false end) C' = true.
Proof.
  unfold C'. rewrite forallb_app. apply andb_true_iff. split.
  - generalize 0. induction S as [|j l IH]; intros k; [reflexivity|]. cbn [ic_from]. rewrite forallb_app, IH, andb_true_r.
    apply forallb_forall. intros c Hc. apply in_map_iff in Hc. destruct Hc as (c0 & <- & _). reflexivity.
  - apply forallb_forall. intros c Hc. apply in_map_iff in Hc. destruct Hc as (c0 & <- & Hc0). apply filter_In in Hc0.
    destruct (top_encid_empty c0 (proj1 Hc0)) as [_ Hk]. destruct c0 as [s ks]. cbn [kids canon_comp] in *. now subst ks.
Qed.

Lemma link_units_C' : link_units_issues U' C' = [].
Proof.
  unfold link_units_issues. apply flat_map_nil. intros pc Hpc.
  assert (Hin : In (snd pc) C') by (unfold all_comps in Hpc; rewrite <- (nokids_all_comps C' [] 0 C'_nokids); now apply in_map).
  unfold C' in Hin. apply in_app_or in Hin. destruct Hin as [Hin|Hin].
  - assert (Hv : c_vars (shell (snd pc)) = []).
    { revert Hin. generalize 0. induction S as [|j l IH]; intros k Hin; [contradiction|]. cbn [ic_from] in Hin. apply in_app_or in Hin.
      destruct Hin as [Hin|Hin]; [|exact (IH _ Hin)]. apply in_map_iff in Hin. destruct Hin as (c0 & <- & _). reflexivity. }
    rewrite Hv. reflexivity.
  - apply in_map_iff in Hin. destruct Hin as (c & Hc & Hcin). rewrite <- Hc. apply filter_In in Hcin. destruct Hcin as [Hcin Hloc].
    pose proof comps_ok as Hok. rewrite forallb_forall in Hok. specialize (Hok c Hcin). destruct c as [s ks].
    rewrite comp_ok_unfold in Hok. apply andb_true_iff in Hok. destruct Hok as [Hs _]. unfold shell_ok in Hs.
    unfold local_c, is_import_comp in Hloc. cbn [shell] in Hloc. destruct (c_src s); [discriminate|]. bsplit_all.
    cbn [canon_comp shell canon_shell c_vars]. apply flat_map_nil. intros v Hv.
    match goal with Hvs : forallb (variable_ok true us) (c_vars s) = true |- _ => rewrite forallb_forall in Hvs; specialize (Hvs v Hv); unfold variable_ok in Hvs end.
    bsplit_all. destruct (v_units v) as [n|]; [|reflexivity]. bsplit_all.
    assert (Ho : is_standard_unit_name n = true \/ has_units_named us n = true).
    { match goal with Hx : is_standard_unit_name n || has_units_named us n = true |- _ => apply orb_true_iff in Hx; exact Hx end. }
    destruct Ho as [Ho|Ho].
    + rewrite Ho. reflexivity.
    + rewrite (named_in_U' n Ho), orb_true_r. reflexivity.
Qed.

(** the re-parsed model, exactly: the imported entities first (grouped by import element, renumbered), then the others *)
Theorem load_print_tree_flat_imports :
  load E fx true (print_tree E m)
  = ({| m_name := m_name m; m_id := m_id m; m_encid := m_encid m; m_units := U'; m_comps := C'; m_eqv := [] |}, []).
Proof.
  pose proof Hp as H. unfold printable, printableb in H. bsplit_all.
  assert (Hclean : clean (print_tree E m) = true) by (apply clean_print_tree; assumption).
  pose proof (clean_no_namespace_issues (print_tree E m) Hclean) as Hns.
  assert (Heqv : m_eqv m = []) by (unfold no_connections in Hnc; destruct (m_eqv m); [reflexivity | discriminate]).
  assert (Htree : print_tree E m = el "model" (opt_attr ident "name" (m_name m) ++ opt_attr ident "id" (m_id m))
                    (map (print_import ident m) S ++ flat_map (print_units E ident) us ++ flat_map (print_component E ident ident) cs)).
  { unfold print_tree, print_gen. rewrite build_maps_no_connections by exact Heqv. rewrite no_hierarchy_enc by exact Hnh.
    cbn [print_connections app]. rewrite app_nil_r. reflexivity. }
  assert (Hencid : m_encid m = "").
  { pose proof (no_hierarchy_no_exists m Hnh) as Hex.
    match goal with He : enc_ids_representable m = true |- _ => unfold enc_ids_representable in He; apply andb_true_iff in He; destruct He as [_ He2] end.
    rewrite Hex in He2. cbn [orb] in He2. apply negb_true_iff in He2. now apply nonempty_false. }
  rewrite Htree in *. rewrite load_el_model. cbv zeta. rewrite Hns. rewrite !fold_left_app.
  rewrite (imports_fold S 0 [] [] "" [] [] []) by auto. cbn [app Nat.add].
  rewrite units_fold_mixed by assumption. rewrite comps_fold_mixed by auto.
  rewrite model_attrs by assumption. unfold ma_of.
  cbn [ma_units ma_comps ma_imports ma_encid ma_encs ma_conns ma_issues na_name na_id na_has_name na_issues
       fst snd app fold_left cs_comps cs_eqv cs_used cs_issues].
  fold U'. fold C'. rewrite link_units_C'. rewrite Hencid. reflexivity.
Qed.

End FlatImports.
