(** TransformProofs.v — C14: (1) the document the 2.0 printer means for an expressible model is in the class [conv_ok];
    (2) with TransformSimProofs.sim_load and the C02 round-trip theorems: the permissive parser applied to [to1x v m]
    returns the content of m with nothing but messages; (3) the strict parser refuses it.  Lemmas only. *)
From Coq Require Import String Ascii List Bool ZArith Arith Permutation.
From LC Require Import Common NumDefs XmlDefs EntTreeDefs PrintDefs LoadDefs RoundtripSpec Load1xDefs To1xDefs
     RoundtripReadProofs RoundtripLoadProofs RoundtripFlatProofs RoundtripEncProofs TransformSimProofs.
Import ListNotations.
Local Open Scope string_scope.
Local Open Scope bool_scope.
Local Open Scope list_scope.

Ltac band := apply andb_true_iff; split.
Ltac band3 := band; [band|].
Ltac band4 := band; [band3|].
Ltac band5 := band; [band4|].
(* right-nested conjunctions (what forallb_app leaves) *)
Ltac rband3 := band; [|band].
Ltac rband4 := band; [|rband3].
Ltac rband5 := band; [|rband4].

Section Shape.
Variable E : env.

Lemma opt_attr_ident : forall nm val, opt_attr ident nm val = if nonempty val then [at_ nm val] else [].
Proof. reflexivity. Qed.

Lemma forallb_opt_attr : forall (P : attr -> bool) nm val, P (at_ nm val) = true -> forallb P (opt_attr ident nm val) = true.
Proof. intros P nm val H. rewrite opt_attr_ident. destruct (nonempty val); [cbn; now rewrite H|reflexivity]. Qed.

(** ** units *)
Lemma unit_shape : forall d, is_legacy_spelling (ud_ref d) = false -> unit_ok1 (print_unit E ident d) = true.
Proof.
  intros d H. unfold print_unit, unit_ok1, el. cbn [xml_attrs xml_kids no_kids].
  rewrite !opt_attr_ident. unfold ident. band4; try reflexivity.
  - destruct (String.eqb (ud_exp d) num_one), (String.eqb (ud_mult d) num_one), (nonempty (ud_prefix d)), (nonempty (ud_id d)); reflexivity.
  - rewrite !forallb_app. rband5.
    + destruct (String.eqb (ud_exp d) num_one); reflexivity.
    + destruct (String.eqb (ud_mult d) num_one); reflexivity.
    + destruct (nonempty (ud_prefix d)); reflexivity.
    + cbn. unfold units_attr_ok. cbn. now rewrite H.
    + destruct (nonempty (ud_id d)); reflexivity.
Qed.

Lemma units_shape : forall u, forallb (fun d => negb (is_legacy_spelling (ud_ref d))) (u_defs u) = true ->
  forallb (model_kid_ok1) (print_units E ident u) = true.
Proof.
  intros u H. unfold print_units. destruct (is_import_units u || is_standard_unit u); [reflexivity|].
  cbn [forallb]. rewrite andb_true_r. unfold model_kid_ok1.
  assert (Hu : units_ok1 (el "units" (opt_attr ident "name" (u_name u) ++ opt_attr ident "id" (u_id u)) (map (print_unit E ident) (u_defs u))) = true).
  { unfold units_ok1, el. cbn [xml_attrs xml_kids]. rewrite !opt_attr_ident. band3; try reflexivity.
    - destruct (nonempty (u_name u)), (nonempty (u_id u)); reflexivity.
    - apply forallb_map_true. intros d Hd. apply unit_shape. apply negb_true_iff. exact (proj1 (forallb_forall _ _) H d Hd). }
  rewrite Hu. now rewrite orb_true_r.
Qed.

(** ** components *)
Lemma variable_shape : forall x, variable_expressible x = true -> var_ok1 (print_variable ident x) = true.
Proof.
  intros x H. unfold variable_expressible in H. apply andb_true_iff in H. destruct H as [Hi Hu].
  unfold print_variable, var_ok1, el. cbn [xml_attrs xml_kids no_kids].
  assert (Hun : is_legacy_spelling (match v_units x with Some n => n | None => "" end) = false).
  { destruct (v_units x); [now apply negb_true_iff|reflexivity]. }
  band5; try reflexivity.
  - rewrite !opt_attr_ident.
    destruct (nonempty (v_name x)), (nonempty (match v_units x with Some n => n | None => "" end)), (nonempty (v_init x)),
      (nonempty (v_iface x)), (nonempty (v_id x)); reflexivity.
  - rewrite !forallb_app. rband5; apply forallb_opt_attr; try reflexivity.
    unfold iface_attr_ok. cbn. exact Hi.
  - rewrite !forallb_app. rband5; apply forallb_opt_attr; try reflexivity.
    unfold units_attr_ok. cbn. now rewrite Hun.
Qed.

Lemma comp_expressible_unfold : forall s ks,
  comp_expressible E (Comp s ks)
  = match c_resets s with [] => true | _ => false end && forallb variable_expressible (c_vars s)
    && math_expressible E (c_math s) && forallb (comp_expressible E) ks.
Proof. reflexivity. Qed.

Lemma shell_shape : forall s, c_resets s = [] -> forallb variable_expressible (c_vars s) = true ->
  math_expressible E (c_math s) = true -> comp_ok1 (print_shell E ident ident s) = true.
Proof.
  intros s Hr Hv Hm. unfold print_shell, comp_ok1, el. cbn [xml_attrs xml_kids].
  rewrite Hr. cbn [map app]. band3; try reflexivity.
  - rewrite !opt_attr_ident. destruct (nonempty (c_name s)), (nonempty (c_id s)); reflexivity.
  - rewrite forallb_app. band.
    + apply forallb_map_true. intros x Hx. rewrite variable_shape; [reflexivity|]. exact (proj1 (forallb_forall _ _) Hv x Hx).
    + unfold math_expressible in Hm. rewrite forallb_forall in *. intros k Hk. rewrite (Hm k Hk). apply orb_true_r.
Qed.

Lemma component_shape : forall c, comp_expressible E c = true -> forallb model_kid_ok1 (print_component E ident ident c) = true.
Proof.
  induction c as [s ks IH] using comp_ind'. intros H.
  rewrite comp_expressible_unfold in H. bsplit_all.
  rewrite print_component_unfold, forallb_app. apply andb_true_iff; split.
  - destruct (c_src s); [reflexivity|]. cbn [forallb]. rewrite andb_true_r. unfold model_kid_ok1.
    rewrite shell_shape; try assumption; [now rewrite !orb_true_r|].
    destruct (c_resets s); [reflexivity|discriminate].
  - apply forallb_flat_map_true. intros k Hk. rewrite Forall_forall in IH. apply IH; [assumption|]. by_forallb.
Qed.

(** ** encapsulation *)
Lemma cref_shape : forall c, cref_ok1 (print_encapsulation ident c) = true.
Proof.
  induction c as [s ks IH] using comp_ind'. rewrite print_encapsulation_unfold. unfold el. rewrite cref_ok1_elem.
  band3; try reflexivity.
  - rewrite !opt_attr_ident. destruct (nonempty (c_name s)), (nonempty (c_encid s)); reflexivity.
  - apply forallb_map_true. intros k Hk. rewrite Forall_forall in IH. now apply IH.
Qed.

(** ** connections *)
Lemma connections_shape : forall cs l done, forallb model_kid_ok1 (print_connections ident cs l done) = true.
Proof.
  intros cs. induction l as [|e r IH]; intros done; [reflexivity|].
  cbn [print_connections]. destruct (existsb (ppair_eqb (me_pair e)) done); [apply IH|].
  cbn [forallb]. rewrite IH, andb_true_r. unfold model_kid_ok1.
  match goal with |- context [conn_ok1 ?x] => assert (Hc : conn_ok1 x = true) end.
  { unfold conn_ok1, el. cbn [xml_attrs xml_kids no_kids map]. band4; try reflexivity.
    - rewrite opt_attr_ident. destruct (nonempty _); reflexivity.
    - cbn [forallb]. band.
      + unfold print_map_variables, mapvar_ok1, el. cbn [xml_attrs xml_kids no_kids].
        rewrite opt_attr_ident. destruct (nonempty (me_mid e)); reflexivity.
      + apply forallb_map_true. intros x _. unfold print_map_variables, mapvar_ok1, el. cbn [xml_attrs xml_kids no_kids].
        rewrite opt_attr_ident. destruct (nonempty (me_mid x)); reflexivity. }
  rewrite Hc. now rewrite !orb_true_r.
Qed.

(** ** imports *)
Lemma import_shape : forall m i, import_ok1 (print_import ident m i) = true.
Proof.
  intros m i. unfold print_import, import_ok1, el. cbn [xml_attrs xml_kids]. band4; try reflexivity.
  - cbn [forallb]. band; [reflexivity|]. apply forallb_opt_attr. reflexivity.
  - rewrite opt_attr_ident. destruct (nonempty (is_id i)); reflexivity.
  - rewrite forallb_app. band; apply forallb_map_true; intros x _; unfold el; cbn [xml_attrs].
    + rewrite opt_attr_ident. destruct (nonempty (u_id x)); reflexivity.
    + rewrite opt_attr_ident. destruct (nonempty (c_id (shell x))); reflexivity.
Qed.

(** the printed tree of an expressible model with a name is in the class conv_ok *)
Theorem print_tree_conv_ok : forall v m, nonempty (m_name m) = true -> expressible_1xb E v m = true ->
  conv_ok (print_tree E m) = true.
Proof.
  intros v m Hn H. unfold expressible_1xb in H. bsplit_all.
  unfold print_tree, print_gen, conv_ok, el. cbn [xml_attrs xml_kids].
  rewrite !opt_attr_ident, Hn. band4; try reflexivity.
  - destruct (nonempty (m_id m)); reflexivity.
  - rewrite !forallb_app. rband5.
    + unfold print_imports. apply forallb_map_true. intros i _. unfold model_kid_ok1. now rewrite import_shape.
    + apply forallb_flat_map_true. intros u Hu. apply units_shape. by_forallb.
    + apply forallb_flat_map_true. intros c Hc. apply component_shape. by_forallb.
    + apply connections_shape.
    + match goal with Hne : negb (nonempty (m_encid m)) = true |- _ => apply negb_true_iff in Hne; rewrite Hne end.
      destruct (flat_map _ (m_comps m)) as [|x0 xs] eqn:Ef; [reflexivity|]. cbn [forallb]. rewrite andb_true_r.
      unfold model_kid_ok1.
      match goal with |- context [enc_ok1 ?x] => assert (He : enc_ok1 x = true) end.
      { unfold enc_ok1. cbn [xml_attrs xml_kids no_kids]. band4; try reflexivity.
        rewrite <- Ef. apply forallb_flat_map_true. intros c _.
        destruct (kids c); [reflexivity|]. cbn [forallb]. now rewrite cref_shape. }
      rewrite He. now rewrite !orb_true_r.
Qed.

End Shape.

(** * the theorems of the property *)
Section Transform.
Variable E : env.
Variable fx fi fd : bool.
Variable v : version.
Variable ist : list attr -> istyle.
Variable cm us : bool.
Variable mcpos rrpos : nat.
Hypothesis Hstyle : style_ok ist fi.

Lemma printable_parts : forall m, printable E true m ->
  nonempty (m_name m) = true /\ forallb (comp_ok E true (m_units m)) (m_comps m) = true.
Proof. intros m H. unfold printable, printableb in H. bsplit_all. now split. Qed.

(** on every printable, expressible model — connections and imports included — the permissive parser reads the 1.x
    rewriting exactly as the strict 2.0 parser reads the 2.0 document, after the one transformation message *)
Theorem transform_as_20 : forall m, printable E true m -> expressible_1x E v m ->
  load1x E fx fi fd false (to1x v ist cm us false mcpos rrpos E m)
  = (fst (load E fx true (print_tree E m)), msg :: snd (load E fx true (print_tree E m))).
Proof.
  intros m Hp He. destruct (printable_parts m Hp) as [Hn Hc]. unfold to1x.
  apply sim_load; [assumption| |].
  - eapply print_tree_conv_ok; eassumption.
  - apply clean_no_namespace_issues. now apply clean_print_tree.
Qed.

(** stages 1 + 2: flat models *)
Theorem transform_flat : forall m, printable E true m -> expressible_1x E v m -> flat m = true ->
  load1x E fx fi fd false (to1x v ist cm us false mcpos rrpos E m) = (canon E m, [msg]).
Proof.
  intros m Hp He Hf. rewrite transform_as_20 by assumption.
  destruct (roundtrip_flat E fx m Hp Hf) as [_ Hl]. now rewrite Hl.
Qed.

(** stage 3: any encapsulation hierarchy *)
Theorem transform_encapsulation_exact : forall m, printable E true m -> expressible_1x E v m ->
  no_imports m = true -> no_connections m = true ->
  load1x E fx fi fd false (to1x v ist cm us false mcpos rrpos E m)
  = ({| m_name := m_name m; m_id := m_id m; m_encid := m_encid m; m_units := map (canon_units E) (m_units m);
        m_comps := map (canon_comp E) (enc_order (m_comps m)); m_eqv := [] |}, [msg]).
Proof.
  intros m Hp He Hi Hc. rewrite transform_as_20 by assumption.
  now rewrite (load_print_tree_enc E fx m Hp Hi Hc).
Qed.

Theorem transform_roundtrip : forall m, printable E true m -> expressible_1x E v m ->
  no_imports m = true -> no_connections m = true ->
  exists m' is, load1x E fx fi fd false (to1x v ist cm us false mcpos rrpos E m) = (m', is)
                /\ content_eq m' (canon E m) /\ Forall (fun i => is_message i = true) is.
Proof.
  intros m Hp He Hi Hc. destruct (roundtrip_enc E fx m Hp Hi Hc) as (m' & _ & Hl & Hce).
  exists m', [msg]. split; [|split; [assumption|repeat constructor]].
  rewrite transform_as_20 by assumption. now rewrite Hl.
Qed.

(** the strict parser refuses every document whose root is not a CellML 2.0 model element with one error and the
    empty model — in particular every 1.x rewriting *)
Theorem strict_refuses_any : forall x, is_cellml20 "model" x = false ->
  load1x E fx fi fd true x = (empty_model, [(LError, "XML_UNEXPECTED_ELEMENT")]).
Proof. intros x H. unfold load1x, load. cbn [negb andb]. now rewrite H. Qed.

Theorem strict_refuses : forall hoist m,
  load1x E fx fi fd true (to1x v ist cm us hoist mcpos rrpos E m) = (empty_model, [(LError, "XML_UNEXPECTED_ELEMENT")]).
Proof.
  intros hoist m. apply strict_refuses_any. unfold to1x, print_tree, print_gen, el, conv1x.
  unfold is_cellml20, is_element. destruct v; reflexivity.
Qed.

End Transform.
