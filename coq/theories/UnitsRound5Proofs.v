(** UnitsRound5Proofs.v - proof depth round 5 for C08 (proofs only; UnitsDefs.v untouched).
    Units::equivalent is a partial equivalence relation for every world, fuel and setting of the repair switches, it is
    reflexive exactly where the scale of a defined units is computable, and scalingFactor is a congruence for it. *)
From Coq Require Import String List Bool ZArith QArith Lia.
From LC Require Import UnitsDefs UnitsSpec UnitsProofs.
Import ListNotations.
Local Open Scope Q_scope.

Lemma equivalent_sym : forall fx f w a b, equivalent fx f w a b = Ok true -> equivalent fx f w b a = Ok true.
Proof.
  intros fx f w a b H. apply equivalent_iff in H. destruct H as [Hc [q [Hq Hz]]].
  apply equivalent_iff. split.
  - apply compatible_sym; exact Hc.
  - destruct (factor_antisym fx f w a b q Hq) as [q' [Hq' Hs]].
    exists q'. split; [exact Hq'|]. rewrite Hz in Hs. rewrite Qplus_0_l in Hs. exact Hs.
Qed.

Lemma equivalent_trans : forall fx f w a b c,
  equivalent fx f w a b = Ok true -> equivalent fx f w b c = Ok true -> equivalent fx f w a c = Ok true.
Proof.
  intros fx f w a b c H1 H2. apply equivalent_iff in H1. apply equivalent_iff in H2.
  destruct H1 as [Hc1 [q1 [Hq1 Hz1]]]. destruct H2 as [Hc2 [q2 [Hq2 Hz2]]].
  apply equivalent_iff. split.
  - eapply compatible_trans; eassumption.
  - destruct (factor_cocycle fx f w a b c q1 q2 Hq1 Hq2) as [q3 [Hq3 Hs]].
    exists q3. split; [exact Hq3|]. rewrite Hs, Hz1, Hz2. reflexivity.
Qed.

Lemma equivalent_refl : forall fx f w a l, is_defined fx f w (fst a) (snd a) = Ok true ->
  mult_go fx f w (fst a) (snd a) = Ok (Some l) -> equivalent fx f w (Some a) (Some a) = Ok true.
Proof.
  intros fx f w a l Hd Hm. apply equivalent_iff.
  pose proof (compatible_refl fx f w a Hd) as Hc. split; [exact Hc|].
  destruct (factor_pos_compatible fx f w a a l l Hc Hm Hm) as [q [Hq Hs]].
  exists q. split; [exact Hq|]. rewrite Hs. ring.
Qed.

(** scalingFactor does not distinguish equivalent units: replacing either argument by an equivalent units gives a factor
    with the same log10. *)
Lemma factor_equivalent_congr : forall fx f w a a' b b' q,
  equivalent fx f w a a' = Ok true -> equivalent fx f w b b' = Ok true ->
  scaling_factor fx f w a b = Ok (FPow q) ->
  exists q', scaling_factor fx f w a' b' = Ok (FPow q') /\ q' == q.
Proof.
  intros fx f w a a' b b' q Ha Hb Hq.
  apply equivalent_sym in Ha. apply equivalent_iff in Ha. apply equivalent_iff in Hb.
  destruct Ha as [_ [qa [Hqa Hza]]]. destruct Hb as [_ [qb [Hqb Hzb]]].
  destruct (factor_cocycle fx f w a' a b qa q Hqa Hq) as [q1 [Hq1 Hs1]].
  destruct (factor_cocycle fx f w a' b b' q1 qb Hq1 Hqb) as [q2 [Hq2 Hs2]].
  exists q2. split; [exact Hq2|]. rewrite Hs2, Hs1, Hza, Hzb. ring.
Qed.
