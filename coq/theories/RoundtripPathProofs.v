(** RoundtripPathProofs.v — index paths (C02, stage 4): the printer's listing of components ([all_comps]) holds
    exactly the (path, component) pairs that [comp_at] resolves, each path once; canon and a re-ordering of the top
    level keep the chain of names along a path. *)
From Coq Require Import String Ascii List Bool ZArith Arith Lia Permutation.
From LC Require Import Common NumDefs XmlDefs EntTreeDefs PrintDefs LoadDefs RoundtripSpec XmlTextProofs
     RoundtripReadProofs RoundtripLoadProofs RoundtripFlatProofs RoundtripEncProofs.
Import ListNotations.
Local Open Scope string_scope.
Local Open Scope bool_scope.
Local Open Scope list_scope.

Fixpoint sub_at (c : component) (r : list nat) : option component :=
  match r with
  | [] => Some c
  | i :: r' => match nth_error (kids c) i with Some k => sub_at k r' | None => None end
  end.

Lemma comp_at_sub : forall r cs i,
  comp_at cs (i :: r) = match nth_error cs i with Some c => sub_at c r | None => None end.
Proof.
  induction r as [|j r IH]; intros cs i.
  - cbn. destruct (nth_error cs i); reflexivity.
  - change (comp_at cs (i :: j :: r)) with (match nth_error cs i with None => None | Some c => comp_at (kids c) (j :: r) end).
    destruct (nth_error cs i) as [c|]; [|reflexivity]. rewrite IH. reflexivity.
Qed.

Definition flat_c_spec (d : component) : Prop :=
  forall q p c, In (p, c) (flat_c q d) <-> exists r, p = q ++ r /\ sub_at d r = Some c.

Lemma flat_cs_spec : forall l, Forall flat_c_spec l -> forall q j p c,
  In (p, c) (flat_cs q j l) <-> exists i d r, nth_error l i = Some d /\ p = q ++ [j + i] ++ r /\ sub_at d r = Some c.
Proof.
  induction l as [|d l IH]; intros Hall q j p c.
  - cbn. split; [intros [] | intros (i & d & r & H & _); destruct i; discriminate].
  - inversion Hall as [|? ? Hd Hl]; subst. cbn [flat_cs]. rewrite in_app_iff, (Hd (q ++ [j]) p c), (IH Hl q (S j) p c). split.
    + intros [(r & Hp & Hs)|(i & d' & r & Hn & Hp & Hs)].
      * exists 0, d, r. rewrite Nat.add_0_r. split; [reflexivity|]. split; [now rewrite Hp, <- app_assoc | exact Hs].
      * exists (S i), d', r. split; [exact Hn|]. split; [|exact Hs]. rewrite Hp. replace (j + S i) with (S j + i) by lia. reflexivity.
    + intros (i & d' & r & Hn & Hp & Hs). destruct i as [|i].
      * left. cbn in Hn. injection Hn as <-. exists r. rewrite Nat.add_0_r in Hp. split; [now rewrite Hp, <- app_assoc | exact Hs].
      * right. exists i, d', r. split; [exact Hn|]. split; [|exact Hs]. rewrite Hp. replace (j + S i) with (S j + i) by lia. reflexivity.
Qed.

Lemma flat_c_spec_all : forall d, flat_c_spec d.
Proof.
  induction d as [s ks IH] using comp_ind'. intros q p c. rewrite flat_c_unfold. cbn [In]. rewrite (flat_cs_spec ks IH q 0 p c). split.
  - intros [Heq|(i & d & r & Hn & Hp & Hs)].
    + injection Heq as <- <-. exists []. now rewrite app_nil_r.
    + exists (i :: r). split; [exact Hp|]. cbn [sub_at kids]. now rewrite Hn.
  - intros (r & Hp & Hs). destruct r as [|i r].
    + left. cbn in Hs. injection Hs as <-. now rewrite app_nil_r in Hp; subst.
    + right. cbn [sub_at kids] in Hs. destruct (nth_error ks i) as [d|] eqn:En; [|discriminate]. exists i, d, r. auto.
Qed.

(** the listing = what comp_at resolves *)
Theorem all_comps_comp_at : forall cs p c, In (p, c) (all_comps cs) <-> comp_at cs p = Some c.
Proof.
  intros cs p c. unfold all_comps.
  assert (Hall : Forall flat_c_spec cs) by (apply Forall_forall; intros; apply flat_c_spec_all).
  rewrite (flat_cs_spec cs Hall [] 0 p c). split.
  - intros (i & d & r & Hn & Hp & Hs). cbn in Hp. subst p. rewrite comp_at_sub, Hn. exact Hs.
  - intros H. destruct p as [|i r]; [discriminate|]. rewrite comp_at_sub in H. destruct (nth_error cs i) as [d|] eqn:En; [|discriminate].
    exists i, d, r. auto.
Qed.

Lemma NoDup_map_fst : forall {A B} (l : list (A * B)), NoDup l -> (forall x y, In x l -> In y l -> fst x = fst y -> x = y) -> NoDup (map fst l).
Proof.
  induction l as [|x l IH]; intros Hnd Hinj; [constructor|]. inversion Hnd as [|? ? Hx Hl]; subst. cbn [map]. constructor.
  - intros Hin. apply in_map_iff in Hin. destruct Hin as (y & Hy & Hyin). apply Hx.
    assert (y = x) by (apply Hinj; [now right | now left | exact Hy]). now subst.
  - apply IH; [exact Hl|]. intros a b Ha Hb. apply Hinj; now right.
Qed.

Theorem all_comps_paths_nodup : forall cs, NoDup (map (fun pc => cname (snd pc)) (all_comps cs)) -> NoDup (map fst (all_comps cs)).
Proof.
  intros cs H. apply NoDup_map_fst.
  - eapply NoDup_map_inv. exact H.
  - intros [p c] [p' c'] Hx Hy Hf. cbn in Hf. subst p'. apply all_comps_comp_at in Hx. apply all_comps_comp_at in Hy. congruence.
Qed.

(** a name is carried by one listed component only *)
Lemma name_determines : forall cs p c p' c', NoDup (map (fun pc => cname (snd pc)) (all_comps cs)) ->
  In (p, c) (all_comps cs) -> In (p', c') (all_comps cs) -> cname c = cname c' -> p = p' /\ c = c'.
Proof.
  intros cs p c p' c' H Hx Hy Hn.
  assert (Hinj : forall (l : list (list nat * component)) x y, NoDup (map (fun pc => cname (snd pc)) l) -> In x l -> In y l ->
                 cname (snd x) = cname (snd y) -> x = y).
  { induction l as [|a l IH]; intros x y Hnd Hxl Hyl He; [contradiction|]. cbn [map] in Hnd. inversion Hnd as [|? ? Ha Hl]; subst.
    destruct Hxl as [<-|Hxl]; destruct Hyl as [<-|Hyl]; try reflexivity.
    - exfalso. apply Ha. rewrite He. apply (in_map (fun pc => cname (snd pc))). exact Hyl.
    - exfalso. apply Ha. rewrite <- He. apply (in_map (fun pc => cname (snd pc))). exact Hxl.
    - now apply IH. }
  specialize (Hinj _ (p, c) (p', c') H Hx Hy Hn). injection Hinj as -> ->. auto.
Qed.

(** * component(name, searchEncapsulated = true) finds THE component of that name *)
Lemma find_in_comp_eq : forall n s ks, find_in_comp n (Comp s ks) = find_comp n ks.
Proof.
  intros. cbn [find_in_comp]. unfold find_comp. destruct (index_of_name n ks 0); [reflexivity|].
  generalize 0. induction ks as [|k r IH]; intros j; [reflexivity|]. cbn [find_in_subtrees]. destruct (find_in_comp n k); [reflexivity | apply IH].
Qed.

Lemma index_of_name_none : forall n cs i, (forall d, In d cs -> cname d <> n) -> index_of_name n cs i = None.
Proof.
  intros n. induction cs as [|c cs IH]; intros i H; [reflexivity|]. cbn [index_of_name].
  destruct (String.eqb (cname c) n) eqn:E; [apply String.eqb_eq in E; exfalso; exact (H c (or_introl eq_refl) E)|].
  apply IH. intros d Hd. apply H. now right.
Qed.

Lemma index_of_name_found : forall cs i k d, nth_error cs k = Some d ->
  (forall j d', j < k -> nth_error cs j = Some d' -> cname d' <> cname d) -> index_of_name (cname d) cs i = Some (i + k).
Proof.
  induction cs as [|c cs IH]; intros i k d Hn Hb; [destruct k; discriminate|]. cbn [index_of_name]. destruct k as [|k].
  - cbn in Hn. injection Hn as ->. rewrite String.eqb_refl. rewrite Nat.add_0_r. reflexivity.
  - cbn in Hn. destruct (String.eqb (cname c) (cname d)) eqn:E.
    + apply String.eqb_eq in E. exfalso. exact (Hb 0 c ltac:(lia) eq_refl E).
    + rewrite (IH (S i) k d Hn); [replace (S i + k) with (i + S k) by lia; reflexivity|]. intros j d' Hj Hnj. apply (Hb (S j) d'); [lia | exact Hnj].
Qed.

Lemma find_in_subtrees_none : forall n cs j, (forall d, In d cs -> find_in_comp n d = None) -> find_in_subtrees n cs j = None.
Proof.
  intros n. induction cs as [|c cs IH]; intros j H; [reflexivity|]. cbn [find_in_subtrees]. rewrite (H c (or_introl eq_refl)).
  apply IH. intros d Hd. apply H. now right.
Qed.

Lemma find_in_subtrees_found : forall n cs j k d r, nth_error cs k = Some d -> find_in_comp n d = Some r ->
  (forall j' d', j' < k -> nth_error cs j' = Some d' -> find_in_comp n d' = None) -> find_in_subtrees n cs j = Some ((j + k) :: r).
Proof.
  intros n. induction cs as [|c cs IH]; intros j k d r Hn Hf Hb; [destruct k; discriminate|]. cbn [find_in_subtrees]. destruct k as [|k].
  - cbn in Hn. injection Hn as ->. rewrite Hf. rewrite Nat.add_0_r. reflexivity.
  - cbn in Hn. rewrite (Hb 0 c ltac:(lia) eq_refl). rewrite (IH (S j) k d r Hn Hf); [replace (S j + k) with (j + S k) by lia; reflexivity|].
    intros j' d' Hj Hnj. apply (Hb (S j') d'); [lia | exact Hnj].
Qed.

Lemma find_none : forall cs n, ~ In n (names (flat_map dfs cs)) -> find_comp n cs = None.
Proof.
  assert (Hc : forall d, (fun d => forall n, ~ In n (names (flat_map dfs (kids d))) -> find_in_comp n d = None) d).
  { induction d as [s ks IH] using comp_ind'. intros n Hn. cbn [kids] in Hn. rewrite find_in_comp_eq. unfold find_comp.
    rewrite index_of_name_none.
    - apply find_in_subtrees_none. intros d Hd. rewrite Forall_forall in IH. apply (IH d Hd). intros Hin. apply Hn.
      unfold names in *. apply in_map_iff in Hin. destruct Hin as (x & Hx & Hxin). apply in_map_iff. exists x. split; [exact Hx|].
      apply in_flat_map. exists d. split; [exact Hd|]. destruct d as [s' ks']. rewrite dfs_unfold. now right.
    - intros d Hd He. apply Hn. unfold names. apply in_map_iff. exists d. split; [exact He|]. apply in_flat_map. exists d. split; [exact Hd|].
      destruct d as [s' ks']. rewrite dfs_unfold. now left. }
  intros cs n Hn. rewrite <- (find_in_comp_eq n {| c_name := ""; c_id := ""; c_encid := ""; c_src := None; c_ref := ""; c_math := ""; c_vars := []; c_resets := [] |} cs).
  apply Hc. exact Hn.
Qed.

Lemma sub_at_in_dfs : forall r g d, sub_at g r = Some d -> In d (dfs g).
Proof.
  induction r as [|i r IH]; intros g d H.
  - cbn in H. injection H as <-. destruct g. rewrite dfs_unfold. now left.
  - cbn [sub_at] in H. destruct (nth_error (kids g) i) as [k|] eqn:En; [|discriminate]. destruct g as [s ks]. rewrite dfs_unfold. right.
    apply in_flat_map. exists k. split; [eapply nth_error_In; exact En | now apply IH].
Qed.

Lemma split_nth : forall {A} (l : list A) i x, nth_error l i = Some x -> exists l1 l2, l = l1 ++ x :: l2 /\ length l1 = i.
Proof. intros. apply nth_error_split. assumption. Qed.

Theorem find_comp_unique : forall q G d, NoDup (names (flat_map dfs G)) -> comp_at G q = Some d -> find_comp (cname d) G = Some q.
Proof.
  induction q as [|i r IH]; intros G d Hnd Hq; [discriminate|]. rewrite comp_at_sub in Hq.
  destruct (nth_error G i) as [g|] eqn:En; [|discriminate].
  destruct (split_nth G i g En) as (G1 & G2 & HG & Hlen).
  assert (Hnd' : NoDup (names (flat_map dfs G1) ++ names (dfs g) ++ names (flat_map dfs G2))).
  { rewrite HG in Hnd. rewrite flat_map_app in Hnd. cbn [flat_map] in Hnd. unfold names in *. rewrite !map_app in Hnd. exact Hnd. }
  assert (Hearlier : forall j d', j < i -> nth_error G j = Some d' -> In d' G1).
  { intros j d' Hj Hnj. rewrite HG in Hnj. rewrite nth_error_app1 in Hnj by lia. eapply nth_error_In; exact Hnj. }
  assert (Hdg : In d (dfs g)) by (eapply sub_at_in_dfs; exact Hq).
  assert (Hout : forall x, In x G1 \/ In x G2 -> ~ In (cname d) (names (dfs x))).
  { intros x Hx Hin.
    assert (Hd : In (cname d) (names (dfs g))) by (unfold names; now apply in_map).
    destruct Hx as [Hx|Hx].
    - apply (NoDup_app_disjoint _ _ (cname d) Hnd'); [|apply in_or_app; now left].
      unfold names in *. apply in_map_iff in Hin. destruct Hin as (y & Hy & Hyin). apply in_map_iff. exists y. split; [exact Hy|].
      apply in_flat_map. eauto.
    - apply NoDup_app_r in Hnd'. apply (NoDup_app_disjoint _ _ (cname d) Hnd' Hd).
      unfold names in *. apply in_map_iff in Hin. destruct Hin as (y & Hy & Hyin). apply in_map_iff. exists y. split; [exact Hy|].
      apply in_flat_map. eauto. }
  destruct r as [|j r].
  - (* the component is at the top level *)
    cbn in Hq. injection Hq as <-. unfold find_comp. rewrite (index_of_name_found G 0 i g En); [reflexivity|].
    intros j d' Hj Hnj He. apply (Hout d' (or_introl (Hearlier j d' Hj Hnj))). rewrite <- He. destruct d'. rewrite dfs_unfold. now left.
  - (* below the top level *)
    assert (Hsub : comp_at (kids g) (j :: r) = Some d) by (rewrite comp_at_sub; exact Hq).
    assert (Hndg : NoDup (names (dfs g))) by (apply NoDup_app_r in Hnd'; now apply NoDup_app_l in Hnd').
    destruct g as [s ks]. rewrite dfs_unfold in Hndg. cbn [names map] in Hndg. apply NoDup_cons_iff in Hndg. destruct Hndg as [Hroot Hkids]. cbn [kids] in Hsub.
    pose proof (IH ks d Hkids Hsub) as Hfind. rewrite <- (find_in_comp_eq (cname d) s ks) in Hfind.
    assert (Hdk : In d (flat_map dfs ks)).
    { rewrite comp_at_sub in Hsub. destruct (nth_error ks j) as [k|] eqn:Ek; [|discriminate]. apply in_flat_map. exists k.
      split; [eapply nth_error_In; exact Ek | eapply sub_at_in_dfs; exact Hsub]. }
    unfold find_comp. rewrite index_of_name_none.
    + rewrite (find_in_subtrees_found (cname d) G 0 i (Comp s ks) (j :: r) En Hfind); [reflexivity|].
      intros j' d' Hj Hnj. destruct d' as [s' ks']. rewrite find_in_comp_eq. apply find_none. intros Hin.
      apply (Hout (Comp s' ks') (or_introl (Hearlier j' _ Hj Hnj))). rewrite dfs_unfold. right. exact Hin.
    + intros x Hx He. rewrite HG in Hx. apply in_app_or in Hx. destruct Hx as [Hx|[<-|Hx]].
      * apply (Hout x (or_introl Hx)). rewrite <- He. destruct x. rewrite dfs_unfold. now left.
      * apply Hroot. cbn [cname shell] in He. rewrite He. fold (names (flat_map dfs ks)). unfold names. now apply in_map.
      * apply (Hout x (or_intror Hx)). rewrite <- He. destruct x. rewrite dfs_unfold. now left.
Qed.
