(** ValidMathProofs.v — C04 proofs, part 2: the MathML passes of validateMath against ValidSpec.MathDocOK. *)
From Coq Require Import String Ascii List Bool Arith Lia.
From LC Require Import Common NumDefs NumPosDefs MathDefs ValidDefs ValidSpec ValidLeaf.
Import ListNotations.
Local Open Scope string_scope.
Local Open Scope list_scope.
Local Open Scope nat_scope.

Section XmlInd.
  Variable P : xml -> Prop.
  Hypothesis HE : forall ns n attrs kids, Forall P kids -> P (Elem ns n attrs kids).
  Hypothesis HT : forall s, P (Text s).
  Hypothesis HC : forall s, P (Comment s).
  Fixpoint xml_ind3 (x : xml) : P x :=
    match x with
    | Elem ns n attrs kids =>
        HE ns n attrs kids ((fix go (l : list xml) : Forall P l :=
                               match l with [] => Forall_nil P | k :: r => Forall_cons k (xml_ind3 k) (go r) end) kids)
    | Text s => HT s
    | Comment s => HC s
    end.
End XmlInd.

(* ------------------------------------------------------------------ unfolding the nested fixpoints *)

Lemma elements_elem : forall ns n attrs kids,
  elements (Elem ns n attrs kids) = Elem ns n attrs kids :: flat_map elements kids.
Proof.
  intros. reflexivity.
Qed.

Lemma val_supported_elem : forall ns n attrs kids,
  val_supported (Elem ns n attrs kids)
  = (if is_supported (Elem ns n attrs kids) then [] else [R_MATH_CHILD]) ++ flat_map val_supported kids.
Proof.
  intros. reflexivity.
Qed.

Lemma val_cicn_elem : forall cf vars units ns n attrs kids,
  val_cicn_gen cf vars units (Elem ns n attrs kids)
  = (if is_mathml_el "cn" (Elem ns n attrs kids) then val_cn_units units attrs
     else if is_mathml_el "ci" (Elem ns n attrs kids) then val_ci_name_gen cf vars kids else [])
    ++ flat_map (val_cicn_gen cf vars units) kids.
Proof.
  intros. reflexivity.
Qed.

Lemma val_struct_d_elem : forall df q fx pk idx ns n attrs kids,
  val_struct_d df q fx pk idx (Elem ns n attrs kids)
  = if negb (String.eqb ns MATHML_NS) then []
    else let sub := val_struct_kids_d df q fx (mkids kids) kids 0 in
         dwrap df pk n (qwrap q n (val_node fx pk idx n attrs kids sub) sub).
Proof.
  intros. cbn [val_struct_d]. destruct (negb (String.eqb ns MATHML_NS)); [reflexivity|].
  assert (H : forall ks i,
             (fix go (ks : list xml) (i : nat) {struct ks} : list rule :=
                match ks with
                | [] => []
                | k :: r => if is_mathml k then val_struct_d df q fx (mkids kids) i k ++ go r (S i) else go r i
                end) ks i = val_struct_kids_d df q fx (mkids kids) ks i).
  { induction ks as [|k r IH]; intro i; [reflexivity|]. cbn [val_struct_kids_d]. rewrite !IH. reflexivity. }
  rewrite H. reflexivity.
Qed.

(* ------------------------------------------------------------------ pass 1: supported elements *)

Lemma val_supported_nil : forall x, val_supported x = [] <-> forall y, In y (elements x) -> SupportedOK y.
Proof.
  induction x as [ns n attrs kids IH|s|s] using xml_ind3.
  - rewrite val_supported_elem, elements_elem, app_nil_iff, (if_nil_iff (is_supported (Elem ns n attrs kids)) R_MATH_CHILD), flat_map_nil_iff.
    split.
    + intros [H1 H2] y [Hy|Hy]; [subst; exact H1|]. apply in_flat_map in Hy. destruct Hy as [k [Hk Hy]].
      rewrite Forall_forall in IH, H2. apply (proj1 (IH k Hk) (H2 k Hk)). assumption.
    + intro H. split; [apply H; left; reflexivity|]. rewrite Forall_forall in *. intros k Hk. apply (IH k Hk).
      intros y Hy. apply H. right. apply in_flat_map. exists k. split; assumption.
  - simpl. split; [intros _ y [] | reflexivity].
  - simpl. split; [intros _ y [] | reflexivity].
Qed.

(* ------------------------------------------------------------------ pass 2: ci / cn *)

Lemma in_list_iff : forall s l, in_list s l = true <-> In s l.
Proof. intros. apply str_in_iff. Qed.

Lemma val_ci_name_nil : forall vars kids,
  val_ci_name_gen ci_comment_fix_committed vars kids = [] <-> (ci_text kids = "" \/ In (ci_text kids) vars).
Proof.
  intros vars kids. unfold val_ci_name_gen, ci_text, val_ci_name. destruct ci_comment_fix_committed; cbv zeta.
  - set (t := match first_non_comment (visible kids) with Some (Text s) => strip s | _ => "" end).
    destruct (str_is_empty t) eqn:E.
    + apply str_is_empty_iff in E. split; [intro; left; assumption | reflexivity].
    + destruct (in_list t vars) eqn:E2.
      * apply in_list_iff in E2. split; [intro; right; assumption | reflexivity].
      * split; [intro H; discriminate H|]. intros [H|H]; [apply str_is_empty_iff in H; congruence | apply in_list_iff in H; congruence].
  - destruct (str_is_empty (text_of (first_child kids))) eqn:E.
    + apply str_is_empty_iff in E. split; [intro; left; assumption | reflexivity].
    + destruct (in_list (text_of (first_child kids)) vars) eqn:E2.
      * apply in_list_iff in E2. split; [intro; right; assumption | reflexivity].
      * split; [intro H; discriminate H|]. intros [H|H]; [apply str_is_empty_iff in H; congruence | apply in_list_iff in H; congruence].
Qed.

Lemma cn_not_ci : forall x, is_mathml_el "cn" x = true -> is_mathml_el "ci" x = false.
Proof.
  intros [ns n attrs kids|s|s]; simpl; try discriminate. intro H. apply andb_true_iff in H. destruct H as [_ H].
  apply String.eqb_eq in H. subst. apply andb_false_iff. right. reflexivity.
Qed.

Lemma val_cicn_nil : forall vars units x,
  val_cicn_gen ci_comment_fix_committed vars units x = [] <-> forall y, In y (elements x) -> TokenOK vars units y.
Proof.
  intros vars units. induction x as [ns n attrs kids IH|s|s] using xml_ind3.
  - rewrite val_cicn_elem, elements_elem, app_nil_iff, flat_map_nil_iff.
    assert (Hown : (if is_mathml_el "cn" (Elem ns n attrs kids) then val_cn_units units attrs
                    else if is_mathml_el "ci" (Elem ns n attrs kids) then val_ci_name_gen ci_comment_fix_committed vars kids else []) = []
                   <-> TokenOK vars units (Elem ns n attrs kids)).
    { unfold TokenOK. destruct (is_mathml_el "cn" (Elem ns n attrs kids)) eqn:Ecn.
      - rewrite (cn_not_ci _ Ecn). split; [intro H; split; [intro H0; discriminate H0 | intros _; exact H] | intros [_ H]; apply H; reflexivity].
      - destruct (is_mathml_el "ci" (Elem ns n attrs kids)) eqn:Eci.
        + rewrite val_ci_name_nil. split; [intro H; split; [intros _; exact H | intro H0; discriminate H0] | intros [H _]; apply H; reflexivity].
        + split; [intros _; split; intro H0; discriminate H0 | reflexivity]. }
    rewrite Hown. split.
    + intros [H1 H2] y [Hy|Hy]; [subst; exact H1|]. apply in_flat_map in Hy. destruct Hy as [k [Hk Hy]].
      rewrite Forall_forall in IH, H2. apply (proj1 (IH k Hk) (H2 k Hk)). assumption.
    + intro H. split; [apply H; left; reflexivity|]. rewrite Forall_forall in *. intros k Hk. apply (IH k Hk).
      intros y Hy. apply H. right. apply in_flat_map. exists k. split; assumption.
  - simpl. split; [intros _ y [] | reflexivity].
  - simpl. split; [intros _ y [] | reflexivity].
Qed.

(* ------------------------------------------------------------------ pass 4: arity / siblings *)

Lemma chk_nil : forall ok r k, chk ok r k = [] <-> ok = true /\ k = [].
Proof. intros [] r k; unfold chk; split; try (intros [H1 H2]; try discriminate H1; assumption); intro H; [split; [reflexivity|assumption] | discriminate H]. Qed.

(** the value of val_node is [] exactly when the node's own rule holds and, for the classes that hand [sub] on, the
    content is fine *)
Lemma val_node_nil : forall fx pk idx n attrs kids sub,
  val_node fx pk idx n attrs kids sub = [] <->
  val_node fx pk idx n attrs kids [] = [] /\
  (match vclass_of n with VApply | VPiecewise | VPiece | VOtherwise => sub = [] | _ => True end).
Proof.
  intros. unfold val_node, mm. destruct (vclass_of n); rewrite ?chk_nil; intuition.
Qed.

(** the qualifier classes do not look at [sub] *)
Lemma val_node_qual : forall fx pk idx n attrs kids sub,
  is_qualifier n = true -> val_node fx pk idx n attrs kids sub = val_node fx pk idx n attrs kids [].
Proof.
  intros. unfold is_qualifier in H. unfold val_node. destruct (vclass_of n); try discriminate H; reflexivity.
Qed.

Lemma val_struct_kids_q_nil : forall df q fx mk ks i,
  val_struct_kids_d df q fx mk ks i = [] <->
  forall j k, nth_error (mkids ks) j = Some k -> val_struct_d df q fx mk (i + j) k = [].
Proof.
  intros df q fx mk ks. induction ks as [|k r IH]; intro i; cbn [val_struct_kids_d].
  - split; [intros _ j k H; destruct j; discriminate H | reflexivity].
  - unfold mkids. cbn [filter]. destruct (is_mathml k) eqn:E.
    + rewrite app_nil_iff, IH. split.
      * intros [H1 H2] j x Hj. destruct j as [|j]; cbn in Hj.
        -- inversion Hj; subst. rewrite Nat.add_0_r. assumption.
        -- replace (i + S j) with (S i + j) by lia. apply H2. assumption.
      * intro H. split.
        -- specialize (H 0 k eq_refl). rewrite Nat.add_0_r in H. assumption.
        -- intros j x Hj. replace (S i + j) with (i + S j) by lia. apply H. assumption.
    + apply IH.
Qed.

Lemma struct_ok_elem_inv : forall q pk i ns n attrs kids,
  StructOK q pk i (Elem ns n attrs kids) ->
  is_mathml (Elem ns n attrs kids) = false \/
  (ns = MATHML_NS /\ NodeRule pk i n attrs kids /\
   (descends q n -> forall j k, nth_error (mkids kids) j = Some k -> StructOK q (mkids kids) j k)).
Proof.
  intros. inversion H; subst; [left; assumption | right; repeat split; assumption].
Qed.

(** the second-operand test of diff (C01's switch) wraps a node rule that does not look at [sub] *)
Lemma dwrap_nil : forall df q fx pk idx n attrs kids sub,
  dwrap df pk n (qwrap q n (val_node fx pk idx n attrs kids sub) sub) = [] <->
  dwrap df pk n (val_node fx pk idx n attrs kids []) = [] /\
  (match vclass_of n with
   | VApply | VPiecewise | VPiece | VOtherwise => sub = []
   | VDegree | VLogbase | VBvar => q = true -> sub = []
   | _ => True
   end).
Proof.
  intros. unfold dwrap. destruct (df && String.eqb n "diff") eqn:Ed.
  - apply andb_true_iff in Ed. destruct Ed as [_ Ed]. apply String.eqb_eq in Ed. subst n.
    unfold qwrap. replace (is_qualifier "diff") with false by reflexivity. rewrite andb_false_r.
    replace (vclass_of "diff") with VDiff by reflexivity.
    assert (E : val_node fx pk idx "diff" attrs kids sub = val_node fx pk idx "diff" attrs kids []) by reflexivity.
    rewrite E. tauto.
  - unfold qwrap. destruct (q && is_qualifier n) eqn:Eq.
    + apply andb_true_iff in Eq. destruct Eq as [Hq Hqc]. rewrite (val_node_qual _ _ _ _ _ _ sub Hqc).
      unfold is_qualifier in Hqc. destruct (val_node fx pk idx n attrs kids []) eqn:Er.
      * destruct (vclass_of n); try discriminate Hqc; split; try tauto; intros [_ H]; apply H; exact Hq.
      * split; [intro H; discriminate H | intros [H _]; discriminate H].
    + rewrite val_node_nil. apply andb_false_iff in Eq.
      destruct (vclass_of n) eqn:Ec; unfold is_qualifier in Eq; rewrite ?Ec in Eq; try tauto;
        (destruct Eq as [Eq|Eq]; [subst q; split; [intros [H _]; split; [exact H | intro H0; discriminate H0] | tauto] | discriminate Eq]).
Qed.

Lemma val_struct_q_nil : forall q x pk i,
  val_struct_d diff_ci_fix_committed q arity_fix_committed pk i x = [] <-> StructOK q pk i x.
Proof.
  intros q. induction x as [ns n attrs kids IH|s|s] using xml_ind3; intros pk i.
  - rewrite val_struct_d_elem. destruct (String.eqb ns MATHML_NS) eqn:Ens; cbn [negb].
    2:{ split; [intros _; apply S_other; simpl; exact Ens | reflexivity]. }
    apply String.eqb_eq in Ens. subst ns. cbv zeta.
    assert (Hsub : val_struct_kids_d diff_ci_fix_committed q arity_fix_committed (mkids kids) kids 0 = [] <->
                   forall j k, nth_error (mkids kids) j = Some k -> StructOK q (mkids kids) j k).
    { rewrite val_struct_kids_q_nil. split; intros H j k Hj.
      - assert (Hin : In k kids).
        { apply nth_error_In in Hj. unfold mkids in Hj. apply filter_In in Hj. tauto. }
        rewrite Forall_forall in IH. apply (IH k Hin). apply (H j k Hj).
      - assert (Hin : In k kids).
        { apply nth_error_In in Hj. unfold mkids in Hj. apply filter_In in Hj. tauto. }
        rewrite Forall_forall in IH. apply (IH k Hin). apply (H j k Hj). }
    set (sub := val_struct_kids_d diff_ci_fix_committed q arity_fix_committed (mkids kids) kids 0) in *.
    rewrite dwrap_nil. fold (NodeRule pk i n attrs kids).
    assert (Hd : (match vclass_of n with
                  | VApply | VPiecewise | VPiece | VOtherwise => sub = []
                  | VDegree | VLogbase | VBvar => q = true -> sub = []
                  | _ => True
                  end) <-> (descends q n -> sub = [])).
    { unfold descends. destruct (vclass_of n); tauto. }
    rewrite Hd, Hsub. split.
    + intros [H1 H2]. apply S_elem; assumption.
    + intro H. apply struct_ok_elem_inv in H. destruct H as [H|[_ [H1 H2]]]; [vm_compute in H; discriminate H|].
      split; assumption.
  - cbn. split; [intros _; apply S_other; reflexivity | reflexivity].
  - cbn. split; [intros _; apply S_other; reflexivity | reflexivity].
Qed.

(* ------------------------------------------------------------------ validateMath *)

Lemma val_math_env_q_nil : forall q vars units root,
  val_math_env_q q vars units root = [] <-> MathDocOK q vars units root.
Proof.
  intros. unfold val_math_env_q, val_math_env_gen3, MathDocOK. destruct (is_mathml_el "math" root) eqn:E; cbn [negb].
  - change ((fix go (ks : list xml) : list rule := match ks with [] => [] | k :: r => val_supported k ++ go r end) (kids_of root))
      with (flat_map val_supported (kids_of root)).
    rewrite !app_nil_iff, flat_map_nil_iff, val_cicn_nil, val_struct_kids_q_nil. split.
    + intros [H1 [H2 H3]]. split; [reflexivity|]. split; [|split; [assumption|]].
      * intros k Hk. rewrite Forall_forall in H1. apply val_supported_nil. apply H1. assumption.
      * intros j k Hj. apply val_struct_q_nil. apply (H3 j k Hj).
    + intros [_ [H1 [H2 H3]]]. split; [|split; [assumption|]].
      * rewrite Forall_forall. intros k Hk. apply val_supported_nil. apply H1. assumption.
      * intros j k Hj. apply val_struct_q_nil. apply (H3 j k Hj).
  - split; [intro H; discriminate H | intros [H _]; discriminate H].
Qed.

Lemma validate_math_nil : forall q vars units docs,
  validate_math q vars units docs = [] <-> MathsOK q vars units docs.
Proof.
  intros q vars units docs. unfold MathsOK. induction docs as [|d r IH]; cbn [validate_math].
  - split; [constructor | reflexivity].
  - destruct (is_mathml_el "math" d) eqn:E.
    + rewrite app_nil_iff, map_nil_iff, val_math_env_q_nil, IH. split.
      * intros [H1 H2]. constructor; assumption.
      * intro H. inversion H; subst. split; assumption.
    + split; [intro H; discriminate H|]. intro H. inversion H; subst. destruct H2 as [H2 _]. congruence.
Qed.

(* ------------------------------------------------------------------ the tie to C01's transcription *)

(** with the qualifier switch in the position MathDefs records for the tree, this IS C01's model of validateMath as it is
    on HEAD *)
Lemma val_math_env_q_c01 : forall vars units root,
  val_math_env_q qualifier_fix_committed vars units root = val_math_env_head vars units root.
Proof. reflexivity. Qed.
