(** HeapDefs.v — C09: executable model of libcellml's object graph (ownership, parent links, equivalences).

    No proofs here.  Objects are identified by their position in [objs] (never reused).  Strong references
    (shared_ptr): child lists, reset -> variable / test variable, variable -> units, and the handles held by the
    caller.  Weak references (weak_ptr): parent, equivalent variables.  An object exists as long as it is
    reachable from a handle over strong references; [gc] is the model of destruction: the lists of a destroyed
    object vanish and weak references to it read as null (weak_ptr::lock()).  Every call that is performed ends with
    [gc] (objects without a reference do not exist at any time in the library); a refusing call returns the state
    it was given.

    Transcribed from /repo/src (as repaired by the C09 "fix:" commits; [fixed = false] gives the code before them):
      componententity.cpp  addComponent doAddComponent removeComponent x3 takeComponent x2 replaceComponent x3
                           removeAllComponents findComponent x2
      component.cpp        doAddComponent addVariable removeVariable x3 takeVariable x2 removeAllVariables
                           addReset removeReset x2 takeReset removeAllResets findVariable x2 findReset
      model.cpp            doAddComponent addUnits removeUnits x3 takeUnits x2 replaceUnits x3 removeAllUnits findUnits x2
      variable.cpp         addEquivalence x2 removeEquivalence removeAllEquivalences setEquivalentTo unsetEquivalentTo
                           cleanExpiredVariables setUnits
      parentedentity.cpp   parent hasParent hasAncestor setParent removeParent
      reset.cpp            setVariable setTestVariable
      utilities.cpp        removeComponentFromEntity equalEntities;  *::doEquals for the structural equality [seqf]. *)
From Coq Require Import List String Bool Arith PeanoNat.
Import ListNotations.

(* ------------------------------------------------------------------------------------------------ lists *)

Fixpoint find_index {A} (p : A -> bool) (l : list A) : option nat :=
  match l with
  | [] => None
  | a :: t => if p a then Some 0 else match find_index p t with Some i => Some (S i) | None => None end
  end.

Fixpoint remove_nth {A} (i : nat) (l : list A) : list A :=
  match l, i with
  | [], _ => []
  | _ :: t, 0 => t
  | a :: t, S j => a :: remove_nth j t
  end.

(* vector::insert(begin + i, x) for i <= size *)
Fixpoint insert_nth {A} (i : nat) (x : A) (l : list A) : list A :=
  match i, l with
  | 0, _ => x :: l
  | S j, [] => [x]
  | S j, a :: t => a :: insert_nth j x t
  end.

Fixpoint upd_nth {A} (n : nat) (f : A -> A) (l : list A) {struct l} : list A :=
  match l, n with
  | [], _ => []
  | a :: t, 0 => f a :: t
  | a :: t, S m => a :: upd_nth m f t
  end.

Fixpoint mapi_from {A B} (f : nat -> A -> B) (n : nat) (l : list A) : list B :=
  match l with
  | [] => []
  | a :: t => f n a :: mapi_from f (S n) t
  end.

Definition memb (x : nat) (l : list nat) : bool := existsb (Nat.eqb x) l.
Definition index_of (x : nat) (l : list nat) : option nat := find_index (Nat.eqb x) l.
Definition remove_first (x : nat) (l : list nat) : list nat :=
  match index_of x l with Some i => remove_nth i l | None => l end.
Definition remove_all (x : nat) (l : list nat) : list nat := filter (fun y => negb (Nat.eqb x y)) l.
Definition olist {A} (o : option A) : list A := match o with Some a => [a] | None => [] end.
Definition ofilter (p : nat -> bool) (o : option nat) : option nat :=
  match o with Some a => if p a then Some a else None | None => None end.
Definition oeqb (a b : option nat) : bool :=
  match a, b with Some x, Some y => Nat.eqb x y | None, None => true | _, _ => false end.
Fixpoint first_some {A B} (f : A -> option B) (l : list A) : option B :=
  match l with [] => None | a :: t => match f a with Some b => Some b | None => first_some f t end end.

(* ------------------------------------------------------------------------------------------------ objects *)

Inductive kind := KModel | KComp | KVar | KUnits | KReset.
Definition kind_eqb (a b : kind) : bool :=
  match a, b with
  | KModel, KModel | KComp, KComp | KVar, KVar | KUnits, KUnits | KReset, KReset => true
  | _, _ => false
  end.

Record obj := mkObj {
  o_kind : kind; o_name : string;
  o_parent : option nat;                               (* weak: ParentedEntityImpl::mParent *)
  o_comps : list nat; o_vars : list nat; o_resets : list nat; o_units : list nat;
                                                       (* strong, ordered: mComponents mVariables mResets mUnits *)
  o_eqs : list nat;                                    (* weak: VariableImpl::mEquivalentVariables *)
  o_rvar : option nat; o_rtest : option nat;           (* strong: ResetImpl::mVariable mTestVariable *)
  o_vunits : option nat }.                             (* strong: VariableImpl::mUnits *)

Record state := mkState { objs : list obj; handles : list nat }.

Definition blank : obj := mkObj KReset EmptyString None [] [] [] [] [] None None None.
Definition new_obj (k : kind) (n : string) : obj := mkObj k n None [] [] [] [] [] None None None.

Definition get (s : state) (x : nat) : option obj := nth_error (objs s) x.
Definition getd (s : state) (x : nat) : obj := nth x (objs s) blank.

(** the four kinds of child list *)
Inductive ck := CComps | CVars | CResets | CUnits.
Definition ck_eqb (a b : ck) : bool :=
  match a, b with CComps, CComps | CVars, CVars | CResets, CResets | CUnits, CUnits => true | _, _ => false end.
Definition clist (K : ck) (o : obj) : list nat :=
  match K with CComps => o_comps o | CVars => o_vars o | CResets => o_resets o | CUnits => o_units o end.
Definition set_clist (K : ck) (l : list nat) (o : obj) : obj :=
  match K with
  | CComps => mkObj (o_kind o) (o_name o) (o_parent o) l (o_vars o) (o_resets o) (o_units o) (o_eqs o) (o_rvar o) (o_rtest o) (o_vunits o)
  | CVars => mkObj (o_kind o) (o_name o) (o_parent o) (o_comps o) l (o_resets o) (o_units o) (o_eqs o) (o_rvar o) (o_rtest o) (o_vunits o)
  | CResets => mkObj (o_kind o) (o_name o) (o_parent o) (o_comps o) (o_vars o) l (o_units o) (o_eqs o) (o_rvar o) (o_rtest o) (o_vunits o)
  | CUnits => mkObj (o_kind o) (o_name o) (o_parent o) (o_comps o) (o_vars o) (o_resets o) l (o_eqs o) (o_rvar o) (o_rtest o) (o_vunits o)
  end.
Definition set_parent (p : option nat) (o : obj) : obj :=
  mkObj (o_kind o) (o_name o) p (o_comps o) (o_vars o) (o_resets o) (o_units o) (o_eqs o) (o_rvar o) (o_rtest o) (o_vunits o).
Definition set_eqs (l : list nat) (o : obj) : obj :=
  mkObj (o_kind o) (o_name o) (o_parent o) (o_comps o) (o_vars o) (o_resets o) (o_units o) l (o_rvar o) (o_rtest o) (o_vunits o).
Definition set_rvar (v : option nat) (o : obj) : obj :=
  mkObj (o_kind o) (o_name o) (o_parent o) (o_comps o) (o_vars o) (o_resets o) (o_units o) (o_eqs o) v (o_rtest o) (o_vunits o).
Definition set_rtest (v : option nat) (o : obj) : obj :=
  mkObj (o_kind o) (o_name o) (o_parent o) (o_comps o) (o_vars o) (o_resets o) (o_units o) (o_eqs o) (o_rvar o) v (o_vunits o).
Definition set_vunits (u : option nat) (o : obj) : obj :=
  mkObj (o_kind o) (o_name o) (o_parent o) (o_comps o) (o_vars o) (o_resets o) (o_units o) (o_eqs o) (o_rvar o) (o_rtest o) u.

(** which kind of object lists which kind of child *)
Definition lists (k : kind) (K : ck) : bool :=
  match K, k with
  | CComps, KModel | CComps, KComp | CVars, KComp | CResets, KComp | CUnits, KModel => true
  | _, _ => false
  end.
Definition child_kind (K : ck) : kind :=
  match K with CComps => KComp | CVars => KVar | CResets => KReset | CUnits => KUnits end.

Definition upd (s : state) (x : nat) (f : obj -> obj) : state := mkState (upd_nth x f (objs s)) (handles s).

Definition children (s : state) (K : ck) (k : nat) : list nat := clist K (getd s k).
Definition parent_of (s : state) (x : nat) : option nat := o_parent (getd s x).
Definition name_of (s : state) (x : nat) : string := o_name (getd s x).
Definition eqs_of (s : state) (x : nat) : list nat := o_eqs (getd s x).

Definition set_parent_of (s : state) (x : nat) (p : option nat) : state := upd s x (set_parent p).
Definition set_children (s : state) (K : ck) (k : nat) (l : list nat) : state := upd s k (set_clist K l).
Definition erase_child (s : state) (K : ck) (k i : nat) : state := set_children s K k (remove_nth i (children s K k)).
Definition insert_child (s : state) (K : ck) (k i x : nat) : state := set_children s K k (insert_nth i x (children s K k)).
Definition push_child (s : state) (K : ck) (k x : nat) : state := set_children s K k (children s K k ++ [x]).
Definition set_eqs_of (s : state) (x : nat) (l : list nat) : state := upd s x (set_eqs l).

Definition held (s : state) (x : nat) : bool := memb x (handles s).
Definition kind_is (s : state) (x : nat) (k : kind) : bool :=
  match get s x with Some o => kind_eqb (o_kind o) k | None => false end.
Definition lister_ok (s : state) (k : nat) (K : ck) : bool :=
  match get s k with Some o => lists (o_kind o) K | None => false end.
(** what a caller can pass: an object it holds, of the static type of the parameter *)
Definition recv (s : state) (k : nat) (K : ck) : bool := held s k && lister_ok s k K.
Definition arg_ok (s : state) (x : nat) (k : kind) : bool := held s x && kind_is s x k.
Definition oarg_ok (s : state) (x : option nat) (k : kind) : bool :=
  match x with Some a => arg_ok s a k | None => true end.

(* ------------------------------------------------------------------------------------------------ liveness *)

Definition succs (o : obj) : list nat :=
  o_comps o ++ o_vars o ++ o_resets o ++ o_units o ++ olist (o_rvar o) ++ olist (o_rtest o) ++ olist (o_vunits o).

Fixpoint add_all (new acc : list nat) : list nat :=
  match new with
  | [] => acc
  | x :: t => if memb x acc then add_all t acc else add_all t (acc ++ [x])
  end.

Fixpoint reach_iter (fuel : nat) (s : state) (R : list nat) : list nat :=
  match fuel with
  | 0 => R
  | S f => reach_iter f s (add_all (flat_map (fun x => succs (getd s x)) R) R)
  end.

Definition reach_set (s : state) : list nat := reach_iter (List.length (objs s)) s (add_all (handles s) []).
Definition alive (s : state) (x : nat) : bool := memb x (reach_set s).

(** destruction of everything [live] does not hold: shared_ptr releases its children, weak_ptr::lock() gives null *)
Definition gc_obj (live : nat -> bool) (me : bool) (o : obj) : obj :=
  if me then
    mkObj (o_kind o) (o_name o) (ofilter live (o_parent o)) (o_comps o) (o_vars o) (o_resets o) (o_units o)
          (filter live (o_eqs o)) (o_rvar o) (o_rtest o) (o_vunits o)
  else
    mkObj (o_kind o) (o_name o) (ofilter live (o_parent o)) [] [] [] [] [] None None None.

Definition gc_with (live : nat -> bool) (s : state) : state :=
  mkState (mapi_from (fun x o => gc_obj live (live x) o) 0 (objs s)) (handles s).

Definition gc (s : state) : state :=
  let R := reach_set s in gc_with (fun y => memb y R) s.

(* ------------------------------------------------------------------------------------------------ results *)

Inductive ret := RBool (b : bool) | RObj (x : option nat) | RUnit
               | RIll.   (* not a call the type system / a caller can make: receiver or argument not held or of the wrong class *)
Inductive outcome := Ok (s : state) (r : ret) | Crash.

(** the public queries of the object model that take an entity, an index or a name (they change nothing; a returned
    pointer is one more reference held by the caller) *)
Inductive query :=
  | QContainsComponentName (k : nat) (n : string) (deep : bool)
  | QContainsComponentPtr (k : nat) (c : option nat) (deep : bool)
  | QComponentIdx (k i : nat)
  | QComponentName (k : nat) (n : string) (deep : bool)
  | QHasVariableName (k : nat) (n : string)
  | QHasVariablePtr (k : nat) (v : option nat)
  | QVariableIdx (k i : nat)
  | QVariableName (k : nat) (n : string)
  | QHasReset (k : nat) (r : option nat)
  | QResetIdx (k i : nat)
  | QHasUnitsName (k : nat) (n : string)
  | QHasUnitsPtr (k : nat) (u : option nat)
  | QUnitsIdx (k i : nat)
  | QUnitsName (k : nat) (n : string)
  | QHasEquivalentVariable (v : nat) (w : option nat) (indirect : bool)
  | QEquivalentVariable (v i : nat)
  | QParent (x : nat)
  | QHasParent (x : nat)
  | QHasAncestor (x : nat) (a : option nat)
  | QGetUnits (v : nat)
  | QGetVariable (r : nat)
  | QGetTestVariable (r : nat).

Inductive op :=
  | AddComponent (k : nat) (c : option nat)
  | RemoveComponentIdx (k i : nat)
  | RemoveComponentName (k : nat) (n : string) (deep : bool)
  | RemoveComponentPtr (k : nat) (c : option nat) (deep : bool)
  | TakeComponentIdx (k i : nat)
  | TakeComponentName (k : nat) (n : string) (deep : bool)
  | ReplaceComponentIdx (k i : nat) (c : option nat)
  | ReplaceComponentName (k : nat) (n : string) (c : option nat) (deep : bool)
  | ReplaceComponentPtr (k : nat) (old c : option nat) (deep : bool)
  | RemoveAllComponents (k : nat)
  | AddVariable (k : nat) (v : option nat)
  | RemoveVariableIdx (k i : nat)
  | RemoveVariableName (k : nat) (n : string)
  | RemoveVariablePtr (k : nat) (v : option nat)
  | TakeVariableIdx (k i : nat)
  | TakeVariableName (k : nat) (n : string)
  | RemoveAllVariables (k : nat)
  | AddReset (k : nat) (r : option nat)
  | RemoveResetIdx (k i : nat)
  | RemoveResetPtr (k : nat) (r : option nat)
  | TakeReset (k i : nat)
  | RemoveAllResets (k : nat)
  | AddUnits (k : nat) (u : option nat)
  | RemoveUnitsIdx (k i : nat)
  | RemoveUnitsName (k : nat) (n : string)
  | RemoveUnitsPtr (k : nat) (u : option nat)
  | TakeUnitsIdx (k i : nat)
  | TakeUnitsName (k : nat) (n : string)
  | ReplaceUnitsIdx (k i : nat) (u : option nat)
  | ReplaceUnitsName (k : nat) (n : string) (u : option nat)
  | ReplaceUnitsPtr (k : nat) (old u : option nat)
  | RemoveAllUnits (k : nat)
  | AddEquivalence (a b : option nat)
  | AddEquivalence4 (a b : option nat)
  | RemoveEquivalence (a b : option nat)
  | RemoveAllEquivalences (v : nat)
  | SetUnits (v : nat) (u : option nat)
  | SetResetVariable (r : nat) (v : option nat)
  | SetResetTestVariable (r : nat) (v : option nat)
  | Release (h : nat)
  | Query (q : query).

(* ------------------------------------------------------------------------------------------------ step *)

Section Step.
  Variable fixed : bool.                         (* true: /repo with the C09 fix commits; false: before them *)
  Variable seq : state -> nat -> nat -> bool.    (* seq s y x  =  y->equals(x)  (structural equality oracle) *)

  (** ParentedEntity::hasAncestor — None: recursion does not end (stack exhaustion) *)
  Fixpoint has_ancestor (s : state) (fuel : nat) (x a : nat) : option bool :=
    match fuel with
    | 0 => None
    | S f => match parent_of s x with
             | None => Some false
             | Some p => if Nat.eqb p a then Some true else has_ancestor s f p a
             end
    end.
  Definition fuel_of (s : state) : nat := S (List.length (objs s)).

  (** findComponent / findVariable / findReset / findUnits (pointer overloads): position of the child *)
  Definition find_child (s : state) (K : ck) (k x : nat) : option nat :=
    let l := children s K k in
    if fixed || ck_eqb K CUnits then
      match index_of x l with Some i => Some i | None => find_index (fun y => seq s y x) l end
    else find_index (fun y => seq s y x) l.

  (** find*(const std::string &) *)
  Definition find_named (s : state) (K : ck) (k : nat) (n : string) : option nat :=
    find_index (fun y => String.eqb (name_of s y) n) (children s K k).

  (** remove*(index) / take*(index): erase position i, clear the parent of the erased child *)
  Definition detach_at (s : state) (K : ck) (k i : nat) : option (state * nat) :=
    match nth_error (children s K k) i with
    | None => None
    | Some x => Some (set_parent_of (erase_child s K k i) x None, x)
    end.

  (** remove*(pointer), one level *)
  Definition remove_ptr_local (s : state) (K : ck) (k x : nat) : option state :=
    match find_child s K k x with
    | None => None
    | Some i =>
        if fixed || ck_eqb K CResets then option_map fst (detach_at s K k i)
        else Some (set_parent_of (erase_child s K k i) x None)       (* before the fix: the ARGUMENT loses its parent *)
    end.

  (** "prevent adding to multiple parents": x leaves the parent it has, unless that is [keep] *)
  Definition leave_parent (s : state) (K : ck) (x : nat) (keep : option nat) : state :=
    match parent_of s x with
    | None => s
    | Some p => if oeqb (Some p) keep then s
                else match remove_ptr_local s K p x with Some s' => s' | None => s end
    end.

  Definition attach (s : state) (K : ck) (k x : nat) : state :=
    push_child (set_parent_of (leave_parent s K x (Some k)) x (Some k)) K k x.

  (** Component::addVariable, Component::addReset, Model::addUnits, Model::doAddComponent *)
  Definition add_plain (s : state) (K : ck) (k : nat) (x : option nat) : outcome :=
    match x with
    | None => Ok s (RBool false)
    | Some c => Ok (gc (attach s K k c)) (RBool true)
    end.

  (** ComponentEntity::addComponent + Model::doAddComponent / Component::doAddComponent *)
  Definition add_component (s : state) (k : nat) (x : option nat) : outcome :=
    match x with
    | None => Ok s (RBool false)
    | Some c =>
        if kind_is s k KModel then Ok (gc (attach s CComps k c)) (RBool true)
        else if fixed then
          if Nat.eqb k c then Ok s (RBool false)
          else match has_ancestor s (fuel_of s) k c with
               | None => Crash
               | Some true => Ok s (RBool false)
               | Some false => Ok (gc (attach s CComps k c)) (RBool true)
               end
        else
          match parent_of s c with
          | Some _ =>
              match has_ancestor s (fuel_of s) k c with
              | None => Crash
              | Some true => Ok s (RBool false)
              | Some false => Ok (gc (attach s CComps k c)) (RBool true)
              end
          | None =>
              match has_ancestor s (fuel_of s) k c with
              | None => Crash
              | Some true => Ok s (RBool false)
              | Some false => if Nat.eqb k c then Ok s (RBool false) else Ok (gc (attach s CComps k c)) (RBool true)
              end
          end
    end.

  (** one level of a by-index removal, as result of the whole call *)
  Definition remove_at (s : state) (K : ck) (k : nat) (i : option nat) : option state :=
    match i with
    | None => None
    | Some j => option_map fst (detach_at s K k j)
    end.

  Definition take_at (s : state) (K : ck) (k : nat) (i : option nat) : option (state * nat) :=
    match i with
    | None => None
    | Some j => detach_at s K k j
    end.

  (** ComponentEntity::replaceComponent(index, c), Model::replaceUnits(index, u).
      Result: None = refused without touching anything (status false). *)
  Inductive local (A : Type) := LDone (a : A) | LRefused | LCrash.
  Arguments LDone {A} a.
  Arguments LRefused {A}.
  Arguments LCrash {A}.

  Definition replace_core (s : state) (K : ck) (k i : nat) (c : nat) (pold : option nat) : local (state * bool) :=
    (* removeX(index) ; insert(begin + index, c) ; c->setParent(pold) *)
    match detach_at s K k i with
    | None => LDone (s, false)
    | Some (s1, _) => LDone (set_parent_of (insert_child s1 K k i c) c pold, true)
    end.

  Definition replace_at (s : state) (K : ck) (k : nat) (io : option nat) (co : option nat) : local (state * bool) :=
    match io with
    | None => LRefused                                   (* find...() == end(): index = size, nothing there *)
    | Some i =>
      match nth_error (children s K k) i with
      | None => LRefused
      | Some old =>
        let pold := if ck_eqb K CComps then parent_of s old else Some k in
        match co with
        | None => if fixed then LRefused else LCrash      (* before the fix: null->pFunc()->setParent() *)
        | Some c =>
          if fixed then
            if ck_eqb K CComps && Nat.eqb c k then LRefused
            else
              match (if ck_eqb K CComps then has_ancestor s (fuel_of s) k c else Some false) with
              | None => LCrash
              | Some true => LRefused
              | Some false =>
                  if Nat.eqb old c then LDone (s, true)
                  else
                    (* the replacement leaves whatever holds it; the position of [old] is looked up again *)
                    let s1 := leave_parent s K c None in
                    match (match parent_of s c with Some _ => index_of old (children s1 K k) | None => Some i end) with
                    | None => LDone (s1, false)
                    | Some j => replace_core s1 K k j c pold
                    end
              end
          else replace_core s K k i c pold
        end
      end
    end.

  (** search of the encapsulated components: `for (i < componentCount() && !status) status = component(i)->f(...)`.
      None = the recursion does not end. *)
  Fixpoint deep {A} (fuel : nat) (s : state) (f : nat -> local A) (k : nat) : local A :=
    match fuel with
    | 0 => LCrash
    | S fu =>
        (fix go (l : list nat) : local A :=
           match l with
           | [] => LRefused
           | c :: t => match f c with
                       | LDone a => LDone a
                       | LCrash => LCrash
                       | LRefused => match deep fu s f c with
                                     | LDone a => LDone a
                                     | LCrash => LCrash
                                     | LRefused => go t
                                     end
                       end
           end) (children s CComps k)
    end.

  Definition with_deep {A} (s : state) (dp : bool) (f : nat -> local A) (k : nat) : local A :=
    match f k with
    | LDone a => LDone a
    | LCrash => LCrash
    | LRefused => if dp then deep (fuel_of s) s f k else LRefused
    end.

  Definition of_opt {A} (o : option A) : local A := match o with Some a => LDone a | None => LRefused end.

  Definition add_handle (s : state) (x : nat) : state :=
    if held s x then s else mkState (objs s) (handles s ++ [x]).

  (** remove*: bool result; the erased child may have been the last reference *)
  Definition fin_remove (s : state) (r : local state) : outcome :=
    match r with
    | LDone s' => Ok (gc s') (RBool true)
    | LRefused => Ok s (RBool false)
    | LCrash => Crash
    end.
  (** take*: the caller now holds the child *)
  Definition fin_take (s : state) (r : local (state * nat)) : outcome :=
    match r with
    | LDone (s', x) => Ok (gc (add_handle s' x)) (RObj (Some x))
    | LRefused => Ok s (RObj None)
    | LCrash => Crash
    end.

  (** removeAll*: every child loses its parent, the list is cleared *)
  Definition remove_all_children (s : state) (K : ck) (k : nat) : state :=
    set_children (fold_left (fun s' x => set_parent_of s' x None) (children s K k) s) K k [].

  (** VariableImpl::setEquivalentTo / unsetEquivalentTo (cleanExpiredVariables: [gc] already removed expired entries) *)
  Definition set_equiv_to (s : state) (a b : nat) : state * bool :=
    if memb b (eqs_of s a) then (s, false) else (set_eqs_of s a (eqs_of s a ++ [b]), true).
  Definition unset_equiv_to (s : state) (a b : nat) : state * bool :=
    if memb b (eqs_of s a) then (set_eqs_of s a (remove_first b (eqs_of s a)), true) else (s, false).

  Definition add_equivalence (s : state) (a b : nat) : state * bool :=
    let '(s1, can1) := set_equiv_to s a b in
    let '(s2, can2) := set_equiv_to s1 b a in
    let s3 := if can1 && negb can2 then fst (unset_equiv_to s2 a b) else s2 in
    (s3, can1 && can2).

  Definition remove_equivalence (s : state) (a b : nat) : state * bool :=
    let '(s1, r1) := unset_equiv_to s a b in
    if r1 then unset_equiv_to s1 b a else (s1, false).

  Definition remove_all_equivalences (s : state) (v : nat) : state :=
    set_eqs_of (fold_left (fun s' w => fst (unset_equiv_to s' w v)) (eqs_of s v) s) v [].

  (** replace*: bool result *)
  Definition fin_replace (s : state) (r : local (state * bool)) : outcome :=
    match r with
    | LDone (s', b) => Ok (gc s') (RBool b)
    | LRefused => Ok s (RBool false)
    | LCrash => Crash
    end.

  (** variable.cpp: haveEquivalentVariables — everything reachable from [R] over equivalences ([fuel] rounds) *)
  Fixpoint eq_closure (fuel : nat) (s : state) (R : list nat) : list nat :=
    match fuel with
    | 0 => R
    | S f => eq_closure f s (add_all (flat_map (eqs_of s) R) R)
    end.

  Definition is_some {A} (o : option A) : bool := match o with Some _ => true | None => false end.
  Definition found {A} (r : local A) : option bool :=
    match r with LDone _ => Some true | LRefused => Some false | LCrash => None end.
  Definition found_obj (r : local nat) : option ret :=
    match r with LDone x => Some (RObj (Some x)) | LRefused => Some (RObj None) | LCrash => None end.
  Definition obool (b : option bool) : option ret := option_map RBool b.
  Definition child_at (s : state) (K : ck) (k : nat) (i : option nat) : option nat :=
    match i with Some j => nth_error (children s K k) j | None => None end.

  (** None: the call does not return (stack exhaustion) *)
  Definition query_eval (s : state) (q : query) : option ret :=
    match q with
    | QContainsComponentName k n dp =>
        obool (found (with_deep s dp (fun k' => of_opt (find_named s CComps k' n)) k))
    | QContainsComponentPtr k c dp =>
        obool (found (with_deep s dp (fun k' => match c with Some x => of_opt (find_child s CComps k' x) | None => LRefused end) k))
    | QComponentIdx k i => Some (RObj (nth_error (children s CComps k) i))
    | QComponentName k n dp =>
        found_obj (with_deep s dp (fun k' => of_opt (child_at s CComps k' (find_named s CComps k' n))) k)
    | QHasVariableName k n => Some (RBool (is_some (find_named s CVars k n)))
    | QHasVariablePtr k v => Some (RBool (match v with Some x => is_some (find_child s CVars k x) | None => false end))
    | QVariableIdx k i => Some (RObj (nth_error (children s CVars k) i))
    | QVariableName k n => Some (RObj (child_at s CVars k (find_named s CVars k n)))
    | QHasReset k r => Some (RBool (match r with Some x => is_some (find_child s CResets k x) | None => false end))
    | QResetIdx k i => Some (RObj (nth_error (children s CResets k) i))
    | QHasUnitsName k n => Some (RBool (is_some (find_named s CUnits k n)))
    | QHasUnitsPtr k u => Some (RBool (match u with Some x => is_some (find_child s CUnits k x) | None => false end))
    | QUnitsIdx k i => Some (RObj (nth_error (children s CUnits k) i))
    | QUnitsName k n => Some (RObj (child_at s CUnits k (find_named s CUnits k n)))
    | QHasEquivalentVariable v w indirect =>
        (* variable.cpp: VariableImpl::hasEquivalentVariable.  An expired entry never matches: a null argument is
           equivalent to nothing; indirect: the argument is another variable from which v is reachable *)
        Some (RBool (match w with
                     | None => false
                     | Some x => if indirect then negb (Nat.eqb x v) && memb v (eq_closure (List.length (objs s)) s [x])
                                 else memb x (eqs_of s v)
                     end))
    | QEquivalentVariable v i => Some (RObj (nth_error (eqs_of s v) i))
    | QParent x => Some (RObj (parent_of s x))
    | QHasParent x => Some (RBool (is_some (parent_of s x)))
    | QHasAncestor x a =>
        match a with
        | None => if fixed then Some (RBool false)
                  else (* before the fix: the missing parent of the top-most ancestor equals the null argument *)
                       match has_ancestor s (fuel_of s) x (List.length (objs s)) with None => None | Some _ => Some (RBool true) end
        | Some y => obool (has_ancestor s (fuel_of s) x y)
        end
    | QGetUnits v => Some (RObj (o_vunits (getd s v)))
    | QGetVariable r => Some (RObj (o_rvar (getd s r)))
    | QGetTestVariable r => Some (RObj (o_rtest (getd s r)))
    end.

  (** what a caller can write down: receiver and arguments held, of the parameter's class *)
  Definition query_ok (s : state) (q : query) : bool :=
    match q with
    | QContainsComponentName k _ _ | QComponentIdx k _ | QComponentName k _ _ => recv s k CComps
    | QContainsComponentPtr k c _ => recv s k CComps && oarg_ok s c KComp
    | QHasVariableName k _ | QVariableIdx k _ | QVariableName k _ => recv s k CVars
    | QHasVariablePtr k v => recv s k CVars && oarg_ok s v KVar
    | QHasReset k r => recv s k CResets && oarg_ok s r KReset
    | QResetIdx k _ => recv s k CResets
    | QHasUnitsName k _ | QUnitsIdx k _ | QUnitsName k _ => recv s k CUnits
    | QHasUnitsPtr k u => recv s k CUnits && oarg_ok s u KUnits
    | QHasEquivalentVariable v w _ => arg_ok s v KVar && oarg_ok s w KVar
    | QEquivalentVariable v _ | QGetUnits v => arg_ok s v KVar
    | QParent x | QHasParent x => held s x
    | QHasAncestor x a => held s x && match a with Some y => held s y | None => true end
    | QGetVariable r | QGetTestVariable r => arg_ok s r KReset
    end.

  Definition ill (s : state) : outcome := Ok s RIll.

  Definition step (s : state) (o : op) : outcome :=
    match o with
    | AddComponent k c =>
        if recv s k CComps && oarg_ok s c KComp then add_component s k c else ill s
    | RemoveComponentIdx k i =>
        if recv s k CComps then fin_remove s (of_opt (remove_at s CComps k (Some i))) else ill s
    | RemoveComponentName k n dp =>
        if recv s k CComps
        then fin_remove s (with_deep s dp (fun k' => of_opt (remove_at s CComps k' (find_named s CComps k' n))) k)
        else ill s
    | RemoveComponentPtr k c dp =>
        if recv s k CComps && oarg_ok s c KComp
        then match c with
             | None => if dp then match with_deep s dp (fun _ => @LRefused state) k with LCrash => Crash | _ => Ok s (RBool false) end
                       else Ok s (RBool false)
             | Some x => fin_remove s (with_deep s dp (fun k' => of_opt (remove_ptr_local s CComps k' x)) k)
             end
        else ill s
    | TakeComponentIdx k i =>
        if recv s k CComps then fin_take s (of_opt (take_at s CComps k (Some i))) else ill s
    | TakeComponentName k n dp =>
        if recv s k CComps
        then fin_take s (with_deep s dp (fun k' => of_opt (take_at s CComps k' (find_named s CComps k' n))) k)
        else ill s
    | ReplaceComponentIdx k i c =>
        if recv s k CComps && oarg_ok s c KComp then fin_replace s (replace_at s CComps k (Some i) c) else ill s
    | ReplaceComponentName k n c dp =>
        if recv s k CComps && oarg_ok s c KComp
        then fin_replace s (with_deep s dp (fun k' => replace_at s CComps k' (find_named s CComps k' n) c) k)
        else ill s
    | ReplaceComponentPtr k old c dp =>
        if recv s k CComps && oarg_ok s old KComp && oarg_ok s c KComp
        then fin_replace s (with_deep s dp (fun k' => replace_at s CComps k'
                             (match old with Some x => find_child s CComps k' x | None => None end) c) k)
        else ill s
    | RemoveAllComponents k =>
        if recv s k CComps then Ok (gc (remove_all_children s CComps k)) RUnit else ill s

    | AddVariable k v =>
        if recv s k CVars && oarg_ok s v KVar then add_plain s CVars k v else ill s
    | RemoveVariableIdx k i =>
        if recv s k CVars then fin_remove s (of_opt (remove_at s CVars k (Some i))) else ill s
    | RemoveVariableName k n =>
        if recv s k CVars then fin_remove s (of_opt (remove_at s CVars k (find_named s CVars k n))) else ill s
    | RemoveVariablePtr k v =>
        if recv s k CVars && oarg_ok s v KVar
        then match v with None => Ok s (RBool false) | Some x => fin_remove s (of_opt (remove_ptr_local s CVars k x)) end
        else ill s
    | TakeVariableIdx k i =>
        if recv s k CVars then fin_take s (of_opt (take_at s CVars k (Some i))) else ill s
    | TakeVariableName k n =>
        if recv s k CVars then fin_take s (of_opt (take_at s CVars k (find_named s CVars k n))) else ill s
    | RemoveAllVariables k =>
        if recv s k CVars then Ok (gc (remove_all_children s CVars k)) RUnit else ill s

    | AddReset k r =>
        if recv s k CResets && oarg_ok s r KReset then add_plain s CResets k r else ill s
    | RemoveResetIdx k i =>
        if recv s k CResets then fin_remove s (of_opt (remove_at s CResets k (Some i))) else ill s
    | RemoveResetPtr k r =>
        if recv s k CResets && oarg_ok s r KReset
        then match r with None => Ok s (RBool false) | Some x => fin_remove s (of_opt (remove_ptr_local s CResets k x)) end
        else ill s
    | TakeReset k i =>
        if recv s k CResets then fin_take s (of_opt (take_at s CResets k (Some i))) else ill s
    | RemoveAllResets k =>
        if recv s k CResets then Ok (gc (remove_all_children s CResets k)) RUnit else ill s

    | AddUnits k u =>
        if recv s k CUnits && oarg_ok s u KUnits then add_plain s CUnits k u else ill s
    | RemoveUnitsIdx k i =>
        if recv s k CUnits then fin_remove s (of_opt (remove_at s CUnits k (Some i))) else ill s
    | RemoveUnitsName k n =>
        if recv s k CUnits then fin_remove s (of_opt (remove_at s CUnits k (find_named s CUnits k n))) else ill s
    | RemoveUnitsPtr k u =>
        if recv s k CUnits && oarg_ok s u KUnits
        then match u with None => Ok s (RBool false) | Some x => fin_remove s (of_opt (remove_ptr_local s CUnits k x)) end
        else ill s
    | TakeUnitsIdx k i =>
        if recv s k CUnits then fin_take s (of_opt (take_at s CUnits k (Some i))) else ill s
    | TakeUnitsName k n =>
        if recv s k CUnits then fin_take s (of_opt (take_at s CUnits k (find_named s CUnits k n))) else ill s
    | ReplaceUnitsIdx k i u =>
        if recv s k CUnits && oarg_ok s u KUnits then fin_replace s (replace_at s CUnits k (Some i) u) else ill s
    | ReplaceUnitsName k n u =>
        if recv s k CUnits && oarg_ok s u KUnits then fin_replace s (replace_at s CUnits k (find_named s CUnits k n) u) else ill s
    | ReplaceUnitsPtr k old u =>
        if recv s k CUnits && oarg_ok s old KUnits && oarg_ok s u KUnits
        then fin_replace s (replace_at s CUnits k (match old with Some x => find_child s CUnits k x | None => None end) u)
        else ill s
    | RemoveAllUnits k =>
        if recv s k CUnits then Ok (gc (remove_all_children s CUnits k)) RUnit else ill s

    | AddEquivalence a b =>
        if oarg_ok s a KVar && oarg_ok s b KVar
        then match a, b with
             | Some x, Some y => let '(s', r) := add_equivalence s x y in Ok (gc s') (RBool r)
             | _, _ => Ok s (RBool false)
             end
        else ill s
    | AddEquivalence4 a b =>
        if oarg_ok s a KVar && oarg_ok s b KVar
        then match a, b with
             | Some x, Some y => let '(s', r) := add_equivalence s x y in Ok (gc s') (RBool r)
             | _, _ => if fixed then Ok s (RBool false) else Crash   (* before the fix: variable1->pFunc() on null *)
             end
        else ill s
    | RemoveEquivalence a b =>
        if oarg_ok s a KVar && oarg_ok s b KVar
        then match a, b with
             | Some x, Some y => let '(s', r) := remove_equivalence s x y in Ok (gc s') (RBool r)
             | _, _ => Ok s (RBool false)
             end
        else ill s
    | RemoveAllEquivalences v =>
        if arg_ok s v KVar then Ok (gc (remove_all_equivalences s v)) RUnit else ill s

    | SetUnits v u =>
        if arg_ok s v KVar && oarg_ok s u KUnits then Ok (gc (upd s v (set_vunits u))) RUnit else ill s
    | SetResetVariable r v =>
        if arg_ok s r KReset && oarg_ok s v KVar then Ok (gc (upd s r (set_rvar v))) RUnit else ill s
    | SetResetTestVariable r v =>
        if arg_ok s r KReset && oarg_ok s v KVar then Ok (gc (upd s r (set_rtest v))) RUnit else ill s
    | Release h =>
        if held s h then Ok (gc (mkState (objs s) (remove_all h (handles s)))) RUnit else ill s
    | Query q =>
        if query_ok s q
        then match query_eval s q with
             | None => Crash
             | Some (RObj (Some x)) => Ok (gc (add_handle s x)) (RObj (Some x))     (* the caller now holds x *)
             | Some r => Ok s r
             end
        else ill s
    end.

  (** a whole history; None = some call crashed *)
  Fixpoint run (s : state) (ops : list op) : option state :=
    match ops with
    | [] => Some s
    | o :: t => match step s o with Ok s' _ => run s' t | Crash => None end
    end.
End Step.

Arguments LDone {A} a.
Arguments LRefused {A}.
Arguments LCrash {A}.

(** the initial state: every object of the universe freshly created, parent-less, held by the caller *)
Definition init (u : list (kind * string)) : state :=
  mkState (map (fun kn => new_obj (fst kn) (snd kn)) u) (List.seq 0 (List.length u)).

(* ------------------------------------------------------------------------------------------------ the carve-out *)

(** "adding an entity to the container that already holds it is outside the claim": the call hands a container an
    entity that this container lists already (add*, or replace* with a replacement taken from the same list at
    another position). *)
Definition readds (s : state) (o : op) : bool :=
  match o with
  | AddComponent k (Some c) => memb c (children s CComps k)
  | AddVariable k (Some c) => memb c (children s CVars k)
  | AddReset k (Some c) => memb c (children s CResets k)
  | AddUnits k (Some c) => memb c (children s CUnits k)
  | _ => false
  end.

(* ------------------------------------------------------------------------------------------------ structural equality *)

(** seqf fuel s y x = y->equals(x) for the attributes the op language can change (names, children, the units of a
    variable, the variables of a reset); ids, math, initial values, interface types, orders and imports are never
    set in this universe and compare equal.  entity.cpp namedentity.cpp componententity.cpp component.cpp
    variable.cpp reset.cpp units.cpp model.cpp: doEquals; utilities.cpp: equalEntities (greedy matching). *)
Fixpoint greedy (eqf : nat -> nat -> bool) (mine : list nat) (theirs : list (option nat)) : bool :=
  (* theirs: the candidates still unmatched, None for an index beyond the other's count (variable(i) == nullptr) *)
  match mine with
  | [] => true
  | e :: t =>
      match find_index (fun c => match c with Some y => eqf e y | None => false end) theirs with
      | Some i => greedy eqf t (remove_nth i theirs)
      | None => false
      end
  end.

Definition pad (n : nat) (l : list nat) : list (option nat) :=
  firstn n (map Some l ++ repeat None n).

Fixpoint seqf (fuel : nat) (s : state) (y x : nat) : bool :=
  match fuel with
  | 0 => false
  | S f =>
      match get s y, get s x with
      | Some oy, Some ox =>
          kind_eqb (o_kind oy) (o_kind ox) && String.eqb (o_name oy) (o_name ox) &&
          let sub := fun (a b : option nat) =>
                       match a with
                       | Some u => match b with Some w => seqf f s u w | None => false end
                       | None => match b with None => true | Some _ => false end
                       end in
          let comps_ok :=       (* componententity.cpp: doEquals — one-to-one greedy matching, other's child ->equals(this child) *)
              Nat.eqb (List.length (o_comps oy)) (List.length (o_comps ox)) &&
              greedy (fun cy cx => seqf f s cx cy) (o_comps oy) (pad (List.length (o_comps oy)) (o_comps ox)) in
          match o_kind oy with
          | KUnits => true
          | KVar => sub (o_vunits oy) (o_vunits ox)
          | KReset => sub (o_rtest oy) (o_rtest ox) && sub (o_rvar oy) (o_rvar ox)
          | KComp =>
              comps_ok &&
              Nat.eqb (List.length (o_resets oy)) (List.length (o_resets ox)) &&
              greedy (seqf f s) (o_resets oy) (pad (List.length (o_resets oy)) (o_resets ox)) &&
              greedy (seqf f s) (o_vars oy) (pad (List.length (o_vars oy)) (o_vars ox))
          | KModel =>
              comps_ok &&
              Nat.eqb (List.length (o_units oy)) (List.length (o_units ox)) &&
              greedy (seqf f s) (o_units oy) (pad (List.length (o_units oy)) (o_units ox))
          end
      | _, _ => false
      end
  end.

Definition seq_conc (s : state) (y x : nat) : bool := seqf (S (S (List.length (objs s)))) s y x.

(** the model the check runs *)
Definition step_conc (fixed : bool) : state -> op -> outcome := step fixed seq_conc.

(* ------------------------------------------------------------------------------------------------ bad arguments *)

(** what a refusing call returns: false, or a null pointer for the take* family *)
Definition refusal (o : op) : ret :=
  match o with
  | TakeComponentIdx _ _ | TakeComponentName _ _ _ | TakeVariableIdx _ _ | TakeVariableName _ _ | TakeReset _ _
  | TakeUnitsIdx _ _ | TakeUnitsName _ _ => RObj None
  | _ => RBool false
  end.

Definition is_refused {A} (r : local A) : bool := match r with LRefused => true | _ => false end.
Definition isnone {A} (o : option A) : bool := match o with None => true | Some _ => false end.
Definition oob (s : state) (K : ck) (k i : nat) : bool := isnone (nth_error (children s K k) i).

(** [bad_arg s o]: the call hands over a null pointer, an index one past the end (or further), a name no child has, or
    an entity that is neither a child nor structurally equal to one (never added; added to something else; owner gone).
    For the searching overloads: nothing is found anywhere in the encapsulation hierarchy. *)
Section BadArg.
  Variable fixed : bool.
  Variable seq : state -> nat -> nat -> bool.

  Definition nowhere (s : state) (dp : bool) (k : nat) (nonnull : bool) (finder : nat -> option nat) : bool :=
    is_refused (with_deep s dp (fun k' => if nonnull then of_opt (finder k') else LRefused) k).

  Definition optfind (s : state) (K : ck) (k : nat) (x : option nat) : option nat :=
    match x with Some a => find_child fixed seq s K k a | None => None end.

  Definition bad_arg (s : state) (o : op) : bool :=
    match o with
    | AddComponent _ c | AddVariable _ c | AddReset _ c | AddUnits _ c => isnone c
    | RemoveComponentIdx k i | TakeComponentIdx k i => oob s CComps k i
    | RemoveVariableIdx k i | TakeVariableIdx k i => oob s CVars k i
    | RemoveResetIdx k i | TakeReset k i => oob s CResets k i
    | RemoveUnitsIdx k i | TakeUnitsIdx k i => oob s CUnits k i
    | ReplaceComponentIdx k i c => oob s CComps k i || isnone c
    | ReplaceUnitsIdx k i c => oob s CUnits k i || isnone c
    | RemoveComponentName k n dp | TakeComponentName k n dp => nowhere s dp k true (fun k' => find_named s CComps k' n)
    | ReplaceComponentName k n c dp => nowhere s dp k (negb (isnone c)) (fun k' => find_named s CComps k' n)
    | RemoveComponentPtr k c dp => nowhere s dp k (negb (isnone c)) (fun k' => optfind s CComps k' c)
    | ReplaceComponentPtr k old c dp => nowhere s dp k (negb (isnone c)) (fun k' => optfind s CComps k' old)
    | RemoveVariableName k n | TakeVariableName k n => isnone (find_named s CVars k n)
    | RemoveUnitsName k n | TakeUnitsName k n => isnone (find_named s CUnits k n)
    | ReplaceUnitsName k n c => isnone c || isnone (find_named s CUnits k n)
    | RemoveVariablePtr k c => isnone (optfind s CVars k c)
    | RemoveResetPtr k c => isnone (optfind s CResets k c)
    | RemoveUnitsPtr k c => isnone (optfind s CUnits k c)
    | ReplaceUnitsPtr k old c => isnone c || isnone (optfind s CUnits k old)
    | AddEquivalence a b | AddEquivalence4 a b | RemoveEquivalence a b => isnone a || isnone b
    | _ => false
    end.
End BadArg.
