(** AnalysisOrderWitness.v — what "the same classification" can mean for a re-ordered system (C05, item
    classification_perm_invariant_partial): two computed witnesses. *)
From Coq Require Import List Bool Arith Permutation.
From LC Require Import AnalysisDefs AnalysisSpec AnalysisWitness.
Import ListNotations.

(** 1. x, y;  y = 1001;  x = y + 1002.  The first pass types both equations in either order, the roles agree, but
    the internal variables are created in the order in which the equations mention them, so the variable list of the
    result is permuted. *)
Definition plain_a : system :=
  [mkComp [mkVar 0 0 INone; mkVar 1 1 INone] [mkEqn 1001 (EVar 1) ECn; mkEqn 1002 (EVar 0) (EOp (EVar 1) ECn)]].
Definition plain_b : system :=
  [mkComp [mkVar 0 0 INone; mkVar 1 1 INone] [mkEqn 1002 (EVar 0) (EOp (EVar 1) ECn); mkEqn 1001 (EVar 1) ECn]].

Lemma plain_witness :
  same_system_reordered plain_a plain_b /\
  first_pass_complete plain_a = Some true /\ first_pass_complete plain_b = Some true /\
  classification_of plain_a = Some (MAlgebraic, [(1, RoCompConst); (0, RoCompConst)]) /\
  classification_of plain_b = Some (MAlgebraic, [(0, RoCompConst); (1, RoCompConst)]).
Proof.
  split; [|repeat split; vm_compute; reflexivity].
  constructor; [|constructor]. split; [reflexivity|]. apply perm_swap.
Qed.

(** 2. a1, a2 (equivalent, same component), z;  a1 = 1001;  z = a2 + 1002.  Listed this way the internal variable of
    the class {a1, a2} holds a1 and the first pass types both equations.  With the equations swapped it holds a2
    (first mention), the name test variableOnLhsRhs fails for "a1 = 1001" and the first pass types nothing: the
    second pass does. *)
Definition held_a : system :=
  [mkComp [mkVar 0 0 INone; mkVar 1 0 INone; mkVar 2 1 INone]
          [mkEqn 1001 (EVar 0) ECn; mkEqn 1002 (EVar 2) (EOp (EVar 1) ECn)]].
Definition held_b : system :=
  [mkComp [mkVar 0 0 INone; mkVar 1 0 INone; mkVar 2 1 INone]
          [mkEqn 1002 (EVar 2) (EOp (EVar 1) ECn); mkEqn 1001 (EVar 0) ECn]].

Lemma held_witness :
  same_system_reordered held_a held_b /\
  first_pass_complete held_a = Some true /\ first_pass_complete held_b = Some false /\
  classification_of held_a = Some (MAlgebraic, [(0, RoCompConst); (1, RoCompConst)]) /\
  classification_of held_b = Some (MAlgebraic, [(1, RoCompConst); (0, RoCompConst)]).
Proof.
  split; [|repeat split; vm_compute; reflexivity].
  constructor; [|constructor]. split; [reflexivity|]. apply perm_swap.
Qed.
