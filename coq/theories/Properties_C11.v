(* Properties_C11.v -- C11 "clone() is a faithful, independent deep copy": STATEMENTS ONLY.
   Model: CloneDefs.v (identity-tagged entity trees, faithful transcription of the six clone() functions and of the
   index-stack re-creation of equivalences).  Proofs: CloneProofs.v.  `all_fixed` = the code with fixes/C11-*.diff;
   `pinned` = the tree before them; `original` = additionally before 84a9d17 (Reset order). *)
From Coq Require Import List String ZArith QArith Bool Arith Lia.
From LC Require Import CloneDefs CloneProofs CloneEqualsProofs CloneEqualsModelProofs CloneRound6Proofs.
Import ListNotations.
Local Open Scope string_scope.
Local Open Scope nat_scope.
Local Open Scope list_scope.

(* ================================================================= 1. content is preserved ======================= *)
(* content_* = what a serialisation shows (no oid, no parent): all attributes, a reset's order AND whether it is set,
   encapsulation ids, import url/id/reference, which imported entities share an import element (canon), and, for a
   reset listed in a component, WHICH variable of that component it refers to. *)

Theorem C11_clone_content_isrc : forall n i, content_isrc (fst (clone_isrc n i)) = content_isrc i.
Proof. exact CloneProofs.clone_isrc_content. Qed.
Print Assumptions C11_clone_content_isrc.

(* wf_units: every stored prefix is a fixed point of Units::addUnit's normalisation (established by every addUnit:
   C11_prefix_normalisation_idempotent) *)
Theorem C11_clone_content_units : forall fx n u, wf_units u -> content_units (fst (clone_units fx n u)) = content_units u.
Proof. exact CloneProofs.clone_units_content. Qed.
Print Assumptions C11_clone_content_units.

Theorem C11_prefix_normalisation_idempotent : forall p, norm_prefix (norm_prefix p) = norm_prefix p.
Proof. exact CloneProofs.norm_prefix_idem. Qed.
Print Assumptions C11_prefix_normalisation_idempotent.

Theorem C11_clone_content_variable : forall fx n v, content_variable (fst (clone_variable fx n v)) = content_variable v.
Proof. exact CloneProofs.clone_variable_content. Qed.
Print Assumptions C11_clone_content_variable.

(* wf_reset: an unset order is 0 (Reset::create / removeOrder) *)
Theorem C11_clone_content_reset : forall fx n r,
  fx_order fx = true -> wf_reset r -> content_reset [] (fst (clone_reset fx n r)) = content_reset [] r.
Proof. exact CloneProofs.clone_reset_content_lone. Qed.
Print Assumptions C11_clone_content_reset.

Theorem C11_clone_reset_order : forall fx n r, fx_order fx = true -> r_order_set (fst (clone_reset fx n r)) = r_order_set r.
Proof. exact CloneProofs.clone_reset_order_set. Qed.
Print Assumptions C11_clone_reset_order.

(* before 84a9d17: the clone of a reset without order has its order set *)
Theorem C11_clone_reset_order_refuted : exists n r, r_order_set (fst (clone_reset original n r)) <> r_order_set r.
Proof.
  exists 1, {| r_oid := 0; r_parent := None; r_id := ""; r_order := 0%Z; r_order_set := false; r_var := None; r_test := None;
               r_tv := ""; r_tvid := ""; r_rv := ""; r_rvid := "" |}. vm_compute. discriminate.
Qed.
Print Assumptions C11_clone_reset_order_refuted.

(* wf_comp: in every component of the tree the variables are distinct objects, each reset's variable record agrees in
   name with the component variable of the same identity, unset orders are 0; coherent: import-source records with one
   identity agree on url and id *)
Theorem C11_clone_content_component : forall n c,
  coherent (comp_imps c) -> wf_comp c ->
  content_component (fst (clone_component all_fixed n c)) = content_component c.
Proof.
  intros n c Hc Hw. unfold content_component. f_equal.
  - apply CloneProofs.clone_component_content; try reflexivity; assumption.
  - apply CloneProofs.clone_component_pattern. reflexivity.
Qed.
Print Assumptions C11_clone_content_component.

(* pinned tree: the encapsulation id is lost *)
Theorem C11_clone_content_component_refuted : exists n c,
  coherent (comp_imps c) /\ wf_comp c /\ content_component (fst (clone_component pinned n c)) <> content_component c.
Proof.
  exists 1, (Comp 0 None "" "c" "enc1" "" None "" [] [] []). split; [intros i j []|]. split.
  - repeat constructor.
  - vm_compute. discriminate.
Qed.
Print Assumptions C11_clone_content_component_refuted.

(* models: structure ... *)
Theorem C11_clone_content_model_struct : forall ext n m m' n',
  wf_model m -> clone_model all_fixed ext n m = Some (m', n') -> content_model_struct m' = content_model_struct m.
Proof. intros ext n m m' n'. apply CloneProofs.clone_model_struct; reflexivity. Qed.
Print Assumptions C11_clone_content_model_struct.

(* ... and every equivalence between variables of the model, as (index stack, index stack, mapping id, connection id);
   wf_eqs: component variables are distinct objects; equivalences inside the model are two-way, never reflexive, and a
   variable lists another at most once (what Variable::addEquivalence maintains).  Equivalences that leave the model
   are not part of `model_eqvs`: a clone cannot hold them without changing objects outside itself. *)
Theorem C11_clone_content_model_eqvs : forall ext n m m' n',
  wf_eqs m -> clone_model all_fixed ext n m = Some (m', n') ->
  forall x, In x (model_eqvs true m') <-> In x (model_eqvs true m).
Proof. intros ext n m m' n'. apply CloneProofs.clone_model_eqvs_gen; reflexivity. Qed.
Print Assumptions C11_clone_content_model_eqvs.

(* the repaired Model::clone returns for every model (pinned tree: C11_clone_model_crash_refuted) *)
Theorem C11_clone_model_total : forall ext n m, exists r, clone_model all_fixed ext n m = Some r.
Proof. intros ext n m. apply CloneProofs.clone_model_total. reflexivity. Qed.
Print Assumptions C11_clone_model_total.

(* witnesses used below *)
Definition wx : variable := {| v_oid := 3; v_parent := Some 1; v_id := ""; v_name := "x"; v_init := ""; v_iface := "";
                               v_units := None; v_eqs := [{| e_var := 4; e_mapid := "map"; e_connid := "conn" |}] |}.
Definition wy : variable := {| v_oid := 4; v_parent := Some 2; v_id := ""; v_name := "y"; v_init := ""; v_iface := "";
                               v_units := None; v_eqs := [{| e_var := 3; e_mapid := "map"; e_connid := "conn" |}] |}.
Definition wm : model := {| m_oid := 0; m_id := ""; m_name := "m"; m_encid := ""; m_units := [];
                            m_comps := [Comp 1 (Some 0) "" "a" "" "" None "" [wx] [] []; Comp 2 (Some 0) "" "b" "" "" None "" [wy] [] []] |}.

Lemma wm_wf_eqs : wf_eqs wm.
Proof.
  split; [|split; [|split]].
  - vm_compute. repeat constructor; cbn; intuition discriminate.
  - intros k t (v & e & Hv & He & Hi). cbn in Hv. destruct Hv as [Hv|[Hv|[]]]; injection Hv as <- <-; cbn in He;
      destruct He as [<-|[]]; vm_compute in Hi; injection Hi as <-.
    + exists wy, {| e_var := 3; e_mapid := "map"; e_connid := "conn" |}. vm_compute. intuition.
    + exists wx, {| e_var := 4; e_mapid := "map"; e_connid := "conn" |}. vm_compute. intuition.
  - intros pv e Hpv He. cbn in Hpv. destruct Hpv as [<-|[<-|[]]]; cbn in He; destruct He as [<-|[]]; cbn; discriminate.
  - intros pv Hpv. cbn in Hpv. destruct Hpv as [<-|[<-|[]]]; cbn; repeat constructor; intros [].
Qed.

(* non-vacuity of C11_clone_content_model_eqvs: a model with an equivalence carrying ids *)
Example C11_clone_content_model_eqvs_example :
  wf_eqs wm /\ model_eqvs true wm <> [] /\
  exists m' n', clone_model all_fixed no_ext 5 wm = Some (m', n') /\ model_eqvs true m' = model_eqvs true wm.
Proof.
  split; [exact wm_wf_eqs|]. split; [vm_compute; discriminate|].
  destruct (clone_model all_fixed no_ext 5 wm) as [[m' n']|] eqn:E; [|vm_compute in E; discriminate].
  exists m', n'. split; [reflexivity|]. vm_compute in E. injection E as <- _. vm_compute. reflexivity.
Qed.
Print Assumptions C11_clone_content_model_eqvs_example.

(* pinned tree (row 36 of DESIGN.md 5): mapping and connection ids are lost ... *)
Theorem C11_clone_eqv_ids_refuted : exists ext n m m' n',
  wf_eqs m /\ clone_model pinned ext n m = Some (m', n') /\ exists x, In x (model_eqvs true m) /\ ~ In x (model_eqvs true m').
Proof.
  exists no_ext, 5, wm.
  destruct (clone_model pinned no_ext 5 wm) as [[m' n']|] eqn:E; [|vm_compute in E; discriminate].
  exists m', n'. split; [exact wm_wf_eqs|]. split; [reflexivity|]. vm_compute in E. injection E as <- _.
  exists ([0; 0], [1; 0], "map", "conn"). split; [vm_compute; left; reflexivity|]. vm_compute. intuition discriminate.
Qed.
Print Assumptions C11_clone_eqv_ids_refuted.

(* ... but WHICH variables are equivalent is preserved even there (any flags that skip external targets) *)
Theorem C11_clone_eqv_partial : forall fx ext n m m' n',
  fx_ext fx = true -> wf_eqs m -> clone_model fx ext n m = Some (m', n') ->
  forall x, In x (model_eqvs false m') <-> In x (model_eqvs false m).
Proof. intros fx ext n m m' n' Hfx. apply CloneProofs.clone_model_eqvs_gen; [exact Hfx | discriminate]. Qed.
Print Assumptions C11_clone_eqv_partial.

(* pinned tree (row 27): a variable equivalent to a parent-less variable makes Model::clone() crash (None) *)
Theorem C11_clone_model_crash_refuted : exists n m, clone_model pinned no_ext n m = None.
Proof.
  exists 5, {| m_oid := 0; m_id := ""; m_name := "m"; m_encid := ""; m_units := [];
               m_comps := [Comp 1 (Some 0) "" "a" "" "" None ""
                            [{| v_oid := 3; v_parent := Some 1; v_id := ""; v_name := "x"; v_init := ""; v_iface := "";
                                v_units := None; v_eqs := [{| e_var := 9; e_mapid := ""; e_connid := "" |}] |}] [] []] |}.
  vm_compute. reflexivity.
Qed.
Print Assumptions C11_clone_model_crash_refuted.

(* pinned tree: an equivalent variable under ANOTHER root (index stack (0,1) there) wires the clone's x to the clone's
   own variable at (0,1): the clone has an equivalence the original does not have *)
Theorem C11_clone_foreign_equivalence_refuted : exists ext n m m' n',
  clone_model pinned ext n m = Some (m', n') /\ model_eqvs false m = [] /\ model_eqvs false m' <> [].
Proof.
  exists (fun _ => EAt [0; 1]), 5,
    {| m_oid := 0; m_id := ""; m_name := "m"; m_encid := ""; m_units := [];
       m_comps := [Comp 1 (Some 0) "" "a" "" "" None ""
                    [{| v_oid := 3; v_parent := Some 1; v_id := ""; v_name := "x"; v_init := ""; v_iface := "";
                        v_units := None; v_eqs := [{| e_var := 9; e_mapid := ""; e_connid := "" |}] |};
                     {| v_oid := 4; v_parent := Some 1; v_id := ""; v_name := "y"; v_init := ""; v_iface := "";
                        v_units := None; v_eqs := [] |}] [] []] |}.
  match goal with |- context [clone_model ?a ?b ?c ?d] => destruct (clone_model a b c d) as [[m' n']|] eqn:E end;
    [|vm_compute in E; discriminate].
  exists m', n'. split; [reflexivity|]. split; [vm_compute; reflexivity|]. vm_compute in E. injection E as <- _. vm_compute. discriminate.
Qed.
Print Assumptions C11_clone_foreign_equivalence_refuted.

(* ================================================================= 2. the clone has no parent ==================== *)

Theorem C11_clone_parentless : forall fx n,
  (forall u, u_parent (fst (clone_units fx n u)) = None) /\ (forall v, v_parent (fst (clone_variable fx n v)) = None) /\
  (forall r, r_parent (fst (clone_reset fx n r)) = None) /\ (forall c, c_parent (fst (clone_component fx n c)) = None).
Proof.
  intros fx n. repeat split; intros x;
    [apply CloneProofs.clone_units_parent | apply CloneProofs.clone_variable_parent | apply CloneProofs.clone_reset_parent |
     apply CloneProofs.clone_component_parent].
Qed.
Print Assumptions C11_clone_parentless.
(* (a model has no parent field at all; the children of a cloned component point at the clone:) *)
Theorem C11_clone_children_parented : forall n c c' n', clone_component all_fixed n c = (c', n') ->
  Forall (fun v => v_parent v = Some (c_oid c')) (c_vars c') /\ Forall (fun r => r_parent r = Some (c_oid c')) (c_resets c') /\
  Forall (fun k => c_parent k = Some (c_oid c')) (c_kids c').
Proof. intros n c c' n'. apply CloneProofs.clone_component_children. reflexivity. Qed.
Print Assumptions C11_clone_children_parented.

(* ================================================================= 3. fresh identities ========================== *)
(* every object reachable from the clone (import sources, Units objects of variables, variables held by resets
   included) was created by this clone() call: its identity lies in [n, n') *)

Theorem C11_clone_fresh : forall n,
  (forall u u' n', clone_units all_fixed n u = (u', n') -> rng n n' (units_oids u')) /\
  (forall v v' n', clone_variable all_fixed n v = (v', n') -> rng n n' (var_oids v')) /\
  (forall r r' n', clone_reset all_fixed n r = (r', n') -> rng n n' (reset_oids r')) /\
  (forall c c' n', clone_component all_fixed n c = (c', n') -> rng n n' (comp_oids c')) /\
  (forall ext m m' n', clone_model all_fixed ext n m = Some (m', n') -> rng n n' (model_oids m')).
Proof.
  intros n. repeat split.
  - intros u u' n' H. apply CloneProofs.clone_units_fresh in H; [tauto | left; reflexivity].
  - intros v v' n' H. apply CloneProofs.clone_variable_fresh in H; [tauto | left; reflexivity].
  - intros r r' n' H. apply CloneProofs.clone_reset_fresh in H; [tauto | left; reflexivity].
  - intros c c' n' H. apply CloneProofs.clone_component_fresh in H; [tauto | left; reflexivity].
  - intros ext m m' n' H. apply CloneProofs.clone_model_fresh in H; [tauto | left; reflexivity].
Qed.
Print Assumptions C11_clone_fresh.

(* hence disjoint from any object that existed before the call *)
Theorem C11_clone_disjoint : forall n n' (old new : list oid), rng 0 n old -> rng n n' new -> forall o, In o old -> ~ In o new.
Proof.
  intros n n' old new Ho Hn o H1 H2. unfold rng in *. rewrite Forall_forall in Ho, Hn. specialize (Ho o H1). specialize (Hn o H2). lia.
Qed.
Print Assumptions C11_clone_disjoint.

(* ================================================================= 4. independence ============================== *)
(* mutation = one API call on one object (41 constructors: every attribute setter of every class, add / remove of every
   kind of child, re-pointing of units / reset variables / import sources).  It acts on every record that stands for
   the object.  If the object is not among those reachable from y, y is unchanged -- as a value, hence in content. *)

Theorem C11_independent : forall mu,
  (forall i, ~ In (mut_target mu) [is_oid i] -> apply_isrc mu i = i) /\
  (forall u, ~ In (mut_target mu) (units_oids u) -> apply_units mu u = u) /\
  (forall v, ~ In (mut_target mu) (var_oids v) -> apply_variable mu v = v) /\
  (forall r, ~ In (mut_target mu) (reset_oids r) -> apply_reset mu r = r) /\
  (forall c, ~ In (mut_target mu) (comp_oids c) -> apply_component mu c = c) /\
  (forall m, ~ In (mut_target mu) (model_oids m) -> apply_model mu m = m).
Proof.
  intros mu. repeat split; intros x H;
    [apply CloneProofs.independent_isrc | apply CloneProofs.independent_units | apply CloneProofs.independent_variable |
     apply CloneProofs.independent_reset | apply CloneProofs.independent_component | apply CloneProofs.independent_model]; exact H.
Qed.
Print Assumptions C11_independent.

(* clone + independence, for components and models (the other kinds are instances of the same two theorems):
   a mutation of an object of the original leaves the clone unchanged, and one of an object of the clone the original *)
Theorem C11_clone_independent_component : forall n c c' n' mu,
  rng 0 n (comp_oids c) -> clone_component all_fixed n c = (c', n') ->
  (In (mut_target mu) (comp_oids c) -> apply_component mu c' = c') /\
  (In (mut_target mu) (comp_oids c') -> apply_component mu c = c).
Proof.
  intros n c c' n' mu Ho Hc. apply CloneProofs.clone_component_fresh in Hc; [|left; reflexivity]. destruct Hc as (_ & Hn & _). split; intros H.
  - apply CloneProofs.independent_component. exact (C11_clone_disjoint n n' _ _ Ho Hn _ H).
  - apply CloneProofs.independent_component. intros H'. exact (C11_clone_disjoint n n' _ _ Ho Hn _ H' H).
Qed.
Print Assumptions C11_clone_independent_component.

Theorem C11_clone_independent_model : forall ext n m m' n' mu,
  rng 0 n (model_oids m) -> clone_model all_fixed ext n m = Some (m', n') ->
  (In (mut_target mu) (model_oids m) -> apply_model mu m' = m') /\
  (In (mut_target mu) (model_oids m') -> apply_model mu m = m).
Proof.
  intros ext n m m' n' mu Ho Hc. apply CloneProofs.clone_model_fresh in Hc; [|left; reflexivity]. destruct Hc as (_ & Hn). split; intros H.
  - apply CloneProofs.independent_model. exact (C11_clone_disjoint n n' _ _ Ho Hn _ H).
  - apply CloneProofs.independent_model. intros H'. exact (C11_clone_disjoint n n' _ _ Ho Hn _ H' H).
Qed.
Print Assumptions C11_clone_independent_model.

(* pinned tree (rows 14 / 30): the clone holds the ImportSource OBJECT of the original; setUrl on the original's
   import source changes the content of the clone *)
Theorem C11_clone_shares_isrc_refuted : exists n c mu,
  rng 0 n (comp_oids c) /\ In (mut_target mu) (comp_oids c) /\
  let c' := fst (clone_component pinned n c) in
  In (mut_target mu) (comp_oids c') /\ content_comp (apply_component mu c') <> content_comp c'.
Proof.
  exists 2, (Comp 0 None "" "c" "" "" (Some {| is_oid := 1; is_id := ""; is_url := "u"; is_model := None |}) "ref" [] [] []),
         (MIsrcUrl 1 "other").
  split; [repeat constructor|]. split; [vm_compute; tauto|]. split; [vm_compute; tauto | vm_compute; discriminate].
Qed.
Print Assumptions C11_clone_shares_isrc_refuted.

(* ... and that is the ONLY sharing: under ANY flags (the pinned tree included) the clone of an entity that holds no
   import source anywhere (comp_isrcs / model_isrcs = []: also none in the Units objects of its variables) is fresh,
   hence independent *)
Theorem C11_clone_independent_partial : forall fx n,
  (forall c c' n' mu, comp_isrcs c = [] -> rng 0 n (comp_oids c) -> clone_component fx n c = (c', n') ->
      rng n n' (comp_oids c') /\
      (In (mut_target mu) (comp_oids c) -> apply_component mu c' = c') /\
      (In (mut_target mu) (comp_oids c') -> apply_component mu c = c)) /\
  (forall ext m m' n' mu, model_isrcs m = [] -> rng 0 n (model_oids m) -> clone_model fx ext n m = Some (m', n') ->
      rng n n' (model_oids m') /\
      (In (mut_target mu) (model_oids m) -> apply_model mu m' = m') /\
      (In (mut_target mu) (model_oids m') -> apply_model mu m = m)).
Proof.
  intros fx n. split.
  - intros c c' n' mu Hi Ho Hc. apply CloneProofs.clone_component_fresh in Hc; [|right; exact Hi]. destruct Hc as (_ & Hn & _).
    split; [exact Hn|]. split; intros H.
    + apply CloneProofs.independent_component. exact (C11_clone_disjoint n n' _ _ Ho Hn _ H).
    + apply CloneProofs.independent_component. intros H'. exact (C11_clone_disjoint n n' _ _ Ho Hn _ H' H).
  - intros ext m m' n' mu Hi Ho Hc. apply CloneProofs.clone_model_fresh in Hc; [|right; exact Hi]. destruct Hc as (_ & Hn).
    split; [exact Hn|]. split; intros H.
    + apply CloneProofs.independent_model. exact (C11_clone_disjoint n n' _ _ Ho Hn _ H).
    + apply CloneProofs.independent_model. intros H'. exact (C11_clone_disjoint n n' _ _ Ho Hn _ H' H).
Qed.
Print Assumptions C11_clone_independent_partial.

(* ================================================================= 5. equivalences of a cloned model are internal ==== *)
(* for EVERY model (no well-formedness needed) and every flag setting for which clone returns: each equivalence of a
   component variable of the clone ends at a component variable of the clone *)
Theorem C11_model_clone_equivalences_internal : forall fx ext n m m' n',
  clone_model fx ext n m = Some (m', n') ->
  forall p c e, In (p, c) (model_vars m') -> In e (v_eqs c) -> exists q cq, In (q, cq) (model_vars m') /\ e_var e = v_oid cq.
Proof. exact CloneProofs.clone_model_internal. Qed.
Print Assumptions C11_model_clone_equivalences_internal.

(* getVariableLocatedAt (the walk by indices) and the enumeration used in the statements above agree *)
Theorem C11_located_iff_enumerated : forall m p v, var_located_at m p = LVar v <-> In (p, v) (model_vars m).
Proof. exact CloneProofs.var_located_at_in. Qed.
Print Assumptions C11_located_iff_enumerated.

(* ================================================================= 6. the clone equals the original (C10's equals) === *)
(* CloneEqualsProofs.v: abs_* drops identities, parents and equivalences and maps the entities of CloneDefs to the
   values of C10's model of equals() (EqualsDefs.v).  For every kind below the model abs (clone x) = abs x, hence by
   C10's reflexivity (EqualsAsIs.equals_refl_asis: any flag setting of equals, any areNearlyEqual with neq_laws -- in
   particular reflexive: no NaN-like value) equals (abs (clone x)) (abs x) = true, for every interpretation `num` of the
   numeric tokens.  Premises: stored prefixes normalised (wf_units / wfd_var), an unset order is 0, a reset's variable
   record agrees as a value with the component variable of the same identity (wfd_comp), coherent import records.
   MODELS are not covered and cannot be: Model::clone() re-links each component variable's units BY NAME to the clone's
   first units of that name (fixComponentUnits) while Variable::doEquals compares the Units objects deeply, so
   abs (clone m) differs from abs m in v_units whenever a variable's own Units object (e.g. the bare object of
   setUnits(name)) differs in content from that units -- the abstraction does no relinking, and the library says
   equals = false there as well: known finding C11-equals-relinked-units (checked on the library by checks/c11.py). *)
Theorem C11_clone_equals_original : forall (num : string -> QArith_base.Q) neq fl, EqualsSpec.neq_laws neq ->
  (forall n i, EqualsDefs.eq_entity neq fl (EqualsDefs.EImportSource (abs_isrc (fst (clone_isrc n i)))) (EqualsDefs.EImportSource (abs_isrc i)) = true) /\
  (forall fx n u, wf_units u ->
     EqualsDefs.eq_entity neq fl (EqualsDefs.EUnits (abs_units num (fst (clone_units fx n u)))) (EqualsDefs.EUnits (abs_units num u)) = true) /\
  (forall fx n v, wfd_var v ->
     EqualsDefs.eq_entity neq fl (EqualsDefs.EVariable (abs_var num (fst (clone_variable fx n v)))) (EqualsDefs.EVariable (abs_var num v)) = true) /\
  (forall fx n r, fx_order fx = true -> wfd_reset r ->
     EqualsDefs.eq_entity neq fl (EqualsDefs.EReset (abs_reset num (fst (clone_reset fx n r)))) (EqualsDefs.EReset (abs_reset num r)) = true) /\
  (forall n c, coherent (comp_imps c) -> wfd_comp num c ->
     EqualsDefs.eq_entity neq fl (EqualsDefs.EComponent (abs_comp num (fst (clone_component all_fixed n c))))
                                 (EqualsDefs.EComponent (abs_comp num c)) = true).
Proof. exact CloneEqualsProofs.clone_equals_original. Qed.
Print Assumptions C11_clone_equals_original.

(* non-vacuity: a component with an import, a variable with a Units object with a unit child, and a reset pointing at
   that variable satisfies the premises; the equality is also checked by computation with C10's equals as it is now *)
Definition wu : units := {| u_oid := 12; u_parent := None; u_id := "uid"; u_name := "u"; u_imp := None; u_impref := "";
                            u_defs := [{| ud_ref := "metre"; ud_prefix := "milli"; ud_exp := "2"; ud_mult := "1"; ud_id := "" |}] |}.
Definition wv : variable := {| v_oid := 11; v_parent := Some 10; v_id := "vid"; v_name := "x"; v_init := "1"; v_iface := "public";
                               v_units := Some wu; v_eqs := [] |}.
Definition wr : reset := {| r_oid := 13; r_parent := Some 10; r_id := "rid"; r_order := 3%Z; r_order_set := true;
                            r_var := Some wv; r_test := None; r_tv := "t"; r_tvid := ""; r_rv := "r"; r_rvid := "" |}.
Definition wc : component :=
  Comp 10 None "cid" "c" "enc" "math" (Some {| is_oid := 14; is_id := ""; is_url := "a.cellml"; is_model := None |}) "ref" [wv] [wr] [].

Example C11_clone_equals_original_example :
  coherent (comp_imps wc) /\ wfd_comp (fun _ => 1%Q) wc /\
  EqualsDefs.equals_now (EqualsDefs.EComponent (abs_comp (fun _ => 1%Q) (fst (clone_component all_fixed 20 wc))))
                        (EqualsDefs.EComponent (abs_comp (fun _ => 1%Q) wc)) = true.
Proof.
  split; [|split].
  - intros i j [<-|[]] [<-|[]] _. reflexivity.
  - constructor; [|constructor]. split.
    + constructor; [|constructor]. intros u Hu. injection Hu as <-. constructor; [reflexivity | constructor].
    + constructor; [|constructor]. split; [|split].
      * split; [discriminate|]. split; [|intros v Hv; discriminate].
        intros v Hv. injection Hv as <-. intros u Hu. injection Hu as <-. constructor; [reflexivity | constructor].
      * intros v Hv w [<-|[]] _. injection Hv as <-. reflexivity.
      * intros v Hv. discriminate.
  - vm_compute. reflexivity.
Qed.
Print Assumptions C11_clone_equals_original_example.

(* ---- models (CloneEqualsModelProofs.v).  units_links_consistentb num m: for every variable record of the model
   (component variables and variables held by resets) that holds a Units object u, the model's FIRST units named
   u_name u -- if there is one -- has the same value (abs) as u.  This is exactly what fixComponentUnits needs: it
   replaces u by that units.  Under it abs (clone m) = abs m, hence equals. *)
Theorem C11_clone_model_equals_original : forall (num : string -> QArith_base.Q) neq fl ext n m m' n',
  EqualsSpec.neq_laws neq -> wfd_model num m -> units_links_consistentb num m = true ->
  clone_model all_fixed ext n m = Some (m', n') ->
  EqualsDefs.eq_entity neq fl (EqualsDefs.EModel (abs_model num m')) (EqualsDefs.EModel (abs_model num m)) = true.
Proof. exact CloneEqualsModelProofs.clone_model_equals_original. Qed.
Print Assumptions C11_clone_model_equals_original.

Theorem C11_clone_model_abs : forall (num : string -> QArith_base.Q) ext n m m' n',
  wfd_model num m -> units_links_consistentb num m = true -> clone_model all_fixed ext n m = Some (m', n') ->
  abs_model num m' = abs_model num m.
Proof. exact CloneEqualsModelProofs.clone_model_abs. Qed.
Print Assumptions C11_clone_model_abs.

Definition wu1 : units := {| u_oid := 1; u_parent := Some 0; u_id := ""; u_name := "u"; u_imp := None; u_impref := "";
                             u_defs := [{| ud_ref := "metre"; ud_prefix := ""; ud_exp := "1"; ud_mult := "1"; ud_id := "" |}] |}.
Definition wbare : units := {| u_oid := 4; u_parent := None; u_id := ""; u_name := "u"; u_imp := None; u_impref := ""; u_defs := [] |}.
Definition wvar (u : units) : variable := {| v_oid := 3; v_parent := Some 2; v_id := ""; v_name := "x"; v_init := ""; v_iface := "";
                                             v_units := Some u; v_eqs := [] |}.
Definition wmodel (u : units) : model := {| m_oid := 0; m_id := ""; m_name := "m"; m_encid := ""; m_units := [wu1];
                                            m_comps := [Comp 2 (Some 0) "" "a" "" "" None "" [wvar u] [] []] |}.

(* non-vacuity: the variable is linked to the model's units *)
Example C11_clone_model_equals_original_example :
  wfd_model (fun _ => 1%Q) (wmodel wu1) /\ units_links_consistentb (fun _ => 1%Q) (wmodel wu1) = true /\
  exists m' n', clone_model all_fixed no_ext 10 (wmodel wu1) = Some (m', n') /\
    EqualsDefs.equals_now (EqualsDefs.EModel (abs_model (fun _ => 1%Q) m')) (EqualsDefs.EModel (abs_model (fun _ => 1%Q) (wmodel wu1))) = true.
Proof.
  split; [|split].
  - split; [intros i j []|]. split.
    + constructor; [|constructor]. constructor; [reflexivity | constructor].
    + constructor; [|constructor]. constructor; [|constructor]. split; [|constructor].
      constructor; [|constructor]. intros u Hu. injection Hu as <-. constructor; [reflexivity | constructor].
  - vm_compute. reflexivity.
  - destruct (clone_model all_fixed no_ext 10 (wmodel wu1)) as [[m' n']|] eqn:E; [|vm_compute in E; discriminate].
    exists m', n'. split; [reflexivity|]. vm_compute in E. injection E as <- _. vm_compute. reflexivity.
Qed.
Print Assumptions C11_clone_model_equals_original_example.

(* the premise cannot be dropped: the variable holds the bare Units object made by setUnits("u") while the model's units
   u has a unit child (known finding C11-equals-relinked-units): the premise is false, the clone is re-linked, and
   C10's equals answers false in both directions -- as the library does *)
Theorem C11_clone_model_equals_refuted : exists ext n m m' n',
  wfd_model (fun _ => 1%Q) m /\ units_links_consistentb (fun _ => 1%Q) m = false /\
  clone_model all_fixed ext n m = Some (m', n') /\
  EqualsDefs.equals_now (EqualsDefs.EModel (abs_model (fun _ => 1%Q) m')) (EqualsDefs.EModel (abs_model (fun _ => 1%Q) m)) = false /\
  EqualsDefs.equals_now (EqualsDefs.EModel (abs_model (fun _ => 1%Q) m)) (EqualsDefs.EModel (abs_model (fun _ => 1%Q) m')) = false.
Proof.
  exists no_ext, 10, (wmodel wbare).
  destruct (clone_model all_fixed no_ext 10 (wmodel wbare)) as [[m' n']|] eqn:E; [|vm_compute in E; discriminate].
  exists m', n'. split.
  { split; [intros i j []|]. split.
    - constructor; [|constructor]. constructor; [reflexivity | constructor].
    - constructor; [|constructor]. constructor; [|constructor]. split; [|constructor].
      constructor; [|constructor]. intros u Hu. injection Hu as <-. constructor. }
  split; [vm_compute; reflexivity|]. split; [reflexivity|]. vm_compute in E. injection E as <- _. split; vm_compute; reflexivity.
Qed.
Print Assumptions C11_clone_model_equals_refuted.

(* ================================================================= 7. independence under SEQUENCES of mutations ===== *)
(* CloneRound6Proofs.v.  Any finite sequence of API calls, each on an object not reachable from y, leaves y unchanged *)
Theorem C11_independent_seq : forall mus,
  (forall u, Forall (fun mu => ~ In (mut_target mu) (units_oids u)) mus -> fold_left (fun y mu => apply_units mu y) mus u = u) /\
  (forall v, Forall (fun mu => ~ In (mut_target mu) (var_oids v)) mus -> fold_left (fun y mu => apply_variable mu y) mus v = v) /\
  (forall r, Forall (fun mu => ~ In (mut_target mu) (reset_oids r)) mus -> fold_left (fun y mu => apply_reset mu y) mus r = r) /\
  (forall c, Forall (fun mu => ~ In (mut_target mu) (comp_oids c)) mus -> fold_left (fun y mu => apply_component mu y) mus c = c) /\
  (forall m, Forall (fun mu => ~ In (mut_target mu) (model_oids m)) mus -> fold_left (fun y mu => apply_model mu y) mus m = m).
Proof. exact CloneRound6Proofs.independent_seq. Qed.
Print Assumptions C11_independent_seq.

(* after clone(): ANY sequence of calls on objects that existed before the call (identity < n -- no matter what the
   original has become in between) leaves the clone unchanged (no premise on the original at all); any sequence of calls
   on objects created by the call or later (identity >= n) leaves the original unchanged *)
Theorem C11_clone_model_independent_seq : forall ext n m m' n' mus,
  clone_model all_fixed ext n m = Some (m', n') ->
  (Forall (fun mu => mut_target mu < n) mus -> fold_left (fun y mu => apply_model mu y) mus m' = m') /\
  (rng 0 n (model_oids m) -> Forall (fun mu => n <= mut_target mu) mus -> fold_left (fun y mu => apply_model mu y) mus m = m).
Proof. exact CloneRound6Proofs.clone_model_independent_seq. Qed.
Print Assumptions C11_clone_model_independent_seq.

Theorem C11_clone_component_independent_seq : forall n c c' n' mus,
  clone_component all_fixed n c = (c', n') ->
  (Forall (fun mu => mut_target mu < n) mus -> fold_left (fun y mu => apply_component mu y) mus c' = c') /\
  (rng 0 n (comp_oids c) -> Forall (fun mu => n <= mut_target mu) mus -> fold_left (fun y mu => apply_component mu y) mus c = c).
Proof. exact CloneRound6Proofs.clone_component_independent_seq. Qed.
Print Assumptions C11_clone_component_independent_seq.
