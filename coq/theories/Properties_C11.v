(* placeholder while the machinery is being built *)
From LC Require Import CloneDefs.
