(** ImportDefs.v — executable model of libcellml's import resolution (property C07).  No proofs here.

    Transcribed from /repo/src (as the code is now):
      importer.cpp : Importer::resolveImports, clearImports, ImporterImpl::fetchModel, fetchImportSource,
                     fetchComponent, fetchUnits, checkForImportCycles, checkUnitsForCycles,
                     checkComponentForCycles, hasImportIssues, Importer::flattenModel (up to the clone),
                     removeAllModels, modelUrl, resolvingUrl
      utilities.cpp: createHistoryEpoch, importeeModelUrl, checkForImportCycles, getImportedUnits,
                     getImportedComponents, unitsNamesUsed, unitsUsed, referencedUnits, equalEntities
      units.cpp    : UnitsImpl::performTestWithHistory, Units::doEquals
      component.cpp: ComponentImpl::performTestWithHistory, doRequiresImport, Component::doEquals
      componententity.cpp: ComponentEntity::doEquals, component(name, searchEncapsulated = true)
      model.cpp    : Model::hasUnresolvedImports, isDefined, doEquals, units(name)
      importsource.cpp: the weak link ImportSource::mModel (hasModel / setModel / removeModel)

    Modelling decisions (all stated in checks/meta/C07.json and design_notes/C07.md):
    * File system = finite map from library key to [doc]; a key that is absent is a missing file.
    * URL resolution: the library key of an import URL written in a file is the base directory of that file ++ the
      URL as written ([key_of], importer.cpp: resolvePath; nothing is normalised but the directory separator, so
      "a/../f.cellml" and "f.cellml" are different keys).  The base path that the code threads through fetchUnits /
      fetchComponent (newBase = baseFile + pathFromUrl(url)) is the directory part of the key of the imported model
      (ImportProofs.new_base_dir), so the model derives it from the owner ([base_of]); the base path given to
      resolveImports is the fixed directory [dir_prefix] (the origin file lives there).  Which spelled keys reach
      which file is the operating system's business: the file system of the model maps keys AS SPELLED to
      contents (the generator computes the reachable spellings).  The code's distinction between raw URLs (compared
      by performTestWithHistory) and keys (compared by the importer) is kept.  The first look-up of fetchModel
      under the raw URL (absolute URLs already in the library) is not modelled.
    * Identity of the C++ objects: a model object is named by its [owner] (the origin model, or the
      library entry under a key); an ImportSource object by the tag [sid] carried by the entities that share
      it (one <import> element = one ImportSource); its weak link mModel is the pair (owner, sid) in [links]
      and is live while the library still holds the key (std::weak_ptr::expired).
    * Parser: a file is [NotXml] (first parser error has rule XML), or [Parsed errs m] — the parser's
      model together with its non-XML errors reduced to the entity they are attached to.  A well-formed
      XML file that is not CellML is [not_cellml] = an empty model with one error attached to the model.
      Only CellML 2.0 files: the non-strict MESSAGE path of fetchModel (1.x transformation) is not modelled.
    * Result type: [Ok] | [Crash] (the code dereferences a null pointer) | [OutOfFuel] (the recursion did
      not end within the fuel: for every fuel = unbounded recursion = stack exhaustion).
    * [fixes] (fx_pop, fx_nullref) switches the two prepared repairs (fixes/C07-*.diff); the code as it is now is
      [no_fixes].
    * History vectors are passed by value where the code pops what it pushed (or aborts the whole
      resolution on failure), and are threaded through and returned where the code never pops
      (Units::performTestWithHistory, checkUnitsForCycles). *)
From Coq Require Import String Ascii List Bool Arith.
From LCGen Require Import UnitTables.
Import ListNotations.
Local Open Scope string_scope.
Local Open Scope list_scope.

(* ------------------------------------------------------------------------------------------ documents *)

Inductive units :=
| ULocal (name : string) (refs : list string)          (* <units name><unit units=ref/>…</units>        *)
| UImp (name : string) (sid : nat) (url ref : string).  (* <import href=url><units name units_ref=ref/>; sid = identity
                                                          of the ImportSource object inside its model     *)

Inductive comp :=
| Comp (name : string) (imp : option (nat * string * string)) (* Some (sid, url, component_ref) for an import *)
       (used : list string)                             (* units names of its variables v0, v1, … in order *)
       (kids : list comp).                              (* encapsulated children                           *)

Record model := { m_name : string; m_units : list units; m_comps : list comp }.

Inductive perr :=
| PEUnits (n : string)     (* parser error whose item is the units named n                                 *)
| PEComp (n : string)      (* … whose item is the component n, or a variable / reset of it                *)
| PEOther.                 (* … attached to anything else (model, import, …)                              *)

Inductive doc := Missing | NotXml | Parsed (errs : list perr) (m : model).

Definition fsys := list (string * doc).     (* key -> content; absent = Missing *)

Definition empty_model : model := {| m_name := ""; m_units := []; m_comps := [] |}.
Definition not_cellml : doc := Parsed [PEOther] empty_model.

Fixpoint fs_get (fs : fsys) (k : string) : doc :=
  match fs with
  | [] => Missing
  | (k', d) :: r => if String.eqb k' k then d else fs_get r k
  end.

(* the base directory given to resolveImports; mk_key = the key of a plain file name in it (= key_of None) *)
Definition dir_prefix : string := "/".
Definition mk_key (url : string) : string := String.append dir_prefix url.

(* importer.cpp: normaliseDirectorySeparator, normalisePath, pathFromUrl, resolvePath -- the string functions that
   turn (import URL, base path) into a library key ([key_of] below).  They are also compared with the code on
   their own (driver mode "paths"). *)
Fixpoint norm_sep (s : string) : string :=
  match s with
  | EmptyString => EmptyString
  | String c r => String (if Ascii.eqb c "\"%char then "/"%char else c) (norm_sep r)
  end.

(* the prefix of s up to and including its last '/', if it has one *)
Fixpoint upto_last_slash (s : string) : option string :=
  match s with
  | EmptyString => None
  | String c r => match upto_last_slash r with
                  | Some p => Some (String c p)
                  | None => if Ascii.eqb c "/"%char then Some (String c EmptyString) else None
                  end
  end.

Definition path_from_url (url : string) : string :=
  match upto_last_slash (norm_sep url) with Some p => p | None => EmptyString end.

Fixpoint ends_with_slash (s : string) : bool :=
  match s with
  | EmptyString => false
  | String c EmptyString => Ascii.eqb c "/"%char
  | String _ r => ends_with_slash r
  end.

Definition normalise_path (p : string) : string :=
  let n := norm_sep p in
  match n with
  | EmptyString => EmptyString
  | _ => if ends_with_slash n then n else String.append n "/"
  end.

Definition resolve_path (filename base : string) : string := String.append (path_from_url base) filename.

(* fetchModel's key for an import URL relative to a base, and fetchUnits' base for the imported file *)
Definition import_key (url base : string) : string := resolve_path (norm_sep url) base.
Definition new_base (url base : string) : string := String.append base (path_from_url url).


(* utilities.cpp: isStandardUnitName — over the table regenerated from utilities.h *)
Definition is_std (n : string) : bool := existsb (fun p => String.eqb (fst p) n) standard_units_list.

Definition uname (u : units) : string := match u with ULocal n _ => n | UImp n _ _ _ => n end.
Definition cname (c : comp) : string := match c with Comp n _ _ _ => n end.
Definition ckids (c : comp) : list comp := match c with Comp _ _ _ k => k end.
Definition cimp (c : comp) : option (nat * string * string) := match c with Comp _ i _ _ => i end.
Definition cused (c : comp) : list string := match c with Comp _ _ u _ => u end.
Definition u_is_import (u : units) : bool := match u with UImp _ _ _ _ => true | _ => false end.

(* model.cpp: Model::units(name) — first units with that name *)
Definition find_units (us : list units) (n : string) : option units :=
  find (fun u => String.eqb (uname u) n) us.

(* componententity.cpp: component(name, searchEncapsulated = true): direct children first, then depth-first *)
Fixpoint find_comp_in (c : comp) (n : string) : option comp :=
  match c with
  | Comp _ _ _ kids =>
    match find (fun k => String.eqb (cname k) n) kids with
    | Some k => Some k
    | None => (fix go (l : list comp) : option comp :=
                 match l with
                 | [] => None
                 | k :: r => match find_comp_in k n with Some x => Some x | None => go r end
                 end) kids
    end
  end.

Definition find_comp (cs : list comp) (n : string) : option comp :=
  match find (fun k => String.eqb (cname k) n) cs with
  | Some k => Some k
  | None => (fix go (l : list comp) : option comp :=
               match l with
               | [] => None
               | k :: r => match find_comp_in k n with Some x => Some x | None => go r end
               end) cs
  end.

(* component.cpp: doRequiresImport *)
Fixpoint requires_imports (c : comp) : bool :=
  match c with
  | Comp _ (Some _) _ _ => true
  | Comp _ None _ kids =>
    (fix any (l : list comp) : bool :=
       match l with [] => false | k :: r => if requires_imports k then true else any r end) kids
  end.

(* utilities.cpp: getImportedUnits *)
Definition imported_units (m : model) : list units := filter u_is_import (m_units m).

(* utilities.cpp: getImportedComponents — pre-order, descends below imported components too *)
Fixpoint imported_comps_of (c : comp) : list comp :=
  match c with
  | Comp _ imp _ kids =>
    (match imp with Some _ => [c] | None => [] end) ++
    (fix go (l : list comp) : list comp :=
       match l with [] => [] | k :: r => imported_comps_of k ++ go r end) kids
  end.
Definition imported_comps (m : model) : list comp := flat_map imported_comps_of (m_comps m).

(* ------------------------------------------------------------------------------------------ equals
   Only needed by the second disjunct of checkForImportCycles (origin model equals destination model).
   Transcribes the asymmetric, order-sensitive matching of the code. *)

Fixpoint remove_first {A : Type} (p : A -> bool) (l : list A) : option (list A) :=
  match l with
  | [] => None
  | x :: r => if p x then Some r
              else match remove_first p r with Some r' => Some (x :: r') | None => None end
  end.

(* each x of xs, in order, consumes the first still unmatched y with [eqb x y] *)
Fixpoint greedy {A : Type} (eqb : A -> A -> bool) (xs ys : list A) : bool :=
  match xs with
  | [] => true
  | x :: r => match remove_first (eqb x) ys with Some ys' => greedy eqb r ys' | None => false end
  end.

(* utilities.cpp: equalEntities(owner = other, entities = this's): candidate indices are 0 .. |this|-1 of other *)
Definition equal_entities {A : Type} (eqb : A -> A -> bool) (this other : list A) : bool :=
  greedy eqb this (firstn (length this) other).

(* units.cpp: Units::doEquals (ids are empty; prefix/exponent/multiplier are the defaults) *)
Definition units_equals (a b : units) : bool :=
  match a, b with
  | ULocal n r, ULocal n' r' => String.eqb n n' && Nat.eqb (length r) (length r') && greedy String.eqb r r'
  | UImp n _ u r, UImp n' _ u' r' => String.eqb n n' && String.eqb r r' && String.eqb u u'
  | _, _ => false
  end.

Fixpoint index_from {A : Type} (i : nat) (l : list A) : list (nat * A) :=
  match l with [] => [] | x :: r => (i, x) :: index_from (S i) r end.

(* variable.cpp: Variable::doEquals — variable i is named "v<i>" and carries units [used_i] by name *)
Definition var_eqb (a b : nat * string) : bool := Nat.eqb (fst a) (fst b) && String.eqb (snd a) (snd b).

Definition imp_eqb (a b : option (nat * string * string)) : bool :=
  match a, b with
  | None, None => true
  | Some (_, u, r), Some (_, u', r') => String.eqb r r' && String.eqb u u'
  | _, _ => false
  end.

Fixpoint cheight (c : comp) : nat :=
  match c with Comp _ _ _ kids => S (fold_right (fun k acc => Nat.max (cheight k) acc) 0 kids) end.

(* component.cpp: Component::doEquals over componententity.cpp: ComponentEntity::doEquals (as of commit 5ddf710:
   the child components are matched one-to-one by the same first-unmatched loop as equalEntities).
   [ceqf n false a b] = a.equals(b); [ceqf n true a b] = b.equals(a): the direction flips at every level because the
   loop asks the OTHER side's child whether it equals this side's child.  [n] bounds the depth of the component
   trees ([ceq] starts it above the height of [a], so it never runs out). *)
Fixpoint ceqf (n : nat) (flip : bool) (a b : comp) {struct n} : bool :=
  match n with
  | 0 => false
  | S m =>
    match a, b with
    | Comp nm imp used kids, Comp nm' imp' used' kids' =>
      String.eqb nm nm' && Nat.eqb (length kids) (length kids') && imp_eqb imp imp' &&
      (if flip
       then equal_entities var_eqb (index_from 0 used') (index_from 0 used)
            && greedy (fun kb ka => ceqf m false ka kb) kids' kids
       else equal_entities var_eqb (index_from 0 used) (index_from 0 used')
            && greedy (fun ka kb => ceqf m true ka kb) kids kids')
    end
  end.

Definition ceq (flip : bool) (a b : comp) : bool := ceqf (S (cheight a)) flip a b.

(* model.cpp: Model::doEquals — this = a, other = b *)
Definition model_equals (a b : model) : bool :=
  String.eqb (m_name a) (m_name b) && Nat.eqb (length (m_comps a)) (length (m_comps b))
  && greedy (fun ca cb => ceq true ca cb) (m_comps a) (m_comps b)
  && Nat.eqb (length (m_units a)) (length (m_units b))          (* model.cpp: ModelImpl::equalUnits compares the counts *)
  && equal_entities units_equals (m_units a) (m_units b).

(* ------------------------------------------------------------------------------------------ importer state *)

Definition owner := option string.     (* None = the model given to resolveImports; Some k = library model under key k *)

(* The base path the code hands to fetchUnits / fetchComponent for the entities of a model: the (normalised) base path
   given to resolveImports -- here the fixed directory [dir_prefix] -- for the origin model, and for a library model
   "newBase = baseFile + pathFromUrl(url)", which is the directory part of the key under which fetchModel stored it
   (ImportProofs.new_base_dir).  [key_of o url] is therefore the library key fetchModel computes for the import URL
   [url] of an entity of the model [o]: resolvePath(normaliseDirectorySeparator(url), base).  Keys are NOT normalised
   any further by the code ("a/../f.cellml" and "f.cellml" are different keys); the file system of the model is a map
   from keys as spelled to contents. *)
Definition base_of (o : owner) : string :=
  match o with None => dir_prefix | Some k => path_from_url k end.
Definition key_of (o : owner) (url : string) : string := import_key url (base_of o).

Definition owner_eqb (a b : owner) : bool :=
  match a, b with
  | None, None => true
  | Some x, Some y => String.eqb x y
  | _, _ => false
  end.

Inductive irule :=
| R_MISSING_FILE | R_NULL_MODEL | R_UNDEFINED | R_ERROR_IMPORTING_UNITS | R_CYCLE (* IMPORT_EQUIVALENT_INFOSET *)
| R_MISSING_UNITS | R_MISSING_COMPONENT | R_UNRESOLVED_IMPORTS | R_UNDEFINED_MODEL.

Inductive iitem :=
| ItUnits (o : owner) (n : string)
| ItComp (o : owner) (n : string)
| ItImport (o : owner) (url : string)
| ItModel
| ItNone.

Record issue := { i_rule : irule; i_item : iitem }.

Record state := {
  lib : list (string * model);          (* ImporterImpl::mLibrary (std::map; listed newest first)            *)
  links : list (owner * nat);           (* import sources whose mModel was set: (owning model, sid)          *)
  issues_rev : list issue               (* Logger issues, newest first (all of level ERROR)                 *)
}.

Definition empty_state : state := {| lib := []; links := []; issues_rev := [] |}.

Fixpoint lib_get (l : list (string * model)) (k : string) : option model :=
  match l with
  | [] => None
  | (k', m) :: r => if String.eqb k' k then Some m else lib_get r k
  end.

Definition add_issue (st : state) (r : irule) (it : iitem) : state :=
  {| lib := lib st; links := links st; issues_rev := {| i_rule := r; i_item := it |} :: issues_rev st |}.

Definition clear_issues (st : state) : state := {| lib := lib st; links := links st; issues_rev := [] |}.

Definition has_link (st : state) (o : owner) (sid : nat) : bool :=
  existsb (fun p => owner_eqb (fst p) o && Nat.eqb (snd p) sid) (links st).

(* importsource.cpp: ImportSource::model() — null when never set or when the library model died *)
Definition linked_model (st : state) (o : owner) (sid : nat) (url : string) : option model :=
  if has_link st o sid then lib_get (lib st) (key_of o url) else None.

Definition set_link (st : state) (o : owner) (sid : nat) : state :=
  {| lib := lib st; links := (o, sid) :: links st; issues_rev := issues_rev st |}.

Definition lib_add (st : state) (k : string) (m : model) : state :=
  {| lib := (k, m) :: lib st; links := links st; issues_rev := issues_rev st |}.

(* importer.cpp: Importer::clearImports(model) for the origin model *)
Definition clear_origin_links (st : state) : state :=
  {| lib := lib st;
     links := filter (fun p => match fst p with None => false | Some _ => true end) (links st);
     issues_rev := issues_rev st |}.

(* importer.cpp: Importer::removeAllModels — every link pointed into the library, so every link expires *)
Definition remove_all_models (st : state) : state :=
  {| lib := []; links := []; issues_rev := issues_rev st |}.

(* ------------------------------------------------------------------------------------------ history *)

Record epoch := {
  e_src : string;             (* mSourceUrl        *)
  e_dst : string;             (* mDestinationUrl   *)
  e_srcm : owner;             (* mSourceModel = owningModel(entity)                                   *)
  e_dstm : option string      (* mDestinationModel = importSource->model(): its library key, or null  *)
}.

Definition origin_ref : string := ":this:".           (* internaltypes.h: ORIGIN_MODEL_REF *)

(* importer.cpp: ImporterImpl::modelUrl *)
Definition model_url (o : owner) : string := match o with None => origin_ref | Some k => k end.

Definition content (st : state) (m0 : model) (o : owner) : option model :=
  match o with None => Some m0 | Some k => lib_get (lib st) k end.

(* utilities.cpp: importeeModelUrl *)
Fixpoint importee_url_rev (hrev : list epoch) (url : string) : string :=
  match hrev with
  | [] => origin_ref
  | e :: r => if String.eqb (e_dst e) url then importee_url_rev r url else e_dst e
  end.
Definition importee_url (hist : list epoch) (url : string) : string := importee_url_rev (rev hist) url.

(* utilities.cpp: checkForImportCycles(history, h) *)
Definition check_cycle (st : state) (m0 : model) (hist : list epoch) (h : epoch) : bool :=
  existsb (fun e =>
             String.eqb (e_dst h) (e_src e)
             || (String.eqb (e_src e) origin_ref
                 && match content st m0 (e_srcm e), e_dstm h with
                    | Some a, Some k => match lib_get (lib st) k with Some b => model_equals a b | None => false end
                    | _, _ => false
                    end)) hist.

(* ------------------------------------------------------------------------------------------ results *)

Inductive res (A : Type) := Ok (a : A) | Crash | OutOfFuel.
Arguments Ok {A} a.
Arguments Crash {A}.
Arguments OutOfFuel {A}.

(* ------------------------------------------------------------------------------------------ fetch *)

Inductive fm_result :=
| FMfail (st : state)
| FMok (st : state) (errs : list perr) (sm : model).

(* importer.cpp: ImporterImpl::fetchModel (called from fetchImportSource when !hasModel()) *)
Definition fetch_model (strict : bool) (fs : fsys) (st : state) (o : owner) (sid : nat) (url : string) : fm_result :=
  let k := key_of o url in
  match lib_get (lib st) k with
  | Some sm => FMok (set_link st o sid) [] sm
  | None =>
    match fs_get fs k with
    | Missing => FMfail (add_issue st R_MISSING_FILE (ItImport o url))
    | NotXml => FMfail (add_issue st (if strict then R_NULL_MODEL else R_UNDEFINED) (ItImport o url))
    | Parsed errs sm => FMok (set_link (lib_add st k sm) o sid) errs sm
    end
  end.

(* importer.cpp: ImporterImpl::fetchImportSource *)
Definition fetch_import_source (strict : bool) (fs : fsys) (st : state) (o : owner) (sid : nat) (url : string)
  : fm_result :=
  match linked_model st o sid url with
  | Some sm => FMok st [] sm
  | None => fetch_model strict fs st o sid url
  end.

Definition related_units (ref : string) (e : perr) : bool :=
  match e with PEUnits n => String.eqb n ref | _ => false end.

(* importer.cpp: isErrorRelatedToComponent(error, sourceComponent); identity of the component = its name *)
Definition related_comp (sc : option comp) (e : perr) : bool :=
  match e, sc with PEComp n, Some c => String.eqb n (cname c) | _, _ => false end.

Definition fetch_epoch (o : owner) (url : string) : epoch :=
  {| e_src := model_url o; e_dst := key_of o url; e_srcm := o; e_dstm := Some (key_of o url) |}.

(* a loop that threads a value through its steps and stops at the first step that does not answer true:
   "for (x : l) if (!step(x)) return false; return true;" *)
Fixpoint all_ok {A X : Type} (step : X -> A -> res (bool * X)) (l : list A) (x : X) : res (bool * X) :=
  match l with
  | [] => Ok (true, x)
  | a :: r => match step x a with
              | Ok (true, x') => all_ok step r x'
              | other => other
              end
  end.

(* One activation of ImporterImpl::fetchUnits on an imported units (importer.cpp); [rec] is fetchUnits itself
   for the recursive calls.  [o] owns the units; on success the code pops what it pushed, on failure the whole
   resolution of the top-level entity is abandoned, so [hist] is passed by value. *)
Definition fetch_units_body (rec : state -> owner -> list epoch -> units -> res (bool * state))
           (strict : bool) (fs : fsys) (m0 : model) (st : state) (o : owner) (hist : list epoch)
           (name : string) (sid : nat) (url ref : string) : res (bool * state) :=
  match fetch_import_source strict fs st o sid url with
  | FMfail st1 => Ok (false, st1)
  | FMok st1 errs sm =>
    (* the parser's errors were added and are removed again; one of them about the referenced units? *)
    if existsb (related_units ref) errs
    then Ok (false, add_issue st1 R_ERROR_IMPORTING_UNITS (ItUnits o name))
    else
      let h := fetch_epoch o url in
      if check_cycle st1 m0 hist h
      then Ok (false, add_issue st1 R_CYCLE (ItImport o url))
      else
        let hist' := hist ++ [h] in
        let o' := Some (key_of o url) in
        match find_units (m_units sm) ref with
        | None => Ok (false, add_issue st1 R_MISSING_UNITS (ItUnits o name))
        | Some su =>
          match rec st1 o' hist' su with
          | Ok (true, st2) =>
            all_ok (fun st r =>
                      if is_std r then Ok (true, st)
                      else match find_units (m_units sm) r with
                           | None => Ok (false, add_issue st R_MISSING_UNITS (ItUnits o' (uname su)))
                           | Some cu =>
                             (* if (sourceUnit->isImport()) fetchUnits(...): a local child is NOT descended into *)
                             rec st o' hist' cu
                           end)
                   (match su with ULocal _ refs => refs | UImp _ _ _ _ => [] end) st2
          | other => other
          end
        end
  end.

(* importer.cpp: ImporterImpl::fetchUnits *)
Fixpoint fetch_units (fuel : nat) (strict : bool) (fs : fsys) (m0 : model) (st : state) (o : owner)
         (hist : list epoch) (u : units) {struct fuel} : res (bool * state) :=
  match u with
  | ULocal _ _ => Ok (true, st)
  | UImp name sid url ref =>
    match fuel with
    | 0 => OutOfFuel
    | S f => fetch_units_body (fetch_units f strict fs m0) strict fs m0 st o hist name sid url ref
    end
  end.

(* The part of ImporterImpl::fetchComponent before the import itself: "if (!requiresImports()) return true;
   if (!isImport()) { for (children) if (!fetchComponent(child)) return false; return true; }".
   [imp st c] is what happens at an imported component. *)
Fixpoint walk_comp (imp : state -> comp -> res (bool * state)) (c : comp) (st : state) {struct c}
  : res (bool * state) :=
  if negb (requires_imports c) then Ok (true, st) else
  match c with
  | Comp _ None _ kids =>
    (fix wl (l : list comp) (st : state) {struct l} : res (bool * state) :=
       match l with
       | [] => Ok (true, st)
       | k :: r => match walk_comp imp k st with Ok (true, st') => wl r st' | other => other end
       end) kids st
  | Comp _ (Some _) _ _ => imp st c
  end.

(* One activation of ImporterImpl::fetchComponent on an imported component; [recu] = fetchUnits, [recc] =
   fetchComponent for the recursive calls. *)
Definition fetch_comp_body (recu : state -> owner -> list epoch -> units -> res (bool * state))
           (recc : state -> owner -> list epoch -> comp -> res (bool * state))
           (strict : bool) (fs : fsys) (m0 : model) (st : state) (o : owner) (hist : list epoch)
           (name : string) (sid : nat) (url ref : string) : res (bool * state) :=
  match fetch_import_source strict fs st o sid url with
  | FMfail st1 => Ok (false, st1)
  | FMok st1 errs sm =>
    let sc := find_comp (m_comps sm) ref in
    if existsb (related_comp sc) errs
    then Ok (false, add_issue st1 R_ERROR_IMPORTING_UNITS (ItComp o name))
    else
      let h := fetch_epoch o url in
      if check_cycle st1 m0 hist h
      then Ok (false, add_issue st1 R_CYCLE (ItImport o url))
      else
        let hist' := hist ++ [h] in
        let o' := Some (key_of o url) in
        match sc with
        | None => Ok (false, add_issue st1 R_MISSING_COMPONENT (ItComp o name))
        | Some sc =>
          match recc st1 o' hist' sc with
          | Ok (true, st2) =>
            match all_ok (fun st k => recc st o' hist' k) (ckids sc) st2 with
            | Ok (true, st3) =>
              (* unitsNamesUsed(sourceComponent): units of its own variables only *)
              all_ok (fun st n =>
                        if is_std n then Ok (true, st)
                        else match find_units (m_units sm) n with
                             | None => Ok (false, add_issue st R_MISSING_COMPONENT (ItComp o name))
                             | Some su => recu st o' hist' su
                             end) (cused sc) st3
            | other => other
            end
          | other => other
          end
        end
  end.

(* importer.cpp: ImporterImpl::fetchComponent.  Import hops consume fuel; the walk over a local component's
   subtree is structural. *)
Fixpoint fetch_comp (fuel : nat) (strict : bool) (fs : fsys) (m0 : model) (st : state) (o : owner)
         (hist : list epoch) (c : comp) {struct fuel} : res (bool * state) :=
  match fuel with
  | 0 => OutOfFuel
  | S f =>
    walk_comp (fun st c =>
                 match c with
                 | Comp name (Some (sid, url, ref)) _ _ =>
                   fetch_comp_body (fetch_units f strict fs m0) (fetch_comp f strict fs m0)
                                   strict fs m0 st o hist name sid url ref
                 | Comp _ None _ _ => Ok (true, st)      (* not reached: walk_comp calls this on imports only *)
                 end) c st
  end.

(* replace the item of the newest issue: issue(issueCount() - 1)->mItem->setUnits / setComponent *)
Definition retarget_last (st : state) (it : iitem) : state :=
  match issues_rev st with
  | [] => st
  | i :: r => {| lib := lib st; links := links st; issues_rev := {| i_rule := i_rule i; i_item := it |} :: r |}
  end.

(* fuel that suffices for every file system (ImportProofs.resolve_terminates) *)
Definition fuel_bound (fs : fsys) (st : state) : nat := 2 * (length fs + length (lib st)) + 4.

(* the two loops of Importer::resolveImports: a failing entity does not stop the loop; the newest issue is
   re-attached to the top-level importing entity and the status becomes false *)
Fixpoint resolve_loop {A : Type} (fetch : state -> A -> res (bool * state)) (item : A -> iitem)
         (l : list A) (acc : bool) (st : state) {struct l} : res (bool * state) :=
  match l with
  | [] => Ok (acc, st)
  | a :: r => match fetch st a with
              | Ok (true, st') => resolve_loop fetch item r acc st'
              | Ok (false, st') => resolve_loop fetch item r false (retarget_last st' (item a))
              | Crash => Crash
              | OutOfFuel => OutOfFuel
              end
  end.

(* importer.cpp: Importer::resolveImports(model, basePath) *)
Definition resolve_imports (fuel : nat) (strict : bool) (fs : fsys) (st : state) (m0 : model)
  : res (bool * state) :=
  let st0 := clear_origin_links (clear_issues st) in
  match resolve_loop (fun st u => fetch_units fuel strict fs m0 st None [] u) (fun u => ItUnits None (uname u))
                     (imported_units m0) true st0 with
  | Ok (acc, st1) =>
    resolve_loop (fun st c => fetch_comp fuel strict fs m0 st None [] c) (fun c => ItComp None (cname c))
                 (imported_comps m0) acc st1
  | other => other
  end.

(* ------------------------------------------------------------------------------------------ resolved / defined *)

Inductive ttype := RESOLVED | DEFINED.

(* Candidate repairs (fixes/C07-*.diff); the code as it is now is [no_fixes].
   fx_pop     : Units::performTestWithHistory pops the epoch it pushed (finding C07-units-history-not-popped)
   fx_nullref : referencedUnits skips a reference that is not a units of the model instead of recursing on a
                null pointer (finding C07-null-deref-dangling-units-ref)
   fx_placeholder_children : Component::performTestWithHistory also tests the components encapsulated by an import
                placeholder itself (/repo commit 0a59695; finding C07-children-of-imported-component-not-tested)
   fx_cycle_guard : hasUnitsCycle(units) is consulted first by Units::isDefined / doIsResolved and by referencedUnits
                (/repo commit 85ba0d4; finding C07-cyclic-local-units) *)
Record fixes := { fx_pop : bool; fx_nullref : bool; fx_placeholder_children : bool; fx_cycle_guard : bool }.
Definition no_fixes : fixes :=
  {| fx_pop := false; fx_nullref := false; fx_placeholder_children := false; fx_cycle_guard := false |}.
(* the code at /repo HEAD: 94d567f (history pop), 3564768 (referencedUnits null test), 0a59695 (placeholder's children),
   85ba0d4 (hasUnitsCycle guard) *)
Definition head_fixes : fixes :=
  {| fx_pop := true; fx_nullref := true; fx_placeholder_children := true; fx_cycle_guard := true |}.

(* utilities.cpp (85ba0d4): unitsCycleFrom / hasUnitsCycle — a depth-first walk over the units references, within the
   owning model and through the model linked to an import source, that keeps the path of units being followed and
   answers true when a units on the path is met again.  A units object is identified by its owner and its value (from
   two objects of equal value in one model the same objects are reached).  The code's [done] list only saves work (a
   units left without a cycle is not walked again): the answer is that of the plain path walk below.  A path never
   holds a units twice, so it is at most [units_total] long: the fuel is never exhausted. *)
Fixpoint list_string_eqb (a b : list string) : bool :=
  match a, b with
  | [], [] => true
  | x :: a', y :: b' => String.eqb x y && list_string_eqb a' b'
  | _, _ => false
  end.

Definition units_eqb (a b : units) : bool :=
  match a, b with
  | ULocal n r, ULocal n' r' => String.eqb n n' && list_string_eqb r r'
  | UImp n s u r, UImp n' s' u' r' => String.eqb n n' && Nat.eqb s s' && String.eqb u u' && String.eqb r r'
  | _, _ => false
  end.

Fixpoint units_cycle_from (fuel : nat) (st : state) (o : owner) (cm : model) (path : list (owner * units)) (u : units)
         {struct fuel} : bool :=
  match fuel with
  | 0 => true
  | S f =>
    if existsb (fun p => owner_eqb (fst p) o && units_eqb (snd p) u) path then true
    else
      let path' := (o, u) :: path in
      match u with
      | UImp _ sid url ref =>
        match linked_model st o sid url with
        | None => false
        | Some sm => match find_units (m_units sm) ref with
                     | None => false
                     | Some iu => units_cycle_from f st (Some (key_of o url)) sm path' iu
                     end
        end
      | ULocal _ refs =>
        existsb (fun r => if is_std r then false
                          else match find_units (m_units cm) r with
                               | Some cu => units_cycle_from f st o cm path' cu
                               | None => false
                               end) refs
      end
  end.

Definition units_total (st : state) (m0 : model) : nat :=
  fold_right (fun p acc => length (m_units (snd p)) + acc) (length (m_units m0)) (lib st).

Definition has_units_cycle (st : state) (m0 : model) (o : owner) (cm : model) (u : units) : bool :=
  units_cycle_from (units_total st m0 + 2) st o cm [] u.

(* the guard as the reducers consult it *)
Definition guarded (fx : fixes) (st : state) (m0 : model) (o : owner) (cm : model) (u : units) : bool :=
  fx_cycle_guard fx && has_units_cycle st m0 o cm u.

(* "for (x : l) if (step(x)) return true; return false;" *)
Fixpoint none_found {A X : Type} (step : X -> A -> res (bool * X)) (l : list A) (x : X) : res (bool * X) :=
  match l with
  | [] => Ok (false, x)
  | a :: r => match step x a with
              | Ok (false, x') => none_found step r x'
              | other => other
              end
  end.

Definition res_map {A B : Type} (f : A -> B) (r : res A) : res B :=
  match r with Ok a => Ok (f a) | Crash => Crash | OutOfFuel => OutOfFuel end.

(* units.cpp: UnitsImpl::performTestWithHistory.  [cm] is the model that owns [u] (= content of [o]).
   The import branch pushes its epoch and never pops it: the history is returned. *)
Fixpoint units_test (fx : fixes) (fuel : nat) (ty : ttype) (st : state) (m0 : model) (o : owner) (cm : model)
         (hist : list epoch) (u : units) {struct fuel} : res (bool * list epoch) :=
  match fuel with
  | 0 => OutOfFuel
  | S f =>
    match u with
    | UImp _ sid url ref =>
      match linked_model st o sid url with
      | None => Ok (false, hist)
      | Some sm =>
        match find_units (m_units sm) ref with
        | None => Ok (false, hist)
        | Some iu =>
          let h := {| e_src := importee_url hist url; e_dst := url; e_srcm := o; e_dstm := Some (key_of o url) |} in
          if check_cycle st m0 hist h then Ok (false, hist)
          else match units_test fx f ty st m0 (Some (key_of o url)) sm (hist ++ [h]) iu with
               | Ok (b, hist') => Ok (b, if fx_pop fx then hist else hist')
               | other => other
               end
        end
      end
    | ULocal _ refs =>
      all_ok (fun hist r =>
                if is_std r then Ok (true, hist)
                else match find_units (m_units cm) r with
                     | Some cu => units_test fx f ty st m0 o cm hist cu
                     | None => match ty with DEFINED => Ok (false, hist) | RESOLVED => Ok (true, hist) end
                     end) refs hist
    end
  end.

(* a units object handed out by unitsUsed: one of the model's, or the variable's own name-only units *)
Inductive uref := InModel (u : units) | Standalone (n : string).

(* utilities.cpp: referencedUnits(model, units) — before 3564768 no null test on model->units(ref), before 85ba0d4 no
   cycle test; the guard is consulted at every level of the recursion *)
Fixpoint referenced_units (fx : fixes) (cyc : units -> bool) (fuel : nat) (cm : model) (u : units) {struct fuel}
  : res (list uref) :=
  match fuel with
  | 0 => OutOfFuel
  | S f =>
    if cyc u then Ok [] else                 (* 85ba0d4: if (hasUnitsCycle(units)) return {}; — [cyc] = [guarded …] *)
    match u with
    | UImp _ _ _ _ => Ok []
    | ULocal _ refs =>
      (fix loop (refs : list string) : res (list uref) :=
         match refs with
         | [] => Ok []
         | r :: rest =>
           if is_std r then loop rest
           else match find_units (m_units cm) r with
                | None => if fx_nullref fx then loop rest
                          else Crash                (* referencedUnits(model, nullptr): nullptr->unitCount() *)
                | Some ru =>
                  match referenced_units fx cyc f cm ru with
                  | Ok l1 => match loop rest with Ok l2 => Ok (l1 ++ [InModel ru] ++ l2) | other => other end
                  | other => other
                  end
                end
         end) refs
    end
  end.

(* utilities.cpp: unitsUsed(model, component) — the component and all its descendants (no cn elements here) *)
Fixpoint units_used (fx : fixes) (cyc : units -> bool) (fuel : nat) (cm : model) (c : comp) {struct c} : res (list uref) :=
  match c with
  | Comp _ _ used kids =>
    match (fix vars (l : list string) : res (list uref) :=
             match l with
             | [] => Ok []
             | n :: r =>
               if is_std n then vars r
               else match (match find_units (m_units cm) n with
                           | Some mu => match referenced_units fx cyc fuel cm mu with
                                        | Ok l => Ok (l ++ [InModel mu])
                                        | other => other
                                        end
                           | None => Ok [Standalone n]
                           end) with
                    | Ok l1 => match vars r with Ok l2 => Ok (l1 ++ l2) | other => other end
                    | other => other
                    end
             end) used with
    | Ok l1 =>
      match (fix go (l : list comp) : res (list uref) :=
               match l with
               | [] => Ok []
               | k :: r => match units_used fx cyc fuel cm k with
                           | Ok a => match go r with Ok b => Ok (a ++ b) | other => other end
                           | other => other
                           end
               end) kids with
      | Ok l2 => Ok (l1 ++ l2)
      | other => other
      end
    | other => other
    end
  end.

(* Units::isResolved() / isDefined() of one of the units handed out by unitsUsed: fresh history *)
Definition uref_test (fx : fixes) (fuel : nat) (ty : ttype) (st : state) (m0 : model) (o : owner) (cm : model) (x : uref)
  : res bool :=
  match x with
  | Standalone _ =>
    (* a parent-less units without children is resolved and defined; DEFINED then asks model->hasUnits(u): no *)
    match ty with RESOLVED => Ok true | DEFINED => Ok false end
  | InModel u => if guarded fx st m0 o cm u then Ok false                  (* 85ba0d4: isResolved / isDefined *)
                 else res_map fst (units_test fx fuel ty st m0 o cm [] u)
  end.

Definition unit_step {A : Type} (f : A -> res bool) : unit -> A -> res (bool * unit) :=
  fun _ a => res_map (fun b => (b, tt)) (f a).

(* the local part of ComponentImpl::performTestWithHistory: the units used by the component and its
   descendants, then the children; [imp c] is what happens at an imported component *)
Fixpoint comp_walk (pk : bool) (imp : comp -> res bool) (units_ok : comp -> res bool) (c : comp) {struct c} : res bool :=
  match c with
  | Comp _ i _ kids =>
    (* an import placeholder: the imported component first, then (pk: since 0a59695) the placeholder's own children;
       a local component: the units it and its descendants use, then its children *)
    match (match i with Some _ => imp c | None => units_ok c end) with
    | Ok true =>
      if (match i with Some _ => pk | None => true end)
      then (fix wl (l : list comp) : res bool :=
              match l with
              | [] => Ok true
              | k :: r => match comp_walk pk imp units_ok k with Ok true => wl r | other => other end
              end) kids
      else Ok true
    | other => other
    end
  end.

(* component.cpp: ComponentImpl::performTestWithHistory (push / pop: history by value) *)
Fixpoint comp_test (fx : fixes) (fuel : nat) (ty : ttype) (st : state) (m0 : model) (o : owner) (cm : model)
         (hist : list epoch) (c : comp) {struct fuel} : res bool :=
  match fuel with
  | 0 => OutOfFuel
  | S f =>
    comp_walk (fx_placeholder_children fx)
      (fun c => match c with
                | Comp _ (Some (sid, url, ref)) _ _ =>
                  match linked_model st o sid url with
                  | None => Ok false
                  | Some sm =>
                    match find_comp (m_comps sm) ref with
                    | None => Ok false
                    | Some ic =>
                      let h := {| e_src := importee_url hist url; e_dst := url; e_srcm := o;
                                  e_dstm := Some (key_of o url) |} in
                      if check_cycle st m0 hist h then Ok false
                      else comp_test fx f ty st m0 (Some (key_of o url)) sm (hist ++ [h]) ic
                    end
                  end
                | Comp _ None _ _ => Ok true             (* not reached *)
                end)
      (fun c => match units_used fx (guarded fx st m0 o cm) fuel cm c with
                | Ok us => res_map fst (all_ok (unit_step (uref_test fx fuel ty st m0 o cm)) us tt)
                | Crash => Crash
                | OutOfFuel => OutOfFuel
                end)
      c
  end.

(* model.cpp: Model::hasUnresolvedImports (ty = RESOLVED, returns "all resolved") and Model::isDefined *)
Definition model_test (fx : fixes) (fuel : nat) (ty : ttype) (st : state) (m0 : model) : res bool :=
  match all_ok (unit_step (fun u => if guarded fx st m0 None m0 u then Ok false      (* 85ba0d4 *)
                                    else res_map fst (units_test fx fuel ty st m0 None m0 [] u))) (m_units m0) tt with
  | Ok (true, _) =>
    res_map fst (all_ok (unit_step (comp_test fx fuel ty st m0 None m0 [])) (m_comps m0) tt)
  | other => res_map fst other
  end.

Definition has_unresolved_imports (fx : fixes) (fuel : nat) (st : state) (m0 : model) : res bool :=
  res_map negb (model_test fx fuel RESOLVED st m0).

Definition is_defined (fx : fixes) (fuel : nat) (st : state) (m0 : model) : res bool := model_test fx fuel DEFINED st m0.

(* ------------------------------------------------------------------------------------------ pre-flatten scan *)

(* importer.cpp: ImporterImpl::resolvingUrl — the key of the linked model, or the raw URL *)
Definition resolving_url (st : state) (o : owner) (sid : nat) (url : string) : string :=
  match linked_model st o sid url with Some _ => key_of o url | None => url end.

Definition scan_epoch (st : state) (o : owner) (sid : nat) (url : string) : epoch :=
  {| e_src := model_url o; e_dst := resolving_url st o sid url; e_srcm := o;
     e_dstm := match linked_model st o sid url with Some _ => Some (key_of o url) | None => None end |}.

(* importer.cpp: ImporterImpl::checkUnitsForCycles — true = an issue was found.  Never pops: the history
   (and the importer state, for the issue) are threaded through. *)
Fixpoint check_units_for_cycles (fuel : nat) (m0 : model) (o : owner) (cm : model)
         (hs : list epoch * state) (u : units) {struct fuel} : res (bool * (list epoch * state)) :=
  match fuel with
  | 0 => OutOfFuel
  | S f =>
    let (hist, st) := hs in
    match u with
    | ULocal _ refs =>
      none_found (fun hs r =>
                    match find_units (m_units cm) r with         (* model->hasUnits(ref) / model->units(ref) *)
                    | Some cu => check_units_for_cycles f m0 o cm hs cu
                    | None => Ok (false, hs)
                    end) refs hs
    | UImp _ sid url ref =>
      let h := scan_epoch st o sid url in
      if check_cycle st m0 hist h then Ok (true, (hist, add_issue st R_CYCLE (ItImport o url)))
      else
        let hist' := hist ++ [h] in
        match linked_model st o sid url with
        | None => Ok (true, (hist', add_issue st R_NULL_MODEL (ItImport o url)))
        | Some sm =>
          match find_units (m_units sm) ref with
          | None => Ok (true, (hist', add_issue st R_MISSING_UNITS (ItImport o url)))
          | Some iu => check_units_for_cycles f m0 (Some (key_of o url)) sm (hist', st) iu
          end
        end
    end
  end.

(* importer.cpp: ImporterImpl::checkComponentForCycles (only ever called on imported components) *)
Fixpoint check_comp_for_cycles (fuel : nat) (st : state) (m0 : model) (o : owner)
         (hist : list epoch) (c : comp) {struct fuel} : res (bool * state) :=
  match fuel with
  | 0 => OutOfFuel
  | S f =>
    match c with
    | Comp _ None _ _ => Crash                   (* component->importSource() is null *)
    | Comp _ (Some (sid, url, ref)) _ _ =>
      let h := scan_epoch st o sid url in
      if check_cycle st m0 hist h then Ok (true, add_issue st R_CYCLE (ItImport o url))
      else
        let hist' := hist ++ [h] in
        match linked_model st o sid url with
        | None => Ok (true, add_issue st R_NULL_MODEL (ItImport o url))
        | Some sm =>
          match find_comp (m_comps sm) ref with
          | None => Ok (true, add_issue st R_MISSING_COMPONENT (ItImport o url))
          | Some ic =>
            match cimp ic with
            | Some _ => check_comp_for_cycles f st m0 (Some (key_of o url)) hist' ic
            | None => Ok (false, st)
            end
          end
        end
    end
  end.

(* importer.cpp: ImporterImpl::hasImportIssues *)
Definition has_import_issues (fx : fixes) (fuel : nat) (st : state) (m0 : model) : res (bool * state) :=
  match none_found (fun st u => res_map (fun r => (fst r, snd (snd r)))
                                        (check_units_for_cycles fuel m0 None m0 ([], st) u))
                   (imported_units m0) st with
  | Ok (false, st1) =>
    match none_found (fun st c => check_comp_for_cycles fuel st m0 None [] c) (imported_comps m0) st1 with
    | Ok (false, st2) =>
      match has_unresolved_imports fx fuel st2 m0 with
      | Ok true => Ok (true, add_issue st2 R_UNRESOLVED_IMPORTS ItModel)
      | Ok false => Ok (false, st2)
      | Crash => Crash
      | OutOfFuel => OutOfFuel
      end
    | other => other
    end
  | other => other
  end.

(* importer.cpp: Importer::flattenModel up to "flatModel = model->clone()": true = flattening proper starts
   (and returns a model), false = nullptr is returned with an issue *)
Definition flatten_precheck (fx : fixes) (fuel : nat) (st : state) (m0 : model) : res (bool * state) :=
  match has_import_issues fx fuel (clear_issues st) m0 with
  | Ok (true, st1) => Ok (false, st1)
  | Ok (false, st1) =>
    match is_defined fx fuel st1 m0 with
    | Ok true => Ok (true, st1)
    | Ok false => Ok (false, add_issue st1 R_UNDEFINED_MODEL ItNone)
    | Crash => Crash
    | OutOfFuel => OutOfFuel
    end
  | Crash => Crash
  | OutOfFuel => OutOfFuel
  end.

(* ------------------------------------------------------------------------------------------ for the drivers *)

(* name of the model that owns an issue's item (printed by the drivers) *)
Definition owner_name (st : state) (m0 : model) (o : owner) : string :=
  match content st m0 o with Some m => m_name m | None => "?" end.

Definition max_units (st : state) (m0 : model) : nat :=
  fold_right (fun p acc => Nat.max (length (m_units (snd p))) acc) (length (m_units m0)) (lib st).

(* fuel for the resolved / defined tests and the pre-flatten scan: enough whenever the local units of every
   model reached are acyclic (ImportProofs); on cyclic local units every fuel is exhausted *)
Definition scan_fuel (fs : fsys) (st : state) (m0 : model) : nat :=
  (fuel_bound fs st + 2) * (max_units st m0 + 2).
