(** MathNsProofs.v — C14: whatever the math element of a 1.x component looks like (any prefixes, any declaration sites,
    used or not), the tree that is stored declares no CellML 1.0 / 1.1 namespace anywhere, and no attribute is left in
    one.  Lemmas only. *)
From Coq Require Import String Ascii List Bool Arith Lia.
From LC Require Import XmlDefs Load1xDefs MathNsDefs.
Import ListNotations.
Local Open Scope string_scope.
Local Open Scope bool_scope.
Local Open Scope list_scope.

Section NInd.
  Variable P : nxml -> Prop.
  Hypothesis HE : forall p ns nm decls attrs kids, Forall P kids -> P (NElem p ns nm decls attrs kids).
  Hypothesis HT : forall s, P (NText s).
  Hypothesis HC : P NComment.
  Fixpoint nxml_ind' (x : nxml) : P x :=
    match x with
    | NElem p ns nm decls attrs kids =>
      HE p ns nm decls attrs kids ((fix go (l : list nxml) : Forall P l :=
                                      match l with [] => Forall_nil P | k :: r => Forall_cons k (nxml_ind' k) (go r) end) kids)
    | NText s => HT s
    | NComment => HC
    end.
End NInd.

(** an entry whose namespace is a 1.x one is still marked *)
Definition inv (l : list (bool * nattr)) : Prop := forall e, In e l -> attr_clean (snd e) = false -> fst e = true.
Definition count_marked (l : list (bool * nattr)) : nat := length (filter fst l).

Lemma count_le_length : forall l, count_marked l <= length l.
Proof. intros l. unfold count_marked. induction l as [|e r IH]; [cbn; lia|]. cbn [filter length]. destruct (fst e); cbn [length]; lia. Qed.

Lemma split_marked_none : forall l, split_marked l = None -> count_marked l = 0.
Proof.
  induction l as [|e r IH]; intros H; [reflexivity|]. cbn [split_marked] in H. unfold count_marked. cbn [filter].
  destruct (fst e); [discriminate|]. destruct (split_marked r) as [[[a x] b]|]; [discriminate|]. now apply IH.
Qed.

Lemma split_marked_some : forall l a x b, split_marked l = Some (a, x, b) ->
  l = a ++ (true, x) :: b /\ count_marked a = 0.
Proof.
  induction l as [|e r IH]; intros a x b H; [discriminate|]. cbn [split_marked] in H. destruct e as [f y]. cbn [fst snd] in H.
  destruct f.
  - injection H as <- <- <-. split; reflexivity.
  - destruct (split_marked r) as [[[a' x'] b']|] eqn:Er; [|discriminate]. injection H as <- <- <-.
    destruct (IH _ _ _ eq_refl) as [-> Hc]. split; [reflexivity|]. unfold count_marked in *. cbn [filter fst]. exact Hc.
Qed.

Lemma count_app : forall a b, count_marked (a ++ b) = count_marked a + count_marked b.
Proof. intros. unfold count_marked. now rewrite filter_app, app_length. Qed.

Lemma nset_go_count : forall t n val l done, count_marked (nset_go t n val l done) = count_marked l.
Proof.
  intros t n val. induction l as [|e r IH]; intros done; [reflexivity|]. cbn [nset_go].
  destruct (negb done && nhit t n e); unfold count_marked in *; cbn [filter fst]; destruct (fst e); cbn [length]; now rewrite IH.
Qed.

Lemma nset_prop_count : forall l t n val, count_marked (nset_prop l t n val) = count_marked l.
Proof.
  intros l t n val. unfold nset_prop. destruct (existsb (nhit t n) l); [apply nset_go_count|].
  rewrite count_app. unfold count_marked at 2. cbn. lia.
Qed.

Lemma nset_go_inv : forall t n val l done, inv l -> inv (nset_go t n val l done).
Proof.
  intros t n val. induction l as [|e r IH]; intros done Hi e' Hin Hc; [contradiction|].
  assert (Hir : inv r) by (intros e0 H0; apply Hi; now right).
  cbn [nset_go] in Hin. destruct (negb done && nhit t n e).
  - destruct Hin as [<-|Hin]; [|eapply IH; eassumption]. cbn [fst snd] in *. apply (Hi e); [now left|].
    unfold attr_clean in *. cbn [nt_ns] in Hc. exact Hc.
  - destruct Hin as [<-|Hin]; [apply Hi; [now left|assumption]|eapply IH; eassumption].
Qed.

Lemma nset_prop_inv : forall l t n val, ns_is_1x t = false -> inv l -> inv (nset_prop l t n val).
Proof.
  intros l t n val Ht Hi. unfold nset_prop. destruct (existsb (nhit t n) l); [now apply nset_go_inv|].
  intros e Hin Hc. apply in_app_or in Hin. destruct Hin as [Hin|[<-|[]]]; [now apply Hi|].
  unfold attr_clean in Hc. cbn in Hc. rewrite Ht in Hc. discriminate.
Qed.

Lemma move_marked_spec : forall fuel t l, ns_is_1x t = false -> inv l -> count_marked l <= fuel ->
  inv (move_marked fuel t l) /\ count_marked (move_marked fuel t l) = 0.
Proof.
  induction fuel as [|f IH]; intros t l Ht Hi Hc.
  - cbn [move_marked]. split; [assumption|lia].
  - cbn [move_marked]. destruct (split_marked l) as [[[a x] b]|] eqn:Es.
    + destruct (split_marked_some _ _ _ _ Es) as [-> Ha].
      rewrite count_app in Hc. unfold count_marked at 2 in Hc. cbn [filter fst length] in Hc. fold (count_marked b) in Hc.
      apply IH; [assumption| |].
      * apply nset_prop_inv; [assumption|]. intros e Hin. apply Hi. apply in_app_or in Hin. apply in_or_app.
        destruct Hin; [now left|right; now right].
      * rewrite nset_prop_count, count_app. lia.
    + split; [assumption|now apply split_marked_none].
Qed.

Lemma clean_of_unmarked : forall l, inv l -> count_marked l = 0 -> forallb attr_clean (map snd l) = true.
Proof.
  induction l as [|e r IH]; intros Hi Hc; [reflexivity|]. unfold count_marked in Hc. cbn [filter] in Hc.
  destruct (fst e) eqn:Ef; [discriminate|]. cbn [map forallb]. apply andb_true_iff. split.
  - destruct (attr_clean (snd e)) eqn:Ec; [reflexivity|]. rewrite (Hi e (or_introl eq_refl) Ec) in Ef. discriminate.
  - apply IH; [intros e0 H0; apply Hi; now right|exact Hc].
Qed.

(** ** the processed tree: declarations and attributes are clean *)
Lemma clean_tree_elem : forall p ns nm decls attrs ks,
  clean_tree (NElem p ns nm decls attrs ks)
  = forallb (fun d => negb (decl_is_1x d)) decls && forallb attr_clean attrs && forallb clean_tree ks.
Proof. reflexivity. Qed.

Lemma process_elem : forall env b p ns nm decls attrs ks,
  process env b (NElem p ns nm decls attrs ks)
  = let env' := map (fun d => (fst d, decl_is_1x d)) decls ++ env in
    let decls' := filter (fun d => negb (decl_is_1x d)) decls in
    let binding' := match decl_uri "cellml" decls' with Some u => u | None => b end in
    let cleared_el := removed_in env' p in
    let marked := map (fun a => (ns_is_1x (nt_ns a),
                                 if negb (String.eqb (nt_prefix a) "") && removed_in env' (nt_prefix a)
                                 then mkNA "" "" (nt_name a) (nt_val a) else a)) attrs in
    NElem (if cleared_el then "" else p) (if cleared_el then "" else ns) nm decls'
          (map snd (move_marked (length attrs) binding' marked)) (map (process env' binding') ks).
Proof. reflexivity. Qed.

Lemma filter_clean_decls : forall decls, forallb (fun d => negb (decl_is_1x d)) (filter (fun d => negb (decl_is_1x d)) decls) = true.
Proof. intros. apply forallb_forall. intros d Hd. apply filter_In in Hd. tauto. Qed.

Lemma decl_uri_clean : forall p ds u, forallb (fun d => negb (decl_is_1x d)) ds = true -> decl_uri p ds = Some u -> ns_is_1x u = false.
Proof.
  intros p ds u H Hu. unfold decl_uri in Hu. destruct (find _ ds) as [d|] eqn:Ef; [|discriminate]. injection Hu as <-.
  apply find_some in Ef. destruct Ef as [Hin _]. rewrite forallb_forall in H. specialize (H d Hin). now apply negb_true_iff in H.
Qed.

Lemma process_clean : forall x env b, ns_is_1x b = false -> clean_tree (process env b x) = true.
Proof.
  induction x as [p ns nm decls attrs ks IH| |] using nxml_ind'; intros env b Hb; try reflexivity.
  rewrite process_elem. cbv zeta. rewrite clean_tree_elem.
  set (decls' := filter (fun d => negb (decl_is_1x d)) decls).
  set (binding' := match decl_uri "cellml" decls' with Some u => u | None => b end).
  assert (Hb' : ns_is_1x binding' = false).
  { unfold binding'. destruct (decl_uri "cellml" decls') as [u|] eqn:Eu; [|assumption].
    eapply decl_uri_clean; [apply filter_clean_decls|exact Eu]. }
  apply andb_true_iff. split; [apply andb_true_iff; split|].
  - apply filter_clean_decls.
  - set (marked := map _ attrs).
    assert (Hi : inv marked).
    { intros e Hin Hc. unfold marked in Hin. apply in_map_iff in Hin. destruct Hin as (a & <- & _). cbn [fst snd] in *.
      destruct (negb (String.eqb (nt_prefix a) "") && removed_in _ (nt_prefix a)); [discriminate|].
      unfold attr_clean in Hc. now apply negb_false_iff in Hc. }
    assert (Hc : count_marked marked <= length attrs).
    { assert (Hl : length marked = length attrs) by (unfold marked; apply map_length). rewrite <- Hl. apply count_le_length. }
    destruct (move_marked_spec (length attrs) binding' marked Hb' Hi Hc) as [Hi' Hc']. now apply clean_of_unmarked.
  - apply forallb_forall. intros k' Hin. apply in_map_iff in Hin. destruct Hin as (k & <- & Hk).
    rewrite Forall_forall in IH. now apply IH.
Qed.

(** ** the declarations copied onto math come from clean attributes *)
Definition uris_clean (m : list (string * string)) : bool := forallb (fun e => negb (ns_is_1x (snd e))) m.

Lemma override_clean : forall m p u, uris_clean m = true -> ns_is_1x u = false -> uris_clean (override m p u) = true.
Proof.
  induction m as [|e r IH]; intros p u Hm Hu; [cbn; now rewrite Hu|].
  cbn [uris_clean forallb] in Hm. apply andb_true_iff in Hm. destruct Hm as [He Hr]. cbn [override].
  destruct (String.eqb (fst e) p); cbn [uris_clean forallb snd]; [now rewrite Hu, Hr|]. rewrite He. now apply IH.
Qed.

Lemma first_per_prefix_clean : forall attrs, forallb attr_clean attrs = true -> uris_clean (first_per_prefix attrs) = true.
Proof.
  intros attrs H. unfold first_per_prefix.
  assert (G : forall l acc, forallb attr_clean l = true -> uris_clean acc = true ->
              uris_clean (fold_left (fun acc a => if String.eqb (nt_prefix a) "" || has_prefix (nt_prefix a) acc then acc
                                                  else acc ++ [(nt_prefix a, nt_ns a)]) l acc) = true).
  { induction l as [|a r IH]; intros acc Hl Ha; [assumption|]. cbn [forallb] in Hl. apply andb_true_iff in Hl. destruct Hl as [H1 H2].
    cbn [fold_left]. apply IH; [assumption|]. destruct (_ || _); [assumption|].
    unfold uris_clean. rewrite forallb_app. apply andb_true_iff. split; [assumption|]. cbn. unfold attr_clean in H1. now rewrite H1. }
  now apply G.
Qed.

Lemma undefined_elem : forall acc p ns nm decls attrs ks,
  undefined_ns acc (NElem p ns nm decls attrs ks)
  = fold_left undefined_ns ks
              (fold_left (fun m e => override m (fst e) (snd e))
                         (filter (fun e => negb (has_prefix (fst e) decls)) (first_per_prefix attrs)) acc).
Proof.
  intros. cbn [undefined_ns]. generalize (fold_left (fun m e => override m (fst e) (snd e))
                         (filter (fun e => negb (has_prefix (fst e) decls)) (first_per_prefix attrs)) acc).
  induction ks as [|k r IH]; intros m; [reflexivity|]. cbn [fold_left]. apply IH.
Qed.

Lemma undefined_clean : forall x acc, clean_tree x = true -> uris_clean acc = true -> uris_clean (undefined_ns acc x) = true.
Proof.
  induction x as [p ns nm decls attrs ks IH| |] using nxml_ind'; intros acc Hx Ha; try assumption.
  rewrite clean_tree_elem in Hx. apply andb_true_iff in Hx. destruct Hx as [Hx Hk]. apply andb_true_iff in Hx. destruct Hx as [_ Hat].
  rewrite undefined_elem.
  assert (H1 : uris_clean (fold_left (fun m e => override m (fst e) (snd e))
                                      (filter (fun e => negb (has_prefix (fst e) decls)) (first_per_prefix attrs)) acc) = true).
  { pose proof (first_per_prefix_clean attrs Hat) as Hf.
    assert (Hff : uris_clean (filter (fun e => negb (has_prefix (fst e) decls)) (first_per_prefix attrs)) = true).
    { apply forallb_forall. intros e He. apply filter_In in He. destruct He as [He _]. unfold uris_clean in Hf. rewrite forallb_forall in Hf. now apply Hf. }
    revert Ha Hff. generalize (filter (fun e => negb (has_prefix (fst e) decls)) (first_per_prefix attrs)). intros l. revert acc.
    induction l as [|e r IHl]; intros acc Ha Hl; [assumption|]. cbn [uris_clean forallb] in Hl. apply andb_true_iff in Hl. destruct Hl as [He Hr].
    cbn [fold_left]. apply IHl; [|assumption]. apply override_clean; [assumption|now apply negb_true_iff in He]. }
  revert H1. generalize (fold_left (fun m e => override m (fst e) (snd e))
                                  (filter (fun e => negb (has_prefix (fst e) decls)) (first_per_prefix attrs)) acc).
  clear Ha acc. induction ks as [|k r IHr]; intros m Hm; [assumption|].
  cbn [forallb] in Hk. apply andb_true_iff in Hk. destruct Hk as [Hk1 Hk2]. inversion IH; subst. cbn [fold_left].
  apply IHr; try assumption. now apply H1.
Qed.

Lemma clean_tree_no_1x_decl : forall x, clean_tree x = true -> no_1x_decl x = true.
Proof.
  induction x as [p ns nm decls attrs ks IH| |] using nxml_ind'; intros H; try reflexivity.
  rewrite clean_tree_elem in H. apply andb_true_iff in H. destruct H as [H Hk]. apply andb_true_iff in H. destruct H as [Hd _].
  change (no_1x_decl (NElem p ns nm decls attrs ks)) with (forallb (fun d => negb (decl_is_1x d)) decls && forallb no_1x_decl ks).
  rewrite Hd. cbn [andb]. apply forallb_forall. intros k Hin. rewrite Forall_forall in IH. apply IH; [assumption|].
  exact (proj1 (forallb_forall _ _) Hk k Hin).
Qed.

(** THE THEOREM of the declaration layer: for EVERY math element — whatever prefixes it uses, wherever the legacy
    namespace is declared (on math, on inner elements, used or unused, shadowed, as a default namespace) — the stored tree
    declares no CellML 1.0 / 1.1 namespace, and below the math element no attribute is left in one *)
Theorem stored_math_no_1x : forall x,
  no_1x_decl (stored_math x) = true
  /\ match stored_math x with NElem _ _ _ _ _ ks => forallb clean_tree ks = true | _ => True end.
Proof.
  intros [p ns nm decls attrs ks| |]; [|split; [reflexivity|exact I]|split; [reflexivity|exact I]].
  unfold stored_math.
  set (found := existsb has_1x_attr ks).
  set (env := map (fun d => (fst d, decl_is_1x d)) decls).
  set (decls1 := filter (fun d => negb (decl_is_1x d)) decls).
  set (decls2 := if found && negb (has_prefix "cellml" decls1) then decls1 ++ [("cellml", CELLML_2_0_NS)] else decls1).
  set (binding := match decl_uri "cellml" decls2 with Some u => u | None => "" end).
  assert (Hd2 : forallb (fun d => negb (decl_is_1x d)) decls2 = true).
  { unfold decls2. destruct (found && negb (has_prefix "cellml" decls1)); [|apply filter_clean_decls].
    rewrite forallb_app. apply andb_true_iff. split; [apply filter_clean_decls|reflexivity]. }
  assert (Hb : ns_is_1x binding = false).
  { unfold binding. destruct (decl_uri "cellml" decls2) as [u|] eqn:Eu; [|reflexivity]. eapply decl_uri_clean; eassumption. }
  assert (Hks : forallb clean_tree (map (process env binding) ks) = true).
  { apply forallb_forall. intros k' Hin. apply in_map_iff in Hin. destruct Hin as (k & <- & _). now apply process_clean. }
  split; [|exact Hks].
  change (no_1x_decl (NElem ?a ?b ?c ?d ?e ?f)) with (forallb (fun x => negb (decl_is_1x x)) d && forallb no_1x_decl f).
  apply andb_true_iff. split.
  - rewrite forallb_app, Hd2. cbn [andb].
    assert (Hu : uris_clean (fold_left undefined_ns (map (process env binding) ks) []) = true).
    { revert Hks. generalize (map (process env binding) ks). intros l.
      assert (G : forall acc, uris_clean acc = true -> forallb clean_tree l = true -> uris_clean (fold_left undefined_ns l acc) = true).
      { induction l as [|k r IH]; intros acc Ha Hl; [assumption|]. cbn [forallb] in Hl. apply andb_true_iff in Hl. destruct Hl as [H1 H2].
        cbn [fold_left]. apply IH; [|assumption]. now apply undefined_clean. }
      intros Hl. now apply G. }
    apply forallb_forall. intros e He. apply filter_In in He. destruct He as [He _].
    unfold uris_clean in Hu. rewrite forallb_forall in Hu. exact (Hu e He).
  - apply forallb_forall. intros k Hin. apply clean_tree_no_1x_decl. exact (proj1 (forallb_forall _ _) Hks k Hin).
Qed.
