(** Properties_C10.v — statements only.  Each theorem is closed by [exact <lemma>] and followed by
    Print Assumptions.  C10: equals() is a true equivalence relation that sees every attribute.

    Model: EqualsDefs.v (faithful transcription of the doEquals chain; two switches select the repaired
    variants).  Specification: EqualsSpec.v ([sim]: same attributes, children equal up to order, recursively).

      flags_repo_pinned  = the code before fix C10-component-matching  (no variable count test, containsComponent)
      flags_now          = the code with that fix                      (no variable count test — pinned by a test)
      flags_fixed        = both repaired

    [neq] is the comparison of doubles (areNearlyEqual); the property speaks about values on which it is an
    equivalence ([neq_laws]); instances: [Qeq_bool], and [neq_abs] = what areNearlyEqual computes on values that
    are identical or more than one ulp apart. *)
From Coq Require Import String List Bool ZArith QArith Qabs Arith Permutation.
From LC Require Import EqualsDefs EqualsSpec EqualsProofs EqualsSimProofs EqualsCorrect EqualsAsIs EqualsMut EqualsSummary EqualsExt EqualsValuesProofs EqualsDetectValuesProofs EqualsRound6Proofs.
Import ListNotations.
Local Close Scope Q_scope.

(** ** The matching loop *)

(** equalEntities (index list sized by the LEFT operand) = greedy matching against the first |l1| right children *)
Theorem C10_equal_entities_is_greedy : forall (A B : Type) (R : A -> B -> bool) l1 l2,
  equal_entities R l1 l2 = greedy R l1 (firstn (length l1) l2).
Proof. exact (@EqualsProofs.equal_entities_greedy). Qed.
Print Assumptions C10_equal_entities_is_greedy.

(** the key lemma: for a symmetric, transitive R, greedy matching succeeds iff l1 can be injected into l2 along R;
    with equal lengths: iff some permutation of l2 is pointwise R-related to l1 *)
Theorem C10_greedy_iff_perm : forall (A : Type) (R : A -> A -> bool),
  (forall x y, R x y = true -> R y x = true) ->
  (forall x y z, R x y = true -> R y z = true -> R x z = true) ->
  forall l1 l2,
    (greedy R l1 l2 = true <->
     exists l2' rest, Permutation l2 (l2' ++ rest) /\ Forall2 (fun x y => R x y = true) l1 l2')
    /\ (length l1 = length l2 ->
        (greedy R l1 l2 = true <->
         exists l2', Permutation l2 l2' /\ Forall2 (fun x y => R x y = true) l1 l2')).
Proof. exact (@EqualsProofs.greedy_iff_perm). Qed.
Print Assumptions C10_greedy_iff_perm.

(** without a count test the surplus of the right operand is never looked at *)
Theorem C10_greedy_ignores_surplus : forall (A : Type) (R : A -> A -> bool) l extra,
  (forall x, R x x = true) -> greedy R l (l ++ extra) = true.
Proof. exact (@EqualsProofs.greedy_ignores_surplus). Qed.
Print Assumptions C10_greedy_ignores_surplus.

(** ** The repaired equals decides the specification *)

Theorem C10_equals_spec : forall neq, neq_laws neq ->
  forall a b, eq_entity neq flags_fixed a b = true <-> sim_entity neq a b.
Proof. exact EqualsCorrect.eq_entity_iff. Qed.
Print Assumptions C10_equals_spec.

Theorem C10_equals_refl : forall neq, neq_laws neq -> forall a, eq_entity neq flags_fixed a a = true.
Proof. exact EqualsCorrect.equals_refl. Qed.
Print Assumptions C10_equals_refl.

Theorem C10_equals_sym : forall neq, neq_laws neq ->
  forall a b, eq_entity neq flags_fixed a b = eq_entity neq flags_fixed b a.
Proof. exact EqualsCorrect.equals_sym. Qed.
Print Assumptions C10_equals_sym.

Theorem C10_equals_trans : forall neq, neq_laws neq -> forall a b c,
  eq_entity neq flags_fixed a b = true -> eq_entity neq flags_fixed b c = true -> eq_entity neq flags_fixed a c = true.
Proof. exact EqualsCorrect.equals_trans. Qed.
Print Assumptions C10_equals_trans.

(** any permutation of any child list at any depth ([shuffled] = same attributes, children permuted, recursively) *)
Theorem C10_equals_perm_invariant : forall neq, neq_laws neq -> forall a a' b, shuffled a a' ->
  eq_entity neq flags_fixed a a' = true
  /\ eq_entity neq flags_fixed a' a = true
  /\ eq_entity neq flags_fixed a' b = eq_entity neq flags_fixed a b
  /\ eq_entity neq flags_fixed b a' = eq_entity neq flags_fixed b a.
Proof. exact EqualsCorrect.equals_perm_invariant. Qed.
Print Assumptions C10_equals_perm_invariant.

Theorem C10_shuffled_component_kids : forall s ks ks', Permutation ks ks' ->
  shuffled (EComponent (Comp s ks)) (EComponent (Comp s ks')).
Proof. exact EqualsCorrect.shuffled_component_kids. Qed.
Print Assumptions C10_shuffled_component_kids.

(** different numbers of children of any kind: false.  Holds for the code as it is for every kind of child
    except the variables (there: only with the count test) *)
Theorem C10_equals_count_sensitive : forall neq fl,
  (forall a b, length (u_defs a) <> length (u_defs b) -> eq_entity neq fl (EUnits a) (EUnits b) = false)
  /\ (forall a b, length (kids a) <> length (kids b) -> eq_entity neq fl (EComponent a) (EComponent b) = false)
  /\ (forall a b, length (c_resets (shell a)) <> length (c_resets (shell b)) -> eq_entity neq fl (EComponent a) (EComponent b) = false)
  /\ (f_varcount fl = true ->
      forall a b, length (c_vars (shell a)) <> length (c_vars (shell b)) -> eq_entity neq fl (EComponent a) (EComponent b) = false)
  /\ (forall a b, length (m_comps a) <> length (m_comps b) -> eq_entity neq fl (EModel a) (EModel b) = false)
  /\ (forall a b, length (m_units a) <> length (m_units b) -> eq_entity neq fl (EModel a) (EModel b) = false).
Proof. exact EqualsSummary.equals_count_sensitive. Qed.
Print Assumptions C10_equals_count_sensitive.

(** a single mutation of any covered attribute / child at any path (the family [emut] of EqualsDefs.v) flips
    equality to false in both directions, given the written value differs from the old one *)
Theorem C10_equals_detects : forall neq, neq_laws neq ->
  forall mu e e', apply_emut mu e = Some e' -> changes_emut neq mu e = true ->
    eq_entity neq flags_fixed e e' = false /\ eq_entity neq flags_fixed e' e = false.
Proof. exact EqualsMut.equals_detects. Qed.
Print Assumptions C10_equals_detects.

Example C10_detects_nonvacuous :
  let c := mkc "a" [] [mkc "b" [] [mkc "c" [mkv "x"] []]] in
  let mu := MutComponent (CKid 0 (CKid 0 (CVar 0 (VInit "1")))) in
  exists e', apply_emut mu (EComponent c) = Some e' /\ changes_emut Qeq_bool mu (EComponent c) = true
             /\ eq_entity Qeq_bool flags_fixed (EComponent c) e' = false.
Proof. exact EqualsMut.detects_nonvacuous. Qed.
Print Assumptions C10_detects_nonvacuous.

(** the units object a variable holds may be created by name, owned by the variable's model, by another model, by
    none, or shared: equality of variables (hence of resets, components, models) does not depend on that, only on
    the content of the units — same answer for every ownership, characterised by content, and unchanged when the
    units are replaced by units of equal content *)
Theorem C10_units_ownership_irrelevant : forall neq, neq_laws neq ->
  forall (v w : variable) (o1 o2 o1' o2' : ownership),
    eq_owned_variable neq (v, o1) (w, o2) = eq_owned_variable neq (v, o1') (w, o2')
    /\ (eq_owned_variable neq (v, o1) (w, o2) = true <->
        v_name v = v_name w /\ v_id v = v_id w /\ v_init v = v_init w /\ v_iface v = v_iface w
        /\ opt_rel (sim_units neq) (v_units v) (v_units w))
    /\ (forall u u', v_units v = Some u -> sim_units neq u u' ->
        eq_owned_variable neq ({| v_name := v_name v; v_id := v_id v; v_units := Some u'; v_init := v_init v; v_iface := v_iface v |}, o1') (w, o2)
        = eq_owned_variable neq (v, o1) (w, o2)).
Proof. exact EqualsSummary.units_ownership_irrelevant. Qed.
Print Assumptions C10_units_ownership_irrelevant.

(** an import source may be unresolved or resolved to any model object (setModel / resolveImports; clones share it):
    equality of import sources — hence of imported units / components and of models — depends only on url and id *)
Theorem C10_import_resolution_irrelevant : forall (a b : isrc) (r1 r2 r1' r2' : resolution),
  eq_resolved_isrc (a, r1) (b, r2) = eq_resolved_isrc (a, r1') (b, r2')
  /\ (eq_resolved_isrc (a, r1) (b, r2) = true <-> is_url a = is_url b /\ is_id a = is_id b).
Proof. exact EqualsSummary.import_resolution_irrelevant. Qed.
Print Assumptions C10_import_resolution_irrelevant.

(** the instance used as oracle by the check *)
Theorem C10_equals_ideal_equivalence :
  (forall a, equals_ideal a a = true)
  /\ (forall a b, equals_ideal a b = equals_ideal b a)
  /\ (forall a b c, equals_ideal a b = true -> equals_ideal b c = true -> equals_ideal a c = true).
Proof. exact EqualsSummary.equals_ideal_equivalence. Qed.
Print Assumptions C10_equals_ideal_equivalence.

(** ** The code as it is *)

(** reflexivity needs no repair *)
Theorem C10_equals_refl_asis : forall neq, neq_laws neq -> forall fl a, eq_entity neq fl a a = true.
Proof. exact EqualsAsIs.equals_refl_asis. Qed.
Print Assumptions C10_equals_refl_asis.

(** no count test for the variables: {y} vs {y,x} vs {x,y} *)
Theorem C10_equals_sym_refuted_vars : forall neq cm, let fl := {| f_varcount := false; f_compmatch := cm |} in
  eq_entity neq fl w_y w_yx = true /\ eq_entity neq fl w_yx w_y = false.
Proof. exact EqualsAsIs.sym_refuted_vars. Qed.
Print Assumptions C10_equals_sym_refuted_vars.

Theorem C10_equals_trans_refuted_vars : forall neq cm, let fl := {| f_varcount := false; f_compmatch := cm |} in
  eq_entity neq fl w_y w_yx = true /\ eq_entity neq fl w_yx w_xy = true /\ eq_entity neq fl w_y w_xy = false.
Proof. exact EqualsAsIs.trans_refuted_vars. Qed.
Print Assumptions C10_equals_trans_refuted_vars.

Theorem C10_equals_perm_refuted_vars : forall neq cm, let fl := {| f_varcount := false; f_compmatch := cm |} in
  shuffled w_yx w_xy /\ eq_entity neq fl w_y w_yx = true /\ eq_entity neq fl w_y w_xy = false.
Proof. exact EqualsAsIs.perm_refuted_vars. Qed.
Print Assumptions C10_equals_perm_refuted_vars.

Theorem C10_equals_count_refuted_vars : forall neq cm, let fl := {| f_varcount := false; f_compmatch := cm |} in
  exists a b, length (c_vars (shell a)) <> length (c_vars (shell b)) /\ eq_component neq fl a b = true.
Proof. exact EqualsAsIs.count_refuted_vars. Qed.
Print Assumptions C10_equals_count_refuted_vars.

Theorem C10_equals_detects_refuted_vars : forall neq cm, let fl := {| f_varcount := false; f_compmatch := cm |} in
  apply_emut (MutComponent (CVarAdd (mkv "x"))) w_y = Some w_yx
  /\ changes_emut neq (MutComponent (CVarAdd (mkv "x"))) w_y = true
  /\ eq_entity neq fl w_y w_yx = true.
Proof. exact EqualsMut.detects_refuted_vars. Qed.
Print Assumptions C10_equals_detects_refuted_vars.

(** containsComponent per child instead of a matching (before fix C10-component-matching): {a,a} vs {a,b} *)
Theorem C10_equals_sym_refuted_kids : forall neq vc, let fl := {| f_varcount := vc; f_compmatch := false |} in
  eq_entity neq fl w_aa w_ab = true /\ eq_entity neq fl w_ab w_aa = false.
Proof. exact EqualsAsIs.sym_refuted_kids. Qed.
Print Assumptions C10_equals_sym_refuted_kids.

(** with that fix but without the variable count test, a child-order permutation of a model can be unequal to it *)
Theorem C10_equals_perm_refuted_now : forall neq, shuffled w_p1 w_p2 /\ eq_entity neq flags_now w_p1 w_p2 = false.
Proof. exact EqualsAsIs.perm_refuted_now. Qed.
Print Assumptions C10_equals_perm_refuted_now.

(** `_partial`: on any set D of components that is closed under child components, in which components the
    code reports equal hold equally many variables (needed while equalVariables has no count test) and sibling
    components are pairwise unequal (needed while ComponentEntity::doEquals asks containsComponent), the code as
    it is coincides with the repaired code ... *)
Theorem C10_asis_eq_fixed_partial : forall neq, neq_laws neq -> forall fl D,
  closed_dom D -> varcount_ok neq fl D -> kids_distinct neq fl D ->
  forall a b, in_dom neq fl D a -> in_dom neq fl D b -> eq_entity neq fl a b = eq_entity neq flags_fixed a b.
Proof. exact EqualsAsIs.asis_entity_eq_fixed. Qed.
Print Assumptions C10_asis_eq_fixed_partial.

(** ... and the hypothesis on the variable counts cannot be weakened *)
Theorem C10_varcount_ok_necessary : forall neq fl (D : component -> Prop), neq_laws neq ->
  (forall a b, D a -> D b -> eqc neq fl true a b = eqc neq flags_fixed true a b) -> varcount_ok neq fl D.
Proof. exact EqualsAsIs.varcount_ok_necessary. Qed.
Print Assumptions C10_varcount_ok_necessary.

Theorem C10_equals_sym_partial : forall neq, neq_laws neq -> forall fl D,
  closed_dom D -> varcount_ok neq fl D -> kids_distinct neq fl D ->
  forall a b, in_dom neq fl D a -> in_dom neq fl D b -> eq_entity neq fl a b = eq_entity neq fl b a.
Proof. exact EqualsAsIs.equals_sym_partial. Qed.
Print Assumptions C10_equals_sym_partial.

Theorem C10_equals_trans_partial : forall neq, neq_laws neq -> forall fl D,
  closed_dom D -> varcount_ok neq fl D -> kids_distinct neq fl D ->
  forall a b c, in_dom neq fl D a -> in_dom neq fl D b -> in_dom neq fl D c ->
    eq_entity neq fl a b = true -> eq_entity neq fl b c = true -> eq_entity neq fl a c = true.
Proof. exact EqualsAsIs.equals_trans_partial. Qed.
Print Assumptions C10_equals_trans_partial.

Theorem C10_equals_perm_invariant_partial : forall neq, neq_laws neq -> forall fl D,
  closed_dom D -> varcount_ok neq fl D -> kids_distinct neq fl D ->
  forall a a' b, in_dom neq fl D a -> in_dom neq fl D a' -> in_dom neq fl D b -> shuffled a a' ->
    eq_entity neq fl a a' = true /\ eq_entity neq fl a' a = true
    /\ eq_entity neq fl a' b = eq_entity neq fl a b /\ eq_entity neq fl b a' = eq_entity neq fl b a.
Proof. exact EqualsAsIs.equals_perm_invariant_partial. Qed.
Print Assumptions C10_equals_perm_invariant_partial.

Theorem C10_equals_detects_partial : forall neq, neq_laws neq -> forall fl D,
  closed_dom D -> varcount_ok neq fl D -> kids_distinct neq fl D ->
  forall mu e e', in_dom neq fl D e -> in_dom neq fl D e' ->
    apply_emut mu e = Some e' -> changes_emut neq mu e = true ->
    eq_entity neq fl e e' = false /\ eq_entity neq fl e' e = false.
Proof. exact EqualsMut.equals_detects_partial. Qed.
Print Assumptions C10_equals_detects_partial.

(** non-vacuity of the domain hypotheses for the code as it is now *)
Example C10_partial_nonvacuous :
  closed_dom one_var /\ (forall neq, varcount_ok neq flags_now one_var) /\ (forall neq, kids_distinct neq flags_now one_var)
  /\ let a := mkc "p" [mkv "v"] [mkc "k" [mkv "x"] []; mkc "l" [mkv "y"] []] in
     let b := mkc "p" [mkv "v"] [mkc "l" [mkv "y"] []; mkc "k" [mkv "x"] []] in
     one_var a /\ one_var b /\ a <> b
     /\ eq_entity Qeq_bool flags_now (EComponent a) (EComponent b) = true
     /\ eq_entity Qeq_bool flags_now (EComponent b) (EComponent a) = true.
Proof.
  exact (conj EqualsSummary.one_var_closed
        (conj (fun neq => EqualsSummary.one_var_varcount_ok neq flags_now)
        (conj EqualsSummary.one_var_kids_distinct EqualsSummary.partial_nonvacuous))).
Qed.
Print Assumptions C10_partial_nonvacuous.

(** ** The comparison of doubles *)

Theorem C10_Qeq_bool_laws : neq_laws Qeq_bool.
Proof. exact EqualsAsIs.Qeq_bool_laws. Qed.
Print Assumptions C10_Qeq_bool_laws.

(** on values that are equal or more than DBL_EPSILON apart the first test of areNearlyEqual is plain equality *)
Theorem C10_neq_abs_far : forall a b : Q,
  (a == b \/ (1 # 4503599627370496) < Qabs (a - b))%Q -> neq_abs a b = Qeq_bool a b.
Proof. exact EqualsAsIs.neq_abs_far. Qed.
Print Assumptions C10_neq_abs_far.

(** equals applies the comparison only to pairs of one value from each operand; so on trees whose exponents and
    multipliers are pairwise identical or more than DBL_EPSILON apart ([separated]) the model instance that runs
    against the code ([neq_abs]) IS the instance the theorems speak about ([Qeq_bool]), whatever the switches *)
Theorem C10_equals_separated : forall fl a b, separated (doubles_e a) (doubles_e b) ->
  eq_entity neq_abs fl a b = eq_entity Qeq_bool fl a b.
Proof. exact EqualsExt.equals_separated. Qed.
Print Assumptions C10_equals_separated.

(** below DBL_EPSILON it is not an equivalence, and changes of a multiplier are not seen (known finding C10-abs-epsilon) *)
Theorem C10_neq_abs_not_transitive :
  exists a b c, neq_abs a b = true /\ neq_abs b c = true /\ neq_abs a c = false.
Proof. exact EqualsAsIs.neq_abs_not_transitive. Qed.
Print Assumptions C10_neq_abs_not_transitive.

Theorem C10_equals_detects_refuted_epsilon :
  apply_emut (MutUnits (UDef 0 (DMult (1 # 1180591620717411303424)))) (w_u (1 # 1152921504606846976))
    = Some (w_u (1 # 1180591620717411303424))
  /\ changes_emut Qeq_bool (MutUnits (UDef 0 (DMult (1 # 1180591620717411303424)))) (w_u (1 # 1152921504606846976)) = true
  /\ eq_entity neq_abs flags_fixed (w_u (1 # 1152921504606846976)) (w_u (1 # 1180591620717411303424)) = true.
Proof. exact EqualsAsIs.detects_refuted_epsilon. Qed.
Print Assumptions C10_equals_detects_refuted_epsilon.

(** ** Full strength for ANY comparison of doubles (EqualsValuesProofs.v)

    No assumption on [neq] at all (the code's areNearlyEqual is not an equivalence: one-ulp and absolute-epsilon
    chains).  The premise is decidable and about the INPUTS: on the exponents / multipliers that occur in the
    entities compared, [neq] behaves as an equivalence — the values are identical or further apart than the
    tolerance, no chains ([equiv_on], checker [equiv_onb]). *)

Theorem C10_equiv_onb_sound : forall neq V, equiv_onb neq V = true -> equiv_on neq V.
Proof. exact EqualsValuesProofs.equiv_onb_sound. Qed.
Print Assumptions C10_equiv_onb_sound.

(** on entities whose values lie in such a V, equals with [neq] IS equals with a comparison that is an equivalence
    everywhere, whatever the switches: every theorem above that assumes [neq_laws] transfers *)
Theorem C10_equals_transfer : forall neq V, equiv_on neq V ->
  exists neq', neq_laws neq' /\
    forall fl a b, incl (doubles_e a) V -> incl (doubles_e b) V -> eq_entity neq fl a b = eq_entity neq' fl a b.
Proof. exact EqualsValuesProofs.equals_transfer. Qed.
Print Assumptions C10_equals_transfer.

(** equals is an equivalence relation on the whole value type, for any comparison of doubles, under the
    decidable premise that rules out the tolerance chains among the values of the entities involved *)
Theorem C10_equals_equivalence_on_values : forall neq a b c,
  equiv_on neq (doubles_e a ++ doubles_e b ++ doubles_e c) ->
  eq_entity neq flags_fixed a a = true
  /\ eq_entity neq flags_fixed a b = eq_entity neq flags_fixed b a
  /\ (eq_entity neq flags_fixed a b = true -> eq_entity neq flags_fixed b c = true -> eq_entity neq flags_fixed a c = true).
Proof. exact EqualsValuesProofs.equals_equivalence_on_values. Qed.
Print Assumptions C10_equals_equivalence_on_values.

Theorem C10_equals_perm_invariant_on_values : forall neq a a' b,
  equiv_on neq (doubles_e a ++ doubles_e a' ++ doubles_e b) -> shuffled a a' ->
  eq_entity neq flags_fixed a a' = true /\ eq_entity neq flags_fixed a' a = true
  /\ eq_entity neq flags_fixed a' b = eq_entity neq flags_fixed a b
  /\ eq_entity neq flags_fixed b a' = eq_entity neq flags_fixed b a.
Proof. exact EqualsValuesProofs.equals_perm_invariant_on_values. Qed.
Print Assumptions C10_equals_perm_invariant_on_values.

(** the premise cannot be dropped: 2^-53, 3*2^-53, 5*2^-53 under the code's absolute tolerance *)
Theorem C10_equivalence_on_values_refuted :
  exists a b c, equiv_onb neq_abs (doubles_e a ++ doubles_e b ++ doubles_e c) = false
    /\ eq_entity neq_abs flags_fixed a b = true /\ eq_entity neq_abs flags_fixed b c = true
    /\ eq_entity neq_abs flags_fixed a c = false.
Proof. exact EqualsValuesProofs.equivalence_on_values_refuted. Qed.
Print Assumptions C10_equivalence_on_values_refuted.

(** non-vacuity: the code's comparison (not an equivalence) on far-apart values satisfies the premise *)
Example C10_equivalence_on_values_nonvacuous :
  let a := w_u 1%Q in let b := w_u (1 # 2)%Q in let c := w_u 1000%Q in
  equiv_onb neq_abs (doubles_e a ++ doubles_e b ++ doubles_e c) = true
  /\ eq_entity neq_abs flags_fixed a a = true /\ eq_entity neq_abs flags_fixed a b = false.
Proof. exact EqualsValuesProofs.equivalence_on_values_nonvacuous. Qed.
Print Assumptions C10_equivalence_on_values_nonvacuous.

(** ** "Sees every attribute" for ANY comparison of doubles (EqualsDetectValuesProofs.v)

    No assumption on [neq].  Premise (decidable, [equiv_onb]): the exponents / multipliers of the entity, of the mutant
    and the value the mutation writes ([dbl_emut]) are chain-free.  Then a single mutation of any covered attribute /
    child at any path, whose written value differs as judged by [neq], makes equals false in both directions. *)
Theorem C10_equals_detects_on_values : forall neq mu e e',
  equiv_on neq (dbl_emut mu ++ doubles_e e ++ doubles_e e') ->
  apply_emut mu e = Some e' -> changes_emut neq mu e = true ->
  eq_entity neq flags_fixed e e' = false /\ eq_entity neq flags_fixed e' e = false.
Proof. exact EqualsDetectValuesProofs.equals_detects_on_values. Qed.
Print Assumptions C10_equals_detects_on_values.

(** the premise cannot be dropped (known finding C10-abs-epsilon) *)
Theorem C10_detects_on_values_refuted :
  let e := w_u (1 # 1152921504606846976)%Q in
  let mu := MutUnits (UDef 0 (DMult (1 # 1180591620717411303424)%Q)) in
  exists e', apply_emut mu e = Some e' /\ changes_emut Qeq_bool mu e = true
    /\ eq_entity neq_abs flags_fixed e e' = true.
Proof. exact EqualsDetectValuesProofs.detects_on_values_refuted. Qed.
Print Assumptions C10_detects_on_values_refuted.

(** non-vacuity with the code's comparison (not an equivalence): exponent 2 -> 3 of the units of a variable two levels down *)
Example C10_detects_on_values_nonvacuous :
  let u := {| u_name := "u"; u_id := ""; u_imp := None; u_impref := "";
              u_defs := [{| ud_ref := "metre"; ud_prefix := ""; ud_exp := 2; ud_mult := 1; ud_id := "" |}] |} in
  let v := {| v_name := "x"; v_id := ""; v_units := Some u; v_init := ""; v_iface := "" |} in
  let e := EComponent (mkc "a" [] [mkc "b" [v] []]) in
  let mu := MutComponent (CKid 0 (CVar 0 (VUnits (UDef 0 (DExp 3))))) in
  exists e', apply_emut mu e = Some e'
    /\ equiv_onb neq_abs (dbl_emut mu ++ doubles_e e ++ doubles_e e') = true
    /\ changes_emut neq_abs mu e = true
    /\ eq_entity neq_abs flags_fixed e e' = false /\ eq_entity neq_abs flags_fixed e' e = false.
Proof. exact EqualsDetectValuesProofs.detects_on_values_nonvacuous. Qed.
Print Assumptions C10_detects_on_values_nonvacuous.

(** ** Proof depth round 6 (EqualsRound6Proofs.v) *)

(** equal entities are indistinguishable by equals on either side: the equivalence classes are well defined *)
Theorem C10_equals_congruent : forall neq, neq_laws neq -> forall a b c,
  eq_entity neq flags_fixed a b = true ->
  eq_entity neq flags_fixed a c = eq_entity neq flags_fixed b c
  /\ eq_entity neq flags_fixed c a = eq_entity neq flags_fixed c b.
Proof. exact EqualsRound6Proofs.equals_congruent. Qed.
Print Assumptions C10_equals_congruent.

(** reflexivity of the code AS IT IS (any switches) for ANY comparison of doubles: [neq_laws] of
    C10_equals_refl_asis replaced by the decidable premise on the values of the one entity *)
Theorem C10_equals_refl_asis_on_values : forall neq fl a,
  equiv_on neq (doubles_e a) -> eq_entity neq fl a a = true.
Proof. exact EqualsRound6Proofs.equals_refl_asis_on_values. Qed.
Print Assumptions C10_equals_refl_asis_on_values.

(** the congruence for ANY comparison of doubles on chain-free values *)
Theorem C10_equals_congruent_on_values : forall neq a b c,
  equiv_on neq (doubles_e a ++ doubles_e b ++ doubles_e c) ->
  eq_entity neq flags_fixed a b = true ->
  eq_entity neq flags_fixed a c = eq_entity neq flags_fixed b c
  /\ eq_entity neq flags_fixed c a = eq_entity neq flags_fixed c b.
Proof. exact EqualsRound6Proofs.equals_congruent_on_values. Qed.
Print Assumptions C10_equals_congruent_on_values.
