(** AnalysisWfProofs.v — well-formedness of the analyser model's results (C05):
    indices are dense, every class appears exactly once. *)
From Coq Require Import List Bool Arith PeanoNat Lia.
From LC Require Import AnalysisDefs AnalysisSpec AnalysisProofs.
Import ListNotations.
Local Open Scope bool_scope.

(* ------------------------------------------------------------------------------------------ lists *)

Lemma list_eqb_refl : forall l, list_eqb l l = true.
Proof. induction l as [|x r IH]; cbn; [reflexivity|]. rewrite Nat.eqb_refl. exact IH. Qed.

Lemma forallb_filter : forall {A} (f : A -> bool) l, forallb f (filter f l) = true.
Proof. intros A f l. induction l as [|x r IH]; cbn; [reflexivity|]. destruct (f x) eqn:E; cbn; [rewrite E|]; exact IH. Qed.

Lemma forallb_filter_neg : forall {A} (f : A -> bool) l, forallb (fun x => negb (f x)) (filter (fun x => negb (f x)) l) = true.
Proof. intros. apply (forallb_filter (fun x => negb (f x))). Qed.

Lemma mem_nat_In : forall x l, mem_nat x l = true <-> In x l.
Proof.
  intros x l. unfold mem_nat. rewrite existsb_exists. split.
  - intros (y & Hy & E). apply Nat.eqb_eq in E. subst. exact Hy.
  - intro H. exists x. split; [exact H|apply Nat.eqb_refl].
Qed.

Lemma nodupb_NoDup : forall l, nodupb l = true <-> NoDup l.
Proof.
  induction l as [|x r IH]; cbn.
  - split; [constructor|reflexivity].
  - rewrite andb_true_iff, negb_true_iff, IH. split.
    + intros (H1 & H2). constructor; [|exact H2]. intro Hin. apply mem_nat_In in Hin. congruence.
    + intro H. inversion H; subst. split; [|assumption].
      destruct (mem_nat x r) eqn:E; [|reflexivity]. apply mem_nat_In in E. contradiction.
Qed.

Lemma upd_length : forall {A} (l : list A) i x, length (upd l i x) = length l.
Proof. intros A l. induction l as [|y r IH]; intros [|i] x; cbn; try reflexivity. rewrite IH. reflexivity. Qed.

Lemma nth_upd_same : forall {A} (l : list A) i x d, i < length l -> nth i (upd l i x) d = x.
Proof. intros A l. induction l as [|y r IH]; intros [|i] x d H; cbn in *; try lia; [reflexivity|]. apply IH. lia. Qed.

Lemma nth_upd_other : forall {A} (l : list A) i j x d, i <> j -> nth j (upd l i x) d = nth j l d.
Proof.
  intros A l. induction l as [|y r IH]; intros [|i] [|j] x d H; cbn; try reflexivity; try congruence.
  apply IH. congruence.
Qed.

Lemma upd_beyond : forall {A} (l : list A) i x, length l <= i -> upd l i x = l.
Proof. intros A l. induction l as [|y r IH]; intros [|i] x H; cbn in *; try reflexivity; try lia. rewrite IH; [reflexivity|lia]. Qed.

(* ------------------------------------------------------------------------------------------ W2: indices *)

Definition is_state_av (x : nat * avar) : bool := atype_eqb (av_type (snd x)) AState.

Lemma make_avars_indices : forall es ivs p si vi,
  map av_index (map snd (filter is_state_av (make_avars es ivs p si vi)))
    = seq si (length (filter is_state_av (make_avars es ivs p si vi))) /\
  map av_index (map snd (filter (fun x => negb (is_state_av x)) (make_avars es ivs p si vi)))
    = seq vi (length (filter (fun x => negb (is_state_av x)) (make_avars es ivs p si vi))).
Proof.
  intros es ivs. induction ivs as [|v r IH]; intros p si vi; cbn [make_avars].
  - cbn. split; reflexivity.
  - destruct (atype_of v) as [t|]; [|apply IH].
    destruct t; cbn [filter is_state_av snd av_type atype_eqb negb map length seq av_index];
      match goal with |- context [make_avars es r (S p) ?a ?b] => destruct (IH (S p) a b) as (H1 & H2) end;
      split; try (f_equal; assumption); assumption.
Qed.

Lemma wf_indices_package : forall s ty voi ivs es, wf_indices (package s ty voi ivs es) = true.
Proof.
  intros. unfold wf_indices, package. cbn [r_states r_vars].
  match goal with |- context [make_avars ?a ?b 0 0 0] => destruct (make_avars_indices a b 0 0 0) as (H1 & H2) end.
  unfold is_state_av in *. rewrite !map_length.
  rewrite H1, H2. rewrite !list_eqb_refl. cbn [andb].
  rewrite andb_true_iff. split; rewrite forallb_forall; intros a Ha;
    apply in_map_iff in Ha; destruct Ha as (x & <- & Hx); apply filter_In in Hx; apply Hx.
Qed.

Lemma wf_indices_finish : forall s voi ivs es vidx, wf_indices (finish s voi ivs es vidx) = true.
Proof.
  intros. unfold finish.
  destruct (validate_vars ivs vidx) as [[ivs1 vidx1] iss1].
  destruct iss1; [|reflexivity].
  match goal with |- context [fold_left requalify_step ?a ?b] => destruct (fold_left requalify_step a b) as [[[ivs2 es2] ov] iss2] end.
  destruct iss2; [|reflexivity].
  destruct (model_type voi ivs2 es2); try reflexivity; apply wf_indices_package.
Qed.

(* ------------------------------------------------------------------------------------------ building *)

Lemma find_index_Some : forall {A} (p : A -> bool) l i d,
  find_index p l = Some i -> i < length l /\ p (nth i l d) = true.
Proof.
  intros A p l. induction l as [|x r IH]; intros i d H; cbn in H; [discriminate|].
  destruct (p x) eqn:E.
  - inversion H; subst. cbn. split; [lia|exact E].
  - destruct (find_index p r) as [j|] eqn:F; [|discriminate]. cbn in H. inversion H; subst.
    destruct (IH j d eq_refl) as (H1 & H2). cbn. split; [lia|exact H2].
Qed.

Lemma find_index_None : forall {A} (p : A -> bool) l, find_index p l = None -> forall x, In x l -> p x = false.
Proof.
  intros A p l. induction l as [|y r IH]; intros H x Hx; cbn in *; [contradiction|].
  destruct (p y) eqn:E; [discriminate|].
  destruct (find_index p r) eqn:F; [discriminate|].
  destruct Hx as [<-|Hx]; [exact E|]. apply IH; [reflexivity|exact Hx].
Qed.

Lemma find_index_exists : forall {A} (p : A -> bool) l x, In x l -> p x = true -> exists i, find_index p l = Some i.
Proof.
  intros A p l x Hx Hp. destruct (find_index p l) as [i|] eqn:F; [eauto|].
  rewrite (find_index_None _ _ F x Hx) in Hp. discriminate.
Qed.

Lemma NoDup_snoc : forall {A} (l : list A) x, NoDup l -> ~ In x l -> NoDup (l ++ [x]).
Proof.
  intros A l x. induction l as [|y r IH]; intros Hn Hx; cbn.
  - constructor; [intros []|constructor].
  - inversion Hn; subst. constructor.
    + rewrite in_app_iff. intros [H|[H|[]]]; [contradiction|]. subst. apply Hx. left. reflexivity.
    + apply IH; [assumption|]. intro H. apply Hx. right. exact H.
Qed.

Definition iv_ok (s : system) (iv : ivar) : Prop :=
  in_range s (iv_var iv) = true /\ cls_of s (iv_var iv) = iv_cls iv /\
  (forall i, iv_initvar iv = Some i -> in_range s i = true /\ cls_of s i = iv_cls iv /\ has_init (get_var s i) = true).

Definition ivs_ok (s : system) (ivs : list ivar) : Prop := NoDup (map iv_cls ivs) /\ Forall (iv_ok s) ivs.

Lemma geti_In : forall ivs p, p < length ivs -> In (geti ivs p) ivs.
Proof. intros. unfold geti. apply nth_In. assumption. Qed.

Lemma ivs_ok_geti : forall s ivs p, ivs_ok s ivs -> p < length ivs -> iv_ok s (geti ivs p).
Proof. intros s ivs p (_ & H) Hp. rewrite Forall_forall in H. apply H. apply geti_In. exact Hp. Qed.

Lemma in_range_comp : forall s r, in_range s r = true -> fst r < length s /\ snd r < length (c_vars (get_comp s (fst r))).
Proof. intros s r H. unfold in_range in H. apply andb_true_iff in H. destruct H as (H1 & H2). apply Nat.ltb_lt in H1, H2. split; assumption. Qed.

Lemma in_range_intro : forall s c i, c < length s -> i < length (c_vars (get_comp s c)) -> in_range s (c, i) = true.
Proof. intros. unfold in_range. cbn. apply andb_true_iff. split; apply Nat.ltb_lt; assumption. Qed.

Lemma vars_nonempty_comp : forall s c i, i < length (c_vars (get_comp s c)) -> c < length s.
Proof.
  intros s c i H. destruct (Nat.lt_ge_cases c (length s)) as [L|L]; [exact L|].
  unfold get_comp in H. rewrite nth_overflow in H by exact L. cbn in H. lia.
Qed.

Lemma find_var_in_range : forall s c n i, find_var (get_comp s c) n = Some i -> in_range s (c, i) = true.
Proof.
  intros s c n i H. unfold find_var in H. destruct (find_index_Some _ _ _ dvar H) as (H1 & _).
  apply in_range_intro; [eapply vars_nonempty_comp; exact H1|exact H1].
Qed.

Lemma new_ivar_ok : forall s r, in_range s r = true -> iv_ok s (new_ivar s r) /\ iv_cls (new_ivar s r) = cls_of s r.
Proof.
  intros s r Hr. unfold new_ivar, iv_ok, cls_of. destruct (has_init (get_var s r)) eqn:E; cbn.
  - split; [|reflexivity]. split; [assumption|]. split; [reflexivity|].
    intros i Hi; inversion Hi; subst. repeat split; assumption.
  - split; [|reflexivity]. split; [assumption|]. split; [reflexivity|]. intros i Hi; discriminate.
Qed.

Lemma internal_variable_spec : forall s ivs r ivs' p,
  internal_variable s ivs r = (ivs', p) -> ivs_ok s ivs -> in_range s r = true ->
  ivs_ok s ivs' /\ p < length ivs' /\ iv_cls (geti ivs' p) = cls_of s r /\ (exists tl, ivs' = ivs ++ tl).
Proof.
  intros s ivs r ivs' p H (Hnd & Hok) Hr. unfold internal_variable in H.
  destruct (find_index (fun iv => iv_cls iv =? v_cls (get_var s r)) ivs) as [i|] eqn:F.
  - inversion H; subst. destruct (find_index_Some _ _ _ divar F) as (H1 & H2).
    apply Nat.eqb_eq in H2. repeat split; try assumption. exists []. rewrite app_nil_r. reflexivity.
  - inversion H; subst. destruct (new_ivar_ok s r Hr) as (Hn1 & Hn2).
    split; [split|].
    + rewrite map_app. cbn. apply NoDup_snoc; try assumption.
      intros Hin. apply in_map_iff in Hin. destruct Hin as (x & Hx1 & Hx2).
      pose proof (find_index_None _ _ F x Hx2) as Hf. cbn in Hf. apply Nat.eqb_neq in Hf.
      apply Hf. rewrite Hx1, Hn2. reflexivity.
    + apply Forall_app. split; [assumption|]. constructor; [assumption|constructor].
    + rewrite app_length. cbn. split; [lia|]. split; [|eauto].
      unfold geti. rewrite app_nth2 by lia. rewrite Nat.sub_diag. cbn. exact Hn2.
Qed.

(* a freshly built equation: its diffs are variables of the model, its lists hold positions of existing
   internal variables, it has no type and computes nothing yet *)
Definition eq_ok (s : system) (n : nat) (e : ieq) : Prop :=
  Forall (fun d => in_range s (fst d) = true /\ in_range s (snd d) = true) (ie_diffs e) /\
  Forall (fun p => p < n) (ie_vars e) /\ Forall (fun p => p < n) (ie_odes e) /\ Forall (fun p => p < n) (ie_all e) /\
  ie_unknown e = [] /\ ie_type e = EUnknown.
Definition extends (a b : list ivar) : Prop := exists tl, b = a ++ tl.

Lemma extends_refl : forall a, extends a a.
Proof. intro a. exists []. rewrite app_nil_r. reflexivity. Qed.
Lemma extends_trans : forall a b c, extends a b -> extends b c -> extends a c.
Proof. intros a b c (t1 & ->) (t2 & ->). exists (t1 ++ t2). rewrite app_assoc. reflexivity. Qed.
Lemma extends_length : forall a b, extends a b -> length a <= length b.
Proof. intros a b (tl & ->). rewrite app_length. lia. Qed.

Lemma Forall_lt_mono : forall n m l, n <= m -> Forall (fun p => p < n) l -> Forall (fun p => p < m) l.
Proof. intros n m l H F. eapply Forall_impl; [|exact F]. cbn. intros. lia. Qed.

Lemma eq_ok_mono : forall s n m e, n <= m -> eq_ok s n e -> eq_ok s m e.
Proof.
  intros s n m e H (A & B & C & D & E & F). unfold eq_ok.
  repeat (split; [first [assumption | eapply Forall_lt_mono; eassumption]|]). assumption.
Qed.

Lemma Forall_snoc : forall {A} (P : A -> Prop) l x, Forall P l -> P x -> Forall P (l ++ [x]).
Proof. intros. apply Forall_app. split; [assumption|]. constructor; [assumption|constructor]. Qed.

Lemma analyse_node_spec : forall s c e acc acc',
  analyse_node s c e acc = Some acc' -> ivs_ok s (fst acc) -> eq_ok s (length (fst acc)) (snd acc) ->
  ivs_ok s (fst acc') /\ eq_ok s (length (fst acc')) (snd acc') /\ extends (fst acc) (fst acc').
Proof.
  intros s c e. induction e as [n|t x| |a IHa b IHb]; intros [ivs q] acc' H Hok Hd; cbn [analyse_node fst snd] in *.
  - destruct (find_var (get_comp s c) n) as [i|] eqn:F; [|discriminate].
    destruct (internal_variable s ivs (c, i)) as [ivs1 p] eqn:I.
    destruct (internal_variable_spec _ _ _ _ _ I Hok (find_var_in_range _ _ _ _ F)) as (H1 & H2 & _ & H4).
    pose proof (eq_ok_mono _ _ _ _ (extends_length _ _ H4) Hd) as (D1 & D2 & D3 & D4 & D5 & D6).
    destruct (mem_nat p (ie_vars q)); inversion H; subst; cbn [fst snd]; (split; [exact H1|]); (split; [|exact H4]);
      unfold eq_ok; cbn; repeat (split; [first [assumption | apply Forall_snoc; assumption]|]); assumption.
  - destruct (find_var (get_comp s c) t) as [ti|] eqn:Ft; [|discriminate].
    destruct (find_var (get_comp s c) x) as [xi|] eqn:Fx; [|discriminate].
    destruct (internal_variable s ivs (c, xi)) as [ivs1 p] eqn:I.
    destruct (internal_variable_spec _ _ _ _ _ I Hok (find_var_in_range _ _ _ _ Fx)) as (H1 & H2 & _ & H4).
    pose proof (eq_ok_mono _ _ _ _ (extends_length _ _ H4) Hd) as (D1 & D2 & D3 & D4 & D5 & D6).
    assert (Hd' : Forall (fun d => in_range s (fst d) = true /\ in_range s (snd d) = true) (ie_diffs q ++ [((c, ti), (c, xi))])).
    { apply Forall_snoc; [exact D1|]. cbn. split; eapply find_var_in_range; eassumption. }
    destruct (mem_nat p (ie_odes q)); inversion H; subst; cbn [fst snd]; (split; [exact H1|]); (split; [|exact H4]);
      unfold eq_ok; cbn; repeat (split; [first [assumption | apply Forall_snoc; assumption]|]); assumption.
  - inversion H; subst. split; [assumption|]. split; [assumption|]. apply extends_refl.
  - destruct (analyse_node s c a (ivs, q)) as [acc1|] eqn:Ea; [|discriminate].
    destruct (IHa _ _ Ea Hok Hd) as (A1 & A2 & A3).
    destruct (IHb _ _ H A1 A2) as (B1 & B2 & B3).
    split; [assumption|]. split; [assumption|]. eapply extends_trans; eassumption.
Qed.

Lemma build_eq_spec : forall s c ivs q ivs' e,
  build_eq s c ivs q = Some (ivs', e) -> ivs_ok s ivs -> ivs_ok s ivs' /\ eq_ok s (length ivs') e /\ extends ivs ivs'.
Proof.
  intros s c ivs q ivs' e H Hok. unfold build_eq in H.
  match type of H with match analyse_node s c ?l (?i, ?q0) with _ => _ end = _ =>
    destruct (analyse_node s c l (i, q0)) as [acc|] eqn:E1; [|discriminate];
    destruct (analyse_node_spec _ _ _ _ _ E1 Hok) as (A1 & A2 & A3);
      [unfold eq_ok; cbn; repeat (split; [constructor|]); reflexivity|] end.
  destruct (analyse_node_spec _ _ _ _ _ H A1 A2) as (B1 & B2 & B3). cbn in *.
  split; [assumption|]. split; [assumption|]. eapply extends_trans; eassumption.
Qed.

Lemma build_eqs_spec : forall s c qs acc acc',
  build_eqs s c qs acc = Some acc' -> ivs_ok s (fst acc) -> Forall (eq_ok s (length (fst acc))) (snd acc) ->
  ivs_ok s (fst acc') /\ Forall (eq_ok s (length (fst acc'))) (snd acc') /\ extends (fst acc) (fst acc').
Proof.
  intros s c qs. induction qs as [|q r IH]; intros acc acc' H Hok Hd; cbn in H.
  - inversion H; subst. split; [assumption|]. split; [assumption|]. apply extends_refl.
  - destruct (build_eq s c (fst acc) q) as [[ivs1 e]|] eqn:E; [|discriminate].
    destruct (build_eq_spec _ _ _ _ _ _ E Hok) as (A1 & A2 & A3).
    destruct (IH _ _ H) as (B1 & B2 & B3); cbn; [assumption| |].
    + apply Forall_snoc; [|assumption]. eapply Forall_impl; [|exact Hd].
      intros x Hx. eapply eq_ok_mono; [|exact Hx]. apply extends_length. exact A3.
    + cbn in B3. split; [assumption|]. split; [assumption|]. eapply extends_trans; eassumption.
Qed.

Lemma extends_classes : forall a b k, extends a b -> In k (map iv_cls a) -> In k (map iv_cls b).
Proof. intros a b k (tl & ->) H. rewrite map_app, in_app_iff. left. exact H. Qed.

Lemma ivs_ok_upd : forall s ivs p iv,
  ivs_ok s ivs -> iv_cls iv = iv_cls (geti ivs p) -> iv_ok s iv -> ivs_ok s (upd ivs p iv).
Proof.
  intros s ivs p iv (Hnd & Hok) Hc Hi.
  destruct (Nat.lt_ge_cases p (length ivs)) as [L|L]; [|rewrite upd_beyond by exact L; split; assumption].
  assert (Hm : map iv_cls (upd ivs p iv) = map iv_cls ivs).
  { apply nth_ext with (d := 0) (d' := 0); [rewrite !map_length, upd_length; reflexivity|].
    intros n Hn. rewrite map_length, upd_length in Hn.
    rewrite (nth_indep _ 0 (iv_cls divar)) by (rewrite map_length, upd_length; exact Hn).
    rewrite (nth_indep (map iv_cls ivs) 0 (iv_cls divar)) by (rewrite map_length; exact Hn).
    rewrite !map_nth. destruct (Nat.eq_dec p n) as [->|Hne].
    - rewrite nth_upd_same by exact Hn. exact Hc.
    - rewrite nth_upd_other by exact Hne. reflexivity. }
  split; [rewrite Hm; exact Hnd|].
  rewrite Forall_forall in *. intros x Hx. apply In_nth with (d := divar) in Hx. destruct Hx as (n & Hn & <-).
  rewrite upd_length in Hn. destruct (Nat.eq_dec p n) as [->|Hne].
  - rewrite nth_upd_same by exact Hn. exact Hi.
  - rewrite nth_upd_other by exact Hne. apply Hok. apply nth_In. exact Hn.
Qed.

Lemma upd_classes : forall ivs p iv, iv_cls iv = iv_cls (geti ivs p) -> map iv_cls (upd ivs p iv) = map iv_cls ivs.
Proof.
  intros ivs p iv Hc.
  destruct (Nat.lt_ge_cases p (length ivs)) as [L|L]; [|rewrite upd_beyond by exact L; reflexivity].
  apply nth_ext with (d := 0) (d' := 0); [rewrite !map_length, upd_length; reflexivity|].
  intros n Hn. rewrite map_length, upd_length in Hn.
  rewrite (nth_indep _ 0 (iv_cls divar)) by (rewrite map_length, upd_length; exact Hn).
  rewrite (nth_indep (map iv_cls ivs) 0 (iv_cls divar)) by (rewrite map_length; exact Hn).
  rewrite !map_nth. destruct (Nat.eq_dec p n) as [->|Hne].
  - rewrite nth_upd_same by exact Hn. exact Hc.
  - rewrite nth_upd_other by exact Hne. reflexivity.
Qed.

Lemma track_inits_spec : forall s c n i ivs,
  ivs_ok s ivs -> (forall j, i <= j < i + n -> in_range s (c, j) = true) ->
  ivs_ok s (track_inits s c i n ivs) /\
  (forall k, In k (map iv_cls ivs) -> In k (map iv_cls (track_inits s c i n ivs))) /\
  (forall j, i <= j < i + n -> In (cls_of s (c, j)) (map iv_cls (track_inits s c i n ivs))) /\
  length ivs <= length (track_inits s c i n ivs).
Proof.
  intros s c n. induction n as [|m IH]; intros i ivs Hok Hr; cbn [track_inits].
  - split; [assumption|]. split; [auto|]. split; [intros j Hj; lia|lia].
  - destruct (internal_variable s ivs (c, i)) as [ivs1 p] eqn:I.
    assert (Hri : in_range s (c, i) = true) by (apply Hr; lia).
    destruct (internal_variable_spec _ _ _ _ _ I Hok Hri) as (A1 & A2 & A3 & A4).
    set (ivs2 := if has_init (get_var s (c, i)) && negb (has_init (get_var s (iv_var (geti ivs1 p))))
                 then upd ivs1 p (mkIvar (iv_cls (geti ivs1 p)) VInitialised (iv_index (geti ivs1 p)) (iv_external (geti ivs1 p)) (Some (c, i)) (c, i) (iv_deps (geti ivs1 p)))
                 else ivs1).
    assert (Hok2 : ivs_ok s ivs2 /\ map iv_cls ivs2 = map iv_cls ivs1 /\ length ivs2 = length ivs1).
    { unfold ivs2. destruct (has_init (get_var s (c, i)) && negb (has_init (get_var s (iv_var (geti ivs1 p))))) eqn:E.
      - apply andb_true_iff in E. destruct E as (E1 & _). split; [|split].
        + apply ivs_ok_upd; [assumption|reflexivity|]. unfold iv_ok. cbn. split; [assumption|]. split; [symmetry; exact A3|].
          intros r Hrr. inversion Hrr; subst. repeat split; try assumption. symmetry. exact A3.
        + apply upd_classes. reflexivity.
        + apply upd_length.
      - split; [assumption|]. split; reflexivity. }
    destruct Hok2 as (B1 & B2 & B3).
    destruct (IH (S i) ivs2 B1) as (C1 & C2 & C3 & C4); [intros j Hj; apply Hr; lia|].
    assert (Hcl : In (cls_of s (c, i)) (map iv_cls ivs1)).
    { rewrite <- A3. apply in_map. apply geti_In. exact A2. }
    split; [|split; [|split]].
    + exact C1.
    + intros k Hk. apply C2. rewrite B2. eapply extends_classes; eassumption.
    + intros j Hj. destruct (Nat.eq_dec j i) as [->|Hne].
      * apply C2. rewrite B2. exact Hcl.
      * apply C3. lia.
    + destruct A4 as (tl & ->). rewrite app_length in B3. lia.
Qed.

Lemma skipn_cons_inv : forall {A} (l : list A) c k r d,
  skipn c l = k :: r -> nth c l d = k /\ skipn (S c) l = r /\ c < length l.
Proof.
  intros A l. induction l as [|x t IH]; intros c k r d H.
  - destruct c; discriminate.
  - destruct c as [|c]; cbn in *.
    + inversion H; subst. repeat split. lia.
    + destruct (IH c k r d H) as (H1 & H2 & H3). repeat split; try assumption. lia.
Qed.

Definition covers_upto (s : system) (c1 : nat) (ivs : list ivar) : Prop :=
  forall r, in_range s r = true -> fst r < c1 -> In (cls_of s r) (map iv_cls ivs).

Lemma build_comps_spec : forall s cs c acc acc',
  build_comps s c cs acc = Some acc' -> cs = skipn c s ->
  ivs_ok s (fst acc) -> Forall (eq_ok s (length (fst acc))) (snd acc) -> covers_upto s c (fst acc) ->
  ivs_ok s (fst acc') /\ Forall (eq_ok s (length (fst acc'))) (snd acc') /\ covers_upto s (length s) (fst acc').
Proof.
  intros s cs. induction cs as [|k r IH]; intros c acc acc' H Hs Hok Hd Hc; cbn in H.
  - inversion H; subst. split; [assumption|]. split; [assumption|].
    intros x Hx Hl. apply Hc; [assumption|].
    destruct (Nat.lt_ge_cases c (length s)) as [L|L]; [|lia].
    exfalso. symmetry in Hs. pose proof (f_equal (@length _) Hs) as Hlen. rewrite skipn_length in Hlen. cbn in Hlen. lia.
  - symmetry in Hs. destruct (skipn_cons_inv _ _ _ _ dcomp Hs) as (S1 & S2 & S3).
    destruct (build_eqs s c (c_eqs k) acc) as [[ivs1 es1]|] eqn:E; [|discriminate].
    destruct (build_eqs_spec _ _ _ _ _ E Hok Hd) as (A1 & A2 & A3). cbn [fst snd] in *.
    assert (Hk : get_comp s c = k) by exact S1.
    destruct (track_inits_spec s c (length (c_vars k)) 0 ivs1 A1) as (B1 & B2 & B3 & B4).
    { intros j Hj. apply in_range_intro; [exact S3|]. rewrite Hk. lia. }
    apply (IH (S c) _ _ H); cbn [fst snd]; try assumption; [symmetry; exact S2| |].
    { eapply Forall_impl; [|exact A2]. intros x Hx. eapply eq_ok_mono; [|exact Hx]. exact B4. }
    intros x Hx Hl. destruct (Nat.eq_dec (fst x) c) as [Ec|Ec].
    + destruct x as [xc xi]. cbn in Ec. subst xc. apply B3.
      apply in_range_comp in Hx. cbn in Hx. rewrite Hk in Hx. lia.
    + apply B2. eapply extends_classes; [exact A3|]. apply Hc; [assumption|lia].
Qed.

Lemma build_spec : forall s ivs es, build s = Some (ivs, es) ->
  ivs_ok s ivs /\ Forall (eq_ok s (length ivs)) es /\ covers_upto s (length s) ivs.
Proof.
  intros s ivs es H. unfold build in H.
  apply (build_comps_spec _ _ _ _ _ H); cbn.
  - reflexivity.
  - split; constructor.
  - constructor.
  - intros r _ Hl. lia.
Qed.

(* the internal variable of a covered variable exists already *)
Lemma ivar_of_spec : forall s ivs r, ivs_ok s ivs -> In (cls_of s r) (map iv_cls ivs) ->
  ivar_of s ivs r < length ivs /\ iv_cls (geti ivs (ivar_of s ivs r)) = cls_of s r.
Proof.
  intros s ivs r Hok Hin. unfold ivar_of, internal_variable.
  apply in_map_iff in Hin. destruct Hin as (x & Hx1 & Hx2).
  destruct (find_index_exists (fun iv => iv_cls iv =? v_cls (get_var s r)) ivs x Hx2) as (i & Hi).
  { apply Nat.eqb_eq. exact Hx1. }
  rewrite Hi. cbn. destruct (find_index_Some _ _ _ divar Hi) as (H1 & H2). apply Nat.eqb_eq in H2. split; assumption.
Qed.

(* ------------------------------------------------------------------------------------------ evolution of the internal variables *)

Definition idx_type (t : vtype) : bool :=
  match t with VState | VCompTrue | VCompVarBased | VInitAlgebraic | VAlgebraic | VOverconstrained => true | _ => false end.

(* what every step of the analysis up to the validation of the variables respects about a variable's type *)
Definition tok (t t' : vtype) : Prop :=
  (t' = VVoi -> t = VVoi) /\ (t = VVoi -> t' = VVoi \/ t' = VOverconstrained) /\
  (idx_type t = true -> idx_type t' = true) /\ (t = VOverconstrained -> t' = VOverconstrained).

Definition step_ok (s : system) (x y : ivar) : Prop :=
  iv_cls y = iv_cls x /\ iv_external y = iv_external x /\ iv_initvar y = iv_initvar x /\
  (iv_var y = iv_var x \/ (in_range s (iv_var y) = true /\ cls_of s (iv_var y) = iv_cls x)) /\
  tok (iv_type x) (iv_type y).

Definition evolves (s : system) (a b : list ivar) : Prop :=
  length b = length a /\ forall p, p < length a -> step_ok s (geti a p) (geti b p).

Lemma tok_refl : forall t, tok t t.
Proof. intro t. unfold tok. repeat split; auto. Qed.

Lemma tok_trans : forall a b c, tok a b -> tok b c -> tok a c.
Proof.
  intros a b c (A1 & A2 & A3 & A4) (B1 & B2 & B3 & B4). unfold tok. repeat split.
  - intro H. auto.
  - intro H. destruct (A2 H) as [E|E].
    + apply B2. exact E.
    + right. apply B4. exact E.
  - auto.
  - auto.
Qed.

Lemma step_ok_refl : forall s x, step_ok s x x.
Proof. intros. unfold step_ok. repeat split; auto; apply tok_refl. Qed.

Lemma step_ok_trans : forall s x y z, step_ok s x y -> step_ok s y z -> step_ok s x z.
Proof.
  intros s x y z (A1 & A2 & A3 & A4 & A5) (B1 & B2 & B3 & B4 & B5). unfold step_ok.
  split; [congruence|]. split; [congruence|]. split; [congruence|]. split; [|eapply tok_trans; eassumption].
  destruct B4 as [B4|(B4 & B4')].
  - rewrite B4. exact A4.
  - right. split; [exact B4|]. congruence.
Qed.

Lemma evolves_refl : forall s a, evolves s a a.
Proof. intros. split; [reflexivity|]. intros. apply step_ok_refl. Qed.

Lemma evolves_trans : forall s a b c, evolves s a b -> evolves s b c -> evolves s a c.
Proof.
  intros s a b c (L1 & H1) (L2 & H2). split; [congruence|].
  intros p Hp. eapply step_ok_trans; [apply H1; exact Hp|apply H2; congruence].
Qed.

Lemma evolves_upd : forall s a p y, step_ok s (geti a p) y -> evolves s a (upd a p y).
Proof.
  intros s a p y H. split; [apply upd_length|].
  intros q Hq. unfold geti in *. destruct (Nat.eq_dec p q) as [->|Hne].
  - rewrite nth_upd_same by exact Hq. exact H.
  - rewrite nth_upd_other by exact Hne. apply step_ok_refl.
Qed.

Lemma fold_evolves : forall s (f : list ivar -> nat -> list ivar),
  (forall l i, evolves s l (f l i)) -> forall xs l, evolves s l (fold_left f xs l).
Proof.
  intros s f Hf xs. induction xs as [|x r IH]; intro l; cbn; [apply evolves_refl|].
  eapply evolves_trans; [apply Hf|apply IH].
Qed.

Lemma evolves_classes : forall s a b, evolves s a b -> map iv_cls b = map iv_cls a.
Proof.
  intros s a b (L & H). apply nth_ext with (d := iv_cls divar) (d' := iv_cls divar); [rewrite !map_length; exact L|].
  intros n Hn. rewrite map_length in Hn. rewrite !map_nth. apply H. congruence.
Qed.

Lemma evolves_ivs_ok : forall s a b, ivs_ok s a -> evolves s a b -> ivs_ok s b.
Proof.
  intros s a b Hok Hev. pose proof (evolves_classes _ _ _ Hev) as Hc. destruct Hev as (L & H).
  split; [rewrite Hc; apply Hok|].
  rewrite Forall_forall. intros x Hx. apply In_nth with (d := divar) in Hx. destruct Hx as (n & Hn & <-).
  rewrite L in Hn. destruct (H n Hn) as (S1 & S2 & S3 & S4 & S5).
  pose proof (ivs_ok_geti _ _ _ Hok Hn) as (K1 & K2 & K3). unfold geti in *.
  unfold iv_ok. rewrite S1, S3. split; [|split].
  - destruct S4 as [->|(S4 & _)]; assumption.
  - destruct S4 as [->|(_ & S4)]; assumption.
  - exact K3.
Qed.

Lemma idx_type_in_bounds : forall ivs p, idx_type (iv_type (geti ivs p)) = true -> p < length ivs.
Proof.
  intros ivs p H. destruct (Nat.lt_ge_cases p (length ivs)) as [L|L]; [exact L|].
  unfold geti in H. rewrite nth_overflow in H by exact L. discriminate.
Qed.

(* ------------------------------------------------------------------------------------------ check() and the invariants *)

Lemma first_member_spec : forall s c k r, first_member s c k = Some r -> in_range s r = true /\ cls_of s r = k.
Proof.
  intros s c k r H. unfold first_member in H.
  destruct (find_index (fun v => v_cls v =? k) (c_vars (get_comp s c))) as [i|] eqn:F; [|discriminate].
  cbn in H. inversion H; subst. destruct (find_index_Some _ _ _ dvar F) as (H1 & H2). apply Nat.eqb_eq in H2.
  split; [|exact H2]. apply in_range_intro; [eapply vars_nonempty_comp; exact H1|exact H1].
Qed.

Lemma set_type_step : forall s v t, tok (iv_type v) t -> step_ok s v (set_type v t).
Proof. intros. unfold step_ok, set_type. cbn. repeat split; auto; apply H. Qed.

Lemma set_index_step : forall s v i, step_ok s v (set_index v i).
Proof. intros. unfold step_ok, set_index. cbn. repeat split; auto; apply tok_refl. Qed.

Lemma retarget_step : forall s comp tc vc v, step_ok s v (retarget s comp tc vc v).
Proof.
  intros. unfold retarget.
  assert (H1 : step_ok s v (match first_member s comp (iv_cls v) with Some r => set_var v r | None => v end)).
  { destruct (first_member s comp (iv_cls v)) as [r|] eqn:F; [|apply step_ok_refl].
    destruct (first_member_spec _ _ _ _ F) as (R1 & R2).
    unfold step_ok, set_var. cbn. repeat split; auto; try apply tok_refl. }
  set (v1 := match first_member s comp (iv_cls v) with Some r => set_var v r | None => v end) in *.
  destruct (vtype_eqb (iv_type v1) VUnknown) eqn:E; [|exact H1].
  eapply step_ok_trans; [exact H1|]. apply set_type_step. apply vtype_eqb_eq in E. rewrite E.
  unfold tok. destruct tc; [|destruct vc]; repeat split; intros; try discriminate; auto.
Qed.

Lemma evolves_geti : forall s a b p, evolves s a b -> p < length a -> step_ok s (geti a p) (geti b p).
Proof. intros s a b p (_ & H) Hp. apply H. exact Hp. Qed.

Lemma evolves_idx : forall s a b p, evolves s a b -> idx_type (iv_type (geti a p)) = true -> idx_type (iv_type (geti b p)) = true.
Proof.
  intros s a b p Hev H. pose proof (idx_type_in_bounds _ _ H) as Hp.
  destruct (evolves_geti _ _ _ _ Hev Hp) as (_ & _ & _ & _ & (_ & _ & T3 & _)). auto.
Qed.

Lemma geti_upd_same : forall ivs p x, p < length ivs -> geti (upd ivs p x) p = x.
Proof. intros. unfold geti. apply nth_upd_same. assumption. Qed.

Lemma type_variables_spec : forall s comp tc vc ps st unk st' unk' ok,
  type_variables s comp tc vc st unk ps = (st', unk', ok) ->
  Forall (fun q => q < length (cs_ivs st)) ps ->
  evolves s (cs_ivs st) (cs_ivs st') /\
  (forall q, In q unk' -> In q unk \/ idx_type (iv_type (geti (cs_ivs st') q)) = true) /\
  (forall q, In q unk -> In q unk') /\
  (ok = true -> forall q, In q ps -> In q unk').
Proof.
  intros s comp tc vc ps. induction ps as [|p r IH]; intros st unk st' unk' ok H Hb; cbn [type_variables] in H.
  - inversion H; subst. split; [apply evolves_refl|]. split; [auto|]. split; [auto|]. intros _ q [].
  - inversion Hb as [|? ? Hp Hr]; subst.
    set (v2 := retarget s comp tc vc (geti (cs_ivs st) p)) in *.
    assert (Hv2 : step_ok s (geti (cs_ivs st) p) v2) by apply retarget_step.
    assert (Hcase : forall ivs1 sidx1 vidx1,
               ivs1 = upd (cs_ivs st) p (set_index v2 (Some (if vtype_eqb (iv_type v2) VState then cs_sidx st else cs_vidx st))) ->
               idx_type (iv_type v2) = true ->
               type_variables s comp tc vc (mkCs ivs1 sidx1 vidx1) (unk ++ [p]) r = (st', unk', ok) ->
               evolves s (cs_ivs st) (cs_ivs st') /\
               (forall q, In q unk' -> In q unk \/ idx_type (iv_type (geti (cs_ivs st') q)) = true) /\
               (forall q, In q unk -> In q unk') /\
               (ok = true -> forall q, In q (p :: r) -> In q unk')).
    { intros ivs1 sidx1 vidx1 E1 Hidx H1.
      assert (Hev1 : evolves s (cs_ivs st) ivs1).
      { subst ivs1. apply evolves_upd. eapply step_ok_trans; [exact Hv2|apply set_index_step]. }
      destruct (IH _ _ _ _ _ H1) as (A1 & A2 & A3 & A4).
      { cbn. destruct Hev1 as (L & _). rewrite L. exact Hr. }
      cbn [cs_ivs] in *.
      split; [eapply evolves_trans; eassumption|]. split; [|split].
      - intros q Hq. destruct (A2 q Hq) as [Hin|Hi]; [|right; exact Hi].
        apply in_app_iff in Hin. destruct Hin as [Hin|[<-|[]]]; [left; exact Hin|]. right.
        eapply evolves_idx; [exact A1|]. subst ivs1. rewrite geti_upd_same by exact Hp. exact Hidx.
      - intros q Hq. apply A3. apply in_app_iff. left. exact Hq.
      - intros Hok q [<-|Hq]; [apply A3; apply in_app_iff; right; left; reflexivity|apply A4; assumption]. }
    destruct (iv_type v2) eqn:Et;
      try (inversion H; subst; cbn [cs_ivs]; split; [apply evolves_upd; exact Hv2|]; split; [auto|]; split; [auto|]; discriminate).
    all: eapply Hcase; [| reflexivity | exact H]; cbn [vtype_eqb]; reflexivity.
Qed.

Definition eq_inv (ivs : list ivar) (e : ieq) : Prop :=
  Forall (fun p => p < length ivs) (ie_vars e) /\ Forall (fun p => p < length ivs) (ie_odes e) /\
  Forall (fun p => p < length ivs) (ie_all e) /\
  Forall (fun p => idx_type (iv_type (geti ivs p)) = true) (ie_unknown e) /\
  (ie_type e <> EUnknown -> ie_unknown e <> []).

Lemma eq_inv_evolves : forall s a b e, evolves s a b -> eq_inv a e -> eq_inv b e.
Proof.
  intros s a b e Hev (A & B & C & D & E). pose proof Hev as (L & _). unfold eq_inv. rewrite L.
  repeat (split; [assumption|]). split; [|assumption].
  eapply Forall_impl; [|exact D]. intros p Hp. eapply evolves_idx; eassumption.
Qed.

Lemma Forall_filter : forall {A} (P : A -> Prop) f l, Forall P l -> Forall P (filter f l).
Proof. intros A P f l H. rewrite Forall_forall in *. intros x Hx. apply filter_In in Hx. apply H. apply Hx. Qed.

Lemma init_fold_evolves : forall s xs ivs,
  evolves s ivs (fold_left (fun l i => if is_initialised_kind (iv_type (geti l i)) then upd l i (set_type (geti l i) VInitAlgebraic) else l) xs ivs).
Proof.
  intros s. apply fold_evolves. intros l i.
  destruct (is_initialised_kind (iv_type (geti l i))) eqn:E; [|apply evolves_refl].
  apply evolves_upd. apply set_type_step. unfold tok.
  destruct (iv_type (geti l i)); cbn in E; try discriminate; repeat split; intros; try discriminate; auto.
Qed.

Lemma over_fold_evolves : forall s xs ivs,
  evolves s ivs (fold_left (fun l i => upd l i (set_type (geti l i) VOverconstrained)) xs ivs).
Proof.
  intros s. apply fold_evolves. intros l i. apply evolves_upd. apply set_type_step. unfold tok.
  repeat split; intros; try discriminate; auto.
Qed.

Lemma check_inv : forall s nla st e st' e' b,
  check s nla st e = (st', e', b) -> eq_inv (cs_ivs st) e ->
  evolves s (cs_ivs st) (cs_ivs st') /\ eq_inv (cs_ivs st') e'.
Proof.
  intros s nla st e st' e' b H Hinv. unfold check in H.
  destruct (etype_eqb (ie_type e) EUnknown) eqn:Ht; cbn [negb] in H.
  2:{ inversion H; subst. split; [apply evolves_refl|exact Hinv]. }
  cbv zeta in H. destruct Hinv as (I1 & I2 & I3 & I4 & I5).
  set (ivs := cs_ivs st) in *.
  set (vars := filter (fun i => negb (is_known ivs i)) (ie_vars e)) in *.
  set (odes := filter (fun i => negb (is_known_ode ivs i)) (ie_odes e)) in *.
  set (do_nla := nla && (length vars + length odes =? 0)) in *.
  set (inits := if do_nla then filter (fun i => is_initialised_kind (iv_type (geti ivs i))) (ie_all e) else []) in *.
  set (ivs1 := if do_nla
               then fold_left (fun l i => if is_initialised_kind (iv_type (geti l i)) then upd l i (set_type (geti l i) VInitAlgebraic) else l) (ie_all e) ivs
               else ivs) in *.
  assert (Hev1 : evolves s ivs ivs1).
  { unfold ivs1. destruct do_nla; [apply init_fold_evolves|apply evolves_refl]. }
  assert (Hvars : Forall (fun p => p < length ivs) vars) by (apply Forall_filter; exact I1).
  assert (Hodes : Forall (fun p => p < length ivs) odes) by (apply Forall_filter; exact I2).
  assert (Hinits : Forall (fun p => p < length ivs) inits).
  { unfold inits. destruct do_nla; [apply Forall_filter; exact I3|constructor]. }
  (* the equation with its bookkeeping updated, still without a type *)
  assert (Hmk : forall ivsx dps unk tcx vcx ty,
             evolves s ivs ivsx ->
             Forall (fun p => idx_type (iv_type (geti ivsx p)) = true) unk ->
             (ty <> EUnknown -> unk <> []) ->
             eq_inv ivsx (mkIeq (ie_id e) (ie_comp e) ty (ie_lhs e) (ie_rhs e) (ie_diffs e) dps vars odes (ie_all e) unk
                                (ie_nla e) (ie_sibs e) tcx vcx)).
  { intros ivsx dps unk tcx vcx ty Hev Hu Hty. pose proof Hev as (L & _). unfold eq_inv. cbn. rewrite L.
    repeat (split; [assumption|]). assumption. }
  assert (Hunk0 : forall ivsx, evolves s ivs ivsx -> Forall (fun p => idx_type (iv_type (geti ivsx p)) = true) (ie_unknown e)).
  { intros ivsx Hev. eapply Forall_impl; [|exact I4]. intros p Hp. eapply evolves_idx; eassumption. }
  match type of H with (if ?c then _ else _) = _ => destruct c eqn:C1 end.
  { inversion H; subst. cbn [cs_ivs].
    assert (Hev2 : evolves s ivs (fold_left (fun l i => upd l i (set_type (geti l i) VOverconstrained)) (ie_all e) ivs1)).
    { eapply evolves_trans; [exact Hev1|apply over_fold_evolves]. }
    split; [exact Hev2|]. apply Hmk; [exact Hev2|apply Hunk0; exact Hev2|intro K; contradiction]. }
  match type of H with (if ?c then _ else _) = _ => destruct c eqn:C2 end.
  { inversion H; subst. cbn [cs_ivs]. split; [exact Hev1|].
    apply Hmk; [exact Hev1|apply Hunk0; exact Hev1|intro K; contradiction]. }
  match type of H with context [type_variables ?a ?b ?c ?d ?e0 ?f ?g] =>
    destruct (type_variables a b c d e0 f g) as [[st2 unk] ok] eqn:TV end.
  apply type_variables_spec in TV.
  2:{ cbn [cs_ivs]. destruct Hev1 as (L & _). rewrite L.
      destruct vars; [destruct odes; [exact Hinits|exact Hodes]|exact Hvars]. }
  cbn [cs_ivs] in TV. destruct TV as (T1 & T2 & T3 & T4).
  assert (Hev2 : evolves s ivs (cs_ivs st2)) by (eapply evolves_trans; eassumption).
  assert (Hunk : Forall (fun p => idx_type (iv_type (geti (cs_ivs st2) p)) = true) unk).
  { rewrite Forall_forall. intros q Hq. destruct (T2 q Hq) as [Hin|Hi]; [|exact Hi].
    rewrite Forall_forall in I4. eapply evolves_idx; [exact Hev2|]. apply I4. exact Hin. }
  destruct ok; cbn [negb] in H.
  2:{ inversion H; subst. split; [exact Hev2|]. apply Hmk; [exact Hev2|exact Hunk|intro K; contradiction]. }
  inversion H; subst. split; [exact Hev2|]. apply Hmk; [exact Hev2|exact Hunk|].
  intros _ Hnil.
  (* the list of variables that were typed is not empty *)
  apply negb_false_iff in C2. apply orb_true_iff in C2.
  assert (Hne : exists q, In q (match vars with [] => match odes with [] => inits | _ :: _ => odes end | _ :: _ => vars end)).
  { destruct C2 as [C2|C2].
    - destruct (length vars + length odes =? 1) eqn:L1; [|discriminate].
      apply Nat.eqb_eq in L1. destruct vars as [|v0 vr]; [|exists v0; left; reflexivity].
      destruct odes as [|o0 or]; [cbn in L1; lia|exists o0; left; reflexivity].
    - destruct vars as [|v0 vr]; [|exists v0; left; reflexivity].
      destruct odes as [|o0 or]; [|exists o0; left; reflexivity].
      destruct inits as [|i0 ir]; [discriminate|exists i0; left; reflexivity]. }
  destruct Hne as (q & Hq). specialize (T4 eq_refl q Hq). rewrite Hnil in T4. destruct T4.
Qed.

Lemma sweep_inv : forall s nla es st st' es' b,
  sweep s nla st es = (st', es', b) -> Forall (eq_inv (cs_ivs st)) es ->
  evolves s (cs_ivs st) (cs_ivs st') /\ Forall (eq_inv (cs_ivs st')) es'.
Proof.
  intros s nla es. induction es as [|e r IH]; intros st st' es' b H Hinv; cbn in H.
  - inversion H; subst. split; [apply evolves_refl|constructor].
  - destruct (check s nla st e) as [[st1 e1] b1] eqn:Hc.
    destruct (sweep s nla st1 r) as [[st2 r1] b2] eqn:Hs.
    inversion H; subst. clear H. inversion Hinv as [|? ? He Hr]; subst.
    destruct (check_inv _ _ _ _ _ _ _ Hc He) as (A1 & A2).
    destruct (IH _ _ _ _ Hs) as (B1 & B2).
    { eapply Forall_impl; [|exact Hr]. intros x Hx. eapply eq_inv_evolves; eassumption. }
    split; [eapply evolves_trans; eassumption|]. constructor; [|exact B2]. eapply eq_inv_evolves; eassumption.
Qed.

Lemma geti_map : forall (f : ivar -> ivar) ivs p, p < length ivs -> geti (map f ivs) p = f (geti ivs p).
Proof.
  intros f ivs p Hp. unfold geti. rewrite (nth_indep _ divar (f divar)) by (rewrite map_length; exact Hp).
  apply map_nth.
Qed.

Lemma map_evolves : forall s (f : ivar -> ivar) ivs, (forall v, step_ok s v (f v)) -> evolves s ivs (map f ivs).
Proof. intros s f ivs Hf. split; [apply map_length|]. intros p Hp. rewrite geti_map by exact Hp. apply Hf. Qed.

Lemma loop_inv : forall s fuel loopn nla st es st' es',
  loop s fuel loopn nla st es = Some (st', es') -> Forall (eq_inv (cs_ivs st)) es ->
  evolves s (cs_ivs st) (cs_ivs st') /\ Forall (eq_inv (cs_ivs st')) es'.
Proof.
  intros s fuel. induction fuel as [|f IH]; intros loopn nla st es st' es' H Hinv; [discriminate|].
  cbn [loop] in H. destruct (sweep s nla st es) as [[st1 es1] rel] eqn:Hs.
  destruct (sweep_inv _ _ _ _ _ _ _ Hs Hinv) as (A1 & A2).
  assert (Hgo : forall ln nl stx, evolves s (cs_ivs st1) (cs_ivs stx) -> loop s f ln nl stx es1 = Some (st', es') ->
                 evolves s (cs_ivs st) (cs_ivs st') /\ Forall (eq_inv (cs_ivs st')) es').
  { intros ln nl stx Hev Hl. destruct (IH _ _ _ _ _ _ Hl) as (B1 & B2).
    - eapply Forall_impl; [|exact A2]. intros x Hx. eapply eq_inv_evolves; eassumption.
    - split; [|exact B2]. eapply evolves_trans; [exact A1|]. eapply evolves_trans; eassumption. }
  assert (Hmark : evolves s (cs_ivs st1)
            (map (fun v => if iv_external v && vtype_eqb (iv_type v) VUnknown then set_type v VInitialised else v) (cs_ivs st1))).
  { apply map_evolves. intro v. destruct (iv_external v && vtype_eqb (iv_type v) VUnknown) eqn:E; [|apply step_ok_refl].
    apply andb_true_iff in E. destruct E as (_ & E). apply vtype_eqb_eq in E. apply set_type_step. rewrite E.
    unfold tok. repeat split; intros; try discriminate; auto. }
  destruct rel; [eapply Hgo; [apply evolves_refl|exact H]|].
  destruct ((loopn =? 1) || (loopn =? 3)); [eapply Hgo; [apply evolves_refl|exact H]|].
  destruct (loopn =? 2).
  - destruct (existsb iv_external (cs_ivs st1)).
    + eapply Hgo; [|exact H]. exact Hmark.
    + inversion H; subst. cbn [cs_ivs]. split; [eapply evolves_trans; eassumption|].
      eapply Forall_impl; [|exact A2]. intros x Hx. eapply eq_inv_evolves; eassumption.
  - inversion H; subst. split; assumption.
Qed.

(* ------------------------------------------------------------------------------------------ freshly built variables *)

Definition fresh_iv (v : ivar) : Prop :=
  (iv_type v = VUnknown \/ iv_type v = VInitialised) /\ iv_external v = false /\ iv_index v = None.

Lemma internal_variable_fresh : forall s ivs r, Forall fresh_iv ivs -> Forall fresh_iv (fst (internal_variable s ivs r)).
Proof.
  intros s ivs r H. unfold internal_variable.
  destruct (find_index _ ivs); cbn; [exact H|]. apply Forall_snoc; [exact H|].
  unfold fresh_iv, new_ivar. destruct (has_init (get_var s r)); cbn; auto.
Qed.

Lemma analyse_node_fresh : forall s c e acc acc',
  analyse_node s c e acc = Some acc' -> Forall fresh_iv (fst acc) -> Forall fresh_iv (fst acc').
Proof.
  intros s c e. induction e as [n|t x| |a IHa b IHb]; intros [ivs q] acc' H Hf; cbn [analyse_node fst] in *.
  - destruct (find_var (get_comp s c) n) as [i|]; [|discriminate].
    pose proof (internal_variable_fresh s ivs (c, i) Hf) as Hi.
    destruct (internal_variable s ivs (c, i)) as [ivs1 p]. cbn in Hi.
    destruct (mem_nat p (ie_vars q)); inversion H; subst; exact Hi.
  - destruct (find_var (get_comp s c) t) as [ti|]; [|discriminate].
    destruct (find_var (get_comp s c) x) as [xi|]; [|discriminate].
    pose proof (internal_variable_fresh s ivs (c, xi) Hf) as Hi.
    destruct (internal_variable s ivs (c, xi)) as [ivs1 p]. cbn in Hi.
    destruct (mem_nat p (ie_odes q)); inversion H; subst; exact Hi.
  - inversion H; subst. exact Hf.
  - destruct (analyse_node s c a (ivs, q)) as [acc1|] eqn:Ea; [|discriminate]. eauto.
Qed.

Lemma build_eqs_fresh : forall s c qs acc acc',
  build_eqs s c qs acc = Some acc' -> Forall fresh_iv (fst acc) -> Forall fresh_iv (fst acc').
Proof.
  intros s c qs. induction qs as [|q r IH]; intros acc acc' H Hf; cbn in H; [inversion H; subst; exact Hf|].
  destruct (build_eq s c (fst acc) q) as [[ivs1 e]|] eqn:E; [|discriminate].
  apply (IH _ _ H). cbn. unfold build_eq in E.
  match type of E with match analyse_node s c ?l ?a0 with _ => _ end = _ =>
    destruct (analyse_node s c l a0) as [acc1|] eqn:E1; [|discriminate] end.
  apply (analyse_node_fresh _ _ _ _ _ E). apply (analyse_node_fresh _ _ _ _ _ E1). exact Hf.
Qed.

Lemma Forall_upd : forall {A} (P : A -> Prop) l i x, Forall P l -> P x -> Forall P (upd l i x).
Proof.
  intros A P l. induction l as [|y r IH]; intros [|i] x Hl Hx; cbn; try assumption; inversion Hl; subst; constructor; auto.
Qed.

Lemma Forall_geti : forall (P : ivar -> Prop) ivs p, Forall P ivs -> P divar -> P (geti ivs p).
Proof.
  intros P ivs p H Hd. destruct (Nat.lt_ge_cases p (length ivs)) as [L|L].
  - rewrite Forall_forall in H. apply H. apply geti_In. exact L.
  - unfold geti. rewrite nth_overflow by exact L. exact Hd.
Qed.

Lemma fresh_divar : fresh_iv divar.
Proof. unfold fresh_iv. cbn. auto. Qed.

Lemma track_inits_fresh : forall s c n i ivs, Forall fresh_iv ivs -> Forall fresh_iv (track_inits s c i n ivs).
Proof.
  intros s c n. induction n as [|m IH]; intros i ivs Hf; cbn [track_inits]; [exact Hf|].
  pose proof (internal_variable_fresh s ivs (c, i) Hf) as Hi.
  destruct (internal_variable s ivs (c, i)) as [ivs1 p]. cbn in Hi. apply IH.
  destruct (has_init (get_var s (c, i)) && negb (has_init (get_var s (iv_var (geti ivs1 p))))); [|exact Hi].
  apply Forall_upd; [exact Hi|]. pose proof (Forall_geti _ _ p Hi fresh_divar) as (_ & Hx & Hy).
  unfold fresh_iv. cbn. auto.
Qed.

Lemma build_comps_fresh : forall s cs c acc acc',
  build_comps s c cs acc = Some acc' -> Forall fresh_iv (fst acc) -> Forall fresh_iv (fst acc').
Proof.
  intros s cs. induction cs as [|k r IH]; intros c acc acc' H Hf; cbn in H; [inversion H; subst; exact Hf|].
  destruct (build_eqs s c (c_eqs k) acc) as [[ivs1 es1]|] eqn:E; [|discriminate].
  apply (IH _ _ _ H). cbn. apply track_inits_fresh. apply (build_eqs_fresh _ _ _ _ _ E Hf).
Qed.

Lemma build_fresh : forall s ivs es, build s = Some (ivs, es) -> Forall fresh_iv ivs.
Proof. intros s ivs es H. unfold build in H. apply (build_comps_fresh _ _ _ _ _ H). constructor. Qed.

(* ------------------------------------------------------------------------------------------ variable of integration *)

Definition iv_inv (s : system) (voi : option vref) (ivs : list ivar) : Prop :=
  ivs_ok s ivs /\ covers_upto s (length s) ivs /\
  (forall p, p < length ivs -> iv_type (geti ivs p) = VVoi -> exists v, voi = Some v /\ cls_of s v = iv_cls (geti ivs p)) /\
  (forall v, voi = Some v -> in_range s v = true /\
      exists p, p < length ivs /\ iv_cls (geti ivs p) = cls_of s v /\
                (iv_type (geti ivs p) = VVoi \/ iv_type (geti ivs p) = VOverconstrained)) /\
  Forall (fun v => iv_external v = false) ivs.

Lemma iv_inv_evolves : forall s voi a b, iv_inv s voi a -> evolves s a b -> iv_inv s voi b.
Proof.
  intros s voi a b (I1 & I2 & I3 & I4 & I5) Hev. pose proof (evolves_classes _ _ _ Hev) as Hc. pose proof Hev as (L & Hp).
  split; [eapply evolves_ivs_ok; eassumption|]. split; [|split; [|split]].
  - intros r Hr Hl. rewrite Hc. apply I2; assumption.
  - intros p Hlt Ht. rewrite L in Hlt. destruct (Hp p Hlt) as (S1 & _ & _ & _ & (T1 & _)).
    destruct (I3 p Hlt (T1 Ht)) as (v & Hv1 & Hv2). exists v. split; [exact Hv1|]. congruence.
  - intros v Hv. destruct (I4 v Hv) as (R & p & Hlt & Hcl & Hty). split; [exact R|].
    exists p. rewrite L. split; [exact Hlt|]. destruct (Hp p Hlt) as (S1 & _ & _ & _ & (_ & T2 & _ & T4)).
    split; [congruence|]. destruct Hty as [Hty|Hty]; [apply T2; exact Hty|right; apply T4; exact Hty].
  - rewrite Forall_forall. intros x Hx. apply In_nth with (d := divar) in Hx. destruct Hx as (n & Hn & <-).
    rewrite L in Hn. destruct (Hp n Hn) as (_ & S2 & _). unfold geti in S2. rewrite S2.
    rewrite Forall_forall in I5. apply I5. apply nth_In. exact Hn.
Qed.

Lemma all_vrefs_from_In : forall cs c0 c i,
  In (c, i) (all_vrefs_from c0 cs) <-> (c0 <= c < c0 + length cs /\ i < length (c_vars (nth (c - c0) cs dcomp))).
Proof.
  induction cs as [|k r IH]; intros c0 c i; cbn [all_vrefs_from length].
  - split; [intros []|intros (H & _); lia].
  - rewrite in_app_iff, in_map_iff, IH. split.
    + intros [(j & Hj & Hin)|(H1 & H2)].
      * inversion Hj; subst. apply in_seq in Hin. rewrite Nat.sub_diag. cbn. split; lia.
      * split; [lia|]. replace (c - c0) with (S (c - S c0)) by lia. cbn. exact H2.
    + intros (H1 & H2). destruct (Nat.eq_dec c c0) as [->|Hne].
      * left. exists i. split; [reflexivity|]. apply in_seq. rewrite Nat.sub_diag in H2. cbn in H2. lia.
      * right. split; [lia|]. replace (c - c0) with (S (c - S c0)) in H2 by lia. cbn in H2. exact H2.
Qed.

Lemma members_In : forall s k r, In r (members s k) <-> (in_range s r = true /\ cls_of s r = k).
Proof.
  intros s k [c i]. unfold members. rewrite filter_In, all_vrefs_from_In. rewrite Nat.eqb_eq. rewrite Nat.sub_0_r. cbn [plus].
  unfold cls_of. split.
  - intros ((H1 & H2) & H3). split; [|exact H3]. apply in_range_intro; [lia|exact H2].
  - intros (H1 & H3). apply in_range_comp in H1. cbn in H1. split; [|exact H3]. split; [lia|]. apply H1.
Qed.

Definition asts_inv (s : system) (st : voi_state) : Prop :=
  ivs_ok s (vs_ivs st) /\ covers_upto s (length s) (vs_ivs st) /\ Forall (fun v => iv_external v = false) (vs_ivs st) /\
  (vs_issues st = [] -> iv_inv s (vs_voi st) (vs_ivs st)).

Lemma make_state_type : forall v, iv_type (make_state v) = VVoi -> iv_type v = VVoi.
Proof. intros v. unfold make_state. destruct (iv_type v) eqn:E; cbn; rewrite ?E; intro H; congruence. Qed.

Lemma make_state_same : forall v, iv_cls (make_state v) = iv_cls v /\ iv_var (make_state v) = iv_var v /\
  iv_initvar (make_state v) = iv_initvar v /\ iv_external (make_state v) = iv_external v.
Proof. intro v. unfold make_state. destruct (iv_type v); cbn; auto. Qed.

Lemma iv_ok_same : forall s v w, iv_ok s v -> iv_cls w = iv_cls v -> iv_var w = iv_var v -> iv_initvar w = iv_initvar v -> iv_ok s w.
Proof. intros s v w (A & B & C) H1 H2 H3. unfold iv_ok. rewrite H1, H2, H3. auto. Qed.

Lemma diff_event_inv : forall s st d,
  asts_inv s st -> in_range s (fst d) = true -> in_range s (snd d) = true ->
  asts_inv s (diff_event s st d) /\ (vs_issues (diff_event s st d) = [] -> vs_issues st = []).
Proof.
  intros s st [t x] (Hok & Hcov & Hne & Hvoi) Ht Hx. cbn [fst snd] in *. unfold diff_event.
  set (ivs := vs_ivs st) in *.
  set (pt := ivar_of s ivs t).
  set (ivs1 := upd ivs pt (set_type (geti ivs pt) VVoi)).
  set (k := v_cls (get_var s t)).
  destruct (ivar_of_spec s ivs t Hok) as (Hpt & Hptc); [apply Hcov; [exact Ht|apply in_range_comp in Ht; apply Ht]|].
  fold pt in Hpt, Hptc.
  assert (Hok1 : ivs_ok s ivs1).
  { apply ivs_ok_upd; [exact Hok|reflexivity|]. eapply iv_ok_same; [apply ivs_ok_geti; eassumption|reflexivity..]. }
  assert (Hc1 : map iv_cls ivs1 = map iv_cls ivs) by (apply upd_classes; reflexivity).
  assert (Hl1 : length ivs1 = length ivs) by apply upd_length.
  set (px := ivar_of s ivs1 x).
  destruct (ivar_of_spec s ivs1 x Hok1) as (Hpx & Hpxc).
  { rewrite Hc1. apply Hcov; [exact Hx|apply in_range_comp in Hx; apply Hx]. }
  fold px in Hpx, Hpxc.
  set (ivs2 := upd ivs1 px (make_state (geti ivs1 px))).
  destruct (make_state_same (geti ivs1 px)) as (M1 & M2 & M3 & M4).
  assert (Hok2 : ivs_ok s ivs2).
  { apply ivs_ok_upd; [exact Hok1|exact M1|]. eapply iv_ok_same; [apply ivs_ok_geti; eassumption|assumption..]. }
  assert (Hc2 : map iv_cls ivs2 = map iv_cls ivs) by (rewrite <- Hc1; apply upd_classes; exact M1).
  assert (Hl2 : length ivs2 = length ivs) by (unfold ivs2; rewrite upd_length; exact Hl1).
  assert (Hne2 : Forall (fun v => iv_external v = false) ivs2).
  { apply Forall_upd.
    - apply Forall_upd; [exact Hne|]. cbn. apply (Forall_geti (fun v => iv_external v = false)); [exact Hne|reflexivity].
    - rewrite M4. apply (Forall_geti (fun v => iv_external v = false)); [|reflexivity].
      apply Forall_upd; [exact Hne|]. cbn. apply (Forall_geti (fun v => iv_external v = false)); [exact Hne|reflexivity]. }
  assert (Hcls2 : forall p, iv_cls (geti ivs2 p) = iv_cls (geti ivs p)).
  { intro p. unfold geti. rewrite <- !(map_nth iv_cls). rewrite Hc2. reflexivity. }
  (* types after the event *)
  assert (Hty2 : forall p, p < length ivs -> iv_type (geti ivs2 p) = VVoi -> p = pt \/ iv_type (geti ivs p) = VVoi).
  { intros p Hp Hv. assert (Hv1 : iv_type (geti ivs1 p) = VVoi).
    { unfold ivs2, geti in Hv. destruct (Nat.eq_dec px p) as [->|Hd].
      - rewrite nth_upd_same in Hv by lia. apply make_state_type. exact Hv.
      - rewrite nth_upd_other in Hv by exact Hd. exact Hv. }
    destruct (Nat.eq_dec pt p) as [->|Hd]; [left; reflexivity|right].
    unfold ivs1, geti in Hv1. rewrite nth_upd_other in Hv1 by exact Hd. exact Hv1. }
  assert (Hpt2 : iv_type (geti ivs2 pt) = VVoi).
  { assert (H1 : iv_type (geti ivs1 pt) = VVoi) by (unfold ivs1; rewrite geti_upd_same by exact Hpt; reflexivity).
    unfold ivs2. destruct (Nat.eq_dec px pt) as [E|E].
    - rewrite E. rewrite geti_upd_same by lia. unfold make_state. rewrite H1. exact H1.
    - unfold geti. rewrite nth_upd_other by exact E. exact H1. }
  assert (Hcov2 : covers_upto s (length s) ivs2) by (intros r Hr Hlt; rewrite Hc2; apply Hcov; assumption).
  assert (Hmk : forall voi iss,
            (iss = [] -> vs_issues st = [] /\
               (forall p, p < length ivs2 -> iv_type (geti ivs2 p) = VVoi -> exists v, voi = Some v /\ cls_of s v = iv_cls (geti ivs2 p)) /\
               (forall v, voi = Some v -> in_range s v = true /\
                   exists p, p < length ivs2 /\ iv_cls (geti ivs2 p) = cls_of s v /\
                             (iv_type (geti ivs2 p) = VVoi \/ iv_type (geti ivs2 p) = VOverconstrained))) ->
            asts_inv s (mkVs ivs2 voi iss) /\ (vs_issues (mkVs ivs2 voi iss) = [] -> vs_issues st = [])).
  { intros voi iss Hiss. unfold asts_inv. cbn [vs_ivs vs_voi vs_issues]. split; [|intro Hi; apply (Hiss Hi)].
    split; [exact Hok2|]. split; [exact Hcov2|]. split; [exact Hne2|]. intro Hi. destruct (Hiss Hi) as (_ & A & B).
    unfold iv_inv. auto. }
  destruct (vs_voi st) as [v0|] eqn:Ev.
  - destruct (v_cls (get_var s v0) =? k) eqn:Ek.
    + apply Nat.eqb_eq in Ek. rewrite app_nil_r. apply Hmk. intro Hi. split; [exact Hi|].
      destruct (Hvoi Hi) as (_ & _ & V3 & V4 & _). split.
      * intros p Hp Hv. rewrite Hl2 in Hp. destruct (Hty2 p Hp Hv) as [->|Hv0].
        -- exists v0. split; [reflexivity|]. rewrite Hcls2, Hptc. exact Ek.
        -- destruct (V3 p Hp Hv0) as (v & Hv1 & Hv2). exists v. split; [exact Hv1|]. rewrite Hcls2. exact Hv2.
      * intros v Hv. inversion Hv; subst v. destruct (V4 v0 eq_refl) as (R & _). split; [exact R|].
        exists pt. rewrite Hl2. split; [exact Hpt|]. split; [rewrite Hcls2, Hptc; symmetry; exact Ek|left; exact Hpt2].
    + apply Hmk. intro Hi. destruct (vs_issues st); discriminate.
  - destruct (filter (fun r => has_init (get_var s r)) (members s k)) as [|i0 ir] eqn:Ein.
    + rewrite app_nil_r. apply Hmk. intro Hi. split; [exact Hi|].
      destruct (Hvoi Hi) as (_ & _ & V3 & _ & _).
      assert (Hm : In t (members s k)) by (apply members_In; split; [exact Ht|reflexivity]).
      destruct (members s k) as [|m0 mr] eqn:Em; [destruct Hm|]. cbn [hd_error].
      assert (Hm0 : in_range s m0 = true /\ cls_of s m0 = k) by (apply members_In; rewrite Em; left; reflexivity).
      split.
      * intros p Hp Hv. rewrite Hl2 in Hp. destruct (Hty2 p Hp Hv) as [->|Hv0].
        -- exists m0. split; [reflexivity|]. rewrite Hcls2, Hptc. apply Hm0.
        -- destruct (V3 p Hp Hv0) as (v & Hv1 & _). discriminate.
      * intros v Hv. inversion Hv; subst v. split; [apply Hm0|].
        exists pt. rewrite Hl2. split; [exact Hpt|]. split; [rewrite Hcls2, Hptc; symmetry; apply Hm0|left; exact Hpt2].
    + apply Hmk. intro Hi. destruct (vs_issues st); discriminate.
Qed.

Lemma diff_event_length : forall s st d, length (vs_ivs (diff_event s st d)) = length (vs_ivs st).
Proof.
  intros s st [t x]. unfold diff_event.
  match goal with |- context [let '(a, b) := ?m in _] => destruct m as [voi1 iss1] end.
  cbn [vs_ivs]. rewrite !upd_length. reflexivity.
Qed.

Lemma diff_events_inv : forall s ds st,
  asts_inv s st -> Forall (fun d => in_range s (fst d) = true /\ in_range s (snd d) = true) ds ->
  asts_inv s (fold_left (diff_event s) ds st) /\
  (vs_issues (fold_left (diff_event s) ds st) = [] -> vs_issues st = []) /\
  length (vs_ivs (fold_left (diff_event s) ds st)) = length (vs_ivs st).
Proof.
  intros s ds. induction ds as [|d r IH]; intros st Hinv Hr; cbn [fold_left].
  - auto.
  - inversion Hr as [|? ? (H1 & H2) Hr']; subst.
    destruct (diff_event_inv s st d Hinv H1 H2) as (A1 & A2).
    destruct (IH _ A1 Hr') as (B1 & B2 & B3).
    split; [exact B1|]. split; [auto|]. rewrite B3. apply diff_event_length.
Qed.

Lemma analyse_asts_fold_inv : forall s es st n,
  asts_inv s st -> Forall (eq_ok s n) es ->
  let st' := fold_left (fun st e => fold_left (diff_event s) (ie_diffs e) st) es st in
  asts_inv s st' /\ (vs_issues st' = [] -> vs_issues st = []) /\ length (vs_ivs st') = length (vs_ivs st).
Proof.
  intros s es. induction es as [|e r IH]; intros st n Hinv He; cbn [fold_left].
  - auto.
  - inversion He as [|? ? (D1 & _) Hr]; subst.
    destruct (diff_events_inv s (ie_diffs e) st Hinv D1) as (A1 & A2 & A3).
    destruct (IH _ n A1 Hr) as (B1 & B2 & B3).
    split; [exact B1|]. split; [auto|]. cbn zeta in B3. rewrite B3. exact A3.
Qed.

Lemma analyse_asts_inv : forall s ivs es,
  ivs_ok s ivs -> covers_upto s (length s) ivs -> Forall fresh_iv ivs -> Forall (eq_ok s (length ivs)) es ->
  vs_issues (analyse_asts s ivs es) = [] ->
  iv_inv s (vs_voi (analyse_asts s ivs es)) (vs_ivs (analyse_asts s ivs es)) /\
  length (vs_ivs (analyse_asts s ivs es)) = length ivs.
Proof.
  intros s ivs es Hok Hcov Hf He Hi. unfold analyse_asts in *.
  assert (Hne : Forall (fun v => iv_external v = false) ivs).
  { eapply Forall_impl; [|exact Hf]. intros v (_ & H & _). exact H. }
  assert (H0 : asts_inv s (mkVs ivs None [])).
  { unfold asts_inv. cbn. split; [exact Hok|]. split; [exact Hcov|]. split; [exact Hne|]. intros _.
    unfold iv_inv. split; [exact Hok|]. split; [exact Hcov|]. split; [|split; [|exact Hne]].
    - intros p Hp Hv. rewrite Forall_forall in Hf. destruct (Hf (geti ivs p) (geti_In _ _ Hp)) as ([E|E] & _); congruence.
    - intros v Hv. discriminate. }
  destruct (analyse_asts_fold_inv s es _ _ H0 He) as (A1 & A2 & A3). cbn zeta in *.
  destruct A1 as (_ & _ & _ & A1). split; [apply A1; exact Hi|exact A3].
Qed.

(* ------------------------------------------------------------------------------------------ second half of analyseModel *)

Definition final_type (t : vtype) : bool :=
  match t with VVoi | VState | VConstant | VCompTrue | VCompVarBased | VInitAlgebraic | VAlgebraic => true | _ => false end.

Lemma Forall2_evolves : forall s a b, Forall2 (step_ok s) a b -> evolves s a b.
Proof.
  intros s a b H. split; [induction H; cbn; congruence|].
  induction H as [|x y l l' Hxy Hl IH]; intros p Hp; cbn in Hp; [lia|].
  destruct p as [|p]; cbn; [exact Hxy|]. apply IH. lia.
Qed.

Lemma validate_vars_spec : forall s ivs vidx ivs1 n iss,
  validate_vars ivs vidx = (ivs1, n, iss) ->
  Forall2 (step_ok s) ivs ivs1 /\ (iss = [] -> Forall (fun v => final_type (iv_type v) = true) ivs1).
Proof.
  intros s ivs. induction ivs as [|v r IH]; intros vidx ivs1 n iss H; cbn in H.
  - inversion H; subst. split; constructor.
  - destruct (iv_type v) eqn:Et.
    all: try (destruct (validate_vars r vidx) as [[r1 n1] i1] eqn:E; inversion H; subst;
              destruct (IH _ _ _ _ E) as (A1 & A2);
              split; [constructor; [apply step_ok_refl|exact A1]|];
              first [ discriminate | intro Hi; constructor; [rewrite Et; reflexivity|apply A2; exact Hi] ]).
    destruct (validate_vars r (S vidx)) as [[r1 n1] i1] eqn:E. inversion H; subst.
    destruct (IH _ _ _ _ E) as (A1 & A2). split.
    + constructor; [|exact A1]. eapply step_ok_trans; [apply set_type_step|apply set_index_step].
      rewrite Et. unfold tok. repeat split; intros; try discriminate; auto.
    + intro Hi. constructor; [reflexivity|apply A2; exact Hi].
Qed.

Definition core (e : ieq) : etype * list nat := (ie_type e, ie_unknown e).

Lemma map_core_upd : forall es k x, core x = core (gete es k) -> map core (upd es k x) = map core es.
Proof.
  intros es k x H.
  destruct (Nat.lt_ge_cases k (length es)) as [L|L]; [|rewrite upd_beyond by exact L; reflexivity].
  apply nth_ext with (d := core dieq) (d' := core dieq); [rewrite !map_length, upd_length; reflexivity|].
  intros n Hn. rewrite map_length, upd_length in Hn. rewrite !map_nth.
  destruct (Nat.eq_dec k n) as [->|Hne].
  - rewrite nth_upd_same by exact Hn. exact H.
  - rewrite nth_upd_other by exact Hne. reflexivity.
Qed.

Lemma gete_core : forall es k, core (gete es k) = nth k (map core es) (core dieq).
Proof. intros. unfold gete. symmetry. apply map_nth. Qed.

Lemma filter_id : forall {A} (f : A -> bool) l, (forall x, f x = true) -> filter f l = l.
Proof. intros A f l H. induction l as [|x r IH]; cbn; [reflexivity|]. rewrite H, IH. reflexivity. Qed.

Lemma noext_geti : forall ivs p, Forall (fun v => iv_external v = false) ivs -> iv_external (geti ivs p) = false.
Proof. intros ivs p H. apply (Forall_geti (fun v => iv_external v = false)); [exact H|reflexivity]. Qed.

Lemma nla_step_core : forall ivs st k, Forall (fun v => iv_external v = false) ivs -> ns_added_vars st = [] ->
  map core (ns_es (nla_step ivs st k)) = map core (ns_es st) /\ ns_added_vars (nla_step ivs st k) = [].
Proof.
  intros ivs st k Hne Hadd. unfold nla_step.
  set (es := ns_es st). set (e := gete es k).
  assert (Hfold : forall l a, fold_left (fun a p => if iv_external (geti ivs p) && negb (mem_nat p a) then a ++ [p] else a) l a = a).
  { induction l as [|p r IH]; intro a; cbn; [reflexivity|]. rewrite (noext_geti _ p Hne). cbn. apply IH. }
  assert (Hfil : forall l, filter (fun p => negb (iv_external (geti ivs p))) l = l).
  { intro l. apply filter_id. intro p. rewrite (noext_geti _ p Hne). reflexivity. }
  destruct (is_nla e) eqn:En.
  - rewrite Hfold, Hfil.
    assert (He1 : set_unknown e (ie_unknown e) = e) by (destruct e; reflexivity). rewrite He1.
    assert (Hes1 : upd es k e = es).
    { destruct (Nat.lt_ge_cases k (length es)) as [L|L]; [|apply upd_beyond; exact L].
      apply nth_ext with (d := dieq) (d' := dieq); [apply upd_length|]. intros n Hn. rewrite upd_length in Hn.
      destruct (Nat.eq_dec k n) as [->|Hd]; [rewrite nth_upd_same by exact Hn; reflexivity|rewrite nth_upd_other by exact Hd; reflexivity]. }
    rewrite Hes1. rewrite En. cbn [negb].
    match goal with |- context [let '(idx, next) := ?m in _] => destruct m as [idx next] end.
    match goal with |- context [filter ?f (seq 0 (length ?l))] => set (others := filter f (seq 0 (length l))) end.
    cbn [ns_es ns_added_vars]. split; [|exact Hadd].
    rewrite map_core_upd.
    2:{ unfold core, set_sibs. cbn. reflexivity. }
    assert (Hothers : forall os l, map core (fold_left (fun l j => upd l j (set_nla (gete l j) (Some idx))) os l) = map core l).
    { induction os as [|j r IH]; intro l; cbn; [reflexivity|]. rewrite IH. apply map_core_upd. reflexivity. }
    rewrite Hothers. apply map_core_upd. reflexivity.
  - assert (Hes1 : upd es k e = es).
    { destruct (Nat.lt_ge_cases k (length es)) as [L|L]; [|apply upd_beyond; exact L].
      apply nth_ext with (d := dieq) (d' := dieq); [apply upd_length|]. intros n Hn. rewrite upd_length in Hn.
      destruct (Nat.eq_dec k n) as [->|Hd]; [rewrite nth_upd_same by exact Hn; reflexivity|rewrite nth_upd_other by exact Hd; reflexivity]. }
    rewrite En. cbn [negb ns_es ns_added_vars]. rewrite Hes1. split; [reflexivity|exact Hadd].
Qed.

Lemma nla_group_core : forall ivs es e', Forall (fun v => iv_external v = false) ivs ->
  In e' (nla_group ivs es) -> exists e, In e es /\ core e' = core e.
Proof.
  intros ivs es e' Hne Hin. unfold nla_group in Hin.
  assert (Hfold : forall ks st, ns_added_vars st = [] ->
             map core (ns_es (fold_left (nla_step ivs) ks st)) = map core (ns_es st) /\
             ns_added_vars (fold_left (nla_step ivs) ks st) = []).
  { induction ks as [|k r IH]; intros st Ha; cbn; [auto|].
    destruct (nla_step_core ivs st k Hne Ha) as (A1 & A2). destruct (IH _ A2) as (B1 & B2). split; [congruence|exact B2]. }
  destruct (Hfold (seq 0 (length es)) (mkNs es 0 [] []) eq_refl) as (F1 & F2). cbn [ns_es] in F1.
  set (st := fold_left (nla_step ivs) (seq 0 (length es)) (mkNs es 0 [] [])) in *.
  rewrite F2 in Hin. cbn [map] in Hin. rewrite app_nil_r in Hin.
  apply in_map_iff in Hin. destruct Hin as (j & <- & Hj). apply filter_In in Hj. destruct Hj as (Hj & _).
  apply in_seq in Hj. cbn in Hj.
  assert (Hlen : length (ns_es st) = length es).
  { pose proof (f_equal (@length _) F1) as Hl. rewrite !map_length in Hl. exact Hl. }
  exists (gete es j). split; [apply nth_In; lia|].
  transitivity (core (gete (ns_es st) j)); [reflexivity|]. rewrite !gete_core. rewrite F1. reflexivity.
Qed.

Definition unk_inv (ivs : list ivar) (e : ieq) : Prop :=
  Forall (fun p => idx_type (iv_type (geti ivs p)) = true) (ie_unknown e) /\ (ie_type e <> EUnknown -> ie_unknown e <> []).

Lemma unk_inv_evolves : forall s a b e, evolves s a b -> unk_inv a e -> unk_inv b e.
Proof.
  intros s a b e Hev (A & B). split; [|exact B]. eapply Forall_impl; [|exact A]. intros p Hp. eapply evolves_idx; eassumption.
Qed.

Lemma over_inner_fold : forall l (ivs : list ivar) (over : list nat) (iss : list issue) ivs1 over1 iss1,
  fold_left (fun a p => let '(l0, o, i) := a in
                        if mem_nat p o then a
                        else (upd l0 p (set_type (geti l0 p) VOverconstrained), o ++ [p],
                              i ++ [mkIssue RComputedTwice (iv_var (geti l0 p))])) l (ivs, over, iss) = (ivs1, over1, iss1) ->
  iss1 = [] -> iss = [] /\ ivs1 = ivs.
Proof.
  induction l as [|p r IH]; intros ivs over iss ivs1 over1 iss1 H Hi; cbn in H.
  - inversion H; subst. auto.
  - destruct (mem_nat p over).
    + apply (IH _ _ _ _ _ _ H Hi).
    + destruct (IH _ _ _ _ _ _ H Hi) as (A & _). destruct iss; discriminate.
Qed.

Lemma requalify_step_spec : forall s ivs done over iss e ivs' done' over' iss',
  requalify_step (ivs, done, over, iss) e = (ivs', done', over', iss') ->
  Forall (fun v => final_type (iv_type v) = true) ivs -> unk_inv ivs e -> iss' = [] ->
  iss = [] /\ evolves s ivs ivs' /\ Forall (fun v => final_type (iv_type v) = true) ivs'.
Proof.
  intros s ivs done over iss e ivs' done' over' iss' H Hf (U1 & U2) Hi. unfold requalify_step in H.
  destruct (ie_type e) eqn:Et; try (inversion H; subst; split; [reflexivity|]; split; [apply evolves_refl|exact Hf]).
  - (* variable-based constant *)
    destruct (existsb _ (ie_all e)); inversion H; subst; (split; [reflexivity|]); [|split; [apply evolves_refl|exact Hf]].
    assert (Hu : In (hd 0 (ie_unknown e)) (ie_unknown e)).
    { destruct (ie_unknown e) as [|u r]; [exfalso; apply U2; [discriminate|reflexivity]|left; reflexivity]. }
    rewrite Forall_forall in U1. specialize (U1 _ Hu). set (u := hd 0 (ie_unknown e)) in *.
    pose proof (idx_type_in_bounds _ _ U1) as Hb.
    assert (Hfu : final_type (iv_type (geti ivs u)) = true).
    { rewrite Forall_forall in Hf. apply Hf. apply geti_In. exact Hb. }
    split.
    + apply evolves_upd. apply set_type_step. unfold tok.
      destruct (iv_type (geti ivs u)); cbn in U1, Hfu; try discriminate; repeat split; intros; try discriminate; auto.
    + apply Forall_upd; [exact Hf|reflexivity].
  - (* NLA *)
    destruct (length (ie_unknown e) <? length (ie_sibs e) + 1).
    + match type of H with context [fold_left ?f (ie_unknown e) ?a] =>
        destruct (fold_left f (ie_unknown e) a) as [[ivs1 over1] iss1] eqn:Ef end.
      inversion H; subst. destruct (over_inner_fold _ _ _ _ _ _ _ Ef eq_refl) as (A & ->).
      split; [exact A|]. split; [apply evolves_refl|exact Hf].
    + inversion H; subst. split; [reflexivity|]. split; [apply evolves_refl|exact Hf].
Qed.

Lemma requalify_step_issues : forall ivs done over iss e ivs' done' over',
  requalify_step (ivs, done, over, iss) e = (ivs', done', over', []) -> iss = [].
Proof.
  intros ivs done over iss e ivs' done' over' E2. unfold requalify_step in E2.
  destruct (ie_type e); try (inversion E2; subst; reflexivity).
  - destruct (existsb _ (ie_all e)); inversion E2; subst; reflexivity.
  - destruct (length (ie_unknown e) <? length (ie_sibs e) + 1).
    + match type of E2 with context [fold_left ?f (ie_unknown e) ?a] =>
        destruct (fold_left f (ie_unknown e) a) as [[ivs3 over3] iss3] eqn:Ef end.
      inversion E2; subst. apply (over_inner_fold _ _ _ _ _ _ _ Ef eq_refl).
    + inversion E2; subst. reflexivity.
Qed.

Lemma requalify_fold_issues : forall es ivs done over iss ivs' done' over',
  fold_left requalify_step es (ivs, done, over, iss) = (ivs', done', over', []) -> iss = [].
Proof.
  induction es as [|e r IH]; intros ivs done over iss ivs' done' over' H; cbn [fold_left] in H.
  - inversion H; subst. reflexivity.
  - destruct (requalify_step (ivs, done, over, iss) e) as [[[ivs1 done1] over1] iss1] eqn:E.
    pose proof (IH _ _ _ _ _ _ _ H) as K. subst iss1. eapply requalify_step_issues. exact E.
Qed.

Lemma requalify_fold_spec : forall s es ivs done over iss ivs' done' over',
  fold_left requalify_step es (ivs, done, over, iss) = (ivs', done', over', []) ->
  Forall (fun v => final_type (iv_type v) = true) ivs -> Forall (unk_inv ivs) es ->
  evolves s ivs ivs' /\ Forall (fun v => final_type (iv_type v) = true) ivs'.
Proof.
  intros s es. induction es as [|e r IH]; intros ivs done over iss ivs' done' over' H Hf Hu; cbn [fold_left] in H.
  - inversion H; subst. split; [apply evolves_refl|exact Hf].
  - destruct (requalify_step (ivs, done, over, iss) e) as [[[ivs1 done1] over1] iss1] eqn:E.
    inversion Hu as [|? ? Hue Hur]; subst.
    pose proof (requalify_fold_issues _ _ _ _ _ _ _ _ H) as K. subst iss1.
    destruct (requalify_step_spec s _ _ _ _ _ _ _ _ _ E Hf Hue eq_refl) as (_ & A2 & A3).
    destruct (IH _ _ _ _ _ _ _ H A3) as (B2 & B3).
    { eapply Forall_impl; [|exact Hur]. intros x Hx. eapply unk_inv_evolves; eassumption. }
    split; [eapply evolves_trans; eassumption|exact B3].
Qed.

(* ------------------------------------------------------------------------------------------ W1: classes appear once *)
From Coq Require Import Permutation.

Definition has_atype (v : ivar) : bool := match atype_of v with Some _ => true | None => false end.

Definition av_rel (v : ivar) (x : nat * avar) : Prop :=
  av_var (snd x) = iv_var v /\ (av_init (snd x) = None \/ av_init (snd x) = iv_initvar v).

Lemma make_avars_rel : forall es ivs p si vi, Forall2 av_rel (filter has_atype ivs) (make_avars es ivs p si vi).
Proof.
  intros es ivs. induction ivs as [|v r IH]; intros p si vi; cbn [filter make_avars]; [constructor|].
  unfold has_atype at 1. destruct (atype_of v) as [t|] eqn:E; [|apply IH].
  destruct t; constructor; try apply IH; unfold av_rel; cbn; auto.
Qed.

Lemma filter_partition_perm : forall {A} (f : A -> bool) l,
  Permutation (filter f l ++ filter (fun x => negb (f x)) l) l.
Proof.
  intros A f l. induction l as [|x r IH]; cbn; [constructor|].
  destruct (f x); cbn.
  - constructor. exact IH.
  - apply Permutation_sym. apply Permutation_cons_app. apply Permutation_sym. exact IH.
Qed.

Lemma NoDup_map_filter : forall {A} (g : A -> nat) (f : A -> bool) l, NoDup (map g l) -> NoDup (map g (filter f l)).
Proof.
  intros A g f l. induction l as [|x r IH]; cbn; intro H; [constructor|].
  inversion H; subst. destruct (f x); cbn; [|apply IH; assumption].
  constructor; [|apply IH; assumption]. intro Hin. apply in_map_iff in Hin. destruct Hin as (y & Hy1 & Hy2).
  apply filter_In in Hy2. apply H2. rewrite <- Hy1. apply in_map. apply Hy2.
Qed.

Lemma NoDup_map_inj : forall {A} (g : A -> nat) l a b, NoDup (map g l) -> In a l -> In b l -> g a = g b -> a = b.
Proof.
  intros A g l. induction l as [|x r IH]; intros a b Hn Ha Hb Hg; [destruct Ha|].
  cbn in Hn. inversion Hn; subst. destruct Ha as [<-|Ha], Hb as [<-|Hb]; try reflexivity.
  - exfalso. apply H1. rewrite Hg. apply in_map. exact Hb.
  - exfalso. apply H1. rewrite <- Hg. apply in_map. exact Ha.
  - apply IH; assumption.
Qed.

Lemma subset_spec : forall a b, subset a b = true <-> (forall x, In x a -> In x b).
Proof.
  intros a b. unfold subset. rewrite forallb_forall. split; intros H x Hx.
  - apply mem_nat_In. apply H. exact Hx.
  - apply mem_nat_In. apply H. exact Hx.
Qed.

Lemma Forall2_In_r : forall {A B} (R : A -> B -> Prop) l l' y, Forall2 R l l' -> In y l' -> exists x, In x l /\ R x y.
Proof.
  intros A B R l l' y H. induction H as [|a b l l' Hab Hl IH]; intro Hy; [destruct Hy|].
  destruct Hy as [<-|Hy]; [exists a; split; [left; reflexivity|exact Hab]|].
  destruct (IH Hy) as (x & Hx & Hr). exists x. split; [right; exact Hx|exact Hr].
Qed.

Lemma Forall2_map_eq : forall {A B C} (f : A -> C) (g : B -> C) l l', Forall2 (fun x y => f x = g y) l l' -> map f l = map g l'.
Proof. intros A B C f g l l' H. induction H; cbn; [reflexivity|]. f_equal; assumption. Qed.

Lemma Forall2_impl_Forall : forall {A B} (P : A -> Prop) (R R' : A -> B -> Prop) l l',
  Forall P l -> Forall2 R l l' -> (forall x y, P x -> R x y -> R' x y) -> Forall2 R' l l'.
Proof.
  intros A B P R R' l l' Hp H Himp. induction H as [|a b l l' Hab Hl IH]; [constructor|].
  inversion Hp; subst. constructor; [apply Himp; assumption|apply IH; assumption].
Qed.

Lemma wf_classes_package : forall s ty voi ivs es,
  iv_inv s voi ivs -> Forall (fun v => final_type (iv_type v) = true) ivs ->
  wf_classes s (package s ty voi ivs es) = true.
Proof.
  intros s ty voi ivs es (Hok & Hcov & Hvc & Hvd & Hne) Hfin.
  unfold package. set (es3 := es ++ _). set (avs := make_avars es3 ivs 0 0 0).
  unfold wf_classes, result_classes, all_avars. cbn [r_voi r_states r_vars].
  pose proof (make_avars_rel es3 ivs 0 0 0) as Hrel. fold avs in Hrel.
  set (fs := fun x : nat * avar => atype_eqb (av_type (snd x)) AState).
  assert (Hperm : Permutation (map snd (filter fs avs) ++ map snd (filter (fun x => negb (fs x)) avs)) (map snd avs)).
  { rewrite <- map_app. apply Permutation_map. apply filter_partition_perm. }
  assert (Hsub : Forall (iv_ok s) (filter has_atype ivs)) by (apply Forall_filter; apply Hok).
  (* the classes of the API variables are those of the internal variables that have an API type *)
  assert (Hcls : map (fun a => cls_of s (av_var a)) (map snd avs) = map iv_cls (filter has_atype ivs)).
  { rewrite map_map. symmetry. apply Forall2_map_eq.
    eapply Forall2_impl_Forall; [exact Hsub|exact Hrel|]. intros v x (_ & K & _) (R1 & _). cbn. rewrite R1. symmetry. exact K. }
  set (X := map (fun a => cls_of s (av_var a)) (map snd (filter fs avs) ++ map snd (filter (fun x => negb (fs x)) avs))).
  assert (HpX : Permutation X (map iv_cls (filter has_atype ivs))).
  { unfold X. rewrite <- Hcls. apply Permutation_map. exact Hperm. }
  assert (HndX : NoDup X).
  { eapply Permutation_NoDup; [apply Permutation_sym; exact HpX|]. apply NoDup_map_filter. apply Hok. }
  assert (Hvoi_type : forall p, p < length ivs -> has_atype (geti ivs p) = false -> iv_type (geti ivs p) = VVoi).
  { intros p Hp Ha. unfold has_atype, atype_of in Ha. rewrite (noext_geti _ p Hne) in Ha.
    rewrite Forall_forall in Hfin. specialize (Hfin _ (geti_In _ _ Hp)).
    destruct (iv_type (geti ivs p)); cbn in Ha, Hfin; try discriminate; reflexivity. }
  repeat (apply andb_true_iff; split).
  - (* no class twice *)
    apply nodupb_NoDup. fold X. destruct voi as [v|]; cbn [app]; [|exact HndX].
    constructor; [|exact HndX]. intro Hin.
    apply (Permutation_in _ HpX) in Hin. apply in_map_iff in Hin. destruct Hin as (iv & Hc & Hiv).
    apply filter_In in Hiv. destruct Hiv as (Hiv & Ha).
    destruct (Hvd v eq_refl) as (_ & p & Hp & Hpc & Hpt).
    assert (Heq : iv = geti ivs p).
    { eapply (NoDup_map_inj iv_cls); [apply Hok|exact Hiv|apply geti_In; exact Hp|congruence]. }
    subst iv. unfold has_atype, atype_of in Ha. rewrite (noext_geti _ p Hne) in Ha.
    rewrite Forall_forall in Hfin. specialize (Hfin _ (geti_In _ _ Hp)).
    destruct Hpt as [Hpt|Hpt]; rewrite Hpt in *; discriminate.
  - (* every class is there *)
    apply subset_spec. intros k Hk. unfold all_classes in Hk. apply in_map_iff in Hk. destruct Hk as ([c i] & <- & Hr).
    apply all_vrefs_from_In in Hr. rewrite Nat.sub_0_r in Hr. cbn in Hr.
    assert (Hrange : in_range s (c, i) = true) by (apply in_range_intro; [lia|apply Hr]).
    pose proof (Hcov (c, i) Hrange) as Hc. cbn in Hc. specialize (Hc (proj2 (proj1 Hr))).
    apply in_map_iff in Hc. destruct Hc as (iv & Hc1 & Hc2).
    apply in_app_iff. fold X. destruct (has_atype iv) eqn:Ha.
    + right. apply (Permutation_in _ (Permutation_sym HpX)). rewrite <- Hc1. apply in_map. apply filter_In. split; assumption.
    + left. apply In_nth with (d := divar) in Hc2. destruct Hc2 as (p & Hp & <-).
      destruct (Hvc p Hp (Hvoi_type p Hp Ha)) as (v & -> & Hv). left. unfold geti in Hv. congruence.
  - (* the variables listed are variables of the model *)
    rewrite forallb_forall. intros a Ha.
    assert (Hin : In a (map snd avs)) by (apply (Permutation_in _ Hperm); exact Ha).
    apply in_map_iff in Hin. destruct Hin as (x & <- & Hx).
    destruct (Forall2_In_r _ _ _ _ Hrel Hx) as (v & Hv & (R1 & R2)).
    rewrite Forall_forall in Hsub. destruct (Hsub v Hv) as (K1 & K2 & K3).
    rewrite R1, K1. cbn [andb]. destruct R2 as [->| ->]; [reflexivity|].
    destruct (iv_initvar v) as [i|] eqn:Ei; [|reflexivity].
    destruct (K3 i eq_refl) as (J1 & J2 & J3). rewrite J1, J3, J2, K2, Nat.eqb_refl. reflexivity.
  - destruct voi as [v|]; [apply (Hvd v eq_refl)|reflexivity].
Qed.

Lemma wf_classes_finish : forall s voi ivs es vidx,
  iv_inv s voi ivs -> Forall (eq_inv ivs) es ->
  valid_type (r_type (finish s voi ivs es vidx)) = true -> wf_classes s (finish s voi ivs es vidx) = true.
Proof.
  intros s voi ivs es vidx Hinv Heq Hvalid. unfold finish in *.
  destruct (validate_vars ivs vidx) as [[ivs1 vidx1] iss1] eqn:Ev.
  destruct (validate_vars_spec s _ _ _ _ _ Ev) as (V1 & V2).
  destruct iss1 as [|i1 ir1].
  2:{ cbn in Hvalid. destruct (existsb _ ivs1); [destruct (existsb _ ivs1)|]; discriminate. }
  pose proof (Forall2_evolves _ _ _ V1) as Hev1. specialize (V2 eq_refl).
  pose proof (iv_inv_evolves _ _ _ _ Hinv Hev1) as Hinv1.
  assert (Hunk : Forall (unk_inv ivs1) (nla_group ivs1 es)).
  { rewrite Forall_forall. intros e' He'.
    destruct (nla_group_core ivs1 es e' (proj2 (proj2 (proj2 (proj2 Hinv1)))) He') as (e & He & Hc).
    rewrite Forall_forall in Heq. pose proof (eq_inv_evolves _ _ _ _ Hev1 (Heq e He)) as (_ & _ & _ & U1 & U2).
    unfold core in Hc. inversion Hc as [[Hc1 Hc2]]. unfold unk_inv. rewrite Hc1, Hc2. split; assumption. }
  destruct (fold_left requalify_step (nla_group ivs1 es) (ivs1, [], [], [])) as [[[ivs2 es2] ov] iss2] eqn:Er.
  destruct iss2 as [|i2 ir2]; [|discriminate].
  destruct (requalify_fold_spec s _ _ _ _ _ _ _ _ Er V2 Hunk) as (R1 & R2).
  pose proof (iv_inv_evolves _ _ _ _ Hinv1 R1) as Hinv2.
  destruct (model_type voi ivs2 es2); try discriminate; apply wf_classes_package; assumption.
Qed.

Lemma eq_ok_eq_inv : forall s ivs e, eq_ok s (length ivs) e -> eq_inv ivs e.
Proof.
  intros s ivs e (_ & B & C & D & E & F). unfold eq_inv. rewrite E, F.
  repeat (split; [assumption|]). split; [constructor|]. intro K. contradiction.
Qed.

(** W1 for every analysis: in a valid result every class appears exactly once. *)
Lemma wf_classes_analyse : forall s r, analyse s = Done r -> valid_type (r_type r) = true -> wf_classes s r = true.
Proof.
  intros s r H Hvalid. unfold analyse, analyse_ext in H.
  destruct (negb (resolvable s)); [discriminate|].
  destruct (build s) as [[ivs0 es0]|] eqn:Eb; [|discriminate].
  destruct (check_inits s ivs0 0 s); [|inversion H; subst; discriminate].
  cbn [fold_left] in H.
  destruct (vs_issues (analyse_asts s ivs0 es0)) eqn:Ei; [|inversion H; subst; discriminate].
  destruct (loop s (loop_fuel es0) 1 false (mkCs (vs_ivs (analyse_asts s ivs0 es0)) 0 0) es0) as [[st es1]|] eqn:El; [|discriminate].
  inversion H; subst r. clear H.
  destruct (build_spec _ _ _ Eb) as (B1 & B2 & B3).
  pose proof (build_fresh _ _ _ Eb) as B4.
  destruct (analyse_asts_inv s ivs0 es0 B1 B3 B4 B2 Ei) as (A1 & A2).
  assert (Heq0 : Forall (eq_inv (vs_ivs (analyse_asts s ivs0 es0))) es0).
  { eapply Forall_impl; [|exact B2]. intros e He. eapply eq_ok_eq_inv. rewrite A2. exact He. }
  destruct (loop_inv _ _ _ _ _ _ _ _ El Heq0) as (L1 & L2). cbn [cs_ivs] in *.
  apply wf_classes_finish; [eapply iv_inv_evolves; eassumption|exact L2|exact Hvalid].
Qed.

(** W2 for every analysis. *)
Lemma wf_indices_analyse : forall s r, analyse s = Done r -> wf_indices r = true.
Proof.
  intros s r H. unfold analyse, analyse_ext in H.
  destruct (negb (resolvable s)); [discriminate|].
  destruct (build s) as [[ivs0 es0]|]; [|discriminate].
  destruct (check_inits s ivs0 0 s); [|inversion H; subst; reflexivity].
  destruct (vs_issues _); [|inversion H; subst; reflexivity].
  match type of H with match ?l with _ => _ end = _ => destruct l as [[st es1]|] end; [|discriminate].
  inversion H; subst. apply wf_indices_finish.
Qed.
