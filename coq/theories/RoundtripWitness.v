(** RoundtripWitness.v — concrete witnesses for property C02: for each hypothesis of [printable] a small model that
    violates only that hypothesis and for which the round trip fails (content lost, changed, an issue raised, or no
    document at all); and non-vacuity examples.  Everything here is closed computation ([vm_compute]) in a concrete
    environment [E0]: numbers are printed as they are, every math string is a single MathML element whose text is the
    string. *)
From Coq Require Import String Ascii List Bool ZArith Arith.
From LC Require Import Common NumDefs XmlDefs EntTreeDefs PrintDefs LoadDefs RoundtripSpec.
Import ListNotations.
Local Open Scope string_scope.
Local Open Scope list_scope.

Definition E0 : env :=
  {| show15 := fun x => x;
     to_double := fun s => Some s;
     show_int := z_to_string;
     norm_math := fun s => Some [Elem MATHML_NS "math" [] [Text s]];
     math_text := fun x => match x with Elem _ _ _ [Text s] => s | _ => "" end |}.

Definition mk_var (n u : string) : variable := {| v_name := n; v_id := ""; v_units := Some u; v_init := ""; v_iface := "" |}.
Definition mk_shell (n : string) (vs : list variable) (rs : list reset) : cshell :=
  {| c_name := n; c_id := ""; c_encid := ""; c_src := None; c_ref := ""; c_math := ""; c_vars := vs; c_resets := rs |}.
Definition mk_model (us : list units) (cs : list component) (es : list eqv) : model :=
  {| m_name := "m"; m_id := ""; m_encid := ""; m_units := us; m_comps := cs; m_eqv := es |}.
Definition mk_units (n : string) (ds : list unitdef) : units := {| u_name := n; u_id := ""; u_src := None; u_ref := ""; u_defs := ds |}.
Definition mk_def (r : string) : unitdef := {| ud_ref := r; ud_prefix := ""; ud_exp := "1"; ud_mult := "1"; ud_id := "" |}.
Definition lib : isrc := {| is_tag := 0; is_url := "lib.cellml"; is_id := "" |}.

(** structural equality of models (order sensitive), for the witnesses *)
Fixpoint list_eqb {A : Type} (eqb : A -> A -> bool) (l l' : list A) : bool :=
  match l, l' with
  | [], [] => true
  | x :: r, y :: r' => eqb x y && list_eqb eqb r r'
  | _, _ => false
  end.
Definition opt_eqb {A : Type} (eqb : A -> A -> bool) (a b : option A) : bool :=
  match a, b with Some x, Some y => eqb x y | None, None => true | _, _ => false end.
Definition isrc_eqb (a b : isrc) : bool := String.eqb (is_url a) (is_url b) && String.eqb (is_id a) (is_id b).
Definition unitdef_eqb (a b : unitdef) : bool :=
  String.eqb (ud_ref a) (ud_ref b) && String.eqb (ud_prefix a) (ud_prefix b) && String.eqb (ud_exp a) (ud_exp b)
  && String.eqb (ud_mult a) (ud_mult b) && String.eqb (ud_id a) (ud_id b).
Definition units_eqb (a b : units) : bool :=
  String.eqb (u_name a) (u_name b) && String.eqb (u_id a) (u_id b) && opt_eqb isrc_eqb (u_src a) (u_src b)
  && String.eqb (u_ref a) (u_ref b) && list_eqb unitdef_eqb (u_defs a) (u_defs b).
Definition variable_eqb (a b : variable) : bool :=
  String.eqb (v_name a) (v_name b) && String.eqb (v_id a) (v_id b) && opt_eqb String.eqb (v_units a) (v_units b)
  && String.eqb (v_init a) (v_init b) && String.eqb (v_iface a) (v_iface b).
Definition vref_eqb (a b : vref) : bool :=
  match a, b with VSame x, VSame y => String.eqb x y | VOther x, VOther y => String.eqb x y | _, _ => false end.
Definition reset_eqb (a b : reset) : bool :=
  String.eqb (r_id a) (r_id b) && opt_eqb Z.eqb (r_order a) (r_order b) && opt_eqb vref_eqb (r_var a) (r_var b)
  && opt_eqb vref_eqb (r_test a) (r_test b) && String.eqb (r_tv a) (r_tv b) && String.eqb (r_tv_id a) (r_tv_id b)
  && String.eqb (r_rv a) (r_rv b) && String.eqb (r_rv_id a) (r_rv_id b).
Definition shell_eqb (a b : cshell) : bool :=
  String.eqb (c_name a) (c_name b) && String.eqb (c_id a) (c_id b) && String.eqb (c_encid a) (c_encid b)
  && opt_eqb isrc_eqb (c_src a) (c_src b) && String.eqb (c_ref a) (c_ref b) && String.eqb (c_math a) (c_math b)
  && list_eqb variable_eqb (c_vars a) (c_vars b) && list_eqb reset_eqb (c_resets a) (c_resets b).
Fixpoint comp_eqb (a b : component) : bool :=
  match a, b with
  | Comp s ks, Comp s' ks' =>
    shell_eqb s s' && (fix go (l l' : list component) : bool :=
                         match l, l' with
                         | [], [] => true
                         | x :: r, y :: r' => comp_eqb x y && go r r'
                         | _, _ => false
                         end) ks ks'
  end.
(* an edge is undirected: the printer writes the variable of the component it meets first as variable_1 *)
Definition eqv_eqb (a b : eqv) : bool :=
  ((vpath_eqb (e_a a) (e_a b) && vpath_eqb (e_b a) (e_b b)) || (vpath_eqb (e_a a) (e_b b) && vpath_eqb (e_b a) (e_a b)))
  && String.eqb (e_mid a) (e_mid b) && String.eqb (e_cid a) (e_cid b).
Definition same_model (a b : model) : bool :=
  String.eqb (m_name a) (m_name b) && String.eqb (m_id a) (m_id b) && String.eqb (m_encid a) (m_encid b)
  && list_eqb units_eqb (m_units a) (m_units b) && list_eqb comp_eqb (m_comps a) (m_comps b)
  && list_eqb eqv_eqb (m_eqv a) (m_eqv b).

Inductive outcome := NoDocument | Issues (n : nat) | ContentDiffers | RoundTrips.

Definition outcome_of (fixed : bool) (m : model) : outcome :=
  match reparse E0 fixed true m with
  | None => NoDocument
  | Some (m', is) => match is with
                     | _ :: _ => Issues (length is)
                     | [] => if same_model m' (canon E0 m) then RoundTrips else ContentDiffers
                     end
  end.

(** a small model that uses every feature and is printable *)
Definition full_model : model :=
  {| m_name := "m&<>"; m_id := "mid"; m_encid := "eid";
     m_units := [ {| u_name := "iu"; u_id := ""; u_src := Some lib; u_ref := "ref_u"; u_defs := [] |};
                  {| u_name := "uu"; u_id := "u1"; u_src := None; u_ref := "";
                     u_defs := [ {| ud_ref := "second"; ud_prefix := "milli"; ud_exp := "-2"; ud_mult := "1000"; ud_id := "d1" |} ] |} ];
     m_comps := [ Comp (mk_shell "lone" [] []) [];
                  Comp {| c_name := "a"; c_id := "ca"; c_encid := "ea"; c_src := None; c_ref := ""; c_math := "x = 1";
                          c_vars := [ {| v_name := "x"; v_id := "vx"; v_units := Some "uu"; v_init := "1 < 2 & 3"; v_iface := "public_and_private" |};
                                      mk_var "y" "second" ];
                          c_resets := [ {| r_id := "r1"; r_order := Some 3%Z; r_var := Some (VSame "x"); r_test := Some (VSame "y");
                                           r_tv := "t"; r_tv_id := "tv1"; r_rv := "r"; r_rv_id := "" |} ] |}
                       [ Comp (mk_shell "b" [mk_var "x" "second"; mk_var "y" "second"] []) [];
                         Comp {| c_name := "imp"; c_id := ""; c_encid := "ei"; c_src := Some lib; c_ref := "ref_c"; c_math := "";
                                 c_vars := [ {| v_name := "p"; v_id := ""; v_units := None; v_init := ""; v_iface := "" |} ]; c_resets := [] |} [] ] ];
     m_eqv := [ {| e_a := ([1], 0); e_b := ([1; 0], 1); e_mid := "map1"; e_cid := "conn" |};
                {| e_a := ([1; 0], 0); e_b := ([1], 1); e_mid := ""; e_cid := "conn" |};
                {| e_a := ([1; 1], 0); e_b := ([1], 0); e_mid := "map3"; e_cid := "" |} ] |}.

Example full_model_printable : printableb E0 true full_model = true.
Proof. vm_compute. reflexivity. Qed.

Example full_model_round_trips : outcome_of true full_model = RoundTrips.
Proof. vm_compute. reflexivity. Qed.

(** with the unrepaired printer the same model gives no document at all (DESIGN.md section 5, row 5) *)
Example full_model_unrepaired : outcome_of false full_model = NoDocument.
Proof. vm_compute. reflexivity. Qed.

(** * one witness per hypothesis of [printable] (repaired printer) *)

(** row 29: a child-less units named like a standard unit is not written *)
Definition w_std_units : model := mk_model [mk_units "second" []; mk_units "uu" [mk_def "second"]] [] [].
(** an encapsulation id where no element can carry it *)
Definition w_leaf_encid : model :=
  mk_model [] [Comp {| c_name := "c"; c_id := ""; c_encid := "e"; c_src := None; c_ref := ""; c_math := ""; c_vars := []; c_resets := [] |} []] [].
Definition w_model_encid : model :=
  {| m_name := "m"; m_id := ""; m_encid := "e"; m_units := []; m_comps := [Comp (mk_shell "c" [] []) []]; m_eqv := [] |}.
(** a reset on a variable of another component *)
Definition w_reset_foreign : model :=
  mk_model [] [Comp (mk_shell "c" [mk_var "x" "second"]
                              [ {| r_id := ""; r_order := Some 1%Z; r_var := Some (VOther "z"); r_test := Some (VSame "x");
                                   r_tv := "t"; r_tv_id := ""; r_rv := "r"; r_rv_id := "" |} ]) [];
               Comp (mk_shell "d" [mk_var "z" "second"] []) []] [].
(** empty and repeated names *)
Definition w_empty_model_name : model := {| m_name := ""; m_id := ""; m_encid := ""; m_units := []; m_comps := []; m_eqv := [] |}.
Definition w_empty_component_name : model := mk_model [] [Comp (mk_shell "" [] []) []] [].
Definition w_empty_variable_name : model := mk_model [] [Comp (mk_shell "c" [mk_var "" "second"] []) []] [].
Definition w_empty_units_name : model := mk_model [mk_units "" [mk_def "second"]] [] [].
Definition w_duplicate_component_name : model :=
  mk_model [] [Comp (mk_shell "a" [] []) [Comp (mk_shell "k" [mk_var "x" "second"] []) []];
               Comp (mk_shell "b" [] []) [Comp (mk_shell "k" [] []) []]] [].
Definition w_duplicate_variable_name : model :=
  mk_model [] [Comp (mk_shell "a" [mk_var "x" "second"; mk_var "x" "metre"] []) []; Comp (mk_shell "b" [mk_var "y" "metre"] []) []]
           [ {| e_a := ([0], 1); e_b := ([1], 0); e_mid := ""; e_cid := "" |} ].
(** a variable without units, or with units that are neither standard nor in the model *)
Definition w_no_units : model :=
  mk_model [] [Comp (mk_shell "c" [ {| v_name := "x"; v_id := ""; v_units := None; v_init := ""; v_iface := "" |} ] []) []] [].
Definition w_unknown_units : model := mk_model [] [Comp (mk_shell "c" [mk_var "x" "nosuch"] []) []] [].
(** numbers that are not finite reals *)
Definition w_inf_exponent : model :=
  mk_model [mk_units "uu" [ {| ud_ref := "second"; ud_prefix := ""; ud_exp := "inf"; ud_mult := "1"; ud_id := "" |} ]] [] [].
(** a prefix that Units::addUnit would never store *)
Definition w_zero_prefix : model :=
  mk_model [mk_units "uu" [ {| ud_ref := "second"; ud_prefix := "0"; ud_exp := "1"; ud_mult := "1"; ud_id := "" |} ]] [] [].
(** imported entities with local content *)
Definition w_imported_units_children : model :=
  mk_model [ {| u_name := "iu"; u_id := ""; u_src := Some lib; u_ref := "r"; u_defs := [mk_def "second"] |} ] [] [].
Definition w_imported_component_variable : model :=
  mk_model [] [Comp {| c_name := "ic"; c_id := ""; c_encid := ""; c_src := Some lib; c_ref := "r"; c_math := "";
                       c_vars := [mk_var "x" "second"]; c_resets := [] |} []] [].
(** a reset without order / without value blocks *)
Definition w_reset_no_order : model :=
  mk_model [] [Comp (mk_shell "c" [mk_var "x" "second"]
                              [ {| r_id := ""; r_order := None; r_var := Some (VSame "x"); r_test := Some (VSame "x");
                                   r_tv := "t"; r_tv_id := ""; r_rv := "r"; r_rv_id := "" |} ]) []] [].
Definition w_reset_no_values : model :=
  mk_model [] [Comp (mk_shell "c" [mk_var "x" "second"]
                              [ {| r_id := ""; r_order := Some 1%Z; r_var := Some (VSame "x"); r_test := Some (VSame "x");
                                   r_tv := ""; r_tv_id := ""; r_rv := ""; r_rv_id := "" |} ]) []] [].
(** a connection of a component to itself; two connection ids between one pair of components *)
Definition w_self_connection : model :=
  mk_model [] [Comp (mk_shell "c" [mk_var "x" "second"; mk_var "y" "second"] []) []]
           [ {| e_a := ([0], 0); e_b := ([0], 1); e_mid := ""; e_cid := "" |} ].
Definition w_two_connection_ids : model :=
  mk_model [] [Comp (mk_shell "a" [mk_var "x" "second"; mk_var "y" "second"] []) [];
               Comp (mk_shell "b" [mk_var "x" "second"; mk_var "y" "second"] []) []]
           [ {| e_a := ([0], 0); e_b := ([1], 0); e_mid := ""; e_cid := "c1" |};
             {| e_a := ([0], 1); e_b := ([1], 1); e_mid := ""; e_cid := "c2" |} ].
(** a control character: not XML character data *)
Definition w_control_character : model := mk_model [] [Comp (mk_shell (String (ascii_of_nat 1) "c") [] []) []] [].
(** crossed variable names between two components: an issue before fix C02-crossed-map-variables *)
Definition w_crossed_names : model :=
  mk_model [] [Comp (mk_shell "a" [mk_var "x" "second"; mk_var "y" "second"] []) [];
               Comp (mk_shell "b" [mk_var "x" "second"; mk_var "y" "second"] []) []]
           [ {| e_a := ([0], 0); e_b := ([1], 1); e_mid := ""; e_cid := "" |};
             {| e_a := ([0], 1); e_b := ([1], 0); e_mid := ""; e_cid := "" |} ].

Definition witnesses : list (string * model) :=
  [ ("std_named_units", w_std_units); ("leaf_encapsulation_id", w_leaf_encid); ("model_encapsulation_id", w_model_encid);
    ("reset_foreign_variable", w_reset_foreign); ("empty_model_name", w_empty_model_name);
    ("empty_component_name", w_empty_component_name); ("empty_variable_name", w_empty_variable_name);
    ("empty_units_name", w_empty_units_name); ("duplicate_component_name", w_duplicate_component_name);
    ("duplicate_variable_name", w_duplicate_variable_name); ("variable_without_units", w_no_units);
    ("variable_unknown_units", w_unknown_units); ("nonfinite_number", w_inf_exponent); ("zero_prefix", w_zero_prefix);
    ("imported_units_children", w_imported_units_children); ("imported_component_variable", w_imported_component_variable);
    ("reset_no_order", w_reset_no_order); ("reset_no_values", w_reset_no_values); ("self_connection", w_self_connection);
    ("two_connection_ids", w_two_connection_ids); ("control_character", w_control_character) ].

Definition is_round_trip (o : outcome) : bool := match o with RoundTrips => true | _ => false end.

(** every witness is outside [printable] and its round trip fails *)
Theorem witnesses_fail :
  forallb (fun p => negb (printableb E0 true (snd p)) && negb (is_round_trip (outcome_of true (snd p)))) witnesses = true.
Proof. vm_compute. reflexivity. Qed.

(** crossed variable names: refused by the pinned parser, accepted by the repaired one *)
Theorem crossed_names_outcomes :
  outcome_of false w_crossed_names = Issues 1 /\ outcome_of true w_crossed_names = RoundTrips
  /\ printableb E0 false w_crossed_names = false /\ printableb E0 true w_crossed_names = true.
Proof. vm_compute. repeat split; reflexivity. Qed.

(** the unrepaired printer (DESIGN.md section 5, row 5): attribute text with XML special characters *)
Definition w_initial_value (s : string) : model :=
  mk_model [] [Comp (mk_shell "c" [ {| v_name := "v"; v_id := ""; v_units := Some "second"; v_init := s; v_iface := "" |} ] []) []] [].
Definition w_href (s : string) : model :=
  mk_model [] [Comp {| c_name := "c"; c_id := ""; c_encid := ""; c_src := Some {| is_tag := 0; is_url := s; is_id := "" |};
                       c_ref := "r"; c_math := ""; c_vars := []; c_resets := [] |} []] [].

Theorem unrepaired_printer_outcomes :
  outcome_of false (w_initial_value "a<b") = NoDocument /\ outcome_of false (w_href "m?a=1&b=2") = NoDocument
  /\ outcome_of false (w_initial_value "a&amp;b") = ContentDiffers
  /\ outcome_of false (w_initial_value (String (ascii_of_nat 9) "x")) = ContentDiffers
  /\ outcome_of true (w_initial_value "a<b") = RoundTrips /\ outcome_of true (w_href "m?a=1&b=2") = RoundTrips
  /\ outcome_of true (w_initial_value "a&amp;b") = RoundTrips
  /\ outcome_of true (w_initial_value (String (ascii_of_nat 9) "x")) = RoundTrips.
Proof. vm_compute. repeat split; reflexivity. Qed.
