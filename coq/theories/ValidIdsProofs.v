(** ValidIdsProofs.v — C04 proofs: the repair "count the id of an ImportSource object once" (fixes.fx_isrc_once) only
    matters when an import source that carries an id is shared by several imported entities. *)
From Coq Require Import String Ascii List Bool Arith Lia.
From LC Require Import Common NumDefs MathDefs ValidDefs ValidSpec ValidLeaf ValidCompProofs.
Import ListNotations.
Local Open Scope string_scope.
Local Open Scope list_scope.
Local Open Scope nat_scope.

(** the tags of the id-carrying import sources of a sequence *)
Definition id_tags (l : list isrc) : list nat := map is_tag (filter (fun s => nonempty (is_id s)) l).

(** no import source that carries an id serves more than one imported entity of the model *)
Definition no_shared_isrc_id (m : model) : Prop := NoDup (id_tags (isrcs_of_model m)).

(** the accumulator has not yet met any of the id-carrying import sources still to come, and those are distinct *)
Definition fresh (a : idacc) (l : list isrc) : Prop :=
  NoDup (id_tags l) /\ (forall t, In t (id_tags l) -> ~ In t (ia_isrcs a)).

Lemma id_tags_app : forall a b, id_tags (a ++ b) = id_tags a ++ id_tags b.
Proof. intros. unfold id_tags. rewrite filter_app, map_app. reflexivity. Qed.

Lemma fresh_same_isrcs : forall a b l, ia_isrcs a = ia_isrcs b -> fresh a l -> fresh b l.
Proof. intros a b l H [H1 H2]. split; [exact H1|]. rewrite <- H. exact H2. Qed.

Lemma id_isrc_step : forall a s l, fresh a (s :: l) ->
  id_isrc true a s = id_isrc false a s /\ fresh (id_isrc false a s) l.
Proof.
  intros a s l [Hnd Hd]. unfold id_isrc, id_tags in *. cbn [filter] in *. unfold nonempty in *.
  destruct (str_is_empty (is_id s)) eqn:E; cbn [negb] in *.
  - split; [reflexivity|]. split; assumption.
  - cbn [map] in *. cbn [andb]. inversion Hnd; subst.
    assert (Hn : existsb (Nat.eqb (is_tag s)) (ia_isrcs a) = false).
    { apply not_true_is_false. intro H. apply existsb_exists in H. destruct H as [t [Ht Heq]]. apply Nat.eqb_eq in Heq. subst t.
      apply (Hd (is_tag s)); [left; reflexivity | exact Ht]. }
    rewrite Hn. split; [reflexivity|]. split; [exact H2|]. cbn [ia_isrcs]. intros t Ht Hin. apply in_app_or in Hin.
    destruct Hin as [Hin|[Hin|[]]]; [apply (Hd t); [right; exact Ht | exact Hin] | subst t; contradiction].
Qed.

Section Once.
  Variables a0 b0 d0 : bool.
  Let fxT := mkFx a0 b0 true d0.
  Let fxF := mkFx a0 b0 false d0.
  Variable L : list vloc.

  Lemma equiv_isrcs : forall c v es a, ia_isrcs (fold_left (id_equiv fxF L c v) es a) = ia_isrcs a.
  Proof.
    intros c v es. induction es as [|e r IH]; intro a; [reflexivity|]. cbn [fold_left]. rewrite IH.
    unfold id_equiv. destruct (lookup_var L (e_to e)); [|reflexivity]. cbv zeta.
    repeat match goal with |- context [if ?b then _ else _] => destruct b end; reflexivity.
  Qed.

  Definition own_isrcs (c : cinfo) : list isrc := match c_imp c with Some (s, _) => [s] | None => [] end.

  Lemma own_step : forall c a l, fresh a (own_isrcs c ++ l) ->
    id_comp_own fxT L c a = id_comp_own fxF L c a /\ fresh (id_comp_own fxF L c a) l.
  Proof.
    intros c a l Hf. unfold id_comp_own. cbv zeta.
    set (a4 := id_add (fold_left (fun a r => id_add a (opt_id (r_id r) ++ opt_id (r_tv_id r) ++ maths_ids (r_tv r) ++ opt_id (r_rv_id r) ++ maths_ids (r_rv r)))
                                 (c_resets c)
                                 (fold_left (fun a v => fold_left (id_equiv fxF L c v) (v_eqs v) (id_add a (opt_id (v_id v)))) (c_vars c)
                                            (id_add a (opt_id (c_id c))))) (maths_ids (c_math c))).
    change (fold_left (fun a v => fold_left (id_equiv fxT L c v) (v_eqs v) (id_add a (opt_id (v_id v)))) (c_vars c) (id_add a (opt_id (c_id c))))
      with (fold_left (fun a v => fold_left (id_equiv fxF L c v) (v_eqs v) (id_add a (opt_id (v_id v)))) (c_vars c) (id_add a (opt_id (c_id c)))).
    fold a4.
    assert (H4 : ia_isrcs a4 = ia_isrcs a).
    { unfold a4. cbn [id_add ia_isrcs].
      assert (Hr : forall rs x, ia_isrcs (fold_left (fun a r => id_add a (opt_id (r_id r) ++ opt_id (r_tv_id r) ++ maths_ids (r_tv r) ++ opt_id (r_rv_id r) ++ maths_ids (r_rv r))) rs x) = ia_isrcs x).
      { induction rs as [|r rs IH]; intro x; [reflexivity|]. cbn [fold_left]. rewrite IH. reflexivity. }
      rewrite Hr.
      assert (Hv : forall vs x, ia_isrcs (fold_left (fun a v => fold_left (id_equiv fxF L c v) (v_eqs v) (id_add a (opt_id (v_id v)))) vs x) = ia_isrcs x).
      { induction vs as [|v vs IH]; intro x; [reflexivity|]. cbn [fold_left]. rewrite IH, equiv_isrcs. reflexivity. }
      rewrite Hv. reflexivity. }
    unfold own_isrcs in Hf. cbn [fx_isrc_once fxT fxF]. destruct (c_imp c) as [[s r]|].
    - cbn [app] in Hf. destruct (id_isrc_step a4 s l (fresh_same_isrcs a a4 _ (eq_sym H4) Hf)) as [E F]. rewrite E.
      split; [reflexivity|]. destruct (nonempty (c_encid c)); [|exact F]. apply (fresh_same_isrcs (id_isrc false a4 s)); [reflexivity | exact F].
    - cbn [app] in Hf. split; [reflexivity|]. pose proof (fresh_same_isrcs a a4 _ (eq_sym H4) Hf) as F.
      destruct (nonempty (c_encid c)); [|exact F]. apply (fresh_same_isrcs a4); [reflexivity | exact F].
  Qed.

  Definition tree_isrcs (c : comp) : list isrc := flat_map (fun k => own_isrcs (c_info k)) (comp_all c).

  Fixpoint id_comp_list (fx : fixes) (ks : list comp) (a : idacc) : idacc :=
    match ks with [] => a | k :: r => id_comp_list fx r (id_comp fx L a k) end.

  Lemma id_comp_unfold : forall fx a i kids, id_comp fx L a (Comp i kids) = id_comp_list fx kids (id_comp_own fx L i a).
  Proof.
    intros. cbn [id_comp]. generalize (id_comp_own fx L i a). induction kids as [|k r IH]; intro x; [reflexivity|].
    cbn [id_comp_list]. rewrite <- IH. reflexivity.
  Qed.

  Lemma list_step : forall ks,
    Forall (fun c => forall a l, fresh a (tree_isrcs c ++ l) -> id_comp fxT L a c = id_comp fxF L a c /\ fresh (id_comp fxF L a c) l) ks ->
    forall a l, fresh a (flat_map tree_isrcs ks ++ l) ->
      id_comp_list fxT ks a = id_comp_list fxF ks a /\ fresh (id_comp_list fxF ks a) l.
  Proof.
    intros ks HF. induction HF as [|k r Hk Hr IH]; intros a l Hf; [split; [reflexivity | exact Hf]|].
    cbn [flat_map id_comp_list] in *. rewrite <- app_assoc in Hf. destruct (Hk a _ Hf) as [E F]. rewrite E. apply IH. exact F.
  Qed.

  Lemma tree_step : forall c a l, fresh a (tree_isrcs c ++ l) ->
    id_comp fxT L a c = id_comp fxF L a c /\ fresh (id_comp fxF L a c) l.
  Proof.
    induction c as [i kids IH] using comp_ind2. intros a l Hf. rewrite !id_comp_unfold.
    assert (Ht : tree_isrcs (Comp i kids) = own_isrcs i ++ flat_map tree_isrcs kids).
    { unfold tree_isrcs. rewrite comp_all_unfold. cbn [flat_map c_info]. f_equal.
      clear. induction kids as [|k r IHr]; [reflexivity|]. cbn [flat_map]. rewrite flat_map_app, IHr. reflexivity. }
    rewrite Ht, <- app_assoc in Hf. destruct (own_step i a _ Hf) as [E F]. rewrite E. apply (list_step kids IH). exact F.
  Qed.
End Once.

Lemma isrcs_of_model_split : forall m,
  isrcs_of_model m = flat_map (fun u => match u_imp u with Some (s, _) => [s] | None => [] end) (m_units m)
                     ++ flat_map tree_isrcs (m_comps m).
Proof.
  intro m. unfold isrcs_of_model. f_equal. unfold model_comps, tree_isrcs, own_isrcs.
  induction (m_comps m) as [|c r IH]; [reflexivity|]. cbn [flat_map]. rewrite flat_map_app, IH. reflexivity.
Qed.

Definition ustep (o : bool) (a : idacc) (u : units) : idacc :=
  match u_imp u with
  | Some (s, _) => id_isrc o (id_add a (opt_id (u_id u) ++ flat_map (fun it => opt_id (ui_id it)) (u_items u))) s
  | None => id_add a (opt_id (u_id u) ++ flat_map (fun it => opt_id (ui_id it)) (u_items u))
  end.
Definition enc_step (m : model) (a1 : idacc) : idacc :=
  if nonempty (m_encid m)
  then mkIA (ia_ids a1 ++ [m_encid m]) (ia_issues a1 ++ (if is_xml_name (m_encid m) then [] else [V_XML_ID_ATTRIBUTE]))
            (ia_conns a1) (ia_isrcs a1)
  else a1.

Lemma model_idacc_unfold : forall fx m,
  model_idacc fx m = fold_left (id_comp fx (model_locs m)) (m_comps m)
                       (enc_step m (fold_left (ustep (fx_isrc_once fx)) (m_units m) (mkIA (opt_id (m_id m)) [] [] []))).
Proof. reflexivity. Qed.

Definition units_isrcs (us : list units) : list isrc :=
  flat_map (fun u => match u_imp u with Some (s, _) => [s] | None => [] end) us.

Lemma ustep_step : forall u acc l, fresh acc (units_isrcs [u] ++ l) ->
  ustep true acc u = ustep false acc u /\ fresh (ustep false acc u) l.
Proof.
  intros u acc l Hf. unfold units_isrcs in Hf. cbn [flat_map] in Hf. rewrite app_nil_r in Hf. unfold ustep.
  destruct (u_imp u) as [[s ref]|]; cbn [app] in Hf.
  - apply id_isrc_step. apply (fresh_same_isrcs acc); [reflexivity | exact Hf].
  - split; [reflexivity|]. apply (fresh_same_isrcs acc); [reflexivity | exact Hf].
Qed.

Lemma units_step : forall us acc l, fresh acc (units_isrcs us ++ l) ->
  fold_left (ustep true) us acc = fold_left (ustep false) us acc /\ fresh (fold_left (ustep false) us acc) l.
Proof.
  induction us as [|u r IH]; intros acc l Hf; [split; [reflexivity | exact Hf]|]. cbn [fold_left].
  assert (Hs : units_isrcs (u :: r) = units_isrcs [u] ++ units_isrcs r).
  { unfold units_isrcs. cbn [flat_map]. rewrite app_nil_r. reflexivity. }
  rewrite Hs, <- app_assoc in Hf. destruct (ustep_step u acc _ Hf) as [E F]. rewrite E. apply IH. exact F.
Qed.

(** with no shared id-carrying import source the id pass is the same with and without the repair *)
Theorem isrc_once_irrelevant : forall a b d m, no_shared_isrc_id m ->
  model_idacc (mkFx a b true d) m = model_idacc (mkFx a b false d) m.
Proof.
  intros a0 b0 d0 m H. unfold no_shared_isrc_id in H. rewrite isrcs_of_model_split in H. rewrite !model_idacc_unfold.
  cbn [fx_isrc_once]. fold (units_isrcs (m_units m)) in H.
  assert (H0 : fresh (mkIA (opt_id (m_id m)) [] [] []) (units_isrcs (m_units m) ++ flat_map tree_isrcs (m_comps m))).
  { split; [exact H | intros t _ []]. }
  destruct (units_step (m_units m) _ _ H0) as [E F]. rewrite E. clear E H0.
  set (a1 := fold_left (ustep false) (m_units m) _) in *.
  assert (F2 : fresh (enc_step m a1) (flat_map tree_isrcs (m_comps m) ++ [])).
  { rewrite app_nil_r. unfold enc_step. destruct (nonempty (m_encid m)); [apply (fresh_same_isrcs a1); [reflexivity | exact F] | exact F]. }
  generalize dependent (enc_step m a1). clear F a1 H.
  induction (m_comps m) as [|c r IH]; intros a2 F2; [reflexivity|]. cbn [fold_left flat_map] in *.
  rewrite <- app_assoc in F2. destruct (tree_step a0 b0 d0 (model_locs m) c a2 _ F2) as [E F]. rewrite E. apply IH. exact F.
Qed.

(** hence the whole validator is the same with and without that repair on such models *)
Theorem validate_isrc_once_irrelevant : forall a b d ueq early W, no_shared_isrc_id (model_at W 0) ->
  validate (mkFx a b false d) ueq early W = validate (mkFx a b true d) ueq early W.
Proof.
  intros a b d ueq early W H. unfold validate, validate_raw, check_unique_ids. cbv zeta. cbn [fx_math_qual fx_reset_set].
  rewrite (isrc_once_irrelevant a b d _ H). reflexivity.
Qed.
