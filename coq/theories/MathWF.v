(** MathWF.v — the contract holds on the generators' grammar: WellFormedMath x -> val_math x = [] /\ ana x <> None. *)
From Coq Require Import String Ascii List Bool Arith ZArith Lia.
From LC Require Import Common NumDefs NumPosDefs MathDefs MathSpec.
From LCGen Require Import MathTables AstTypes.
Import ListNotations.
Local Open Scope string_scope.
Local Open Scope list_scope.
Local Open Scope nat_scope.

Lemma wf_mathml : forall a, WFExpr a -> is_mathml a = true.
Proof. destruct 1; reflexivity. Qed.

Ltac in_cases H := repeat (destruct H as [<-|H]); [..|destruct H].

Section Flags.
(** every lemma below holds for every value of the repair switches *)
Variables (cf df : bool) (F : afix).

(* ------------------------------------------------------------------------------------------------ pass 1 *)

Lemma sup_el : forall n attrs kids,
  val_supported (Elem MATHML_NS n attrs kids) =
  (if in_list n supported_mathml_elements then [] else [R_MATH_CHILD]) ++ flat_map val_supported kids.
Proof.
  intros. cbn [val_supported is_supported]. rewrite String.eqb_refl. reflexivity.
Qed.

Lemma sup_ops : forall op, In op (ops1 ++ ops2 ++ ops3 ++ constants) -> val_supported (m_leaf op) = [].
Proof. intros op H. in_cases H; reflexivity. Qed.

Lemma wf_supported : forall a, WFExpr a -> val_supported a = [].
Proof.
  induction 1; unfold m_ci, m_cn, m_cn_e, m_apply, m_el in *;
    repeat (first [rewrite sup_el | progress cbn [flat_map app]
                  | match goal with H : val_supported _ = [] |- _ => rewrite H end]);
    try reflexivity.
  - apply sup_ops. apply in_or_app. right. apply in_or_app. right. apply in_or_app. now right.
  - change (Elem MATHML_NS op [] []) with (m_leaf op). rewrite sup_ops; [reflexivity|]. apply in_or_app. now left.
  - change (Elem MATHML_NS op [] []) with (m_leaf op). rewrite sup_ops; [reflexivity|].
    apply in_or_app. right. apply in_or_app. now left.
  - change (Elem MATHML_NS op [] []) with (m_leaf op). rewrite sup_ops; [reflexivity|].
    apply in_or_app. right. apply in_or_app. right. apply in_or_app. now left.
Qed.

(* ------------------------------------------------------------------------------------------------ pass 2 *)

Lemma cicn_el : forall vars units n attrs kids,
  val_cicn_gen cf vars units (Elem MATHML_NS n attrs kids) =
  (if (n =? "cn")%string then val_cn_units units attrs
   else if (n =? "ci")%string then val_ci_name_gen cf vars kids else [])
  ++ flat_map (val_cicn_gen cf vars units) kids.
Proof.
  intros. cbn [val_cicn_gen is_mathml_el]. rewrite String.eqb_refl. reflexivity.
Qed.

Lemma cicn_ops : forall op, In op (ops1 ++ ops2 ++ ops3 ++ constants) -> val_cicn_gen cf std_vars std_units (m_leaf op) = [].
Proof. intros op H. in_cases H; reflexivity. Qed.

Lemma cicn_ci : forall v, In v std_vars -> val_cicn_gen cf std_vars std_units (m_ci v) = [].
Proof. intros v H. destruct cf; in_cases H; reflexivity. Qed.

Lemma wf_cicn : forall a, WFExpr a -> val_cicn_gen cf std_vars std_units a = [].
Proof.
  induction 1; try (now apply cicn_ci);
    unfold m_cn, m_cn_e, m_apply, m_el in *;
    repeat (first [rewrite cicn_el | progress cbn [flat_map app String.eqb Ascii.eqb Bool.eqb]
                  | match goal with H : val_cicn_gen _ _ _ _ = [] |- _ => rewrite H end]);
    try reflexivity.
  - apply cicn_ops. apply in_or_app. right. apply in_or_app. right. apply in_or_app. now right.
  - change (Elem MATHML_NS op [] []) with (m_leaf op). rewrite cicn_ops; [reflexivity|]. apply in_or_app. now left.
  - change (Elem MATHML_NS op [] []) with (m_leaf op). rewrite cicn_ops; [reflexivity|].
    apply in_or_app. right. apply in_or_app. now left.
  - change (Elem MATHML_NS op [] []) with (m_leaf op). rewrite cicn_ops; [reflexivity|].
    apply in_or_app. right. apply in_or_app. right. apply in_or_app. now left.
Qed.

(* ------------------------------------------------------------------------------------------------ pass 4 *)

Lemma struct_sub : forall q fx mk kids i,
  (fix go (ks : list xml) (i : nat) {struct ks} : list rule :=
     match ks with
     | [] => []
     | k :: r => if is_mathml k then val_struct_d df q fx mk i k ++ go r (S i) else go r i
     end) kids i = val_struct_kids_d df q fx mk kids i.
Proof.
  intros q fx mk kids. induction kids as [|k r IH]; intro i; [reflexivity|].
  cbn [val_struct_kids_d]. destruct (is_mathml k); now rewrite IH.
Qed.

Lemma struct_el : forall q fx pk idx n attrs kids,
  val_struct_d df q fx pk idx (Elem MATHML_NS n attrs kids) =
  dwrap df pk n (qwrap q n (val_node fx pk idx n attrs kids (val_struct_kids_d df q fx (mkids kids) kids 0))
                        (val_struct_kids_d df q fx (mkids kids) kids 0)).
Proof.
  intros. cbn [val_struct_d]. rewrite String.eqb_refl. cbn [negb]. now rewrite struct_sub.
Qed.

Lemma dwrap_nd : forall pk n r, (n =? "diff")%string = false -> dwrap df pk n r = r.
Proof. intros pk n r H. unfold dwrap. rewrite H. now rewrite Bool.andb_false_r. Qed.
Lemma qwrap_nq : forall q n r sub, is_qualifier n = false -> qwrap q n r sub = r.
Proof. intros q n r sub H. unfold qwrap. rewrite H. now rewrite Bool.andb_false_r. Qed.
Lemma qwrap_nil : forall q n sub, sub = [] -> qwrap q n [] sub = [].
Proof. intros q n sub ->. unfold qwrap. now destruct (q && is_qualifier n). Qed.

Lemma visible_single : forall x, visible [x] = [x].
Proof. intro x. unfold visible. cbn. now destruct (is_blank_text x). Qed.

Lemma basic_real_not_blank : forall m, is_basic_real (strip m) = true -> is_blank_text (Text m) = false.
Proof.
  intros m H. cbn. destruct (str_is_empty (strip m)) eqn:E; [|reflexivity].
  destruct (strip m); [discriminate H|discriminate E].
Qed.

Lemma struct_leaf1 : forall q fx op a, In op ops1 -> val_struct_d df q fx [m_leaf op; a] 0 (m_leaf op) = [].
Proof. intros q fx op a H. destruct df, q, fx; in_cases H; reflexivity. Qed.
Lemma struct_leaf2 : forall q fx op a b, In op ops2 -> val_struct_d df q fx [m_leaf op; a; b] 0 (m_leaf op) = [].
Proof. intros q fx op a b H. destruct df, q, fx; in_cases H; reflexivity. Qed.
Lemma struct_leaf3 : forall q fx op a b c, In op ops3 -> val_struct_d df q fx [m_leaf op; a; b; c] 0 (m_leaf op) = [].
Proof. intros q fx op a b c H. destruct df, q, fx; in_cases H; reflexivity. Qed.
Lemma struct_const : forall q fx c pk idx, In c constants -> val_struct_d df q fx pk idx (m_leaf c) = [].
Proof. intros q fx c pk idx H. destruct df, q; in_cases H; reflexivity. Qed.
Lemma struct_ci : forall q fx v pk idx, In v std_vars -> val_struct_d df q fx pk idx (m_ci v) = [].
Proof. intros q fx v pk idx H. destruct df, q; in_cases H; reflexivity. Qed.

Ltac mathml_facts :=
  repeat match goal with
         | H : WFExpr ?a |- _ =>
             lazymatch goal with
             | _ : is_mathml a = true |- _ => fail
             | _ => pose proof (wf_mathml a H)
             end
         end.

Lemma node_apply : forall fx pk idx kids sub, 1 <= length (mkids kids) -> val_node fx pk idx "apply" [] kids sub = sub.
Proof.
  intros. unfold val_node. change (vclass_of "apply") with VApply. cbn beta iota.
  apply Nat.leb_le in H. now rewrite H.
Qed.
Lemma node_piecewise : forall fx pk idx kids sub, val_node fx pk idx "piecewise" [] kids sub = sub.
Proof. reflexivity. Qed.
Lemma node_piece : forall fx pk idx kids sub, length (mkids kids) = 2 -> val_node fx pk idx "piece" [] kids sub = sub.
Proof. intros. unfold val_node. change (vclass_of "piece") with VPiece. cbn beta iota. now rewrite H. Qed.
Lemma node_otherwise : forall fx pk idx kids sub, length (mkids kids) = 1 -> val_node fx pk idx "otherwise" [] kids sub = sub.
Proof. intros. unfold val_node. change (vclass_of "otherwise") with VOtherwise. cbn beta iota. now rewrite H. Qed.
Lemma node_degree : forall fx a d kids sub, length (mkids kids) = 1 ->
  val_node fx [m_leaf "root"; d; a] 1 "degree" [] kids sub = [].
Proof. intros. unfold val_node. change (vclass_of "degree") with VDegree. cbn. now rewrite H. Qed.
Lemma node_logbase : forall fx a d kids sub, length (mkids kids) = 1 ->
  val_node fx [m_leaf "log"; d; a] 1 "logbase" [] kids sub = [].
Proof. intros. unfold val_node. change (vclass_of "logbase") with VLogbase. cbn. now rewrite H. Qed.

Ltac solve_len :=
  cbn [mkids filter is_mathml m_leaf m_el]; rewrite ?String.eqb_refl;
  repeat match goal with H : is_mathml ?a = true |- context [is_mathml ?a] => rewrite H end;
  cbn [length]; first [reflexivity | lia].

Ltac struct_step :=
  repeat (first [ rewrite struct_el
                | rewrite String.eqb_refl
                | match goal with H : is_mathml ?a = true |- context [is_mathml ?a] => rewrite H end
                | match goal with H : forall pk idx, val_struct_d _ _ _ pk idx ?a = [] |- context [val_struct_d _ _ _ _ _ ?a] => rewrite H end
                | progress cbn [val_struct_kids_d mkids filter app is_mathml m_leaf m_el length]
                | rewrite dwrap_nd by reflexivity
                | rewrite qwrap_nq by reflexivity
                | rewrite qwrap_nil by reflexivity
                | rewrite node_apply by solve_len
                | rewrite node_piecewise
                | rewrite node_piece by solve_len
                | rewrite node_otherwise by solve_len
                | rewrite node_degree by solve_len
                | rewrite node_logbase by solve_len ]).

Lemma wf_struct : forall q fx a, WFExpr a -> forall pk idx, val_struct_d df q fx pk idx a = [].
Proof.
  intros q fx. induction 1; intros pk idx; mathml_facts.
  - now apply struct_ci.
  - unfold m_cn. rewrite struct_el, dwrap_nd, qwrap_nq by reflexivity. unfold val_node. cbn [vclass_of in_list existsb String.eqb Ascii.eqb Bool.eqb orb].
    unfold val_cn_struct, non_comment_kids. rewrite visible_single. cbn. unfold node_is_basic_real, stripped. cbn [xml_to_string].
    now rewrite H.
  - unfold m_cn_e. rewrite struct_el, dwrap_nd, qwrap_nq by reflexivity. unfold val_node. cbn [vclass_of in_list existsb String.eqb Ascii.eqb Bool.eqb orb].
    unfold val_cn_struct, non_comment_kids, visible. cbn [first_child]. rewrite (basic_real_not_blank m H).
    cbn. unfold node_is_basic_real, stripped. cbn [xml_to_string]. rewrite H. cbn.
    now rewrite H0.
  - now apply struct_const.
  - unfold m_apply. unfold m_el at 1. struct_step.
    change (Elem MATHML_NS op [] []) with (m_leaf op). rewrite struct_leaf1 by assumption. reflexivity.
  - unfold m_apply. unfold m_el at 1. struct_step.
    change (Elem MATHML_NS op [] []) with (m_leaf op). rewrite struct_leaf2 by assumption. reflexivity.
  - unfold m_apply. unfold m_el at 1. struct_step.
    change (Elem MATHML_NS op [] []) with (m_leaf op). rewrite struct_leaf3 by assumption. reflexivity.
  - unfold m_apply. unfold m_el. struct_step. destruct df, q, fx; reflexivity.
  - unfold m_apply. unfold m_el. struct_step. destruct df, q, fx; reflexivity.
  - unfold m_el. struct_step. reflexivity.
  - unfold m_el. struct_step. reflexivity.
  - unfold m_el. struct_step. reflexivity.
Qed.

(* ------------------------------------------------------------------------------------------------ the analyser on the grammar *)

Lemma ana_node_unfold : forall vars parent gp n attrs kids into,
  ana_node F vars parent gp (Elem MATHML_NS n attrs kids) into =
  ana_body F vars gp n kids
    (konts (fun k slot => ana_node F vars (Elem MATHML_NS n attrs kids) (is_mathml_el "math" parent) k slot) kids)
    (get into).
Proof.
  intros. cbn [ana_node]. rewrite String.eqb_refl. cbn [negb]. f_equal.
  set (x := Elem MATHML_NS n attrs kids). clearbody x.
  induction kids as [|k r IH]; [reflexivity|].
  cbn [konts]. destruct (is_mathml k); now rewrite IH.
Qed.

Definition all_ops : list string := ops1 ++ ops2 ++ ops3 ++ constants.

(** the AST an operator / constant leaf turns a fresh slot into *)
Definition leaf_ast (gp : bool) (op : string) : ast :=
  match ana_body F std_vars gp op [] [] ast_new with Ok r => r | Crash _ => ast_new end.

Lemma ana_leaf : forall op, In op all_ops -> forall parent gp into, get into = ast_new ->
  ana_node F std_vars parent gp (m_leaf op) into = Ok (leaf_ast gp op).
Proof.
  intros op H parent gp into Hi. unfold m_leaf, m_el. rewrite ana_node_unfold, Hi. cbn [konts].
  destruct gp; in_cases H; reflexivity.
Qed.

Definition ok1 (t : ty) : bool := match gclass_of t with GUnary | GOneOrTwo | GRootLike => true | _ => false end.
Definition ok2 (t : ty) : bool := match gclass_of t with GBinary | GOneOrTwo => true | _ => false end.
Definition bare (a : ast) : bool :=
  match a with Ast t "" None None None => negb (ty_beq t DIFF) | _ => false end.

Lemma leaf1 : forall op gp, In op ops1 -> bare (leaf_ast gp op) = true /\ ok1 (ast_ty (leaf_ast gp op)) = true.
Proof. intros op gp H. destruct gp; in_cases H; split; reflexivity. Qed.
Lemma leaf2 : forall op gp, In op ops2 -> bare (leaf_ast gp op) = true /\ ok2 (ast_ty (leaf_ast gp op)) = true.
Proof. intros op gp H. destruct gp; in_cases H; split; reflexivity. Qed.
Lemma leaf3 : forall op gp, In op ops3 -> bare (leaf_ast gp op) = true /\ ok2 (ast_ty (leaf_ast gp op)) = true.
Proof. intros op gp H. destruct gp; in_cases H; split; reflexivity. Qed.
Lemma leaf_const : forall c gp, In c constants ->
  printable true (leaf_ast gp c) = true /\ ast_ty (leaf_ast gp c) <> DIFF.
Proof. intros c gp H. destruct gp; in_cases H; split; (reflexivity || discriminate). Qed.

Lemma bare_inv : forall a, bare a = true -> exists t, a = Ast t "" None None None /\ t <> DIFF.
Proof.
  intros [t v x l r] H. cbn in H. destruct v; [|discriminate]. destruct x; [discriminate|].
  destruct l; [discriminate|]. destruct r; [discriminate|].
  exists t. split; [reflexivity|]. intro E. subst t. discriminate.
Qed.

Definition good (r : ast) : Prop := printable true r = true /\ ast_ty r <> DIFF.

Lemma first_child_single : forall x, first_child [x] = Some [x].
Proof. intro x. cbn. now destruct (is_blank_text x). Qed.

Ltac use_ih :=
  match goal with
  | IH : forall parent gp into, get into = ast_new -> exists r, ana_node F std_vars parent gp ?a into = Ok r /\ good r
    |- context [ana_node F std_vars ?p ?g ?a ?s] =>
      let r := fresh "r" in let E := fresh "E" in let G := fresh "G" in
      destruct (IH p g s eq_refl) as (r & E & G); rewrite E; clear E
  end.

Ltac use_leaf :=
  match goal with
  | |- context [ana_node F std_vars ?p ?g (m_leaf ?op) ?s] =>
      rewrite (ana_leaf op) by (first [assumption | unfold all_ops; auto using in_or_app | reflexivity])
  end.

Lemma in_all1 : forall op, In op ops1 -> In op all_ops.
Proof. intros. unfold all_ops. apply in_or_app. now left. Qed.
Lemma in_all2 : forall op, In op ops2 -> In op all_ops.
Proof. intros. unfold all_ops. apply in_or_app. right. apply in_or_app. now left. Qed.
Lemma in_all3 : forall op, In op ops3 -> In op all_ops.
Proof. intros. unfold all_ops. apply in_or_app. right. apply in_or_app. right. apply in_or_app. now left. Qed.
Lemma in_allc : forall op, In op constants -> In op all_ops.
Proof. intros. unfold all_ops. apply in_or_app. right. apply in_or_app. right. apply in_or_app. now right. Qed.
Lemma in_all_root : In "root" all_ops. Proof. apply in_all1. unfold ops1. cbn. tauto. Qed.
Lemma in_all_log : In "log" all_ops. Proof. apply in_all1. unfold ops1. cbn. tauto. Qed.

Ltac use_leaf2 :=
  match goal with
  | |- context [ana_node F std_vars ?p ?g (m_leaf ?op) ?s] =>
      rewrite (ana_leaf op) by
        (first [ assumption | reflexivity | now apply in_all1 | now apply in_all2 | now apply in_all3 | now apply in_allc
               | apply in_all_root | apply in_all_log ])
  end.

Ltac open_node :=
  unfold m_el;
  rewrite ana_node_unfold;
  repeat match goal with H : get ?i = ast_new |- context [get ?i] => rewrite H end;
  repeat (first [ rewrite String.eqb_refl
                | match goal with H : is_mathml ?a = true |- context [is_mathml ?a] => rewrite H end
                | progress cbn [konts is_mathml m_leaf m_el get] ]);
  unfold ana_body;
  cbn [String.eqb Ascii.eqb Bool.eqb];
  cbn [ana_child nth_error bind length Nat.leb Nat.eqb Nat.sub apply_chain piecewise_chain populate ast_left ast_right ast_new negb];
  rewrite ?Bool.andb_false_r; cbn beta iota.

Ltac fold_leaf :=
  repeat match goal with |- context [Elem MATHML_NS ?op [] []] => progress change (Elem MATHML_NS op [] []) with (m_leaf op) end.
Ltac use_leaf3 := fold_leaf; use_leaf2.

Ltac leaf_facts lem op g Hin :=
  let Hb := fresh "Hb" in let Hk := fresh "Hk" in let T := fresh "T" in let ET := fresh "ET" in let TD := fresh "TD" in
  destruct (lem op g Hin) as [Hb Hk]; destruct (bare_inv _ Hb) as (T & ET & TD); rewrite ET in *; clear Hb;
  cbn [ast_ty] in Hk.

Ltac finish_good :=
  eexists; split; [reflexivity|]; split;
  [ cbn [printable gclass_of];
    repeat match goal with G : good _ |- _ => destruct G as [?P ?D] end;
    repeat match goal with P : printable true ?r = true |- context [printable true ?r] => rewrite P end;
    try reflexivity
  | cbn [ast_ty]; try assumption; try discriminate ].

Lemma wf_ana : forall a, WFExpr a -> forall parent gp into, get into = ast_new ->
  exists r, ana_node F std_vars parent gp a into = Ok r /\ good r.
Proof.
  induction 1; intros parent gp into Hi; mathml_facts.
  - unfold m_ci, m_el. rewrite ana_node_unfold, Hi. cbn [konts is_mathml]. unfold ana_body.
    cbn [String.eqb Ascii.eqb Bool.eqb]. rewrite visible_single, first_child_single. cbn [first_non_comment is_comment cur].
    assert (E : (if af_ci_comment F then Some (Text v) else Some (Text v)) = Some (Text v)) by (now destruct (af_ci_comment F)).
    rewrite E. in_cases H; (eexists; split; [reflexivity|split; [reflexivity|discriminate]]).
  - unfold m_cn. rewrite ana_node_unfold, Hi. cbn [konts is_mathml]. unfold ana_body.
    cbn [String.eqb Ascii.eqb Bool.eqb length Nat.eqb]. rewrite first_child_single. cbn [cur].
    eexists; split; [reflexivity|split; [reflexivity|discriminate]].
  - unfold m_cn_e. rewrite ana_node_unfold, Hi. cbn [konts is_mathml m_leaf m_el]. rewrite String.eqb_refl.
    unfold ana_body. cbn [String.eqb Ascii.eqb Bool.eqb length Nat.eqb].
    cbn [first_child]. rewrite (basic_real_not_blank m H). cbn [cur next].
    eexists; split; [reflexivity|split; [reflexivity|discriminate]].
  - use_leaf2.
    eexists; split; [reflexivity|]. now apply leaf_const.
  - unfold m_apply. unfold m_el at 1. rewrite Hi || idtac. open_node. use_leaf3.
    leaf_facts leaf1 op (is_mathml_el "math" parent) H. cbn [bind ast_left]. use_ih. cbn [bind set_left].
    finish_good. unfold ok1, ok2 in *. destruct (gclass_of T); try discriminate; reflexivity.
  - unfold m_apply. unfold m_el at 1. open_node. use_leaf3.
    leaf_facts leaf2 op (is_mathml_el "math" parent) H. cbn [bind ast_left]. use_ih. cbn [bind]. use_ih.
    cbn [bind set_left set_right].
    finish_good. unfold ok1, ok2 in *. destruct (gclass_of T); try discriminate; reflexivity.
  - unfold m_apply. unfold m_el at 1. open_node. use_leaf3.
    leaf_facts leaf3 op (is_mathml_el "math" parent) H. cbn [bind ast_left]. use_ih. cbn [bind]. use_ih.
    cbn [bind ast_left]. use_ih. cbn [bind set_left set_right].
    finish_good. unfold ok1, ok2 in *. destruct (gclass_of T); try discriminate; reflexivity.
  - unfold m_apply. unfold m_el at 1. open_node. use_leaf3.
    change (leaf_ast (is_mathml_el "math" parent) "root") with (Ast ROOT "" None None None).
    cbn [bind ast_left]. open_node. use_ih. cbn [bind set_left]. use_ih. cbn [bind set_left set_right].
    finish_good.
  - unfold m_apply. unfold m_el at 1. open_node. use_leaf3.
    change (leaf_ast (is_mathml_el "math" parent) "log") with (Ast LOG "" None None None).
    cbn [bind ast_left]. open_node. use_ih. cbn [bind set_left]. use_ih. cbn [bind set_left set_right].
    finish_good.
  - open_node. open_node. use_ih. cbn [bind]. use_ih. cbn [bind set_left set_right].
    finish_good.
  - open_node. open_node. use_ih. cbn [bind]. use_ih. cbn [bind set_left set_right].
    open_node. use_ih. cbn [bind set_left set_right].
    finish_good.
  - open_node. open_node. use_ih. cbn [bind]. use_ih. cbn [bind set_left set_right].
    open_node. use_ih. cbn [bind set_left set_right].
    open_node. use_ih. cbn [bind]. use_ih. cbn [bind set_left set_right].
    finish_good.
Qed.


(* ------------------------------------------------------------------------------------------------ equations and documents *)

(** what the three validator passes need to know of a sub-tree *)
Definition vfacts (x : xml) : Prop :=
  is_mathml x = true /\ val_supported x = [] /\ val_cicn_gen cf std_vars std_units x = []
  /\ forall q fx pk idx, val_struct_d df q fx pk idx x = [].
(** what the analyser needs to know of one side of an equation *)
Definition afacts (x : xml) : Prop :=
  forall parent gp, exists r, ana_node F std_vars parent gp x None = Ok r /\ printable true r = true /\ side_ok (Some r) = true.

Lemma wf_vfacts : forall a, WFExpr a -> vfacts a.
Proof. intros a H. repeat split; [now apply wf_mathml|now apply wf_supported|now apply wf_cicn|intros; now apply wf_struct]. Qed.

Lemma not_diff_side_ok : forall r, ast_ty r <> DIFF -> side_ok (Some r) = true.
Proof. intros [t v x l r] H. cbn in *. destruct t; try reflexivity. contradiction. Qed.

Lemma wf_afacts : forall a, WFExpr a -> afacts a.
Proof.
  intros a H parent gp. destruct (wf_ana a H parent gp None eq_refl) as (r & E & P & D).
  exists r. repeat split; [exact E|exact P|now apply not_diff_side_ok].
Qed.

Definition ode_lhs (x t : string) : xml := m_apply "diff" [m_el "bvar" [m_ci t]; m_ci x].

Lemma ode_vfacts : forall x t, In x std_vars -> In t std_vars -> vfacts (ode_lhs x t).
Proof. intros x t Hx Ht. unfold vfacts. destruct cf, df; in_cases Hx; in_cases Ht; repeat split; try (intros [] [] pk idx); reflexivity. Qed.

Lemma ode_afacts : forall x t, In x std_vars -> In t std_vars -> afacts (ode_lhs x t).
Proof.
  intros x t Hx Ht parent gp. unfold afacts. destruct F as [c1 ag gf].
  destruct c1, ag; in_cases Hx; in_cases Ht; (eexists; split; [reflexivity|split; reflexivity]).
Qed.

Lemma eqn_vfacts : forall lhs rhs, vfacts lhs -> vfacts rhs -> vfacts (m_eqn lhs rhs).
Proof.
  intros lhs rhs (Ml & Sl & Cl & Tl) (Mr & Sr & Cr & Tr). unfold m_eqn, m_apply.
  repeat split.
  - unfold m_el. rewrite sup_el. cbn [flat_map app]. now rewrite Sl, Sr.
  - unfold m_el. rewrite cicn_el. cbn [flat_map app String.eqb Ascii.eqb Bool.eqb]. now rewrite Cl, Cr.
  - intros q fx pk idx. unfold m_el at 1.
    assert (Tl' : forall pk idx, val_struct_d df q fx pk idx lhs = []) by (intros; apply Tl).
    assert (Tr' : forall pk idx, val_struct_d df q fx pk idx rhs = []) by (intros; apply Tr).
    struct_step.
    change (Elem MATHML_NS "eq" [] []) with (m_leaf "eq"). rewrite struct_leaf2 by (unfold ops2; cbn; tauto). reflexivity.
Qed.

Lemma eqn_ana : forall root lhs rhs,
  is_mathml_el "math" root = true -> is_mathml lhs = true -> is_mathml rhs = true -> afacts lhs -> afacts rhs ->
  exists a, ana_equation F std_vars root (m_eqn lhs rhs) = Ok a.
Proof.
  intros root lhs rhs Hroot Ml Mr Al Ar. unfold ana_equation, m_eqn, m_apply. unfold m_el at 1.
  rewrite ana_node_unfold.
  repeat (first [ rewrite String.eqb_refl | rewrite Ml | rewrite Mr | rewrite Hroot
                | progress cbn [konts is_mathml m_leaf m_el get] ]).
  unfold ana_body. cbn [String.eqb Ascii.eqb Bool.eqb].
  cbn [ana_child nth_error bind length Nat.leb Nat.eqb Nat.sub apply_chain negb]. rewrite ?Bool.andb_false_r. cbn beta iota.
  fold_leaf. rewrite (ana_leaf "eq") by (first [reflexivity | apply in_all2; unfold ops2; cbn; tauto]).
  change (leaf_ast true "eq") with ast_new. cbn [bind ast_left ast_new].
  destruct (Al (Elem MATHML_NS "apply" [] [m_leaf "eq"; lhs; rhs]) true) as (rl & El & Pl & Sl). rewrite El.
  destruct (Ar (Elem MATHML_NS "apply" [] [m_leaf "eq"; lhs; rhs]) true) as (rr & Er & Pr & Sr). rewrite Er.
  unfold ast_new, printable_gen.
  cbn [bind set_left set_right ast_ty printable gclass_of negb ast_left ast_right]. rewrite Pl, Pr. cbn [andb].
  rewrite Bool.orb_true_r. cbn [negb].
  rewrite Sl, Sr. cbn [andb]. eexists. reflexivity.
Qed.

Lemma wfeqn_facts : forall e, WFEqn e ->
  vfacts e /\ forall root, is_mathml_el "math" root = true -> exists a, ana_equation F std_vars root e = Ok a.
Proof.
  destruct 1 as [lhs rhs Hl Hr | x t rhs Hx Ht Hr].
  - split; [apply eqn_vfacts; now apply wf_vfacts|].
    intros root Hroot. apply eqn_ana; try assumption; try (now apply wf_mathml); now apply wf_afacts.
  - split; [apply eqn_vfacts; [now apply ode_vfacts|now apply wf_vfacts]|].
    intros root Hroot. apply eqn_ana; try assumption.
    + now destruct (ode_vfacts x t Hx Ht).
    + now apply wf_mathml.
    + now apply ode_afacts.
    + now apply wf_afacts.
Qed.

Lemma mathml_not_blank : forall x, is_mathml x = true -> is_blank_text x = false.
Proof. intros [ns n a k|s|s] H; [reflexivity|discriminate|discriminate]. Qed.

Lemma visible_mathml : forall ks, Forall (fun k => is_mathml k = true) ks -> visible ks = ks.
Proof.
  intros ks H. unfold visible. destruct H as [|k r Hk Hr]; [reflexivity|].
  cbn [first_child]. now rewrite (mathml_not_blank k Hk).
Qed.

Lemma all_mathml : forall eqs, Forall WFEqn eqs -> Forall (fun k => is_mathml k = true) eqs.
Proof. induction 1 as [|e r He _ IH]; constructor; [now destruct (wfeqn_facts e He) as ((M & _) & _)|exact IH]. Qed.
Lemma all_supported : forall eqs, Forall WFEqn eqs -> flat_map val_supported eqs = [].
Proof.
  induction 1 as [|e r He _ IH]; [reflexivity|]. cbn [flat_map].
  destruct (wfeqn_facts e He) as ((_ & S & _) & _). now rewrite S, IH.
Qed.
Lemma all_cicn : forall eqs, Forall WFEqn eqs -> flat_map (val_cicn_gen cf std_vars std_units) eqs = [].
Proof.
  induction 1 as [|e r He _ IH]; [reflexivity|]. cbn [flat_map].
  destruct (wfeqn_facts e He) as ((_ & _ & C & _) & _). now rewrite C, IH.
Qed.
Lemma all_struct : forall q fx eqs, Forall WFEqn eqs -> forall mk i, val_struct_kids_d df q fx mk eqs i = [].
Proof.
  intros q fx. induction 1 as [|e r He _ IH]; intros mk i; [reflexivity|]. cbn [val_struct_kids_d].
  destruct (wfeqn_facts e He) as ((M & _ & _ & T) & _). now rewrite M, T, IH.
Qed.
Lemma all_ana : forall eqs, Forall WFEqn eqs -> forall root, is_mathml_el "math" root = true ->
  exists l, ana_math_kids F std_vars root eqs = Ok l.
Proof.
  induction 1 as [|e r He _ IH]; intros root Hroot; [now exists []|].
  destruct (wfeqn_facts e He) as ((M & _) & A). destruct (A root Hroot) as (a & Ea). destruct (IH root Hroot) as (l & El).
  cbn [ana_math_kids]. rewrite M, Ea, El. cbn [bind]. now eexists.
Qed.

(** The contract on the generators' grammar: the validator raises nothing and the analyser reads the document. *)
Theorem val_implies_ana_partial_sec : forall q fx x, WellFormedMath x ->
  val_math_env_gen3 cf df q fx std_vars std_units x = [] /\ ana_gen F x <> None.
Proof.
  intros q fx x (eqs & -> & Hall). split.
  - unfold val_math_env_gen3. change (is_mathml_el "math" (m_math eqs)) with true. unfold m_math, m_el.
    cbn [negb kids_of].
    change ((fix go (ks : list xml) : list rule := match ks with [] => [] | k :: r => val_supported k ++ go r end) eqs)
      with (flat_map val_supported eqs).
    rewrite (all_supported eqs Hall), cicn_el, (all_cicn eqs Hall), (all_struct q fx eqs Hall). reflexivity.
  - unfold ana_gen, ana_math_gen, ana_math_env_gen. unfold m_math, m_el. cbn [kids_of].
    rewrite (visible_mathml eqs (all_mathml eqs Hall)).
    destruct (all_ana eqs Hall (Elem MATHML_NS "math" [] eqs) eq_refl) as (l & El). rewrite El. discriminate.
Qed.

End Flags.

(** for every value of the six repair switches *)
Theorem val_implies_ana_partial_gen : forall cf df q fx F x, WellFormedMath x ->
  val_math_env_gen3 cf df q fx std_vars std_units x = [] /\ ana_gen F x <> None.
Proof. intros. now apply val_implies_ana_partial_sec. Qed.

(** for the code as it is in /repo *)
Theorem val_implies_ana_partial : forall x, WellFormedMath x -> val_math x = [] /\ ana x <> None.
Proof.
  intros x H.
  exact (val_implies_ana_partial_gen ci_comment_fix_committed diff_ci_fix_committed qualifier_fix_committed
                                     arity_fix_committed afix_committed x H).
Qed.

(** non-vacuity: a document of the grammar that uses most constructors *)
Example wf_example :
  WellFormedMath (m_math
    [m_eqn (ode_lhs "x" "t") (m_apply "plus" [m_apply "times" [m_ci "y"; m_cn "2.5"; m_cn_e "1" "-3"];
                                               m_apply "root" [m_el "degree" [m_cn "3"]; m_ci "z"]]);
     m_eqn (m_ci "y") (m_el "piecewise" [m_el "piece" [m_apply "min" [m_ci "z"; m_leaf "pi"]; m_apply "lt" [m_ci "t"; m_cn "1"]];
                                          m_el "otherwise" [m_apply "sin" [m_ci "t"]]])]).
Proof.
  eexists. split; [reflexivity|].
  repeat first [ apply Forall_cons | apply Forall_nil
               | apply WF_ode | apply WF_alg | apply WF_root | apply WF_log | apply WF_pw1o | apply WF_pw2o | apply WF_pw1
               | apply WF_op3 | apply WF_op2 | apply WF_op1 | apply WF_cne | apply WF_cn | apply WF_ci | apply WF_const
               | reflexivity | (cbn; tauto) ].
Qed.
