(** MathWF.v — the contract holds on the generators' grammar: WellFormedMath x -> val_math x = [] /\ ana x <> None. *)
From Coq Require Import String Ascii List Bool Arith ZArith Lia.
From LC Require Import Common NumDefs NumPosDefs MathDefs MathSpec.
From LCGen Require Import MathTables AstTypes.
Import ListNotations.
Local Open Scope string_scope.
Local Open Scope list_scope.
Local Open Scope nat_scope.

Lemma wf_mathml : forall a, WFExpr a -> is_mathml a = true.
Proof. destruct 1; reflexivity. Qed.

Ltac in_cases H := repeat (destruct H as [<-|H]); [..|destruct H].

(* ------------------------------------------------------------------------------------------------ pass 1 *)

Lemma sup_el : forall n attrs kids,
  val_supported (Elem MATHML_NS n attrs kids) =
  (if in_list n supported_mathml_elements then [] else [R_MATH_CHILD]) ++ flat_map val_supported kids.
Proof.
  intros. cbn [val_supported is_supported]. rewrite String.eqb_refl. reflexivity.
Qed.

Lemma sup_ops : forall op, In op (ops1 ++ ops2 ++ ops3 ++ constants) -> val_supported (m_leaf op) = [].
Proof. intros op H. in_cases H; reflexivity. Qed.

Lemma wf_supported : forall a, WFExpr a -> val_supported a = [].
Proof.
  induction 1; unfold m_ci, m_cn, m_cn_e, m_apply, m_el in *;
    repeat (first [rewrite sup_el | progress cbn [flat_map app]
                  | match goal with H : val_supported _ = [] |- _ => rewrite H end]);
    try reflexivity.
  - apply sup_ops. apply in_or_app. right. apply in_or_app. right. apply in_or_app. now right.
  - change (Elem MATHML_NS op [] []) with (m_leaf op). rewrite sup_ops; [reflexivity|]. apply in_or_app. now left.
  - change (Elem MATHML_NS op [] []) with (m_leaf op). rewrite sup_ops; [reflexivity|].
    apply in_or_app. right. apply in_or_app. now left.
  - change (Elem MATHML_NS op [] []) with (m_leaf op). rewrite sup_ops; [reflexivity|].
    apply in_or_app. right. apply in_or_app. right. apply in_or_app. now left.
Qed.

(* ------------------------------------------------------------------------------------------------ pass 2 *)

Lemma cicn_el : forall vars units n attrs kids,
  val_cicn vars units (Elem MATHML_NS n attrs kids) =
  (if (n =? "cn")%string then val_cn_units units attrs
   else if (n =? "ci")%string then val_ci_name vars kids else [])
  ++ flat_map (val_cicn vars units) kids.
Proof.
  intros. cbn [val_cicn is_mathml_el]. rewrite String.eqb_refl. reflexivity.
Qed.

Lemma cicn_ops : forall op, In op (ops1 ++ ops2 ++ ops3 ++ constants) -> val_cicn std_vars std_units (m_leaf op) = [].
Proof. intros op H. in_cases H; reflexivity. Qed.

Lemma cicn_ci : forall v, In v std_vars -> val_cicn std_vars std_units (m_ci v) = [].
Proof. intros v H. in_cases H; reflexivity. Qed.

Lemma wf_cicn : forall a, WFExpr a -> val_cicn std_vars std_units a = [].
Proof.
  induction 1; try (now apply cicn_ci);
    unfold m_cn, m_cn_e, m_apply, m_el in *;
    repeat (first [rewrite cicn_el | progress cbn [flat_map app String.eqb Ascii.eqb Bool.eqb]
                  | match goal with H : val_cicn _ _ _ = [] |- _ => rewrite H end]);
    try reflexivity.
  - apply cicn_ops. apply in_or_app. right. apply in_or_app. right. apply in_or_app. now right.
  - change (Elem MATHML_NS op [] []) with (m_leaf op). rewrite cicn_ops; [reflexivity|]. apply in_or_app. now left.
  - change (Elem MATHML_NS op [] []) with (m_leaf op). rewrite cicn_ops; [reflexivity|].
    apply in_or_app. right. apply in_or_app. now left.
  - change (Elem MATHML_NS op [] []) with (m_leaf op). rewrite cicn_ops; [reflexivity|].
    apply in_or_app. right. apply in_or_app. right. apply in_or_app. now left.
Qed.

(* ------------------------------------------------------------------------------------------------ pass 4 *)

Lemma struct_el : forall pk idx n attrs kids,
  val_struct pk idx (Elem MATHML_NS n attrs kids) = val_node pk idx n attrs kids (val_struct_kids (mkids kids) kids 0).
Proof.
  intros. cbn [val_struct]. rewrite String.eqb_refl. cbn [negb]. f_equal.
  generalize (mkids kids) as mk. generalize 0 as i.
  induction kids as [|k r IH]; intros i mk; [reflexivity|].
  cbn [val_struct_kids]. destruct (is_mathml k); now rewrite IH.
Qed.

Lemma visible_single : forall x, visible [x] = [x].
Proof. intro x. unfold visible. cbn. now destruct (is_blank_text x). Qed.

Lemma basic_real_not_blank : forall m, is_basic_real (strip m) = true -> is_blank_text (Text m) = false.
Proof.
  intros m H. cbn. destruct (str_is_empty (strip m)) eqn:E; [|reflexivity].
  destruct (strip m); [discriminate H|discriminate E].
Qed.

Lemma struct_leaf1 : forall op a, In op ops1 -> val_struct [m_leaf op; a] 0 (m_leaf op) = [].
Proof. intros op a H. in_cases H; reflexivity. Qed.
Lemma struct_leaf2 : forall op a b, In op ops2 -> val_struct [m_leaf op; a; b] 0 (m_leaf op) = [].
Proof. intros op a b H. in_cases H; reflexivity. Qed.
Lemma struct_leaf3 : forall op a b c, In op ops3 -> val_struct [m_leaf op; a; b; c] 0 (m_leaf op) = [].
Proof. intros op a b c H. in_cases H; reflexivity. Qed.
Lemma struct_const : forall c pk idx, In c constants -> val_struct pk idx (m_leaf c) = [].
Proof. intros c pk idx H. in_cases H; reflexivity. Qed.
Lemma struct_ci : forall v pk idx, In v std_vars -> val_struct pk idx (m_ci v) = [].
Proof. intros v pk idx H. in_cases H; reflexivity. Qed.

Ltac mathml_facts :=
  repeat match goal with
         | H : WFExpr ?a |- _ =>
             lazymatch goal with
             | _ : is_mathml a = true |- _ => fail
             | _ => pose proof (wf_mathml a H)
             end
         end.

Ltac struct_step :=
  repeat (first [ rewrite struct_el
                | match goal with H : is_mathml ?a = true |- context [is_mathml ?a] => rewrite H end
                | match goal with H : forall pk idx, val_struct pk idx ?a = [] |- context [val_struct _ _ ?a] => rewrite H end
                | progress cbn [val_struct_kids mkids filter app is_mathml m_leaf m_el length] ]).

Lemma wf_struct : forall a, WFExpr a -> forall pk idx, val_struct pk idx a = [].
Proof.
  induction 1; intros pk idx; mathml_facts.
  - now apply struct_ci.
  - unfold m_cn. rewrite struct_el. unfold val_node. cbn [vclass_of in_list existsb String.eqb Ascii.eqb Bool.eqb orb].
    unfold val_cn_struct, non_comment_kids. rewrite visible_single. cbn. unfold node_is_basic_real, stripped. cbn [xml_to_string].
    now rewrite H.
  - unfold m_cn_e. rewrite struct_el. unfold val_node. cbn [vclass_of in_list existsb String.eqb Ascii.eqb Bool.eqb orb].
    unfold val_cn_struct, non_comment_kids, visible. cbn [first_child]. rewrite (basic_real_not_blank m H).
    cbn. unfold node_is_basic_real, stripped. cbn [xml_to_string]. rewrite H. cbn.
    now rewrite H0.
  - now apply struct_const.
  - unfold m_apply. unfold m_el at 1. struct_step.
    change (Elem MATHML_NS op [] []) with (m_leaf op). rewrite struct_leaf1 by assumption. reflexivity.
  - unfold m_apply. unfold m_el at 1. struct_step.
    change (Elem MATHML_NS op [] []) with (m_leaf op). rewrite struct_leaf2 by assumption. reflexivity.
  - unfold m_apply. unfold m_el at 1. struct_step.
    change (Elem MATHML_NS op [] []) with (m_leaf op). rewrite struct_leaf3 by assumption. reflexivity.
  - unfold m_apply. unfold m_el. struct_step. reflexivity.
  - unfold m_apply. unfold m_el. struct_step. reflexivity.
  - unfold m_el. struct_step. reflexivity.
  - unfold m_el. struct_step. reflexivity.
  - unfold m_el. struct_step. reflexivity.
Qed.
