(* FlattenUnits.v -- C06: units that reference other units.  A sufficient condition under which a copy of a units means what
   the original means: the closure of the copy is an isomorphic image of the closure of the original (every reference of the
   copy resolves to the copy of what the original's reference resolves to -- no name is captured --, and units without children,
   which libcellml identifies by name, keep their names).  Then Units::equivalent (C08's model) cannot tell them apart. *)
From Coq Require Import List String Ascii ZArith QArith Bool Arith Lia.
From LC Require Import Common NumDefs UnitsDefs FlattenDefs FlattenProofs.
Import ListNotations.
Local Open Scope string_scope.
Local Open Scope nat_scope.
Local Open Scope list_scope.

Definition child_rel (R : uref -> uref -> Prop) (mi mj : nat) (c c' : unit_child) : Prop :=
  uc_prefix c = uc_prefix c' /\ uc_exp c = uc_exp c' /\ uc_mult c = uc_mult c' /\
  ((is_std_name (uc_ref c) = true /\ uc_ref c' = uc_ref c) \/
   (is_std_name (uc_ref c) = false /\ is_std_name (uc_ref c') = false /\ R (mi, uc_ref c) (mj, uc_ref c'))).

(* R relates units with unit children pairwise related; units without children carry the same name *)
Definition closure_iso (w : world) (R : uref -> uref -> Prop) : Prop :=
  forall a b, R a b -> exists l l', lookup w (fst a) (snd a) = Some (Defs l) /\ lookup w (fst b) (snd b) = Some (Defs l') /\
     Forall2 (child_rel R (fst a) (fst b)) l l' /\ (l = [] -> snd a = snd b).

Lemma fold_res_rel : forall (A S : Type) (rel : A -> A -> Prop) (f g : A -> S -> res S) l l',
  Forall2 rel l l' -> (forall c c' s, rel c c' -> f c s = g c' s) -> forall s, fold_res f l s = fold_res g l' s.
Proof.
  intros A S rel f g l l' H Hfg. induction H as [|c c' r r' Hc Hr IH]; intros s; [reflexivity|]. cbn [fold_res].
  rewrite (Hfg c c' s Hc). destruct (g c' s); try reflexivity. apply IH.
Qed.

Lemma fold_opt_rel : forall (A S : Type) (rel : A -> A -> Prop) (f g : A -> S -> res (option S)) l l',
  Forall2 rel l l' -> (forall c c' s, rel c c' -> f c s = g c' s) -> forall s, fold_opt f l s = fold_opt g l' s.
Proof.
  intros A S rel f g l l' H Hfg. induction H as [|c c' r r' Hc Hr IH]; intros s; [reflexivity|]. cbn [fold_opt].
  rewrite (Hfg c c' s Hc). destruct (g c' s) as [[s'|]| |]; try reflexivity. apply IH.
Qed.

Section Iso.
  Variable w : world.
  Variable R : uref -> uref -> Prop.
  Hypothesis Hiso : closure_iso w R.

  Lemma iso_lookup : forall a b, R a b -> exists d d', lookup w (fst a) (snd a) = Some d /\ lookup w (fst b) (snd b) = Some d'.
  Proof. intros a b H. destruct (Hiso a b H) as [l [l' [La [Lb _]]]]. eexists. eexists. split; eassumption. Qed.

  Lemma iso_is_base : forall f a b, R a b -> is_base f w (fst a) (snd a) = is_base f w (fst b) (snd b).
  Proof.
    intros f a b Hab. destruct (Hiso a b Hab) as [l [l' [La [Lb [Hl Hn]]]]]. unfold is_base. destruct f as [|f]; [reflexivity|].
    cbn [is_base_h]. rewrite La, Lb. destruct Hl as [|c c' r r' Hc Hr].
    - rewrite (Hn eq_refl). reflexivity.
    - reflexivity.
  Qed.

  Lemma iso_perform_test : forall fx d f h a b, R a b ->
    perform_test fx d f w h (fst a) (snd a) = perform_test fx d f w h (fst b) (snd b).
  Proof.
    intros fx d f. induction f as [|f IH]; intros h a b Hab; [reflexivity|].
    destruct (Hiso a b Hab) as [l [l' [La [Lb [Hl _]]]]]. cbn [perform_test]. rewrite La, Lb.
    apply (fold_opt_rel _ _ (child_rel R (fst a) (fst b)) _ _ l l' Hl). intros c c' s Hc.
    destruct Hc as [_ [_ [_ [[Hs He]|[Hs [Hs' Hrel]]]]]].
    - rewrite He, Hs. reflexivity.
    - rewrite Hs, Hs'. destruct (iso_lookup _ _ Hrel) as [d1 [d2 [L1 L2]]]. cbn [fst snd] in L1, L2. rewrite L1, L2.
      apply (IH s _ _ Hrel).
  Qed.

  Lemma iso_umap_go : forall fx f a b e acc, R a b ->
    umap_go fx f w (fst a) (snd a) e acc = umap_go fx f w (fst b) (snd b) e acc.
  Proof.
    intros fx f. induction f as [|f IH]; intros a b e acc Hab; [reflexivity|].
    rewrite !umap_go_S. rewrite (iso_is_base (S f) a b Hab).
    destruct (Hiso a b Hab) as [l [l' [La [Lb [Hl Hn]]]]]. rewrite La, Lb.
    destruct Hl as [|c c' r r' Hc Hr].
    - rewrite (Hn eq_refl). reflexivity.
    - assert (Hb : is_base (S f) w (fst b) (snd b) = Ok false) by (unfold is_base; cbn [is_base_h]; rewrite Lb; reflexivity).
      rewrite Hb. cbn [List.length Nat.eqb andb].
      apply (fold_res_rel _ _ (child_rel R (fst a) (fst b)) _ _ (c :: r) (c' :: r') (Forall2_cons _ _ Hc Hr)). intros x x' s Hx.
      destruct Hx as [_ [Hexp [_ [[Hs He]|[Hs [Hs' Hrel]]]]]].
      + rewrite He, Hs, Hexp. reflexivity.
      + rewrite Hs, Hs', Hexp. destruct (iso_lookup _ _ Hrel) as [d1 [d2 [L1 L2]]]. cbn [fst snd] in L1, L2. rewrite L1, L2.
        apply (IH _ _ _ s Hrel).
  Qed.

  Lemma iso_mult_go : forall fx f a b, R a b -> mult_go fx f w (fst a) (snd a) = mult_go fx f w (fst b) (snd b).
  Proof.
    intros fx f. induction f as [|f IH]; intros a b Hab; [reflexivity|].
    destruct (Hiso a b Hab) as [l [l' [La [Lb [Hl Hn]]]]]. cbn [mult_go]. rewrite La, Lb.
    destruct Hl as [|c c' r r' Hc Hr].
    - rewrite (Hn eq_refl). reflexivity.
    - cbn [List.length Nat.eqb].
      apply (fold_opt_rel _ _ (child_rel R (fst a) (fst b)) _ _ (c :: r) (c' :: r') (Forall2_cons _ _ Hc Hr)). intros x x' s Hx.
      destruct Hx as [Hp [Hexp [Hm [[Hs He]|[Hs [Hs' Hrel]]]]]].
      + rewrite He, Hs, Hexp, Hm, Hp. reflexivity.
      + rewrite Hs, Hs', Hexp, Hm, Hp. destruct (iso_lookup _ _ Hrel) as [d1 [d2 [L1 L2]]]. cbn [fst snd] in L1, L2. rewrite L1, L2.
        pose proof (IH _ _ Hrel) as E. cbn [fst snd] in E. rewrite E. reflexivity.
  Qed.

  (* Units::equivalent cannot tell the copy from the original *)
  Theorem iso_equivalent : forall fx f a b x, R a b -> equivalent fx f w x (Some a) = equivalent fx f w x (Some b).
  Proof.
    intros fx f a b x Hab. unfold equivalent, scaling_factor, compatible. destruct x as [x|]; [|reflexivity].
    unfold is_defined, define_units_map. destruct a as [ia na]. destruct b as [ib nb].
    pose proof (iso_perform_test fx true f [] _ _ Hab) as E1. pose proof (iso_umap_go fx f _ _ 1 [] Hab) as E2.
    pose proof (iso_mult_go fx f _ _ Hab) as E3. cbn [fst snd] in *. rewrite E1, E2, E3. reflexivity.
  Qed.
End Iso.

(* units_meaning_no_capture: in any world, if the closure of b (the copy, wherever it was put) is an isomorphic image of the
   closure of a (the original, in its own model) and the original is equivalent to itself (it is defined, its prefixes are
   valid), then Units::equivalent(copy, original) holds *)
Theorem units_meaning_no_capture : forall fx f w R a b, closure_iso w R -> R a b ->
  equivalent fx f w (Some a) (Some a) = Ok true -> equivalent fx f w (Some a) (Some b) = Ok true.
Proof. intros fx f w R a b Hiso Hab H. rewrite <- (iso_equivalent w R Hiso fx f a b (Some a) Hab). exact H. Qed.

Theorem iso_equivalent_l : forall w R, closure_iso w R -> forall fx f a b y, R a b ->
  equivalent fx f w (Some a) y = equivalent fx f w (Some b) y.
Proof.
  intros w R Hiso fx f a b y Hab. unfold equivalent, scaling_factor, compatible. destruct y as [y|]; [|reflexivity].
  unfold is_defined, define_units_map. destruct a as [ia na]. destruct b as [ib nb].
  pose proof (iso_perform_test w R Hiso fx true f [] _ _ Hab) as E1. pose proof (iso_umap_go w R Hiso fx f _ _ 1 [] Hab) as E2.
  pose proof (iso_mult_go w R Hiso fx f _ _ Hab) as E3. cbn [fst snd] in *. rewrite E1, E2, E3. reflexivity.
Qed.

(* for the flattening model: T' the target units after the transfer, home the model of the original (q its name there), usage
   the name the usages carry afterwards.  If the closure of usage in T' is an isomorphic image of the closure of q in home --
   no reference was captured by another units of T', units without children kept their names -- and the original is sane
   (equivalent to itself), the usages denote units equivalent to the original's. *)
Theorem units_meaning_no_capture_model : forall libs T' home usage q R,
  closure_iso (mk_world [T'; home] libs) R -> R (1, q) (0, usage) ->
  units_equivalent libs [T'; home] 1 q 1 q = FOk true ->
  units_equivalent libs [T'; home] 0 usage 1 q = FOk true.
Proof.
  intros libs T' home usage q R Hiso HR H. unfold units_equivalent in *.
  rewrite <- (iso_equivalent_l _ R Hiso _ _ (1, q) (0, usage) _ HR). exact H.
Qed.

(* not vacuous: two levels, both renamed.  home: a = milli b, b = metre^2;  target: b_1 = metre^2, a_1 = milli b_1 *)
Definition nv_uc (r p : string) (e : Z) : unit_child := {| uc_ref := r; uc_prefix := p; uc_exp := inject_Z e; uc_mult := 0 |}.
Definition nv_home : list units :=
  [ {| u_own := OLib 0; u_name := "a"; u_imp := None; u_defs := [nv_uc "b" "milli" 1] |};
    {| u_own := OLib 0; u_name := "b"; u_imp := None; u_defs := [nv_uc "metre" "" 2] |} ].
Definition nv_target : list units :=
  [ {| u_own := OFresh 1; u_name := "b"; u_imp := None; u_defs := [nv_uc "second" "" 1] |};       (* another b: the reason for the renaming *)
    {| u_own := OFresh 1; u_name := "b_1"; u_imp := None; u_defs := [nv_uc "metre" "" 2] |};
    {| u_own := OFresh 1; u_name := "a_1"; u_imp := None; u_defs := [nv_uc "b_1" "milli" 1] |} ].
Definition nv_R (x y : uref) : Prop := (x = (1, "a") /\ y = (0, "a_1")) \/ (x = (1, "b") /\ y = (0, "b_1")).

Example units_meaning_no_capture_nonvacuous :
  closure_iso (mk_world [nv_target; nv_home] []) nv_R /\ nv_R (1, "a") (0, "a_1") /\
  units_equivalent [] [nv_target; nv_home] 0 "a_1" 1 "a" = FOk true.
Proof.
  assert (Hiso : closure_iso (mk_world [nv_target; nv_home] []) nv_R).
  { intros x y [[Ex Ey]|[Ex Ey]]; subst x y.
    - exists [nv_uc "b" "milli" 1], [nv_uc "b_1" "milli" 1]. split; [reflexivity|]. split; [reflexivity|]. split; [|discriminate].
      constructor; [|constructor]. split; [reflexivity|]. split; [reflexivity|]. split; [reflexivity|]. right.
      split; [reflexivity|]. split; [reflexivity|]. right. split; reflexivity.
    - exists [nv_uc "metre" "" 2], [nv_uc "metre" "" 2]. split; [reflexivity|]. split; [reflexivity|]. split; [|discriminate].
      constructor; [|constructor]. split; [reflexivity|]. split; [reflexivity|]. split; [reflexivity|]. left. split; reflexivity. }
  split; [exact Hiso|]. split; [left; split; reflexivity|].
  apply (units_meaning_no_capture_model [] nv_target nv_home "a_1" "a" nv_R Hiso); [left; split; reflexivity | vm_compute; reflexivity].
Qed.
