(** ScaleDefs.v — executable model of the unit-scaling pass of libcellml's analyser (C03).  No proofs.

    Transcribes /repo/src/analyser.cpp (as the code is now):
      AnalyserImpl::scaleAst            wrap a node into TIMES(CN factor, node) in place
      AnalyserImpl::scaleEquationAst    post-order walk; every CI may trigger up to two wraps
      AnalyserInternalEquation::variableOnRhs / variableOnLhsRhs and the "manipulate the equation" switch of
      AnalyserImpl::analyseModel (NLA: EQUALITY becomes MINUS; otherwise swap when the unknown is on the right).

    The C++ mutates the tree while walking it (children first, left before right).  A CI reaches at most its
    parent and its grandparent, so the walk is written here as a structural recursion in which the parent decides:

    * a CI whose parent is neither DIFF, BVAR nor (as LEFT child) EQUALITY      ->  f * CI           [scale_ci]
    * a CI under BVAR                                                            ->  untouched
    * a CI that is the left child of the EQUALITY                                ->  untouched (taken for the
      computed variable, whatever it is: finding C03-known-variable-on-lhs-not-scaled)
    * DIFF(BVAR(CI t), CI x) NOT directly under the EQUALITY                     ->  (1/ft) * (fx * DIFF)
    * DIFF(BVAR(CI t), CI x) as LEFT child of the EQUALITY (an ODE)              ->  left := fx * DIFF and, first,
      right := ft * right  (the right side is wrapped BEFORE it is walked, so its own CIs are then scaled below it)
    * DIFF(BVAR(CI t), CI x) as RIGHT child of the EQUALITY (y = dx/dt)          ->  right := ft * (fx * DIFF), because
      "grandparent is EQUALITY" is taken to mean "this is the ODE being defined" (finding
      C03-bare-rate-on-rhs-voi-scaling: it should be (1/ft))
    each wrap only when the factor is not (nearly) 1.

    Factors.  [senv] gives every variable reference (the NAME of the variable of the equation's component) its
    scaling factor relative to the primary variable of its equivalence class, = Units::scalingFactor(units(v),
    units(primary)) = value in v's units / stored value, as a positive rational, together with the text
    convertToString prints for it and for its inverse (the CN value the C++ creates).  areNearlyEqual(f, 1.0) is
    modelled as f == 1. *)
From Coq Require Import String List Bool QArith.
From LC Require Import AstDefs.
Import ListNotations.
Local Open Scope string_scope.

Record senv : Type := {
  sf : string -> Q;             (* scaling factor of the variable named so *)
  sf_text : string -> string;   (* convertToString(sf v) *)
  sf_inv_text : string -> string (* convertToString(1.0 / sf v) *)
}.

Section Scale.
Variable S : senv.

Definition is_one (v : string) : bool := Qeq_bool (sf S v) 1.

(* analyser.cpp: scaleAst(ast, parent, factor) — the new node takes ast's place under its parent *)
Definition times_cn (text : string) (a : ast) : ast := Node TIMES "" (Node CN text Null Null) a.

(* "scaleAst(ast, astParent, scalingFactor)" for a plain CI *)
Definition scale_ci (v : string) (node : ast) : ast :=
  if is_one v then node else times_cn (sf_text S v) node.

(* the two wraps a DIFF(BVAR(CI t), CI x) receives when its parent is not the EQUALITY:
   first  scaleAst(astParent, astGrandparent, 1.0 / scalingFactor(t)), then  scaleAst(astParent, astParent->parent(), scalingFactor(x)),
   whose parent is by then the first TIMES node: the result is (1/ft) * (fx * DIFF) *)
Definition scale_diff_inner (t x : string) (d : ast) : ast :=
  let d1 := if is_one x then d else times_cn (sf_text S x) d in
  if is_one t then d1 else times_cn (sf_inv_text S t) d1.

(* the same DIFF as RIGHT child of the EQUALITY: first scaleAst(astGrandparent->right, astGrandparent, scalingFactor(t)) *)
Definition scale_diff_rhs (t x : string) (d : ast) : ast :=
  let d1 := if is_one x then d else times_cn (sf_text S x) d in
  if is_one t then d1 else times_cn (sf_text S t) d1.

(** scaleEquationAst below the EQUALITY *)
Fixpoint scale_expr (a : ast) : ast :=
  match a with
  | Null => Null
  | Node CI v l r => scale_ci v a
  | Node DIFF dv (Node BVAR bv (Node CI t tl tr) br) (Node CI x xl xr) =>
      (* the bound variable's own children (a degree) are walked; the two CIs are handled here *)
      scale_diff_inner t x (Node DIFF dv (Node BVAR bv (Node CI t tl tr) (scale_expr br)) (Node CI x xl xr))
  | Node BVAR bv (Node CI t tl tr) br => Node BVAR bv (Node CI t tl tr) (scale_expr br)
  | Node ty v l r => Node ty v (scale_expr l) (scale_expr r)
  end.

(** scaleEquationAst on the EQUALITY node of an equation: the left subtree is walked first; a DIFF there (an ODE)
    makes the walk wrap the RIGHT child with the factor of the variable of integration before the right subtree is
    walked.  Result of the left walk: the new left child and the variable whose factor wraps the right side. *)
Definition scale_lhs (l : ast) : ast * option string :=
  match l with
  | Node CI _ _ _ => (l, None)                                  (* never scaled *)
  | Node DIFF dv (Node BVAR bv (Node CI t tl tr) br) (Node CI x xl xr) =>
      let d := Node DIFF dv (Node BVAR bv (Node CI t tl tr) (scale_expr br)) (Node CI x xl xr) in
      ((if is_one x then d else times_cn (sf_text S x) d), (if is_one t then None else Some t))
  | _ => (scale_expr l, None)
  end.

(* then the right subtree, which the left walk may already have wrapped *)
Definition scale_rhs (wrap : option string) (r : ast) : ast :=
  match wrap with
  | Some t => times_cn (sf_text S t) (scale_expr r)
  | None =>
      match r with
      | Node DIFF dv (Node BVAR bv (Node CI t tl tr) br) (Node CI x xl xr) =>
          scale_diff_rhs t x (Node DIFF dv (Node BVAR bv (Node CI t tl tr) (scale_expr br)) (Node CI x xl xr))
      | _ => scale_expr r
      end
  end.

Definition scale_eq (e : ast) : ast :=
  match e with
  | Node EQUALITY ev l r => Node EQUALITY ev (fst (scale_lhs l)) (scale_rhs (snd (scale_lhs l)) r)
  | _ => scale_expr e
  end.

End Scale.

(** analyseModel, after scaling *)
Inductive eq_kind : Set := KOde | KAlgebraic | KNla | KExternal.

(* AnalyserInternalEquation::variableOnLhsRhs on the right child: names are compared, not variables *)
Definition on_rhs (unknown : string) (r : ast) : bool :=
  match r with
  | Node CI v _ _ => String.eqb v unknown
  | Node DIFF _ _ (Node CI x _ _) => String.eqb x unknown
  | _ => false
  end.

Definition finish_eq (k : eq_kind) (unknown : string) (e : ast) : ast :=
  match e with
  | Node EQUALITY ev l r =>
      match k with
      | KNla => Node MINUS ev l r
      | KExternal => e
      | _ => if on_rhs unknown r then Node EQUALITY ev r l else e
      end
  | _ => e
  end.

Definition analysed_ast (S : senv) (k : eq_kind) (unknown : string) (e : ast) : ast :=
  finish_eq k unknown (scale_eq S e).

(** ** exact meaning of an (equation) AST over the rationals, for stating what scaling must preserve.
    Variables, rates (first-order DIFF), literals and every operator other than + - * / are uninterpreted. *)
From Coq Require Import Qcanon.

Record aenv : Type := {
  a_var : string -> Qc;                       (* value of the variable named so *)
  a_rate : string -> string -> Qc;            (* a_rate x t: value of d x / d t *)
  a_lit : string -> Qc;                       (* value of a CN text *)
  a_fun : ty -> string -> Qc -> Qc -> Qc      (* any other node, applied to the values of its children *)
}.

Fixpoint aeval (E : aenv) (a : ast) : Qc :=
  match a with
  | Null => 0%Qc
  | Node CI v _ _ => a_var E v
  | Node CN s _ _ => a_lit E s
  | Node DIFF _ (Node BVAR _ (Node CI t _ _) _) (Node CI x _ _) => a_rate E x t
  | Node PLUS _ l Null => aeval E l
  | Node PLUS _ l r => (aeval E l + aeval E r)%Qc
  | Node MINUS _ l Null => (- aeval E l)%Qc
  | Node MINUS _ l r => (aeval E l - aeval E r)%Qc
  | Node TIMES _ l r => (aeval E l * aeval E r)%Qc
  | Node DIVIDE _ l r => (aeval E l / aeval E r)%Qc
  | Node t v l r => a_fun E t v (aeval E l) (aeval E r)
  end.

(* an equation holds *)
Definition holds (E : aenv) (e : ast) : Prop :=
  match e with Node EQUALITY _ l r => aeval E l = aeval E r | _ => False end.

(* the values the equation speaks about (every variable in its own units) from the stored ones (every class in
   the units of its primary variable): v = sf v * stored, d x/d t = (sf x / sf t) * stored rate *)
Definition local_env (S : senv) (E : aenv) : aenv :=
  {| a_var := fun v => (Q2Qc (sf S v) * a_var E v)%Qc;
     a_rate := fun x t => (Q2Qc (sf S x) / Q2Qc (sf S t) * a_rate E x t)%Qc;
     a_lit := a_lit E;
     a_fun := a_fun E |}.

(* DIFF and BVAR only in the shape analyseNode builds for a first-order derivative *)
Fixpoint wf_diff (a : ast) : bool :=
  match a with
  | Null => true
  | Node DIFF _ (Node BVAR _ (Node CI _ _ _) Null) (Node CI _ _ _) => true
  | Node DIFF _ _ _ => false
  | Node BVAR _ _ _ => false
  | Node _ _ l r => wf_diff l && wf_diff r
  end.

(* the exact hypotheses under which scaling is right (they exclude the two findings, nothing else) *)
Definition lhs_ok (S : senv) (l : ast) : bool :=
  match l with Node CI v _ _ => is_one S v | _ => true end.
Definition bare_rate_ok (S : senv) (l r : ast) : bool :=
  match r with
  | Node DIFF _ (Node BVAR _ (Node CI t _ _) _) (Node CI _ _ _) =>
      is_one S t ||
      match l with
      | Node DIFF _ (Node BVAR _ (Node CI tl _ _) _) (Node CI _ _ _) => negb (is_one S tl)
      | _ => false
      end
  | _ => true
  end.
