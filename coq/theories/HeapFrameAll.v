(** HeapFrameAll.v — C09: the frame property for EVERY op constructor (all 40 mutators and the queries):
    "removal, take, replacement or moving of an object that is a child affects exactly that object".
    [touched o s] = the target(s), the container the op works in, the previous parent of a moved / inserted entity (for
    the searching overloads: at the site where the search succeeds).  Everything else keeps its record, unless it is
    destroyed by the call or refers (weakly) to something the call destroys — the only effect destruction has. *)
From Coq Require Import List String Bool Arith PeanoNat Lia.
From LC Require Import HeapDefs HeapBase HeapInv HeapOps HeapProofs HeapFrame HeapLive.
Import ListNotations.

(* ------------------------------------------------------------------------------------------------ destruction leaves the living alone *)

Lemma filter_all : forall {A} (p : A -> bool) l, (forall a, In a l -> p a = true) -> filter p l = l.
Proof.
  intros A p l. induction l as [|a t IH]; intros H; cbn; [reflexivity|].
  rewrite (H a) by (left; reflexivity). f_equal. apply IH. intros b Hb. apply H. right. assumption.
Qed.

Lemma gc_keeps : forall s x,
  alive s x = true ->
  (forall p, parent_of s x = Some p -> alive s p = true) ->
  (forall b, In b (eqs_of s x) -> alive s b = true) ->
  getd (gc s) x = getd s x.
Proof.
  intros s x A P E. unfold gc. rewrite getd_gc_with. fold (alive s x). rewrite A. unfold gc_obj.
  unfold parent_of in P. unfold eqs_of in E. destruct (getd s x) as [k n p c v r u e rv rt vu]. cbn in *.
  f_equal.
  - destruct p as [q|]; cbn; [|reflexivity]. change (memb q (reach_set s)) with (alive s q). rewrite (P q eq_refl). reflexivity.
  - apply filter_all. intros b Hb. apply (E b Hb).
Qed.

Lemma get_of_getd : forall s s' x, List.length (objs s') = List.length (objs s) -> getd s' x = getd s x -> get s' x = get s x.
Proof.
  intros s s' x L E. unfold get, getd in *.
  destruct (Nat.lt_ge_cases x (List.length (objs s))) as [Lt|Ge].
  - assert (Lt' : x < List.length (objs s')) by lia.
    rewrite (nth_error_nth' (objs s) blank Lt), (nth_error_nth' (objs s') blank Lt'). f_equal. exact E.
  - assert (Ge' : List.length (objs s') <= x) by lia.
    apply nth_error_None in Ge. apply nth_error_None in Ge'. congruence.
Qed.

(* ------------------------------------------------------------------------------------------------ local frames *)

Lemma fold_clear_frame : forall l s y, ~ In y l -> getd (fold_left (fun s' x => set_parent_of s' x None) l s) y = getd s y.
Proof.
  induction l as [|a t IH]; intros s y H; cbn; [reflexivity|].
  rewrite IH by (intros Hin; apply H; right; assumption).
  unfold set_parent_of. apply getd_upd_other. intros ->. apply H. left. reflexivity.
Qed.

Lemma remove_all_children_frame : forall s K k y, y <> k -> ~ In y (children s K k) ->
  getd (remove_all_children s K k) y = getd s y.
Proof.
  intros s K k y Hk Hn. unfold remove_all_children, set_children. rewrite getd_upd_other by congruence.
  apply fold_clear_frame. assumption.
Qed.

Lemma set_equiv_to_frame : forall s a b y, y <> a -> getd (fst (set_equiv_to s a b)) y = getd s y.
Proof.
  intros s a b y H. unfold set_equiv_to. destruct (memb b (eqs_of s a)); cbn; [reflexivity|].
  unfold set_eqs_of. apply getd_upd_other. congruence.
Qed.

Lemma unset_equiv_to_frame : forall s a b y, y <> a -> getd (fst (unset_equiv_to s a b)) y = getd s y.
Proof.
  intros s a b y H. unfold unset_equiv_to. destruct (memb b (eqs_of s a)); cbn; [|reflexivity].
  unfold set_eqs_of. apply getd_upd_other. congruence.
Qed.

Lemma add_equivalence_frame : forall s a b y, y <> a -> y <> b -> getd (fst (add_equivalence s a b)) y = getd s y.
Proof.
  intros s a b y Ha Hb. unfold add_equivalence.
  pose proof (set_equiv_to_frame s a b y Ha) as F1. destruct (set_equiv_to s a b) as [s1 c1]. cbn [fst] in F1.
  pose proof (set_equiv_to_frame s1 b a y Hb) as F2. destruct (set_equiv_to s1 b a) as [s2 c2]. cbn [fst] in F2.
  cbn [fst]. destruct (c1 && negb c2).
  - rewrite unset_equiv_to_frame by assumption. congruence.
  - congruence.
Qed.

Lemma remove_equivalence_frame : forall s a b y, y <> a -> y <> b -> getd (fst (remove_equivalence s a b)) y = getd s y.
Proof.
  intros s a b y Ha Hb. unfold remove_equivalence.
  pose proof (unset_equiv_to_frame s a b y Ha) as F1. destruct (unset_equiv_to s a b) as [s1 r1]. cbn [fst] in F1.
  destruct r1; cbn [fst]; [|assumption].
  rewrite unset_equiv_to_frame by assumption. assumption.
Qed.

Lemma fold_unset_frame : forall v l s y, ~ In y l ->
  getd (fold_left (fun s' w => fst (unset_equiv_to s' w v)) l s) y = getd s y.
Proof.
  intros v l. induction l as [|w t IH]; intros s y H; cbn [fold_left]; [reflexivity|].
  rewrite IH by (intros Hin; apply H; right; assumption).
  apply unset_equiv_to_frame. intros ->. apply H. left. reflexivity.
Qed.

Lemma remove_all_equivalences_frame : forall s v y, y <> v -> ~ In y (eqs_of s v) ->
  getd (remove_all_equivalences s v) y = getd s y.
Proof.
  intros s v y Hv Hn. unfold remove_all_equivalences, set_eqs_of. rewrite getd_upd_other by congruence.
  apply fold_unset_frame. assumption.
Qed.

Lemma set_equiv_to_len : forall s a b, List.length (objs (fst (set_equiv_to s a b))) = List.length (objs s).
Proof. intros. unfold set_equiv_to. destruct (memb b (eqs_of s a)); cbn; [reflexivity|apply length_upd]. Qed.
Lemma unset_equiv_to_len : forall s a b, List.length (objs (fst (unset_equiv_to s a b))) = List.length (objs s).
Proof. intros. unfold unset_equiv_to. destruct (memb b (eqs_of s a)); cbn; [apply length_upd|reflexivity]. Qed.
Lemma add_equivalence_len : forall s a b, List.length (objs (fst (add_equivalence s a b))) = List.length (objs s).
Proof.
  intros s a b. unfold add_equivalence.
  pose proof (set_equiv_to_len s a b) as L1. destruct (set_equiv_to s a b) as [s1 c1]. cbn [fst] in L1.
  pose proof (set_equiv_to_len s1 b a) as L2. destruct (set_equiv_to s1 b a) as [s2 c2]. cbn [fst] in L2.
  cbn [fst]. destruct (c1 && negb c2); [rewrite unset_equiv_to_len|]; congruence.
Qed.
Lemma remove_equivalence_len : forall s a b, List.length (objs (fst (remove_equivalence s a b))) = List.length (objs s).
Proof.
  intros s a b. unfold remove_equivalence.
  pose proof (unset_equiv_to_len s a b) as L1. destruct (unset_equiv_to s a b) as [s1 r1]. cbn [fst] in L1.
  destruct r1; cbn [fst]; [rewrite unset_equiv_to_len|]; congruence.
Qed.
Lemma fold_unset_len : forall v l s, List.length (objs (fold_left (fun s' w => fst (unset_equiv_to s' w v)) l s)) = List.length (objs s).
Proof. intros v l. induction l as [|w t IH]; intros s; cbn [fold_left]; [reflexivity|]. rewrite IH. apply unset_equiv_to_len. Qed.
Lemma remove_all_equivalences_len : forall s v, List.length (objs (remove_all_equivalences s v)) = List.length (objs s).
Proof. intros. unfold remove_all_equivalences, set_eqs_of. rewrite length_upd. apply fold_unset_len. Qed.

Lemma getd_add_handle : forall s h y, getd (add_handle s h) y = getd s y.
Proof. intros s h y. unfold add_handle. destruct (held s h); reflexivity. Qed.

(* ------------------------------------------------------------------------------------------------ what an op touches *)

Section Touched.
  Variable seq : state -> nat -> nat -> bool.

  Definition T_detach (s : state) (K : ck) (k i : nat) (x : nat) : Prop := x = k \/ nth_error (children s K k) i = Some x.
  Definition T_at (s : state) (K : ck) (k : nat) (io : option nat) (x : nat) : Prop :=
    match io with Some i => T_detach s K k i x | None => False end.
  (** container, moved entity, its previous parent *)
  Definition T_attach (s : state) (k c : nat) (x : nat) : Prop := x = k \/ x = c \/ parent_of s c = Some x.
  (** container, replaced child, replacement, the replacement's previous parent *)
  Definition T_replace (s : state) (K : ck) (k : nat) (io : option nat) (c : nat) (x : nat) : Prop :=
    x = k \/ x = c \/ parent_of s c = Some x \/ T_at s K k io x.
  (** the searching overloads: the level k' at which the call is performed *)
  Definition site {A} (s : state) (dp : bool) (g : nat -> local A) (k k' : nat) : Prop :=
    exists a, g k' = LDone a /\ with_deep s dp g k = LDone a.
  Definition ofind (s : state) (K : ck) (k : nat) (x : option nat) : option nat :=
    match x with Some a => find_child true seq s K k a | None => None end.

  Definition touched (o : op) (s : state) (x : nat) : Prop :=
    match o with
    | AddComponent k (Some c) | AddVariable k (Some c) | AddReset k (Some c) | AddUnits k (Some c) => T_attach s k c x
    | RemoveComponentIdx k i | TakeComponentIdx k i => T_detach s CComps k i x
    | RemoveVariableIdx k i | TakeVariableIdx k i => T_detach s CVars k i x
    | RemoveResetIdx k i | TakeReset k i => T_detach s CResets k i x
    | RemoveUnitsIdx k i | TakeUnitsIdx k i => T_detach s CUnits k i x
    | RemoveComponentName k n dp =>
        exists k', site s dp (fun k' => of_opt (remove_at s CComps k' (find_named s CComps k' n))) k k' /\
                   T_at s CComps k' (find_named s CComps k' n) x
    | TakeComponentName k n dp =>
        exists k', site s dp (fun k' => of_opt (take_at s CComps k' (find_named s CComps k' n))) k k' /\
                   T_at s CComps k' (find_named s CComps k' n) x
    | RemoveComponentPtr k (Some a) dp =>
        exists k', site s dp (fun k' => of_opt (remove_ptr_local true seq s CComps k' a)) k k' /\
                   T_at s CComps k' (find_child true seq s CComps k' a) x
    | ReplaceComponentIdx k i (Some c) => T_replace s CComps k (Some i) c x
    | ReplaceComponentName k n (Some c) dp =>
        exists k', site s dp (fun k' => replace_at true seq s CComps k' (find_named s CComps k' n) (Some c)) k k' /\
                   T_replace s CComps k' (find_named s CComps k' n) c x
    | ReplaceComponentPtr k old (Some c) dp =>
        exists k', site s dp (fun k' => replace_at true seq s CComps k' (ofind s CComps k' old) (Some c)) k k' /\
                   T_replace s CComps k' (ofind s CComps k' old) c x
    | RemoveAllComponents k => x = k \/ In x (children s CComps k)
    | RemoveVariableName k n | TakeVariableName k n => T_at s CVars k (find_named s CVars k n) x
    | RemoveVariablePtr k (Some a) => T_at s CVars k (find_child true seq s CVars k a) x
    | RemoveAllVariables k => x = k \/ In x (children s CVars k)
    | RemoveResetPtr k (Some a) => T_at s CResets k (find_child true seq s CResets k a) x
    | RemoveAllResets k => x = k \/ In x (children s CResets k)
    | RemoveUnitsName k n | TakeUnitsName k n => T_at s CUnits k (find_named s CUnits k n) x
    | RemoveUnitsPtr k (Some a) => T_at s CUnits k (find_child true seq s CUnits k a) x
    | ReplaceUnitsIdx k i (Some c) => T_replace s CUnits k (Some i) c x
    | ReplaceUnitsName k n (Some c) => T_replace s CUnits k (find_named s CUnits k n) c x
    | ReplaceUnitsPtr k old (Some c) => T_replace s CUnits k (ofind s CUnits k old) c x
    | RemoveAllUnits k => x = k \/ In x (children s CUnits k)
    | AddEquivalence (Some a) (Some b) | AddEquivalence4 (Some a) (Some b) | RemoveEquivalence (Some a) (Some b) => x = a \/ x = b
    | RemoveAllEquivalences v => x = v \/ In x (eqs_of s v)
    | SetUnits v _ | SetResetVariable v _ | SetResetTestVariable v _ => x = v
    | _ => False          (* refusals, release (only the caller's handles change), every query *)
    end.

  (** [core s s' P]: s' is s, or what a state s1 becomes when the unreferenced is destroyed, where s1 agrees with s outside P *)
  Definition core (s s' : state) (P : nat -> Prop) : Prop :=
    exists s1, (s' = s1 \/ s' = gc s1) /\ List.length (objs s1) = List.length (objs s) /\
               forall x, ~ P x -> getd s1 x = getd s x.

  Lemma core_same : forall s P, core s s P.
  Proof. intros s P. exists s. auto. Qed.

  Lemma core_gc : forall s s1 (P : nat -> Prop), List.length (objs s1) = List.length (objs s) ->
    (forall x, ~ P x -> getd s1 x = getd s x) -> core s (gc s1) P.
  Proof. intros s s1 P L F. exists s1. auto. Qed.

  Lemma detached_len : forall s K k i x, List.length (objs (detached s K k i x)) = List.length (objs s).
  Proof. intros. destruct (detached_shape s K k i x) as [L _]. exact L. Qed.

  Lemma detach_core : forall s K k i s1 y, detach_at s K k i = Some (s1, y) ->
    List.length (objs s1) = List.length (objs s) /\ forall x, ~ T_detach s K k i x -> getd s1 x = getd s x.
  Proof.
    intros s K k i s1 y H. apply detach_at_spec in H. destruct H as [Hn ->]. split; [apply detached_len|].
    intros x Hx. apply detached_frame; intros ->; apply Hx; [left; reflexivity|right; assumption].
  Qed.

  Lemma remove_at_core : forall s K k io s1, remove_at s K k io = Some s1 ->
    List.length (objs s1) = List.length (objs s) /\ forall x, ~ T_at s K k io x -> getd s1 x = getd s x.
  Proof.
    intros s K k io s1 H. unfold remove_at in H. destruct io as [i|]; [|discriminate].
    destruct (detach_at s K k i) as [[s2 y]|] eqn:E; [|discriminate]. cbn in H. inversion H; subst.
    eapply detach_core; eauto.
  Qed.

  Lemma take_at_core : forall s K k io s1 y, take_at s K k io = Some (s1, y) ->
    List.length (objs s1) = List.length (objs s) /\ forall x, ~ T_at s K k io x -> getd s1 x = getd s x.
  Proof.
    intros s K k io s1 y H. unfold take_at in H. destruct io as [i|]; [|discriminate]. eapply detach_core; eauto.
  Qed.

  Lemma remove_ptr_core : forall s K k a s1, remove_ptr_local true seq s K k a = Some s1 ->
    List.length (objs s1) = List.length (objs s) /\ forall x, ~ T_at s K k (find_child true seq s K k a) x -> getd s1 x = getd s x.
  Proof.
    intros s K k a s1 H. unfold remove_ptr_local in H. cbn [orb] in H.
    destruct (find_child true seq s K k a) as [i|] eqn:E; [|discriminate].
    destruct (detach_at s K k i) as [[s2 y]|] eqn:D; [|discriminate]. cbn in H. inversion H; subst.
    eapply detach_core; eauto.
  Qed.

  Lemma attach_len : forall s K k c, List.length (objs (attach true seq s K k c)) = List.length (objs s).
  Proof.
    intros s K k c. unfold attach, push_child, set_children, set_parent_of. rewrite !length_upd.
    unfold leave_parent. destruct (parent_of s c) as [p|]; [|reflexivity].
    destruct (oeqb (Some p) (Some k)); [reflexivity|].
    destruct (remove_ptr_local true seq s K p c) as [s1|] eqn:E; [|reflexivity].
    apply remove_ptr_core in E. apply E.
  Qed.

  Lemma attach_core : forall s K k c, Inv s -> kindd s c = child_kind K ->
    forall x, ~ T_attach s k c x -> getd (attach true seq s K k c) x = getd s x.
  Proof.
    intros s K k c I Hk x Hx. apply attach_frame; auto; intros E; apply Hx; unfold T_attach; auto.
  Qed.

  Lemma replace_len : forall s K k io c s1 b, replace_at true seq s K k io (Some c) = LDone (s1, b) ->
    List.length (objs s1) = List.length (objs s).
  Proof.
    intros s K k io c s1 b H. unfold replace_at in H. destruct io as [i|]; [|discriminate].
    destruct (nth_error (children s K k) i) as [old|]; [|discriminate].
    destruct (ck_eqb K CComps && Nat.eqb c k); [discriminate|].
    destruct (if ck_eqb K CComps then has_ancestor s (fuel_of s) k c else Some false) as [[|]|]; try discriminate.
    destruct (Nat.eqb old c); [inversion H; reflexivity|].
    assert (L1 : List.length (objs (leave_parent true seq s K c None)) = List.length (objs s)).
    { unfold leave_parent. destruct (parent_of s c) as [p|]; [|reflexivity]. cbn [oeqb].
      destruct (remove_ptr_local true seq s K p c) as [s2|] eqn:E; [|reflexivity]. apply remove_ptr_core in E. apply E. }
    destruct (match parent_of s c with Some _ => _ | None => _ end) as [j|]; [|inversion H; subst; exact L1].
    unfold replace_core in H. destruct (detach_at _ K k j) as [[s2 z]|] eqn:D; [|inversion H; subst; exact L1].
    inversion H; subst. unfold set_parent_of, insert_child, set_children. rewrite !length_upd.
    apply detach_core in D. destruct D as [L2 _]. congruence.
  Qed.

  Lemma replace_core_frame : forall s K k io c s1 b, Inv s -> kindd s c = child_kind K ->
    replace_at true seq s K k io (Some c) = LDone (s1, b) ->
    forall x, ~ T_replace s K k io c x -> getd s1 x = getd s x.
  Proof.
    intros s K k io c s1 b I Hk H x Hx.
    destruct (replace_frame seq s K k io c s1 b I Hk H) as [i [old [-> [Hn F]]]].
    apply F; intros E; apply Hx; unfold T_replace, T_at, T_detach; subst; auto.
  Qed.

  Ltac ill H := inversion H; subst; apply core_same.
  Ltac grd H := match type of H with (if ?c then _ else _) = _ => let G := fresh "G" in destruct c eqn:G; [|ill H] end.

  Lemma fin_remove_core : forall s r s' ret (P : nat -> Prop), fin_remove s r = Ok s' ret ->
    (forall s1, r = LDone s1 -> List.length (objs s1) = List.length (objs s) /\ forall x, ~ P x -> getd s1 x = getd s x) ->
    core s s' P.
  Proof.
    intros s r s' ret P H F. destruct r as [s1| |]; cbn in H; inversion H; subst; [|apply core_same].
    destruct (F s1 eq_refl). apply core_gc; assumption.
  Qed.

  Lemma fin_replace_core : forall s r s' ret (P : nat -> Prop), fin_replace s r = Ok s' ret ->
    (forall s1 b, r = LDone (s1, b) -> List.length (objs s1) = List.length (objs s) /\ forall x, ~ P x -> getd s1 x = getd s x) ->
    core s s' P.
  Proof.
    intros s r s' ret P H F. destruct r as [[s1 b]| |]; cbn in H; inversion H; subst; [|apply core_same].
    destruct (F s1 b eq_refl). apply core_gc; assumption.
  Qed.

  Lemma fin_take_core : forall s r s' ret (P : nat -> Prop), fin_take s r = Ok s' ret ->
    (forall s1 y, r = LDone (s1, y) -> List.length (objs s1) = List.length (objs s) /\ forall x, ~ P x -> getd s1 x = getd s x) ->
    core s s' P.
  Proof.
    intros s r s' ret P H F. destruct r as [[s1 y]| |]; cbn in H; inversion H; subst; [|apply core_same].
    destruct (F s1 y eq_refl) as [L G]. apply core_gc.
    - unfold add_handle. destruct (held s1 y); assumption.
    - intros x Hx. rewrite getd_add_handle. apply G. assumption.
  Qed.

  Lemma oarg_kind : forall s c k, oarg_ok s (Some c) k = true -> kindd s c = k.
  Proof. intros s c k H. cbn in H. apply arg_facts in H. apply H. Qed.

  (** every op: outside [touched], the state before destruction is the state before the call *)
  Theorem step_core : forall s o s' r, Inv s -> step true seq s o = Ok s' r -> core s s' (touched o s).
  Proof.
    intros s o s' r I H. destruct o; cbn [step] in H; grd H.
    - (* AddComponent *) apply andb_true_iff in G. destruct G as [G1 G2]. destruct c as [c|]; [|cbn in H; ill H].
      pose proof (oarg_kind _ _ _ G2) as Hk. unfold add_component in H.
      destruct (kind_is s k KModel); [inversion H; subst; apply core_gc; [apply attach_len|apply attach_core; assumption]|].
      destruct (Nat.eqb k c); [ill H|].
      destruct (has_ancestor s (fuel_of s) k c) as [[|]|]; try discriminate; [ill H|].
      inversion H; subst. apply core_gc; [apply attach_len|apply attach_core; assumption].
    - eapply fin_remove_core; eauto. intros s1 E. apply of_opt_done in E. cbn [touched]. eapply remove_at_core in E.
      exact E.
    - (* RemoveComponentName *) eapply fin_remove_core; eauto. intros s1 E.
      destruct (with_deep_done _ _ _ _ _ E) as [k' E']. pose proof E' as E2. apply of_opt_done in E2. apply remove_at_core in E2.
      destruct E2 as [L F]. split; [exact L|]. intros x Hx. apply F. intros T. apply Hx. cbn [touched]. exists k'. split; [|exact T].
      exists s1. auto.
    - (* RemoveComponentPtr *) destruct c as [a|].
      + eapply fin_remove_core; eauto. intros s1 E.
        destruct (with_deep_done _ _ _ _ _ E) as [k' E']. pose proof E' as E2. apply of_opt_done in E2. apply remove_ptr_core in E2.
        destruct E2 as [L F]. split; [exact L|]. intros x Hx. apply F. intros T. apply Hx. cbn [touched]. exists k'. split; [|exact T].
        exists s1. auto.
      + destruct deep; [|ill H]. destruct (with_deep s true (fun _ : nat => @LRefused state) k); try discriminate; ill H.
    - eapply fin_take_core; eauto. intros s1 y E. apply of_opt_done in E. cbn [touched]. eapply take_at_core in E. exact E.
    - (* TakeComponentName *) eapply fin_take_core; eauto. intros s1 y E.
      destruct (with_deep_done _ _ _ _ _ E) as [k' E']. pose proof E' as E2. apply of_opt_done in E2. apply take_at_core in E2.
      destruct E2 as [L F]. split; [exact L|]. intros x Hx. apply F. intros T. apply Hx. cbn [touched]. exists k'. split; [|exact T].
      exists (s1, y). auto.
    - (* ReplaceComponentIdx *) apply andb_true_iff in G. destruct G as [G1 G2]. destruct c as [c|].
      + pose proof (oarg_kind _ _ _ G2) as Hk. eapply fin_replace_core; eauto. intros s1 b E. split; [eapply replace_len; eauto|].
        cbn [touched]. eapply replace_core_frame; eauto.
      + destruct (replace_at_null seq s CComps k (Some i)) as [E'|[]]. rewrite E' in H. ill H.
    - (* ReplaceComponentName *) apply andb_true_iff in G. destruct G as [G1 G2]. destruct c as [c|].
      + pose proof (oarg_kind _ _ _ G2) as Hk. eapply fin_replace_core; eauto. intros s1 b E.
        destruct (with_deep_done _ _ _ _ _ E) as [k' E']. split; [eapply replace_len; eauto|].
        intros x Hx. apply (replace_core_frame s CComps k' _ c s1 b I Hk E'). intros T. apply Hx. cbn [touched]. exists k'. split; [|exact T].
        exists (s1, b). auto.
      + destruct (with_deep s deep (fun k' => replace_at true seq s CComps k' (find_named s CComps k' n) None) k) as [[s1 b]| |] eqn:E;
          cbn in H; try discriminate; [|ill H].
        destruct (with_deep_done _ _ _ _ _ E) as [k' E'].
        destruct (replace_at_null seq s CComps k' (find_named s CComps k' n)) as [E2|[]]. congruence.
    - (* ReplaceComponentPtr *) apply andb_true_iff in G. destruct G as [G1 G2]. destruct c as [c|].
      + pose proof (oarg_kind _ _ _ G2) as Hk. eapply fin_replace_core; eauto. intros s1 b E.
        destruct (with_deep_done _ _ _ _ _ E) as [k' E']. split; [eapply replace_len; eauto|].
        intros x Hx. apply (replace_core_frame s CComps k' _ c s1 b I Hk E'). intros T. apply Hx. cbn [touched]. exists k'. split; [|exact T].
        exists (s1, b). auto.
      + match type of H with fin_replace s ?w = _ => destruct w as [[s1 b]| |] eqn:E end; cbn in H; try discriminate; [|ill H].
        destruct (with_deep_done _ _ _ _ _ E) as [k' E'].
        match type of E' with replace_at _ _ _ _ _ ?io None = _ => destruct (replace_at_null seq s CComps k' io) as [E2|[]] end. congruence.
    - (* RemoveAllComponents *) inversion H; subst. apply core_gc.
      + unfold remove_all_children, set_children. rewrite length_upd. apply (fold_clear_shape _ s).
      + intros x Hx. apply remove_all_children_frame; intros E; apply Hx; cbn; subst; auto.
    - (* AddVariable *) apply andb_true_iff in G. destruct G as [G1 G2]. destruct v as [c|]; [|cbn in H; ill H].
      pose proof (oarg_kind _ _ _ G2) as Hk. cbn in H. inversion H; subst. apply core_gc; [apply attach_len|apply attach_core; assumption].
    - eapply fin_remove_core; eauto. intros s1 E. apply of_opt_done in E. cbn [touched]. eapply remove_at_core in E. exact E.
    - eapply fin_remove_core; eauto. intros s1 E. apply of_opt_done in E. cbn [touched]. eapply remove_at_core in E. exact E.
    - destruct v as [a|]; [|ill H]. eapply fin_remove_core; eauto. intros s1 E. apply of_opt_done in E. cbn [touched].
      eapply remove_ptr_core in E. exact E.
    - eapply fin_take_core; eauto. intros s1 y E. apply of_opt_done in E. cbn [touched]. eapply take_at_core in E. exact E.
    - eapply fin_take_core; eauto. intros s1 y E. apply of_opt_done in E. cbn [touched]. eapply take_at_core in E. exact E.
    - inversion H; subst. apply core_gc.
      + unfold remove_all_children, set_children. rewrite length_upd. apply (fold_clear_shape _ s).
      + intros x Hx. apply remove_all_children_frame; intros E; apply Hx; cbn; subst; auto.
    - (* AddReset *) apply andb_true_iff in G. destruct G as [G1 G2]. destruct r0 as [c|]; [|cbn in H; ill H].
      pose proof (oarg_kind _ _ _ G2) as Hk. cbn in H. inversion H; subst. apply core_gc; [apply attach_len|apply attach_core; assumption].
    - eapply fin_remove_core; eauto. intros s1 E. apply of_opt_done in E. cbn [touched]. eapply remove_at_core in E. exact E.
    - destruct r0 as [a|]; [|ill H]. eapply fin_remove_core; eauto. intros s1 E. apply of_opt_done in E. cbn [touched].
      eapply remove_ptr_core in E. exact E.
    - eapply fin_take_core; eauto. intros s1 y E. apply of_opt_done in E. cbn [touched]. eapply take_at_core in E. exact E.
    - inversion H; subst. apply core_gc.
      + unfold remove_all_children, set_children. rewrite length_upd. apply (fold_clear_shape _ s).
      + intros x Hx. apply remove_all_children_frame; intros E; apply Hx; cbn; subst; auto.
    - (* AddUnits *) apply andb_true_iff in G. destruct G as [G1 G2]. destruct u as [c|]; [|cbn in H; ill H].
      pose proof (oarg_kind _ _ _ G2) as Hk. cbn in H. inversion H; subst. apply core_gc; [apply attach_len|apply attach_core; assumption].
    - eapply fin_remove_core; eauto. intros s1 E. apply of_opt_done in E. cbn [touched]. eapply remove_at_core in E. exact E.
    - eapply fin_remove_core; eauto. intros s1 E. apply of_opt_done in E. cbn [touched]. eapply remove_at_core in E. exact E.
    - destruct u as [a|]; [|ill H]. eapply fin_remove_core; eauto. intros s1 E. apply of_opt_done in E. cbn [touched].
      eapply remove_ptr_core in E. exact E.
    - eapply fin_take_core; eauto. intros s1 y E. apply of_opt_done in E. cbn [touched]. eapply take_at_core in E. exact E.
    - eapply fin_take_core; eauto. intros s1 y E. apply of_opt_done in E. cbn [touched]. eapply take_at_core in E. exact E.
    - (* ReplaceUnitsIdx *) apply andb_true_iff in G. destruct G as [G1 G2]. destruct u as [c|].
      + pose proof (oarg_kind _ _ _ G2) as Hk. eapply fin_replace_core; eauto. intros s1 b E. split; [eapply replace_len; eauto|].
        cbn [touched]. eapply replace_core_frame; eauto.
      + destruct (replace_at_null seq s CUnits k (Some i)) as [E'|[]]. rewrite E' in H. ill H.
    - (* ReplaceUnitsName *) apply andb_true_iff in G. destruct G as [G1 G2]. destruct u as [c|].
      + pose proof (oarg_kind _ _ _ G2) as Hk. eapply fin_replace_core; eauto. intros s1 b E. split; [eapply replace_len; eauto|].
        cbn [touched]. eapply replace_core_frame; eauto.
      + destruct (replace_at_null seq s CUnits k (find_named s CUnits k n)) as [E'|[]]. rewrite E' in H. ill H.
    - (* ReplaceUnitsPtr *) apply andb_true_iff in G. destruct G as [G1 G2]. destruct u as [c|].
      + pose proof (oarg_kind _ _ _ G2) as Hk. eapply fin_replace_core; eauto. intros s1 b E. split; [eapply replace_len; eauto|].
        cbn [touched]. eapply replace_core_frame; eauto.
      + match type of H with fin_replace s (replace_at _ _ _ _ _ ?io None) = _ => destruct (replace_at_null seq s CUnits k io) as [E'|[]] end.
        rewrite E' in H. ill H.
    - inversion H; subst. apply core_gc.
      + unfold remove_all_children, set_children. rewrite length_upd. apply (fold_clear_shape _ s).
      + intros x Hx. apply remove_all_children_frame; intros E; apply Hx; cbn; subst; auto.
    - (* AddEquivalence *) destruct a as [x|]; [|ill H]. destruct b as [y|]; [|ill H].
      pose proof (add_equivalence_frame s x y) as F. pose proof (add_equivalence_len s x y) as L.
      destruct (add_equivalence s x y) as [s1 r1]. inversion H; subst. cbn [fst] in *. apply core_gc; [exact L|].
      intros z Hz. apply F; intros ->; apply Hz; cbn; auto.
    - (* AddEquivalence4 *) destruct a as [x|]; [|ill H]. destruct b as [y|]; [|ill H].
      pose proof (add_equivalence_frame s x y) as F. pose proof (add_equivalence_len s x y) as L.
      destruct (add_equivalence s x y) as [s1 r1]. inversion H; subst. cbn [fst] in *. apply core_gc; [exact L|].
      intros z Hz. apply F; intros ->; apply Hz; cbn; auto.
    - (* RemoveEquivalence *) destruct a as [x|]; [|ill H]. destruct b as [y|]; [|ill H].
      pose proof (remove_equivalence_frame s x y) as F. pose proof (remove_equivalence_len s x y) as L.
      destruct (remove_equivalence s x y) as [s1 r1]. inversion H; subst. cbn [fst] in *. apply core_gc; [exact L|].
      intros z Hz. apply F; intros ->; apply Hz; cbn; auto.
    - (* RemoveAllEquivalences *) inversion H; subst. apply core_gc; [apply remove_all_equivalences_len|].
      intros z Hz. apply remove_all_equivalences_frame; intros E; apply Hz; cbn; subst; auto.
    - (* SetUnits *) inversion H; subst. apply core_gc; [apply length_upd|]. intros z Hz. apply getd_upd_other. intros ->. apply Hz. reflexivity.
    - inversion H; subst. apply core_gc; [apply length_upd|]. intros z Hz. apply getd_upd_other. intros ->. apply Hz. reflexivity.
    - inversion H; subst. apply core_gc; [apply length_upd|]. intros z Hz. apply getd_upd_other. intros ->. apply Hz. reflexivity.
    - (* Release *) inversion H; subst. apply core_gc; [reflexivity|]. intros z _. reflexivity.
    - (* Query *) destruct (query_eval true seq s q) as [[b|[x|]| |]|]; inversion H; subst; try apply core_same.
      apply core_gc; [unfold add_handle; destruct (held s x); reflexivity|]. intros z _. apply getd_add_handle.
  Qed.

  (** THE FRAME THEOREM, all op constructors.  An object that the op does not touch keeps its record, provided the call
      does not destroy it and does not destroy anything it refers to weakly (its parent, its equivalent variables) --
      dropping references to the destroyed is the only thing destruction does to a survivor ([gc_frame]). *)
  Theorem step_frame : forall o s s' r, Inv s -> step true seq s o = Ok s' r ->
    forall x, ~ touched o s x ->
      alive s' x = true ->
      (forall p, parent_of s x = Some p -> alive s' p = true) ->
      (forall b, In b (eqs_of s x) -> alive s' b = true) ->
      get s' x = get s x.
  Proof.
    intros o s s' r I H x Hx A P E. destruct (step_core s o s' r I H) as [s1 [[->| ->] [L F]]].
    - apply get_of_getd; [exact L|]. apply F. exact Hx.
    - specialize (F x Hx). apply get_of_getd.
      + destruct (gc_shape' s1) as [L1 _]. congruence.
      + rewrite <- F. apply gc_keeps.
        * rewrite <- alive_gc. exact A.
        * intros p Hp. rewrite <- alive_gc. apply P. unfold parent_of in *. rewrite <- F. exact Hp.
        * intros b Hb. rewrite <- alive_gc. apply E. unfold eqs_of in *. rewrite <- F. exact Hb.
  Qed.

  (** queries and release touch no record at all *)
  Corollary query_release_touch_nothing : forall s x, (forall q, ~ touched (Query q) s x) /\ (forall h, ~ touched (Release h) s x).
  Proof. intros s x. split; intros ? H; exact H. Qed.
End Touched.

(* ------------------------------------------------------------------------------------------------ an object that is not a child *)

Section Matched.
  Variable seq : state -> nat -> nat -> bool.

  (** the lookup of a pointer that is not a child ends at the FIRST child structurally equal to it *)
  Lemma find_child_nonchild_first : forall s K k x i, ~ In x (children s K k) ->
    find_child true seq s K k x = Some i ->
    exists y, nth_error (children s K k) i = Some y /\ seq s y x = true /\
              forall j z, j < i -> nth_error (children s K k) j = Some z -> seq s z x = false.
  Proof.
    intros s K k x i Hn H. unfold find_child in H. cbn [orb] in H.
    destruct (index_of x (children s K k)) as [j|] eqn:Ej.
    { exfalso. apply Hn. apply index_of_some in Ej. eapply nth_error_In; eauto. }
    pose proof (find_index_first _ _ _ H) as F. apply find_index_some in H. destruct H as [y [Hy Hs]].
    exists y. split; [exact Hy|split; [exact Hs|]]. intros j z Hj Hz. eapply F; eauto.
  Qed.

  (** remove by pointer, the pointer is not a child: refused, or the first structurally equal child y goes and ITS links are
      updated (no parent, not listed any more); the object handed in keeps its record *)
  Theorem remove_nonchild_first : forall s K k x s', Inv s -> ~ In x (children s K k) ->
    remove_ptr_local true seq s K k x = Some s' ->
    exists i y, nth_error (children s K k) i = Some y /\ seq s y x = true /\
      (forall j z, j < i -> nth_error (children s K k) j = Some z -> seq s z x = false) /\
      s' = detached s K k i y /\ parent_of s' y = None /\ ~ In y (children s' K k) /\
      (x <> k -> getd s' x = getd s x).
  Proof.
    intros s K k x s' I Hn H. unfold remove_ptr_local in H. cbn [orb] in H.
    destruct (find_child true seq s K k x) as [i|] eqn:E; [|discriminate].
    destruct (find_child_nonchild_first s K k x i Hn E) as [y [Hy [Hs F]]].
    unfold detach_at in H. rewrite Hy in H. cbn in H.
    assert (Es : s' = detached s K k i y) by (inversion H; reflexivity). clear H. subst s'. exists i, y.
    assert (Hin : In y (children s K k)) by (eapply nth_error_In; eauto).
    assert (Hyr : inr s y) by (eapply parent_inr; eapply (inv_cp s I); eauto).
    split; [exact Hy|split; [exact Hs|split; [exact F|split; [reflexivity|split; [|split]]]]].
    - rewrite detached_parent by assumption. rewrite Nat.eqb_refl. reflexivity.
    - intros Hc. apply (detached_members seq s K k i y I Hy) in Hc. destruct Hc as [_ Hc]. apply Hc. reflexivity.
    - intros Hk. apply detached_frame; [assumption|]. intros ->. contradiction.
  Qed.

  (** the same at the level of [step], for the four by-pointer removals (components: without search) *)
  Lemma step_remove_nonchild_gen : forall s K k x, ~ In x (children s K k) ->
    forall i y, find_child true seq s K k x = Some i -> nth_error (children s K k) i = Some y ->
    fin_remove s (of_opt (remove_ptr_local true seq s K k x)) = Ok (gc (detached s K k i y)) (RBool true).
  Proof.
    intros s K k x Hn i y E Hy. unfold remove_ptr_local. cbn [orb]. rewrite E. unfold detach_at. rewrite Hy. reflexivity.
  Qed.

  Theorem step_remove_nonchild_first : forall s k x i y,
    (recv s k CVars = true -> arg_ok s x KVar = true -> ~ In x (children s CVars k) ->
       find_child true seq s CVars k x = Some i -> nth_error (children s CVars k) i = Some y ->
       step true seq s (RemoveVariablePtr k (Some x)) = Ok (gc (detached s CVars k i y)) (RBool true)) /\
    (recv s k CResets = true -> arg_ok s x KReset = true -> ~ In x (children s CResets k) ->
       find_child true seq s CResets k x = Some i -> nth_error (children s CResets k) i = Some y ->
       step true seq s (RemoveResetPtr k (Some x)) = Ok (gc (detached s CResets k i y)) (RBool true)) /\
    (recv s k CUnits = true -> arg_ok s x KUnits = true -> ~ In x (children s CUnits k) ->
       find_child true seq s CUnits k x = Some i -> nth_error (children s CUnits k) i = Some y ->
       step true seq s (RemoveUnitsPtr k (Some x)) = Ok (gc (detached s CUnits k i y)) (RBool true)) /\
    (recv s k CComps = true -> arg_ok s x KComp = true -> ~ In x (children s CComps k) ->
       find_child true seq s CComps k x = Some i -> nth_error (children s CComps k) i = Some y ->
       step true seq s (RemoveComponentPtr k (Some x) false) = Ok (gc (detached s CComps k i y)) (RBool true)).
  Proof.
    intros s k x i y. repeat split; intros Hr Ha Hn E Hy; cbn [step oarg_ok]; rewrite Hr, Ha; cbn [andb];
      unfold with_deep; try rewrite (step_remove_nonchild_gen s _ k x Hn i y E Hy); try reflexivity.
    unfold remove_ptr_local. cbn [orb]. rewrite E. unfold detach_at. rewrite Hy. reflexivity.
  Qed.

  (** replace by pointer, the pointer [old] is not a child: refused, or the first structurally equal child y is the one
      replaced, and ITS parent is cleared (unless it is the replacement itself) *)
  Theorem replace_nonchild_first : forall s K k old c s' b, Inv s -> inr s c -> kindd s c = child_kind K ->
    ~ In old (children s K k) ->
    replace_at true seq s K k (find_child true seq s K k old) (Some c) = LDone (s', b) ->
    exists i y, nth_error (children s K k) i = Some y /\ seq s y old = true /\
      (forall j z, j < i -> nth_error (children s K k) j = Some z -> seq s z old = false) /\
      (y <> c -> b = true -> parent_of s' y = None) /\
      (forall x, x <> k -> x <> y -> x <> c -> parent_of s c <> Some x -> getd s' x = getd s x).
  Proof.
    intros s K k old c s' b I Hc Hkc Hn H.
    destruct (find_child true seq s K k old) as [i|] eqn:E; [|cbn in H; discriminate].
    destruct (find_child_nonchild_first s K k old i Hn E) as [y [Hy [Hs F]]].
    exists i, y. split; [exact Hy|split; [exact Hs|split; [exact F|split]]].
    2:{ intros x Hk Hxy Hxc Hp. destruct (replace_frame seq s K k (Some i) c s' b I Hkc H) as [i' [old' [Ei [Hn' G]]]].
        inversion Ei; subst i'. rewrite Hy in Hn'. inversion Hn'; subst old'. apply G; assumption. }
    intros Hyc Hb. unfold replace_at in H. rewrite Hy in H.
    assert (Hin : In y (children s K k)) by (eapply nth_error_In; eauto).
    assert (Hpo : parent_of s y = Some k) by (eapply inv_cp; eauto).
    destruct (ck_eqb K CComps && Nat.eqb c k); [discriminate|].
    destruct (if ck_eqb K CComps then has_ancestor s (fuel_of s) k c else Some false) as [[|]|]; try discriminate.
    destruct (Nat.eqb_spec y c) as [Eyc|_]; [contradiction|].
    destruct (leave_parent_spec seq s K c None I Hkc) as [[p [_ [Hkp _]]]|L]; [discriminate|].
    set (s1 := leave_parent true seq s K c None) in *.
    destruct L as [I1 [P1 [PO [M1 [[SL SK] [_ _]]]]]].
    assert (Hj : forall j, (match parent_of s c with Some _ => index_of y (children s1 K k) | None => Some i end) = Some j ->
                           nth_error (children s1 K k) j = Some y).
    { intros j Hj. destruct (parent_of s c) eqn:Epc.
      - apply index_of_some. assumption.
      - inversion Hj; subst j. subst s1. unfold leave_parent. rewrite Epc. assumption. }
    destruct (match parent_of s c with Some _ => index_of y (children s1 K k) | None => Some i end) as [j|].
    2:{ inversion H; subst. discriminate. }
    specialize (Hj j eq_refl). unfold replace_core, detach_at in H. rewrite Hj in H. inversion H; subst s' b.
    rewrite parent_set_parent_of. destruct (Nat.eqb_spec c y) as [Ecy|_]; [exfalso; apply Hyc; congruence|]. cbn [andb].
    unfold insert_child. rewrite parent_set_children.
    assert (Hy1 : inr s1 y) by (unfold inr; rewrite SL; eapply parent_inr; eauto).
    change (parent_of (detached s1 K k j y) y = None). rewrite detached_parent by assumption.
    rewrite Nat.eqb_refl. reflexivity.
  Qed.
End Matched.

(* ------------------------------------------------------------------------------------------------ equivalence symmetric in every history *)

Theorem equivalence_symmetric_history : forall seq u ops s', no_readds seq (init u) ops ->
  run true seq (init u) ops = Some s' -> forall a b, In b (eqs_of s' a) -> In a (eqs_of s' b).
Proof.
  intros seq u ops s' N H. apply (inv_eq s'). exact (run_inv seq ops (init u) s' (init_inv u) N H).
Qed.
