(** UnitsSpec.v — what C08 is stated against: the reference SI tables, the semantic reductions of a units
    definition (dimension, SI scale), the conditions of the property's carve-outs, acyclicity.  No proofs. *)
From Coq Require Import String Ascii List ZArith QArith Bool Relations.
From LC Require Import Common NumDefs UnitsDefs.
From LCGen Require Import UnitTables PrefixTable.
Import ListNotations.
Local Open Scope string_scope.

(* ------------------------------------------------------------------ reference tables (hand-written from the SI brochure / CellML 2.0 table) *)

Definition si_base : list string :=
  ["ampere"; "candela"; "dimensionless"; "kelvin"; "kilogram"; "metre"; "mole"; "second"].

(* name, dimension over the base units, log10 of the scale w.r.t. the coherent SI unit *)
Definition si_reference : list (string * (list (string * Q) * Q)) :=
  [ ("ampere", ([("ampere", 1)], 0)); ("becquerel", ([("second", -1 # 1)], 0)); ("candela", ([("candela", 1)], 0));
    ("coulomb", ([("second", 1); ("ampere", 1)], 0)); ("dimensionless", ([], 0));
    ("farad", ([("second", 4 # 1); ("ampere", 2 # 1); ("metre", -2 # 1); ("kilogram", -1 # 1)], 0));
    ("gram", ([("kilogram", 1)], -3 # 1)); ("gray", ([("metre", 2 # 1); ("second", -2 # 1)], 0));
    ("henry", ([("kilogram", 1); ("metre", 2 # 1); ("second", -2 # 1); ("ampere", -2 # 1)], 0));
    ("hertz", ([("second", -1 # 1)], 0)); ("joule", ([("kilogram", 1); ("metre", 2 # 1); ("second", -2 # 1)], 0));
    ("katal", ([("mole", 1); ("second", -1 # 1)], 0)); ("kelvin", ([("kelvin", 1)], 0)); ("kilogram", ([("kilogram", 1)], 0));
    ("litre", ([("metre", 3 # 1)], -3 # 1)); ("lumen", ([("candela", 1)], 0)); ("lux", ([("candela", 1); ("metre", -2 # 1)], 0));
    ("metre", ([("metre", 1)], 0)); ("mole", ([("mole", 1)], 0));
    ("newton", ([("kilogram", 1); ("metre", 1); ("second", -2 # 1)], 0));
    ("ohm", ([("kilogram", 1); ("metre", 2 # 1); ("second", -3 # 1); ("ampere", -2 # 1)], 0));
    ("pascal", ([("kilogram", 1); ("metre", -1 # 1); ("second", -2 # 1)], 0)); ("radian", ([], 0)); ("second", ([("second", 1)], 0));
    ("siemens", ([("kilogram", -1 # 1); ("metre", -2 # 1); ("second", 3 # 1); ("ampere", 2 # 1)], 0));
    ("sievert", ([("metre", 2 # 1); ("second", -2 # 1)], 0)); ("steradian", ([], 0));
    ("tesla", ([("kilogram", 1); ("second", -2 # 1); ("ampere", -1 # 1)], 0));
    ("volt", ([("kilogram", 1); ("metre", 2 # 1); ("second", -3 # 1); ("ampere", -1 # 1)], 0));
    ("watt", ([("kilogram", 1); ("metre", 2 # 1); ("second", -3 # 1)], 0));
    ("weber", ([("kilogram", 1); ("metre", 2 # 1); ("second", -2 # 1); ("ampere", -1 # 1)], 0)) ].

Definition si_prefixes : list (string * Z) :=
  [ ("yocto", -24); ("zepto", -21); ("atto", -18); ("femto", -15); ("pico", -12); ("nano", -9); ("micro", -6); ("milli", -3);
    ("centi", -2); ("deci", -1); ("deca", 1); ("hecto", 2); ("kilo", 3); ("mega", 6); ("giga", 9); ("tera", 12); ("peta", 15);
    ("exa", 18); ("zetta", 21); ("yotta", 24) ]%Z.

Fixpoint nodup_str (l : list string) : bool :=
  match l with [] => true | x :: r => negb (mem_str x r) && nodup_str r end.
Definition subset_str (a b : list string) : bool := forallb (fun x => mem_str x b) a.
Definition same_set_str (a b : list string) : bool := subset_str a b && subset_str b a.

(* exponent of base unit k in a component list (components may list a key once) *)
Definition comp_get (l : list (string * Q)) (k : string) : Q :=
  fold_right Qplus 0 (map (fun c => if String.eqb (fst c) k then snd c else 0) l).

(** The facts about the regenerated tables that the rest of the development relies on, as one boolean
    (checked by vm_compute on every run). *)
Definition tables_check : bool :=
  (* every standard unit decomposes over base units only *)
  forallb (fun e => forallb (fun c => mem_str (fst c) base_units_list) (snd e)) standard_units_list
  (* the multiplier list has exactly the same keys, no key twice *)
  && same_set_str (map fst standard_units_list) (map fst standard_multiplier_list)
  && nodup_str (map fst standard_units_list) && nodup_str (map fst standard_multiplier_list)
  && forallb (fun e => nodup_str (map fst (snd e))) standard_units_list
  (* the base units are the 8 of CellML, Units::isBaseUnit(name) tests exactly them, each is a standard unit equal to itself *)
  && same_set_str base_units_list si_base && same_set_str is_base_unit_names base_units_list && nodup_str base_units_list
  && forallb (fun b => match assoc b standard_units_list with
                       | Some [(b', e)] => String.eqb b b' && Qeq_bool e 1
                       | _ => false
                       end) base_units_list
  && forallb (fun b => Qeq_bool (match assoc b standard_multiplier_list with Some q => q | None => 1 end) 0) base_units_list
  (* the standard units are the 31 of the reference table, with its dimensions and scales *)
  && same_set_str (map fst standard_units_list) (map fst si_reference)
  && forallb (fun e => match assoc (fst e) standard_units_list, assoc (fst e) standard_multiplier_list with
                       | Some comps, Some m =>
                           Qeq_bool m (snd (snd e))
                           && forallb (fun k => Qeq_bool (comp_get comps k)
                                                  (if String.eqb k "dimensionless" then comp_get comps k else comp_get (fst (snd e)) k))
                                si_base
                       | _, _ => false
                       end) si_reference
  (* the prefixes are exactly the 20 SI prefixes with their powers *)
  && Nat.eqb (length standard_prefix_list) 20 && nodup_str (map fst standard_prefix_list)
  && forallb (fun p => match assoc (fst p) standard_prefix_list with Some z => Z.eqb z (snd p) | None => false end) si_prefixes
  && forallb (fun p => match assoc (fst p) si_prefixes with Some z => Z.eqb z (snd p) | None => false end) standard_prefix_list.

(* ------------------------------------------------------------------ semantic reductions *)

Definition sumq (l : list Q) : Q := fold_right Qplus 0 l.

(* exponent of base unit k in standard unit n *)
Definition std_dim (n k : string) : Q := comp_get (std_components n) k.

(** Fully defined, without the import history of the implementation: every reference resolves, through imports too. *)
Fixpoint defined_sem (f : nat) (w : world) (mi : nat) (name : string) : res bool :=
  match f with
  | O => OutOfFuel
  | S f' =>
    match lookup w mi name with
    | None => Crash
    | Some (Import mj r) =>
        match lookup w mj r with None => Ok false | Some _ => defined_sem f' w mj r end
    | Some (Defs l) =>
        forall_res (fun c =>
          if is_std_name (uc_ref c) then Ok true
          else match lookup w mi (uc_ref c) with
               | Some _ => defined_sem f' w mi (uc_ref c)
               | None => Ok false
               end) l
    end
  end.

(** Dimension: exponent of base unit k in the units (mi, name).  A units is a product of its children,
    child = (referenced units)^exponent; an imported units is the units it imports; a base unit (as classified by
    Units::isBaseUnit, which names an imported base unit after the importing units) is itself. *)
Fixpoint dim (f : nat) (w : world) (mi : nat) (name : string) (k : string) : Q :=
  match f with
  | O => 0
  | S f' =>
    match is_base (S f') w mi name with
    | Ok true => if String.eqb name k then 1 else 0
    | _ =>
      match lookup w mi name with
      | None => 0
      | Some (Import mj r) => if is_std_name name then std_dim name k else dim f' w mj r k
      | Some (Defs l) =>
          if Nat.eqb (length l) 0 && is_std_name name then std_dim name k
          else sumq (map (fun c => uc_exp c * (if is_std_name (uc_ref c) then std_dim (uc_ref c) k
                                               else dim f' w mi (uc_ref c) k)) l)
      end
    end
  end.

(** log10 of the SI scale.  inside = false: CellML 2.0 reading, child = multiplier * (prefix * ref)^exponent;
    inside = true: child = (multiplier * prefix * ref)^exponent. *)
Fixpoint si_log (inside : bool) (f : nat) (w : world) (mi : nat) (name : string) : Q :=
  match f with
  | O => 0
  | S f' =>
    match lookup w mi name with
    | None => 0
    | Some (Import mj r) => si_log inside f' w mj r
    | Some (Defs l) =>
        if Nat.eqb (length l) 0 then (if is_std_name name then std_mult name else 0)
        else sumq (map (fun c =>
               let p := prefix_or_zero (uc_prefix c) in
               let r := if is_std_name (uc_ref c) then std_mult (uc_ref c) else si_log inside f' w mi (uc_ref c) in
               if inside then uc_exp c * (uc_mult c + p + r) else uc_mult c + uc_exp c * (p + r)) l)
    end
  end.

(** The property's own condition for the SI ratio: in the closure of the units, prefixes and multipliers sit on unit
    children of exponent 1 (and every prefix is a valid one).  (false also when the fuel does not cover the closure.) *)
Definition child_scale_free (c : unit_child) : bool :=
  Qeq_bool (prefix_or_zero (uc_prefix c)) 0 && Qeq_bool (uc_mult c) 0.
Fixpoint si_cond (f : nat) (w : world) (mi : nat) (name : string) : bool :=
  match f with
  | O => false
  | S f' =>
    match lookup w mi name with
    | None => false
    | Some (Import mj r) => si_cond f' w mj r
    | Some (Defs l) =>
        forallb (fun c => (Qeq_bool (uc_exp c) 1 || child_scale_free c)
                          && (match convert_prefix (uc_prefix c) with Some _ => true | None => false end)
                          && (is_std_name (uc_ref c) || si_cond f' w mi (uc_ref c))) l
    end
  end.

(** updateUnitMultiplier ignores the return value of its recursive call on an imported units' target (a failure there
    silently counts as scale 1).  This predicate says that no such swallowed failure occurs in the closure. *)
Fixpoint imports_scale_ok (fx : fixes) (f : nat) (w : world) (mi : nat) (name : string) : bool :=
  match f with
  | O => false
  | S f' =>
    match lookup w mi name with
    | None => false
    | Some (Import mj r) =>
        match mult_go fx f' w mj r with
        | Ok (Some _) => imports_scale_ok fx f' w mj r
        | _ => false
        end
    | Some (Defs l) => forallb (fun c => is_std_name (uc_ref c) || imports_scale_ok fx f' w mi (uc_ref c)) l
    end
  end.

(** No units object is a bare standard unit with a scale (gram, litre): the class of finding C08-bare-standard-unit-scale. *)
Definition no_bare_std_scaled (w : world) : Prop :=
  forall mi name, lookup w mi name = Some (Defs []) -> is_std_name name = true -> std_mult name == 0.

(** The fragment on which the three reductions give the same scale: names are not standard names, no imports, every
    exponent 1, every prefix valid, every reference resolves, and a prefix / multiplier only on a reference to a
    standard unit or to a (user) base unit. *)
Fixpoint agree_cond (f : nat) (w : world) (mi : nat) (name : string) : bool :=
  match f with
  | O => false
  | S f' =>
    negb (is_std_name name) &&
    match lookup w mi name with
    | Some (Defs l) =>
        forallb (fun c =>
          Qeq_bool (uc_exp c) 1
          && (match convert_prefix (uc_prefix c) with Some _ => true | None => false end)
          && (is_std_name (uc_ref c)
              || match lookup w mi (uc_ref c) with
                 | Some (Defs l') => (Nat.eqb (length l') 0 || child_scale_free c) && agree_cond f' w mi (uc_ref c)
                 | _ => false
                 end)) l
    | _ => false
    end
  end.

(* ------------------------------------------------------------------ acyclicity *)

(* the units objects a units refers to: the import target, or the referenced units of the same model *)
Definition edge (w : world) (u v : uref) : Prop :=
  match lookup w (fst u) (snd u) with
  | Some (Import mj r) => v = (mj, r) /\ lookup w mj r <> None
  | Some (Defs l) => fst v = fst u /\ In (snd v) (map uc_ref l) /\ is_std_name (snd v) = false /\ lookup w (fst v) (snd v) <> None
  | None => False
  end.
Definition acyclic (w : world) : Prop := forall u, ~ clos_trans uref (edge w) u u.

(** The models import from one another along a DAG (no chain of imports leads from a model back to itself).  The import
    cycle detection of the library is by model url, so it (rightly, for CellML forbids it) refuses such chains even when the
    units definitions themselves are acyclic. *)
Definition model_dag (w : world) : Prop :=
  exists rk : nat -> nat, forall mi n mj r, lookup w mi n = Some (Import mj r) -> (rk mi < rk mj)%nat.

(* set_units w mi name d: the world in which the (first) units called name of model mi is defined by d *)
Fixpoint set_assoc {A} (k : string) (v : A) (l : list (string * A)) : list (string * A) :=
  match l with
  | [] => []
  | (k', v') :: r => if String.eqb k k' then (k', v) :: r else (k', v') :: set_assoc k v r
  end.
Fixpoint set_units (w : world) (mi : nat) (name : string) (d : udef) : world :=
  match w, mi with
  | [], _ => []
  | e :: r, O => set_assoc name d e :: r
  | e :: r, S mi' => e :: set_units r mi' name d
  end.
