(** EqualsCorrect.v — the repaired equals (count tests everywhere, one-to-one matching of child
    components) decides exactly the specification relation [sim] (C10, part C). *)
From Coq Require Import String List Bool ZArith QArith Arith Permutation Lia.
From LC Require Import EqualsDefs EqualsSpec EqualsProofs EqualsSimProofs.
Import ListNotations.
Local Close Scope Q_scope.
Local Open Scope bool_scope.

(** * map fusion for the matching loops (the child components are matched through closures) *)

Section Fusion.
  Context {A A' B B' : Type} (R : A' -> B' -> bool) (f : A -> A') (g : B -> B').
  Let R' := fun x y => R (f x) (g y).

  Lemma find_idx_map : forall x l2 u, find_idx R (f x) (map g l2) u = find_idx R' x l2 u.
  Proof.
    intros x l2 u. induction u as [|i t IH]; cbn [find_idx]; [reflexivity|].
    rewrite nth_error_map. destruct (nth_error l2 i) as [y|]; cbn [option_map].
    - unfold R' at 1. destruct (R (f x) (g y)); [reflexivity|]. rewrite IH. reflexivity.
    - rewrite IH. reflexivity.
  Qed.

  Lemma match_idx_map : forall l1 l2 u, match_idx R (map f l1) (map g l2) u = match_idx R' l1 l2 u.
  Proof.
    induction l1 as [|x t IH]; intros l2 u; cbn [match_idx map]; [reflexivity|].
    rewrite find_idx_map. destruct (find_idx R' x l2 u); [apply IH|reflexivity].
  Qed.

  Lemma equal_entities_map : forall l1 l2, equal_entities R (map f l1) (map g l2) = equal_entities R' l1 l2.
  Proof. intros. unfold equal_entities. rewrite map_length. apply match_idx_map. Qed.

  Lemma all_contained_map : forall l1 l2, all_contained R (map f l1) (map g l2) = all_contained R' l1 l2.
  Proof.
    intros l1 l2. unfold all_contained. induction l1 as [|x t IH]; cbn [map forallb]; [reflexivity|].
    rewrite IH. f_equal. clear IH. induction l2 as [|y s IHs]; cbn [map existsb]; [reflexivity|].
    rewrite IHs. reflexivity.
  Qed.

  Lemma kids_equal_map : forall cm l1 l2, kids_equal R cm (map f l1) (map g l2) = kids_equal R' cm l1 l2.
  Proof.
    intros. unfold kids_equal. rewrite !map_length, equal_entities_map, all_contained_map. reflexivity.
  Qed.
End Fusion.

Lemma kids_equal_map_l : forall {A B} (f : A -> B -> bool) cm l1 l2,
  kids_equal (fun p y => p y) cm (map f l1) l2 = kids_equal (fun x y => f x y) cm l1 l2.
Proof.
  intros. rewrite <- (map_id l2) at 1. rewrite (kids_equal_map (fun (p : B -> bool) y => p y) f (fun y => y)). reflexivity.
Qed.

Lemma kids_equal_map_r : forall {A B} (f : A -> B -> bool) cm l1 l2,
  kids_equal (fun y p => p y) cm l1 (map f l2) = kids_equal (fun y x => f x y) cm l1 l2.
Proof.
  intros. rewrite <- (map_id l1) at 1. rewrite (kids_equal_map (fun y (p : B -> bool) => p y) (fun y => y) f). reflexivity.
Qed.

(** unfolding of the component comparison *)
Lemma eqc_unfold : forall neq fl dir sa ka sb kb,
  eqc neq fl dir (Comp sa ka) (Comp sb kb) =
  if dir then
    eq_shell_head sa sb && kids_equal (fun x y => eqc neq fl false x y) (f_compmatch fl) ka kb && eq_shell_tail neq fl sa sb
  else
    eq_shell_head sb sa && kids_equal (fun y x => eqc neq fl true x y) (f_compmatch fl) kb ka && eq_shell_tail neq fl sb sa.
Proof.
  intros. destruct dir; cbn [eqc negb].
  - rewrite kids_equal_map_l. reflexivity.
  - rewrite kids_equal_map_r. reflexivity.
Qed.

(** * one-to-one matching with a count test decides perm_rel *)

Lemma equiv_difunctional : forall {A} (E : A -> A -> Prop),
  (forall x y, E x y -> E y x) -> (forall x y z, E x y -> E y z -> E x z) ->
  forall x x' y y', E x y -> E x' y -> E x' y' -> E x y'.
Proof. intros A E Hs Ht x x' y y' H1 H2 H3. eapply Ht; [exact H1|]. eapply Ht; [apply Hs; exact H2|exact H3]. Qed.

Lemma matching_iff : forall {A B} (R : A -> B -> bool) (E : A -> B -> Prop) l1 l2,
  (forall x x' y y', E x y -> E x' y -> E x' y' -> E x y') ->
  (forall x y, In x l1 -> In y l2 -> (R x y = true <-> E x y)) ->
  ((length l1 =? length l2) && equal_entities R l1 l2 = true <-> perm_rel E l1 l2).
Proof.
  intros A B R E l1 l2 Hd HRE. split.
  - rewrite andb_true_iff, Nat.eqb_eq. intros [Hlen H].
    rewrite equal_entities_greedy_len in H by exact Hlen.
    apply (injection_perm_rel E l1 l2 Hlen).
    apply (greedy_sound R E); [|exact H]. intros x y Hx Hy. apply HRE; assumption.
  - intros H. pose proof (perm_rel_length E l1 l2 H) as Hlen.
    rewrite andb_true_iff, Nat.eqb_eq. split; [exact Hlen|].
    rewrite equal_entities_greedy_len by exact Hlen.
    apply (greedy_complete R E Hd); [exact HRE|].
    apply (injection_perm_rel E l1 l2 Hlen). exact H.
Qed.

Lemma perm_rel_flip : forall {A} (E : A -> A -> Prop) l1 l2, (forall x y, E x y -> E y x) ->
  (perm_rel (fun x y => E y x) l1 l2 <-> perm_rel E l1 l2).
Proof.
  intros A E l1 l2 Hs. split; apply perm_rel_mono; intros x y _; apply Hs.
Qed.

Ltac bsplit := rewrite ?andb_true_iff, ?String.eqb_eq, ?Z.eqb_eq.

Lemma eq_isrc_iff : forall a b, eq_isrc a b = true <-> a = b.
Proof.
  intros [au ai] [bu bi]. unfold eq_isrc. cbn. bsplit. split; [intros [-> ->]; reflexivity|intros H; injection H as -> ->; auto].
Qed.

Lemma eq_imported_iff : forall ia ra ib rb, eq_imported ia ra ib rb = true <-> ia = ib /\ ra = rb.
Proof.
  intros [sa|] ra [sb|] rb; cbn [eq_imported]; bsplit; rewrite ?eq_isrc_iff.
  - split; [intros [-> ->]; auto|intros [H ->]; injection H as ->; auto].
  - split; [discriminate|intros [H _]; discriminate].
  - split; [discriminate|intros [H _]; discriminate].
  - tauto.
Qed.

Section Correct.
  Variable neq : Q -> Q -> bool.
  Hypothesis L : neq_laws neq.

  Lemma eq_unitdef_iff : forall a b, eq_unitdef neq a b = true <-> sim_unitdef neq a b.
  Proof. intros a b. unfold eq_unitdef, sim_unitdef. bsplit. tauto. Qed.

  Lemma sim_unitdef_dif : forall x x' y y', sim_unitdef neq x y -> sim_unitdef neq x' y -> sim_unitdef neq x' y' -> sim_unitdef neq x y'.
  Proof. apply equiv_difunctional; [apply sim_unitdef_sym|apply sim_unitdef_trans]; exact L. Qed.

  Lemma eq_units_iff : forall a b, eq_units neq a b = true <-> sim_units neq a b.
  Proof.
    intros a b. unfold eq_units, sim_units.
    rewrite <- (matching_iff (eq_unitdef neq) (sim_unitdef neq) (u_defs a) (u_defs b) sim_unitdef_dif)
      by (intros; apply eq_unitdef_iff).
    bsplit. rewrite eq_imported_iff. tauto.
  Qed.

  Lemma sim_units_dif : forall x x' y y', sim_units neq x y -> sim_units neq x' y -> sim_units neq x' y' -> sim_units neq x y'.
  Proof. apply equiv_difunctional; [apply sim_units_sym|apply sim_units_trans]; exact L. Qed.

  Lemma eq_variable_iff : forall a b, eq_variable neq a b = true <-> sim_variable neq a b.
  Proof.
    intros a b. unfold eq_variable, sim_variable. bsplit.
    destruct (v_units a) as [ua|], (v_units b) as [ub|]; cbn [opt_rel]; rewrite ?eq_units_iff; intuition discriminate.
  Qed.

  Lemma sim_variable_dif : forall x x' y y', sim_variable neq x y -> sim_variable neq x' y -> sim_variable neq x' y' -> sim_variable neq x y'.
  Proof. apply equiv_difunctional; [apply sim_variable_sym|apply sim_variable_trans]; exact L. Qed.

  Lemma eq_optvar_iff : forall a b, eq_optvar neq a b = true <-> opt_rel (sim_variable neq) a b.
  Proof.
    intros [x|] [y|]; cbn [eq_optvar opt_rel]; rewrite ?eq_variable_iff; intuition discriminate.
  Qed.

  Lemma eq_reset_iff : forall a b, eq_reset neq a b = true <-> sim_reset neq a b.
  Proof. intros a b. unfold eq_reset, sim_reset. bsplit. rewrite !eq_optvar_iff. tauto. Qed.

  Lemma sim_reset_dif : forall x x' y y', sim_reset neq x y -> sim_reset neq x' y -> sim_reset neq x' y' -> sim_reset neq x y'.
  Proof. apply equiv_difunctional; [apply sim_reset_sym|apply sim_reset_trans]; exact L. Qed.

  Lemma equal_resets_iff : forall a b, equal_resets neq a b = true <-> perm_rel (sim_reset neq) a b.
  Proof.
    intros a b. unfold equal_resets. apply (matching_iff _ _ a b sim_reset_dif). intros; apply eq_reset_iff.
  Qed.

  Lemma equal_variables_iff : forall a b, equal_variables neq flags_fixed a b = true <-> perm_rel (sim_variable neq) a b.
  Proof.
    intros a b. unfold equal_variables. cbn [f_varcount flags_fixed].
    apply (matching_iff _ _ a b sim_variable_dif). intros; apply eq_variable_iff.
  Qed.

  Lemma equal_units_iff : forall a b, equal_units neq a b = true <-> perm_rel (sim_units neq) a b.
  Proof.
    intros a b. unfold equal_units. apply (matching_iff _ _ a b sim_units_dif). intros; apply eq_units_iff.
  Qed.

  Lemma eq_shell_iff : forall a b,
    eq_shell_head a b && eq_shell_tail neq flags_fixed a b = true <-> sim_shell neq a b.
  Proof.
    intros a b. unfold eq_shell_head, eq_shell_tail, sim_shell. bsplit.
    rewrite equal_resets_iff, equal_variables_iff, eq_imported_iff. tauto.
  Qed.

  Lemma sim_component_dif : forall x x' y y',
    sim_component neq x y -> sim_component neq x' y -> sim_component neq x' y' -> sim_component neq x y'.
  Proof. apply equiv_difunctional; [apply sim_component_sym|apply sim_component_trans]; exact L. Qed.

  Lemma sim_component_dif_flip : forall x x' y y' : component,
    sim_component neq y x -> sim_component neq y x' -> sim_component neq y' x' -> sim_component neq y' x.
  Proof.
    intros x x' y y' H1 H2 H3. apply (sim_component_sym neq L).
    eapply (sim_component_dif x x' y y'); apply (sim_component_sym neq L); assumption.
  Qed.

  Lemma eqc_fixed_iff : forall a b,
    (eqc neq flags_fixed true a b = true <-> sim_component neq a b)
    /\ (eqc neq flags_fixed false a b = true <-> sim_component neq b a).
  Proof.
    induction a as [sa ka IH] using component_ind'. intros [sb kb]. rewrite Forall_forall in IH.
    rewrite !eqc_unfold. cbn [f_compmatch flags_fixed]. unfold kids_equal. split.
    - (* a.equals(b) *)
      assert (Hk : (length ka =? length kb) && equal_entities (fun x y => eqc neq flags_fixed false x y) ka kb = true
                   <-> perm_rel (sim_component neq) ka kb).
      { rewrite <- (perm_rel_flip (sim_component neq) ka kb (sim_component_sym neq L)).
        apply matching_iff.
        - intros x x' y y'. apply sim_component_dif_flip.
        - intros x y Hx _. apply (IH x Hx y). }
      split.
      + intros H. rewrite !andb_true_iff in H. destruct H as [[Hh Hkk] Ht].
        apply (sim_component_intro neq).
        * apply eq_shell_iff. rewrite Hh, Ht. reflexivity.
        * apply Hk. rewrite andb_true_iff. exact Hkk.
      + intros H. apply (sim_component_inv neq) in H. destruct H as [Hs Hp].
        apply eq_shell_iff in Hs. apply Hk in Hp. rewrite !andb_true_iff in *. tauto.
    - (* b.equals(a) *)
      assert (Hk : (length kb =? length ka) && equal_entities (fun y x => eqc neq flags_fixed true x y) kb ka = true
                   <-> perm_rel (sim_component neq) kb ka).
      { rewrite <- (perm_rel_flip (sim_component neq) kb ka (sim_component_sym neq L)).
        apply matching_iff.
        - intros x x' y y'. apply sim_component_dif_flip.
        - intros y x _ Hx. exact (proj1 (IH x Hx y)). }
      split.
      + intros H. rewrite !andb_true_iff in H. destruct H as [[Hh Hkk] Ht].
        apply (sim_component_intro neq).
        * apply eq_shell_iff. rewrite Hh, Ht. reflexivity.
        * apply Hk. rewrite andb_true_iff. exact Hkk.
      + intros H. apply (sim_component_inv neq) in H. destruct H as [Hs Hp].
        apply eq_shell_iff in Hs. apply Hk in Hp. rewrite !andb_true_iff in *. tauto.
  Qed.

  Lemma eq_component_iff : forall a b, eq_component neq flags_fixed a b = true <-> sim_component neq a b.
  Proof. intros a b. apply eqc_fixed_iff. Qed.

  Lemma eq_model_iff : forall a b, eq_model neq flags_fixed a b = true <-> sim_model neq a b.
  Proof.
    intros a b. unfold eq_model, sim_model. rewrite kids_equal_map_l. cbn [f_compmatch flags_fixed]. unfold kids_equal.
    assert (Hk : (length (m_comps a) =? length (m_comps b))
                 && equal_entities (fun x y => eqc neq flags_fixed false x y) (m_comps a) (m_comps b) = true
                 <-> perm_rel (sim_component neq) (m_comps a) (m_comps b)).
    { rewrite <- (perm_rel_flip (sim_component neq) _ _ (sim_component_sym neq L)).
      apply matching_iff.
      - intros x x' y y'. apply sim_component_dif_flip.
      - intros x y _ _. apply (eqc_fixed_iff x y). }
    rewrite <- Hk, <- equal_units_iff. bsplit. tauto.
  Qed.

  Theorem eq_entity_iff : forall a b, eq_entity neq flags_fixed a b = true <-> sim_entity neq a b.
  Proof.
    intros [x|x|x|x|x|x] [y|y|y|y|y|y]; cbn [eq_entity sim_entity]; try (split; [discriminate|tauto]).
    - apply eq_model_iff.
    - apply eq_component_iff.
    - apply eq_variable_iff.
    - apply eq_units_iff.
    - apply eq_reset_iff.
    - apply eq_isrc_iff.
  Qed.

  (** * consequences: the repaired equals is an equivalence relation *)

  Theorem equals_refl : forall a, eq_entity neq flags_fixed a a = true.
  Proof. intros a. apply eq_entity_iff. apply sim_entity_refl. exact L. Qed.

  Theorem equals_sym : forall a b, eq_entity neq flags_fixed a b = eq_entity neq flags_fixed b a.
  Proof.
    intros a b. apply eq_true_iff_eq. rewrite !eq_entity_iff. split; apply sim_entity_sym; exact L.
  Qed.

  Theorem equals_trans : forall a b c,
    eq_entity neq flags_fixed a b = true -> eq_entity neq flags_fixed b c = true -> eq_entity neq flags_fixed a c = true.
  Proof. intros a b c. rewrite !eq_entity_iff. apply sim_entity_trans. exact L. Qed.

  (** equal entities answer every question alike *)
  Lemma equals_congr : forall a a' b, sim_entity neq a a' ->
    eq_entity neq flags_fixed a' b = eq_entity neq flags_fixed a b
    /\ eq_entity neq flags_fixed b a' = eq_entity neq flags_fixed b a.
  Proof.
    intros a a' b H. split; apply eq_true_iff_eq; rewrite !eq_entity_iff; split; intros G.
    - eapply sim_entity_trans; eassumption.
    - eapply sim_entity_trans; [exact L|apply sim_entity_sym; [exact L|exact H]|exact G].
    - eapply sim_entity_trans; [exact L|exact G|apply sim_entity_sym; [exact L|exact H]].
    - eapply sim_entity_trans; eassumption.
  Qed.

  (** any permutation of any child list at any depth *)
  Theorem equals_perm_invariant : forall a a' b, shuffled a a' ->
    eq_entity neq flags_fixed a a' = true
    /\ eq_entity neq flags_fixed a' a = true
    /\ eq_entity neq flags_fixed a' b = eq_entity neq flags_fixed a b
    /\ eq_entity neq flags_fixed b a' = eq_entity neq flags_fixed b a.
  Proof.
    intros a a' b H. apply (shuffled_sim neq L) in H.
    split; [apply eq_entity_iff; exact H|].
    split; [apply eq_entity_iff; apply sim_entity_sym; [exact L|exact H]|].
    apply equals_congr. exact H.
  Qed.
End Correct.

(** permuting a child list gives a shuffled copy (the simplest instances of [shuffled]) *)
Lemma q_same_laws : neq_laws q_same.
Proof.
  split.
  - intros [n d]. unfold q_same. cbn. rewrite Z.eqb_refl, Pos.eqb_refl. reflexivity.
  - intros x y H. apply q_same_eq in H. subst.
    destruct y as [n d]. unfold q_same. cbn. rewrite Z.eqb_refl, Pos.eqb_refl. reflexivity.
  - intros x y z H1 H2. apply q_same_eq in H1. subst. exact H2.
Qed.

Lemma shuffled_refl : forall a, shuffled a a.
Proof. apply sim_entity_refl. exact q_same_laws. Qed.

Lemma shuffled_component_kids : forall s ks ks', Permutation ks ks' -> shuffled (EComponent (Comp s ks)) (EComponent (Comp s ks')).
Proof.
  intros s ks ks' Hp. cbn. apply sim_component_intro; [apply sim_shell_refl; exact q_same_laws|].
  apply perm_rel_of_perm; [apply sim_component_refl; exact q_same_laws|exact Hp].
Qed.

Lemma shuffled_model_units : forall n i e us us' cs, Permutation us us' ->
  shuffled (EModel {| m_name := n; m_id := i; m_encid := e; m_units := us; m_comps := cs |})
           (EModel {| m_name := n; m_id := i; m_encid := e; m_units := us'; m_comps := cs |}).
Proof.
  intros n i e us us' cs Hp. cbn. unfold sim_model. cbn. repeat split.
  - apply perm_rel_of_perm; [apply sim_units_refl; exact q_same_laws|exact Hp].
  - apply perm_rel_refl. intros; apply sim_component_refl; exact q_same_laws.
Qed.

(** * count sensitivity (any flags: every list except the variables has a count test in the code as it is) *)

Section Counts.
  Variable neq : Q -> Q -> bool.
  Variable fl : flags.

  Lemma count_units_defs : forall a b, length (u_defs a) <> length (u_defs b) -> eq_units neq a b = false.
  Proof.
    intros a b H. unfold eq_units. apply Nat.eqb_neq in H. rewrite H. rewrite !andb_false_r. reflexivity.
  Qed.

  Lemma count_component_kids : forall a b, length (kids a) <> length (kids b) -> eq_component neq fl a b = false.
  Proof.
    intros [sa ka] [sb kb] H. cbn [kids] in H. unfold eq_component. rewrite eqc_unfold. unfold kids_equal.
    apply Nat.eqb_neq in H. rewrite H. cbn [andb]. rewrite andb_false_r. reflexivity.
  Qed.

  Lemma count_component_resets : forall a b, length (c_resets (shell a)) <> length (c_resets (shell b)) ->
    eq_component neq fl a b = false.
  Proof.
    intros [sa ka] [sb kb] H. cbn [shell] in H. unfold eq_component. rewrite eqc_unfold. unfold eq_shell_tail, equal_resets.
    apply Nat.eqb_neq in H. rewrite H. cbn [andb]. rewrite !andb_false_r. reflexivity.
  Qed.

  Lemma count_component_vars : f_varcount fl = true ->
    forall a b, length (c_vars (shell a)) <> length (c_vars (shell b)) -> eq_component neq fl a b = false.
  Proof.
    intros Hf [sa ka] [sb kb] H. cbn [shell] in H. unfold eq_component. rewrite eqc_unfold. unfold eq_shell_tail, equal_variables.
    rewrite Hf. apply Nat.eqb_neq in H. rewrite H. cbn [andb]. rewrite !andb_false_r. reflexivity.
  Qed.

  Lemma count_model_comps : forall a b, length (m_comps a) <> length (m_comps b) -> eq_model neq fl a b = false.
  Proof.
    intros a b H. unfold eq_model. rewrite kids_equal_map_l. unfold kids_equal.
    apply Nat.eqb_neq in H. rewrite H. cbn [andb]. rewrite !andb_false_r. reflexivity.
  Qed.

  Lemma count_model_units : forall a b, length (m_units a) <> length (m_units b) -> eq_model neq fl a b = false.
  Proof.
    intros a b H. unfold eq_model, equal_units. apply Nat.eqb_neq in H. rewrite H. cbn [andb]. rewrite !andb_false_r. reflexivity.
  Qed.
End Counts.
