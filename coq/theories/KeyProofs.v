(** KeyProofs.v — C18: the key functions and the memo cache (model in KeyDefs.v). *)
From Coq Require Import List NArith Bool Lia ZifyBool.
From LC Require Import KeyDefs GraphDefs EquivSpec.
Import ListNotations.
Local Open Scope N_scope.

Lemma sort2_le : forall a b x y, sort2 a b = (x, y) -> x <= y.
Proof.
  intros a b x y H. unfold sort2 in H.
  destruct (b <? a) eqn:E; inversion H; subst; lia.
Qed.

Lemma sort2_unordered : forall a b c d, sort2 a b = sort2 c d -> (a = c /\ b = d) \/ (a = d /\ b = c).
Proof.
  intros a b c d H. unfold sort2 in H.
  destruct (b <? a) eqn:E1; destruct (d <? c) eqn:E2; inversion H; subst; auto.
Qed.

Lemma sort2_sym : forall a b, sort2 a b = sort2 b a.
Proof.
  intros a b. unfold sort2.
  destruct (b <? a) eqn:E1; destruct (a <? b) eqn:E2; try reflexivity; try lia.
  assert (a = b) by lia. subst. reflexivity.
Qed.

(** ** The true Cantor pairing is injective (unbounded naturals) *)

Definition tri (s : N) : N := (s * (s + 1)) / 2.

Lemma tri_succ : forall s, tri (s + 1) = tri s + s + 1.
Proof.
  intros s. unfold tri.
  replace ((s + 1) * (s + 1 + 1)) with (s * (s + 1) + (s + 1) * 2) by lia.
  rewrite N.div_add by discriminate. lia.
Qed.

Lemma tri_mono_add : forall d s, tri s <= tri (s + d).
Proof.
  intros d. induction d as [|d IH] using N.peano_ind; intros s.
  - rewrite N.add_0_r. lia.
  - replace (s + N.succ d) with ((s + d) + 1) by lia.
    rewrite tri_succ. specialize (IH s). lia.
Qed.

Lemma tri_mono : forall s t, s <= t -> tri s <= tri t.
Proof.
  intros s t H. replace t with (s + (t - s)) by lia. apply tri_mono_add.
Qed.

Lemma tri_inj_aux : forall s y s' y', y <= s -> y' <= s' -> tri s + y = tri s' + y' -> s < s' -> False.
Proof.
  intros s y s' y' Hy Hy' E L.
  assert (H1 : tri (s + 1) <= tri s') by (apply tri_mono; lia).
  rewrite tri_succ in H1. lia.
Qed.

Theorem cantor_injective : forall a b c d, cantor a b = cantor c d -> sort2 a b = sort2 c d.
Proof.
  intros a b c d H. unfold cantor in H.
  destruct (sort2 a b) as [x y] eqn:E1. destruct (sort2 c d) as [x' y'] eqn:E2.
  apply sort2_le in E1. apply sort2_le in E2.
  fold (tri (x + y)) in H. fold (tri (x' + y')) in H.
  destruct (N.lt_trichotomy (x + y) (x' + y')) as [L | [L | L]].
  - exfalso. apply (tri_inj_aux (x + y) y (x' + y') y'); auto; lia.
  - rewrite L in H. assert (y = y') by lia. subst. assert (x = x') by lia. subst. reflexivity.
  - exfalso. apply (tri_inj_aux (x' + y') y' (x + y) y); auto; lia.
Qed.

Corollary cantor_inj_unordered : inj_unordered cantor.
Proof.
  intros a b c d H. apply sort2_unordered. apply cantor_injective. exact H.
Qed.

(** ** The same formula in 64-bit arithmetic is not injective

    Two pairs of 16-aligned addresses below 2^47, all four within 7 MiB, that are different unordered
    pairs and receive the same key (DESIGN.md section 5, row 22; confirmed on the real code of commit
    c827258). *)
Definition w_a : N := 0x55d0b1358140.
Definition w_b : N := 0x55d0b16ffff0.
Definition w_c : N := 0x55d0b1496850.
Definition w_d : N := 0x55d0b1621040.

Definition max4 (a b c d : N) : N := N.max (N.max a b) (N.max c d).
Definition min4 (a b c d : N) : N := N.min (N.min a b) (N.min c d).

Theorem key64_refuted :
  exists a b c d,
    (a mod 16 = 0 /\ b mod 16 = 0 /\ c mod 16 = 0 /\ d mod 16 = 0) /\
    (a < 2 ^ 47 /\ b < 2 ^ 47 /\ c < 2 ^ 47 /\ d < 2 ^ 47) /\
    max4 a b c d - min4 a b c d < 7 * 2 ^ 20 /\
    sort2 a b <> sort2 c d /\
    key64 a b = key64 c d.
Proof.
  exists w_a, w_b, w_c, w_d.
  repeat split; try (vm_compute; reflexivity); try (vm_compute; discriminate).
Qed.

Corollary key64_not_injective : ~ inj_unordered key64.
Proof.
  intros H. specialize (H w_a w_b w_c w_d).
  assert (E : key64 w_a w_b = key64 w_c w_d) by (vm_compute; reflexivity).
  destruct (H E) as [[H1 _] | [H1 _]]; vm_compute in H1; discriminate.
Qed.

(** On addresses small enough for the product not to wrap the two formulas agree, which is why no
    small example shows the defect. *)
Lemma key64_small : forall a b, a + b < 2 ^ 31 -> key64 a b = cantor a b.
Proof.
  intros a b H. unfold key64, cantor.
  destruct (sort2 a b) as [x y] eqn:E.
  assert (Hs : x + y = a + b).
  { unfold sort2 in E. destruct (b <? a); inversion E; subst; lia. }
  assert (Hle : x <= y) by (eapply sort2_le; eauto).
  assert (P31 : (2:N) ^ 31 = 2147483648) by reflexivity.
  assert (B : (x + y) * (x + y + 1) < 2 ^ 31 * 2 ^ 31) by nia.
  assert (P62 : (2:N) ^ 31 * 2 ^ 31 = 4611686018427387904) by reflexivity.
  unfold two64.
  rewrite (N.mod_small (x + y)) by lia.
  rewrite (N.mod_small (x + y + 1)) by lia.
  rewrite (N.mod_small ((x + y) * (x + y + 1))) by lia.
  rewrite N.shiftr_div_pow2. change (2 ^ 1) with 2.
  assert (D : (x + y) * (x + y + 1) / 2 <= (x + y) * (x + y + 1)).
  { apply N.div_le_upper_bound; lia. }
  rewrite N.mod_small by lia. reflexivity.
Qed.

(** ** The key of the current code: the ordered pair *)

Theorem pairkey_injective : inj_unordered pairkey.
Proof.
  intros a b c d H. unfold pairkey in H.
  destruct (b <? a) eqn:E1; destruct (d <? c) eqn:E2; inversion H; subst; auto.
Qed.

Lemma pairkey_sym : forall a b, pairkey a b = pairkey b a.
Proof. exact sort2_sym. Qed.

Lemma pair_eqb_spec : forall p q : N * N, pair_eqb p q = true <-> p = q.
Proof.
  intros [a b] [c d]. unfold pair_eqb. cbn [fst snd].
  rewrite andb_true_iff, !N.eqb_eq. split.
  - intros [H1 H2]. subst. reflexivity.
  - intros H. inversion H. auto.
Qed.

(** Exact 64-bit fit: the pair stores both words unchanged, so nothing depends on the width. *)
Lemma pairkey_words : forall a b x y, pairkey a b = (x, y) -> (x = a /\ y = b) \/ (x = b /\ y = a).
Proof.
  intros a b x y H. unfold pairkey in H. destruct (b <? a); inversion H; subst; auto.
Qed.

(** ** The memo cache *)
Section CacheProofs.
  Variables V K R : Type.
  Variable keqb : K -> K -> bool.
  Hypothesis keqb_spec : forall k k', keqb k k' = true <-> k = k'.
  Variable key : V -> V -> K.
  Variable compute : V -> V -> R.

  (** What the cache needs from the key: two queries that receive the same key have the same answer. *)
  Definition respects : Prop := forall a b c d, key a b = key c d -> compute a b = compute c d.

  Local Notation cache_inv := (EquivSpec.cache_inv key compute).

  Lemma lookup_in : forall k (c : cache K R) r, lookup keqb k c = Some r -> In (k, r) c.
  Proof.
    intros k c. induction c as [|[k' r'] t IH]; intros r H; cbn [lookup] in H.
    - discriminate.
    - destruct (keqb k k') eqn:E.
      + apply keqb_spec in E. inversion H. subst. left. reflexivity.
      + right. apply IH. exact H.
  Qed.

  Lemma cache_inv_nil : cache_inv [].
  Proof. intros k r H. destruct H. Qed.

  (** One query: the answer is the true one and the invariant is kept.  The hit case is the only
      place where the hypothesis on the key is used. *)
  Lemma query_correct :
    respects -> forall c a b, cache_inv c ->
      fst (query keqb key compute c a b) = compute a b /\ cache_inv (snd (query keqb key compute c a b)).
  Proof.
    intros Hresp c a b Hinv. unfold query.
    destruct (lookup keqb (key a b) c) as [r|] eqn:E; cbn [fst snd].
    - (* hit: the stored answer belongs to some query (a', b') with key a' b' = key a b *)
      split; [|exact Hinv].
      apply lookup_in in E. destruct (Hinv _ _ E) as [a' [b' [Hk Hr]]].
      rewrite Hr. apply Hresp. exact Hk.
    - (* miss: computed, then stored under its own key *)
      split; [reflexivity|].
      intros k r [H | H].
      + inversion H. subst. exists a, b. auto.
      + apply Hinv. exact H.
  Qed.

  Theorem run_correct :
    respects -> forall qs c, cache_inv c ->
      answers keqb key compute c qs = map (fun q => compute (fst q) (snd q)) qs /\
      cache_inv (snd (run keqb key compute c qs)).
  Proof.
    intros Hresp qs. induction qs as [|[a b] t IH]; intros c Hinv.
    - unfold answers. cbn [run fst snd map]. auto.
    - unfold answers. cbn [run].
      destruct (query_correct Hresp c a b Hinv) as [Ha Hc].
      destruct (query keqb key compute c a b) as [r c1] eqn:Eq. cbn [fst snd] in Ha, Hc.
      destruct (IH c1 Hc) as [IH1 IH2]. unfold answers in IH1.
      destruct (run keqb key compute c1 t) as [rs c2] eqn:Er. cbn [fst snd] in *.
      split; [|exact IH2].
      rewrite Ha, IH1. reflexivity.
  Qed.

  (** If two queries with different true answers share a key, the second one is answered wrongly. *)
  Theorem collision_breaks_cache :
    forall a b c d, key a b = key c d -> compute a b <> compute c d ->
      answers keqb key compute [] [(a, b); (c, d)] = [compute a b; compute a b] /\
      answers keqb key compute [] [(a, b); (c, d)] <> map (fun q => compute (fst q) (snd q)) [(a, b); (c, d)].
  Proof.
    intros a b c d Hk Hne.
    assert (E : answers keqb key compute [] [(a, b); (c, d)] = [compute a b; compute a b]).
    { assert (Hr : keqb (key c d) (key a b) = true) by (apply keqb_spec; symmetry; exact Hk).
      unfold answers, run, query. cbn [lookup]. rewrite Hr. reflexivity. }
    split; [exact E|].
    rewrite E. cbn [map fst snd]. intros H. inversion H. auto.
  Qed.
End CacheProofs.

Arguments respects {V K R} key compute.

(** The statement of the property: a key that is injective on unordered pairs (composed with an
    injective address assignment) and a symmetric relation. *)
Section CacheByAddress.
  Variables V R K : Type.
  Variable addr : V -> N.
  Hypothesis addr_inj : forall x y, addr x = addr y -> x = y.
  Variable nkey : N -> N -> K.
  Hypothesis nkey_inj : inj_unordered nkey.
  Variable compute : V -> V -> R.
  Hypothesis compute_sym : forall a b, compute a b = compute b a.

  Lemma injective_key_respects : respects (fun a b => nkey (addr a) (addr b)) compute.
  Proof.
    intros a b c d H. apply nkey_inj in H.
    destruct H as [[H1 H2] | [H1 H2]]; apply addr_inj in H1; apply addr_inj in H2; subst.
    - reflexivity.
    - apply compute_sym.
  Qed.

  Variable keqb : K -> K -> bool.
  Hypothesis keqb_spec : forall k k', keqb k k' = true <-> k = k'.

  Theorem cache_correct :
    forall qs c, cache_inv (fun a b => nkey (addr a) (addr b)) compute c ->
      answers keqb (fun a b => nkey (addr a) (addr b)) compute c qs = map (fun q => compute (fst q) (snd q)) qs.
  Proof.
    intros qs c Hc.
    exact (proj1 (run_correct V K R keqb keqb_spec _ compute injective_key_respects qs c Hc)).
  Qed.

  (** Whatever was asked before, and however often, the next answer is the true one. *)
  Corollary cache_history_independent :
    forall qs a b,
      fst (query keqb (fun a b => nkey (addr a) (addr b)) compute
                 (snd (run keqb (fun a b => nkey (addr a) (addr b)) compute [] qs)) a b) = compute a b.
  Proof.
    intros qs a b.
    pose proof (run_correct V K R keqb keqb_spec _ compute injective_key_respects qs [] (cache_inv_nil _ _ _ _ _)) as [_ H].
    exact (proj1 (query_correct V K R keqb keqb_spec _ compute injective_key_respects _ a b H)).
  Qed.
End CacheByAddress.
