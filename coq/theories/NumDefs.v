(** NumDefs.v — executable model of libcellml's numeric-text recognisers and conversions (C16, C01).
    Transcribes /repo/src/utilities.cpp:
      isEuropeanNumericCharacter, isNonNegativeCellMLInteger, isCellMLInteger, isCellMLExponent,
      findOccurrences, isCellMLBasicReal (with the fix "at least one digit"), isCellMLReal,
      convertToInt (std::stoi range), convertToDouble (guard only; the value is libc's).
    No proofs here: the file must keep running when a proof breaks. *)
From Coq Require Import String Ascii List Bool Arith ZArith NArith Lia.
Import ListNotations.
Local Open Scope string_scope.
Local Open Scope bool_scope.

Definition is_digit (c : ascii) : bool :=
  let n := nat_of_ascii c in (48 <=? n)%nat && (n <=? 57)%nat.

Fixpoint all_digits (s : string) : bool :=
  match s with
  | EmptyString => true
  | String c r => is_digit c && all_digits r
  end.

(* isNonNegativeCellMLInteger *)
Definition is_nonneg_int (s : string) : bool :=
  match s with
  | EmptyString => false
  | _ => all_digits s
  end.

Definition is_sign (c : ascii) : bool := Ascii.eqb c "-" || Ascii.eqb c "+".

(* isCellMLInteger / isCellMLExponent *)
Definition is_int (s : string) : bool :=
  match s with
  | String c r => if is_sign c then is_nonneg_int r else is_nonneg_int s
  | EmptyString => false
  end.

(* findOccurrences(candidate, one-character sub).size() *)
Fixpoint count_char (c : ascii) (s : string) : nat :=
  match s with
  | EmptyString => 0
  | String d r => (if Ascii.eqb d c then 1 else 0) + count_char c r
  end.

(* numbersOnlyCandidate.erase(decimalOccurrences.at(0), 1) *)
Fixpoint erase_first (c : ascii) (s : string) : string :=
  match s with
  | EmptyString => EmptyString
  | String d r => if Ascii.eqb d c then r else String d (erase_first c r)
  end.

Definition drop1 (s : string) : string :=
  match s with EmptyString => EmptyString | String _ r => r end.

Definition str_is_empty (s : string) : bool :=
  match s with EmptyString => true | _ => false end.

(* isCellMLBasicReal; [fixed] = the tree with the "fix:" commit (digit required) *)
Definition is_basic_real_gen (fixed : bool) (s : string) : bool :=
  match s with
  | EmptyString => false
  | String c0 _ =>
      if (count_char "." s <? 2)%nat then
        let s1 := erase_first "." s in
        let s2 := if Ascii.eqb c0 "-" then drop1 s1 else s1 in
        (if fixed then negb (str_is_empty s2) else true) && all_digits s2
      else false
  end.

Definition is_basic_real := is_basic_real_gen true.

(* normalisedCandidate: every 'E' replaced by 'e' *)
Fixpoint norm_e (s : string) : string :=
  match s with
  | EmptyString => EmptyString
  | String c r => String (if Ascii.eqb c "E" then "e"%char else c) (norm_e r)
  end.

(* substr(0, ePos) / substr(ePos+1) at the first 'e' *)
Fixpoint split_at (c : ascii) (s : string) : string * string :=
  match s with
  | EmptyString => (EmptyString, EmptyString)
  | String d r => if Ascii.eqb d c then (EmptyString, r)
                  else let (a, b) := split_at c r in (String d a, b)
  end.

Definition is_real_gen (fixed : bool) (s : string) : bool :=
  match s with
  | EmptyString => false
  | _ =>
      let n := norm_e s in
      let k := count_char "e" n in
      if (k <? 2)%nat then
        if (k =? 1)%nat then
          let (sig, ex) := split_at "e" n in
          is_basic_real_gen fixed sig && is_int ex
        else is_basic_real_gen fixed n
      else false
  end.

Definition is_real := is_real_gen true.

(** Values.  Decimal value of a digit string. *)
Definition digit_val (c : ascii) : Z := Z.of_nat (nat_of_ascii c) - 48.

Fixpoint dec_acc (acc : Z) (s : string) : Z :=
  match s with
  | EmptyString => acc
  | String c r => dec_acc (10 * acc + digit_val c) r
  end.

Definition int_value (s : string) : Z :=
  match s with
  | String c r => if Ascii.eqb c "-" then - dec_acc 0 r
                  else if Ascii.eqb c "+" then dec_acc 0 r else dec_acc 0 s
  | EmptyString => 0
  end.

Inductive conv (A : Type) := Rejected | OutOfRange | Value (a : A).
Arguments Rejected {A}. Arguments OutOfRange {A}. Arguments Value {A} a.

(* convertToInt: recogniser, then std::stoi which reports ERANGE outside [INT_MIN, INT_MAX] *)
Definition to_int (s : string) : conv Z :=
  if is_int s then
    let z := int_value s in
    if ((-2147483648 <=? z) && (z <=? 2147483647))%Z then Value z else OutOfRange
  else Rejected.

(** The exact rational value of an accepted real, as mantissa digits and a decimal exponent:
    value = sign * m * 10^e.  (Used to compare with strtod through python's correctly-rounded float.) *)
Fixpoint frac_len (s : string) : Z :=   (* number of characters after the first '.' ; 0 if none *)
  match s with
  | EmptyString => 0
  | String c r => if Ascii.eqb c "." then Z.of_nat (String.length r) else frac_len r
  end.

Definition real_parts (s : string) : option (bool * Z * Z) :=  (* negative?, mantissa, exponent *)
  if is_real s then
    let n := norm_e s in
    let (sig, ex) := if (count_char "e" n =? 1)%nat then split_at "e" n else (n, "0") in
    let neg := match sig with String c _ => Ascii.eqb c "-" | _ => false end in
    let body := if neg then drop1 sig else sig in
    let m := dec_acc 0 (erase_first "." body) in
    Some (neg, m, (int_value ex - frac_len body)%Z)
  else None.

(** Independent executable specification of the two grammars of the property: deterministic
    automata written directly from the property text
      real    ::= '-'? (digit+ ('.' digit* )? | '.' digit+) (('e'|'E') ('+'|'-')? digit+)?
      integer ::= ('+'|'-')? digit+                                                         *)
Inductive rstate := R0 | RSign | RInt | RDot0 | RFrac | RE | RESign | REDig | RBad.
(* R0 start; RSign after '-'; RInt digits seen, no point; RDot0 point seen, no digit at all yet;
   RFrac point seen and at least one digit somewhere; RE after e; RESign after exponent sign; REDig exponent digits *)

Definition rstep (st : rstate) (c : ascii) : rstate :=
  let d := is_digit c in
  let isdot := Ascii.eqb c "." in
  let ise := Ascii.eqb c "e" || Ascii.eqb c "E" in
  match st with
  | R0 => if Ascii.eqb c "-" then RSign else if d then RInt else if isdot then RDot0 else RBad
  | RSign => if d then RInt else if isdot then RDot0 else RBad
  | RInt => if d then RInt else if isdot then RFrac else if ise then RE else RBad
  | RDot0 => if d then RFrac else RBad
  | RFrac => if d then RFrac else if ise then RE else RBad
  | RE => if is_sign c then RESign else if d then REDig else RBad
  | RESign => if d then REDig else RBad
  | REDig => if d then REDig else RBad
  | RBad => RBad
  end.

Fixpoint rrun (st : rstate) (s : string) : rstate :=
  match s with EmptyString => st | String c r => rrun (rstep st c) r end.

Definition raccept (st : rstate) : bool :=
  match st with RInt | RFrac | REDig => true | _ => false end.

Definition real_dfa (s : string) : bool := raccept (rrun R0 s).

Inductive istate := I0 | ISign | IDig | IBad.
Definition istep (st : istate) (c : ascii) : istate :=
  match st with
  | I0 => if is_sign c then ISign else if is_digit c then IDig else IBad
  | ISign => if is_digit c then IDig else IBad
  | IDig => if is_digit c then IDig else IBad
  | IBad => IBad
  end.
Fixpoint irun (st : istate) (s : string) : istate :=
  match s with EmptyString => st | String c r => irun (istep st c) r end.
Definition int_dfa (s : string) : bool := match irun I0 s with IDig => true | _ => false end.

(** strtod / strtol prefix model (A-libc): std::stod(s) throws invalid_argument iff no non-empty
    prefix of s (after optional white space) is a floating literal.  We only need the decimal
    forms: the recogniser never lets letters other than e/E through. *)
Definition is_space (c : ascii) : bool :=
  let n := nat_of_ascii c in (n =? 32)%nat || ((9 <=? n)%nat && (n <=? 13)%nat).

Fixpoint skip_space (s : string) : string :=
  match s with String c r => if is_space c then skip_space r else s | EmptyString => s end.

(* does strtod perform a conversion on s?  (sign? (digit+ | digit* '.' digit+ | digit+ '.') ...) — a
   conversion exists iff after optional sign there is a digit, or a '.' followed by a digit. *)
Definition strtod_converts (s : string) : bool :=
  let t := skip_space s in
  let u := match t with String c r => if is_sign c then r else t | _ => t end in
  match u with
  | String c r => if is_digit c then true
                  else if Ascii.eqb c "." then match r with String d _ => is_digit d | _ => false end
                  else false   (* inf / nan / hex are not reachable through the recognisers *)
  | EmptyString => false
  end.

Definition strtol_converts (s : string) : bool :=
  let t := skip_space s in
  let u := match t with String c r => if is_sign c then r else t | _ => t end in
  match u with String c _ => is_digit c | _ => false end.

(* model of convertToDouble's control flow: Rejected | OutOfRange | Value | and the uncaught throw *)
Inductive dconv := DRejected | DConverted | DThrowsInvalidArgument.
Definition convert_to_double_gen (fixed : bool) (s : string) : dconv :=
  if is_real_gen fixed s then (if strtod_converts s then DConverted else DThrowsInvalidArgument)
  else DRejected.
Definition convert_to_double := convert_to_double_gen true.

Inductive iconv := IRejected | IConverted | IThrowsInvalidArgument.
Definition convert_to_int_flow (s : string) : iconv :=
  if is_int s then (if strtol_converts s then IConverted else IThrowsInvalidArgument) else IRejected.

(** Shapes that operator<<(double) with precision 15 (i.e. %.15g) can print, for finite values:
    '-'? digit+ ('.' digit+)? ('e' ('+'|'-') digit digit+)?   — a sub-language of the real grammar. *)
Inductive gstate := G0 | GSign | GInt | GDot | GFrac | GE | GESign | GEDig | GBad.
Definition gstep (st : gstate) (c : ascii) : gstate :=
  let d := is_digit c in
  match st with
  | G0 => if Ascii.eqb c "-" then GSign else if d then GInt else GBad
  | GSign => if d then GInt else GBad
  | GInt => if d then GInt else if Ascii.eqb c "." then GDot else if Ascii.eqb c "e" then GE else GBad
  | GDot => if d then GFrac else GBad
  | GFrac => if d then GFrac else if Ascii.eqb c "e" then GE else GBad
  | GE => if is_sign c then GESign else GBad
  | GESign => if d then GEDig else GBad
  | GEDig => if d then GEDig else GBad
  | GBad => GBad
  end.
Fixpoint grun (st : gstate) (s : string) : gstate :=
  match s with EmptyString => st | String c r => grun (gstep st c) r end.
Definition g15_shape (s : string) : bool :=
  match grun G0 s with GInt | GFrac | GEDig => true | _ => false end.
