(** IdsProofs.v — lemmas about the identifier-assignment model (property C13). *)
From Coq Require Import String Ascii List NArith Arith Bool Lia Permutation
     HexadecimalString HexadecimalN HexadecimalPos Hexadecimal.
From LC Require Import Common IdsDefs.
Import ListNotations.
Open Scope string_scope.
Open Scope list_scope.

(* ------------------------------------------------------------------------------------------------ basics *)

Lemma is_empty_true : forall s, is_empty s = true <-> s = "".
Proof. destruct s; simpl; split; intro H; try reflexivity; discriminate. Qed.
Lemma is_empty_false : forall s, is_empty s = false <-> s <> "".
Proof. destruct s; simpl; split; intro H; try discriminate; try congruence; auto. Qed.

Lemma kind_index_inj : forall a b, kind_index a = kind_index b -> a = b.
Proof. destruct a, b; simpl; intro H; try reflexivity; discriminate. Qed.
Lemma kind_eqb_eq : forall a b, kind_eqb a b = true <-> a = b.
Proof.
  unfold kind_eqb; intros a b; rewrite Nat.eqb_eq; split; [apply kind_index_inj | intros ->; reflexivity].
Qed.
Lemma kind_eqb_refl : forall a, kind_eqb a a = true.
Proof. intro a; apply kind_eqb_eq; reflexivity. Qed.

Lemma pos_eqb_eq : forall p q, pos_eqb p q = true <-> p = q.
Proof.
  intros [k s] [k' s']; unfold pos_eqb; simpl. rewrite andb_true_iff, kind_eqb_eq, Nat.eqb_eq.
  split; [intros [-> ->]; reflexivity | intro H; inversion H; auto].
Qed.
Lemma pos_mem_In : forall p l, pos_mem p l = true <-> In p l.
Proof.
  intros p l; unfold pos_mem; rewrite existsb_exists; split.
  - intros [q [Hq He]]. apply pos_eqb_eq in He; subst; assumption.
  - intro H; exists p; split; [assumption | apply pos_eqb_eq; reflexivity].
Qed.
Lemma pos_mem_false : forall p l, pos_mem p l = false <-> ~ In p l.
Proof.
  intros p l; rewrite <- pos_mem_In. destruct (pos_mem p l); split; intro H; try discriminate; try reflexivity.
  exfalso; apply H; reflexivity.
Qed.
Lemma str_mem_In : forall x l, str_mem x l = true <-> In x l.
Proof.
  intros x l; unfold str_mem; rewrite existsb_exists; split.
  - intros [y [Hy He]]. apply String.eqb_eq in He; subst; assumption.
  - intro H; exists x; split; [assumption | apply String.eqb_refl].
Qed.
Lemma str_mem_false : forall x l, str_mem x l = false <-> ~ In x l.
Proof.
  intros x l; rewrite <- str_mem_In. destruct (str_mem x l); split; intro H; try discriminate; try reflexivity.
  exfalso; apply H; reflexivity.
Qed.

(* ------------------------------------------------------------------------------------------------ id vector *)

Lemma set_length : forall ids n x, length (set ids n x) = length ids.
Proof. induction ids as [|y r IH]; intros [|n] x; simpl; auto. Qed.
Lemma get_set_same : forall ids n x, n < length ids -> get (set ids n x) n = x.
Proof.
  unfold get; induction ids as [|y r IH]; intros [|n] x H; simpl in *; try lia; auto.
  apply IH; lia.
Qed.
Lemma get_set_other : forall ids n m x, n <> m -> get (set ids n x) m = get ids m.
Proof.
  unfold get; induction ids as [|y r IH]; intros [|n] [|m] x H; simpl; auto; try congruence.
Qed.
Lemma get_set_cases : forall ids n m x, get (set ids n x) m = x \/ get (set ids n x) m = get ids m.
Proof.
  intros ids n m x. destruct (Nat.eq_dec n m) as [->|Hn].
  - destruct (lt_dec m (length ids)) as [Hl|Hl].
    + left; apply get_set_same; assumption.
    + right. unfold get. rewrite !nth_overflow; auto; rewrite ?set_length; lia.
  - right; apply get_set_other; assumption.
Qed.

(* ------------------------------------------------------------------------------------------------ hex *)

Lemma hex_injective : forall a b : N, hex a = hex b -> a = b.
Proof.
  unfold hex; intros a b H.
  apply HexadecimalN.Unsigned.to_uint_inj.
  assert (E : Some (N.to_hex_uint a) = Some (N.to_hex_uint b)).
  { rewrite <- (NilEmpty.usu (N.to_hex_uint a)), <- (NilEmpty.usu (N.to_hex_uint b)), H; reflexivity. }
  inversion E; reflexivity.
Qed.

Lemma string_of_uint_empty : forall d, NilEmpty.string_of_uint d = "" -> d = Nil.
Proof. destruct d; simpl; intro H; try reflexivity; discriminate. Qed.

Lemma hex_nonempty : forall n, hex n <> "".
Proof.
  unfold hex; intros n H. apply string_of_uint_empty in H.
  destruct n as [|p]; simpl in H; [discriminate|].
  exact (HexadecimalPos.Unsigned.to_uint_nonnil p H).
Qed.

(* ------------------------------------------------------------------------------------------------ makeUniqueId *)

Lemma mu_loop_true : forall fuel keys n id m,
  mu_loop fuel keys n = (id, m, true) -> ~ In id keys /\ id = hex m /\ (n <= m)%N.
Proof.
  induction fuel as [|f IH]; intros keys n id m H; simpl in H.
  - destruct (str_mem (hex n) keys) eqn:E; inversion H; subst.
    split; [apply str_mem_false; assumption | split; [reflexivity | lia]].
  - destruct (str_mem (hex n) keys) eqn:E.
    + apply IH in H. destruct H as [H1 [H2 H3]]. repeat split; auto; lia.
    + inversion H; subst. split; [apply str_mem_false; assumption | split; [reflexivity | lia]].
Qed.

Lemma mu_loop_false : forall fuel keys n id m,
  mu_loop fuel keys n = (id, m, false) -> forall k, k <= fuel -> In (hex (n + N.of_nat k)) keys.
Proof.
  induction fuel as [|f IH]; intros keys n id m H k Hk; simpl in H.
  - destruct (str_mem (hex n) keys) eqn:E; [|discriminate].
    assert (k = 0) by lia; subst. rewrite N.add_0_r. apply str_mem_In; assumption.
  - destruct (str_mem (hex n) keys) eqn:E; [|discriminate].
    destruct k as [|k].
    + rewrite N.add_0_r. apply str_mem_In; assumption.
    + replace (n + N.of_nat (S k))%N with (N.succ n + N.of_nat k)%N by lia.
      apply (IH keys (N.succ n) id m H k). lia.
Qed.

Lemma hex_seq_nodup : forall n k, NoDup (map (fun i => hex (n + N.of_nat i)) (seq 0 k)).
Proof.
  intros n k. apply FinFun.Injective_map_NoDup; [|apply seq_NoDup].
  intros i j H. apply hex_injective in H. lia.
Qed.

(* pigeonhole: |keys|+1 consecutive counters cannot all be keys *)
Lemma mu_loop_terminates : forall fuel keys n,
  length keys <= fuel -> snd (mu_loop fuel keys n) = true.
Proof.
  intros fuel keys n Hl. destruct (mu_loop fuel keys n) as [[id m] ok] eqn:E. simpl.
  destruct ok; [reflexivity|]. exfalso.
  pose proof (mu_loop_false _ _ _ _ _ E) as Hin.
  assert (Hincl : incl (map (fun i => hex (n + N.of_nat i)) (seq 0 (S fuel))) keys).
  { intros x Hx. apply in_map_iff in Hx. destruct Hx as [i [<- Hi]]. apply in_seq in Hi. apply Hin. lia. }
  pose proof (NoDup_incl_length (hex_seq_nodup n (S fuel)) Hincl) as Hlen.
  rewrite map_length, seq_length in Hlen. lia.
Qed.

Lemma make_unique_terminates : forall cache n, snd (make_unique cache n) = true.
Proof.
  intros cache n. unfold make_unique. apply mu_loop_terminates. unfold keys_of. rewrite map_length. lia.
Qed.

Lemma make_unique_fresh : forall cache n id m ok,
  make_unique cache n = (id, m, ok) -> ok = true /\ ~ In id (keys_of cache) /\ id = hex m /\ id <> "" /\ (n <= m)%N.
Proof.
  intros cache n id m ok H.
  pose proof (make_unique_terminates cache n) as Ht. rewrite H in Ht; simpl in Ht; subst ok.
  unfold make_unique in H. apply mu_loop_true in H. destruct H as [H1 [H2 H3]].
  repeat split; auto. subst id; apply hex_nonempty.
Qed.

(* ------------------------------------------------------------------------------------------------ one assignment step *)

Definition ids_of_state (s : state) := s_ids s.
Definition cache_keys (s : state) : list string := keys_of (a_cache (s_ann s)).

(* every non-empty id of a slot in [slots] is a key of the id list *)
Definition Covered (slots : list nat) (s : state) : Prop :=
  forall slot, In slot slots -> get (s_ids s) slot <> "" -> In (get (s_ids s) slot) (cache_keys s).

Lemma keys_of_app : forall a b, keys_of (a ++ b) = keys_of a ++ keys_of b.
Proof. intros; unfold keys_of; apply map_app. Qed.

Lemma assign_visit_spec : forall s v,
  let s' := assign_visit s v in
  (forall slot, slot <> v_slot v -> get (s_ids s') slot = get (s_ids s) slot) /\
  (get (s_ids s) (v_slot v) <> "" -> s' = s) /\
  (get (s_ids s) (v_slot v) = "" ->
     exists id, id <> "" /\ ~ In id (cache_keys s) /\ s_ids s' = set (s_ids s) (v_slot v) id /\
                cache_keys s' = cache_keys s ++ [id]) /\
  length (s_ids s') = length (s_ids s) /\
  a_err (s_ann s') = a_err (s_ann s) /\
  a_has_model (s_ann s') = a_has_model (s_ann s) /\
  (exists l, a_cache (s_ann s') = a_cache (s_ann s) ++ l).
Proof.
  intros s v s'. subst s'. unfold assign_visit.
  destruct (is_empty (get (s_ids s) (v_slot v))) eqn:E.
  - apply is_empty_true in E.
    destruct (make_unique (a_cache (s_ann s)) (a_counter (s_ann s))) as [[id n] ok] eqn:M.
    apply make_unique_fresh in M. destruct M as [Hok [Hfresh [Hhex [Hne _]]]]. subst ok. simpl.
    repeat split.
    + intros slot Hs. apply get_set_other. congruence.
    + intro H; congruence.
    + intros _. exists id. repeat split; auto. unfold cache_keys; simpl. rewrite keys_of_app; reflexivity.
    + apply set_length.
    + rewrite orb_false_r; reflexivity.
    + eexists; reflexivity.
  - apply is_empty_false in E. repeat split; auto.
    + intro H; congruence.
    + exists []; rewrite app_nil_r; reflexivity.
Qed.

Lemma assign_visit_preserves : forall s v slot,
  get (s_ids s) slot <> "" -> get (s_ids (assign_visit s v)) slot = get (s_ids s) slot.
Proof.
  intros s v slot H. destruct (assign_visit_spec s v) as [Ho [Hk _]].
  destruct (Nat.eq_dec slot (v_slot v)) as [->|Hn]; [rewrite Hk; auto | apply Ho; assumption].
Qed.

Lemma assign_visit_covered : forall slots s v,
  Covered slots s -> Covered slots (assign_visit s v).
Proof.
  intros slots s v HC slot Hin Hne.
  destruct (assign_visit_spec s v) as [Ho [Hk [Hnew _]]].
  destruct (string_dec (get (s_ids s) (v_slot v)) "") as [He|He].
  - destruct (Hnew He) as [id [Hid [Hfr [Hset Hkeys]]]]. rewrite Hkeys.
    destruct (Nat.eq_dec slot (v_slot v)) as [->|Hn].
    + rewrite Hset in *. destruct (get_set_cases (s_ids s) (v_slot v) (v_slot v) id) as [G|G].
      * rewrite G. apply in_or_app; right; left; reflexivity.
      * rewrite G, He in Hne. congruence.
    + rewrite (Ho slot Hn) in *. apply in_or_app; left. apply HC; assumption.
  - rewrite (Hk He) in *. apply HC; assumption.
Qed.

(* ------------------------------------------------------------------------------------------------ a sequence of steps *)

Lemma assign_visits_cons : forall s v vs, assign_visits s (v :: vs) = assign_visits (assign_visit s v) vs.
Proof. reflexivity. Qed.

Lemma assign_visits_preserves : forall vs s slot,
  get (s_ids s) slot <> "" -> get (s_ids (assign_visits s vs)) slot = get (s_ids s) slot.
Proof.
  induction vs as [|v vs IH]; intros s slot H; [reflexivity|].
  rewrite assign_visits_cons, IH; rewrite assign_visit_preserves; auto.
Qed.

Lemma assign_visits_length : forall vs s, length (s_ids (assign_visits s vs)) = length (s_ids s).
Proof.
  induction vs as [|v vs IH]; intros s; [reflexivity|].
  rewrite assign_visits_cons, IH. destruct (assign_visit_spec s v) as [_ [_ [_ [H _]]]]; exact H.
Qed.

Lemma assign_visits_err : forall vs s, a_err (s_ann (assign_visits s vs)) = a_err (s_ann s).
Proof.
  induction vs as [|v vs IH]; intros s; [reflexivity|].
  rewrite assign_visits_cons, IH. destruct (assign_visit_spec s v) as [_ [_ [_ [_ [H _]]]]]; exact H.
Qed.

Lemma assign_visits_has_model : forall vs s, a_has_model (s_ann (assign_visits s vs)) = a_has_model (s_ann s).
Proof.
  induction vs as [|v vs IH]; intros s; [reflexivity|].
  rewrite assign_visits_cons, IH. destruct (assign_visit_spec s v) as [_ [_ [_ [_ [_ [H _]]]]]]; exact H.
Qed.

Lemma assign_visits_covered : forall slots vs s, Covered slots s -> Covered slots (assign_visits s vs).
Proof.
  induction vs as [|v vs IH]; intros s H; [assumption|].
  rewrite assign_visits_cons. apply IH, assign_visit_covered, H.
Qed.

Lemma assign_visits_untouched : forall vs s slot,
  ~ In slot (map v_slot vs) -> get (s_ids (assign_visits s vs)) slot = get (s_ids s) slot.
Proof.
  induction vs as [|v vs IH]; intros s slot H; [reflexivity|].
  rewrite assign_visits_cons, IH.
  - destruct (assign_visit_spec s v) as [Ho _]. apply Ho. intro E; apply H; left; auto.
  - intro E; apply H; right; assumption.
Qed.

Lemma assign_visits_cache_grows : forall vs s, exists l, a_cache (s_ann (assign_visits s vs)) = a_cache (s_ann s) ++ l.
Proof.
  induction vs as [|v vs IH]; intros s; [exists []; rewrite app_nil_r; reflexivity|].
  rewrite assign_visits_cons. destruct (IH (assign_visit s v)) as [l Hl].
  destruct (assign_visit_spec s v) as [_ [_ [_ [_ [_ [_ [l0 H0]]]]]]].
  exists (l0 ++ l). rewrite Hl, H0, app_assoc; reflexivity.
Qed.

(* completeness: every visited slot that exists holds an id afterwards *)
Lemma assign_visits_complete : forall vs s v,
  In v vs -> v_slot v < length (s_ids s) -> get (s_ids (assign_visits s vs)) (v_slot v) <> "".
Proof.
  induction vs as [|v0 vs IH]; intros s v Hin Hl; [destruct Hin|].
  rewrite assign_visits_cons. destruct Hin as [->|Hin].
  - assert (Hne : get (s_ids (assign_visit s v)) (v_slot v) <> "").
    { destruct (assign_visit_spec s v) as [_ [Hk [Hnew _]]].
      destruct (string_dec (get (s_ids s) (v_slot v)) "") as [He|He].
      - destruct (Hnew He) as [id [Hid [_ [Hset _]]]]. rewrite Hset, get_set_same; assumption.
      - rewrite (Hk He); assumption. }
    rewrite assign_visits_preserves; assumption.
  - apply IH; [assumption|]. destruct (assign_visit_spec s v0) as [_ [_ [_ [H _]]]]. rewrite H; assumption.
Qed.

(* freshness: an id handed out during the sequence is carried by no other covered slot afterwards, and is
   not a key of the id list the sequence started from *)
Lemma assign_visits_fresh : forall slots vs s,
  Covered slots s ->
  (forall v, In v vs -> In (v_slot v) slots /\ v_slot v < length (s_ids s)) ->
  forall slot, get (s_ids s) slot = "" -> get (s_ids (assign_visits s vs)) slot <> "" ->
    ~ In (get (s_ids (assign_visits s vs)) slot) (cache_keys s) /\
    forall slot', In slot' slots -> slot' <> slot ->
      get (s_ids (assign_visits s vs)) slot' <> get (s_ids (assign_visits s vs)) slot.
Proof.
  intros slots. induction vs as [|v vs IH]; intros s HC Hvs slot He Hne.
  - simpl in Hne. congruence.
  - rewrite assign_visits_cons in *.
    set (s1 := assign_visit s v) in *.
    assert (HC1 : Covered slots s1) by (apply assign_visit_covered; assumption).
    assert (Hvs1 : forall v', In v' vs -> In (v_slot v') slots /\ v_slot v' < length (s_ids s1)).
    { intros v' Hv'. destruct (Hvs v' (or_intror Hv')) as [A B]. split; [assumption|].
      subst s1. destruct (assign_visit_spec s v) as [_ [_ [_ [H _]]]]. rewrite H; assumption. }
    destruct (assign_visit_spec s v) as [Ho [Hk [Hnew [_ [_ [_ [l0 Hgrow]]]]]]]. fold s1 in Ho, Hk, Hnew, Hgrow.
    assert (Hsub : forall x, In x (cache_keys s) -> In x (cache_keys s1)).
    { intros x Hx. unfold cache_keys in *. rewrite Hgrow, keys_of_app. apply in_or_app; left; assumption. }
    destruct (Nat.eq_dec slot (v_slot v)) as [Heq|Hneq].
    + (* the id of [slot] is handed out at this step *)
      subst slot. destruct (Hnew He) as [id [Hid [Hfr [Hset Hkeys]]]].
      destruct (Hvs v (or_introl eq_refl)) as [Hin Hlt].
      assert (G1 : get (s_ids s1) (v_slot v) = id) by (rewrite Hset; apply get_set_same; assumption).
      assert (G2 : get (s_ids (assign_visits s1 vs)) (v_slot v) = id).
      { rewrite assign_visits_preserves; rewrite G1; auto. }
      rewrite G2. split; [assumption|].
      intros slot' Hin' Hd.
      destruct (string_dec (get (s_ids s1) slot') "") as [E1|E1].
      * destruct (string_dec (get (s_ids (assign_visits s1 vs)) slot') "") as [E2|E2].
        -- rewrite E2. congruence.
        -- destruct (IH s1 HC1 Hvs1 slot' E1 E2) as [_ Hdiff].
           specialize (Hdiff (v_slot v) Hin (fun e => Hd (eq_sym e))). rewrite G2 in Hdiff. congruence.
      * rewrite assign_visits_preserves by assumption.
        rewrite (Ho slot' Hd) in *. intro Habs. apply Hfr. rewrite <- Habs. apply HC; assumption.
    + (* handed out later *)
      assert (E1 : get (s_ids s1) slot = "") by (rewrite (Ho slot Hneq); assumption).
      destruct (IH s1 HC1 Hvs1 slot E1 Hne) as [Hk1 Hd1]. split; [|assumption].
      intro Habs; apply Hk1, Hsub, Habs.
Qed.

(* ------------------------------------------------------------------------------------------------ the id list *)

Definition epos (e : entry) : kind * nat := (e_kind e, e_slot e).
Definition vpos (v : visit) : kind * nat := (v_kind v, v_slot v).

Lemma build_from_complete : forall c ids vs seen v,
  In v vs -> get ids (v_slot v) <> "" ->
  (exists e, In e (build_from c ids vs seen) /\ epos e = vpos v /\ e_id e = get ids (v_slot v))
  \/ In (vpos v) seen.
Proof.
  intros c ids. induction vs as [|v0 r IH]; intros seen v Hin Hne; [destruct Hin|].
  simpl. destruct (is_empty (get ids (v_slot v0))) eqn:E0.
  - apply is_empty_true in E0. destruct Hin as [->|Hin]; [congruence|]. apply IH; assumption.
  - destruct (dedup_kind c (v_kind v0) && pos_mem (v_kind v0, v_slot v0) seen) eqn:D.
    + destruct Hin as [->|Hin]; [|apply IH; assumption].
      right. apply andb_true_iff in D. destruct D as [_ D]. apply pos_mem_In in D. exact D.
    + destruct Hin as [->|Hin].
      * left. eexists; split; [left; reflexivity|]. split; reflexivity.
      * destruct (IH ((v_kind v0, v_slot v0) :: seen) v Hin Hne) as [[e [He [Hp Hi]]]|Hs].
        -- left. exists e; split; [right; assumption|]. split; assumption.
        -- destruct Hs as [Hs|Hs]; [|right; assumption].
           left. exists (mk_entry (get ids (v_slot v0)) v0). split; [left; reflexivity|].
           unfold epos, vpos in *; simpl. inversion Hs. split; [reflexivity|]. reflexivity.
Qed.

Lemma build_from_sound : forall c ids vs seen e,
  In e (build_from c ids vs seen) ->
  exists v, In v vs /\ e = mk_entry (get ids (v_slot v)) v /\ get ids (v_slot v) <> "" /\
            (dedup_kind c (v_kind v) = true -> ~ In (vpos v) seen).
Proof.
  intros c ids. induction vs as [|v0 r IH]; intros seen e Hin; [destruct Hin|].
  simpl in Hin. destruct (is_empty (get ids (v_slot v0))) eqn:E0.
  - destruct (IH _ _ Hin) as [v [A B]]. exists v; split; [right; assumption | assumption].
  - destruct (dedup_kind c (v_kind v0) && pos_mem (v_kind v0, v_slot v0) seen) eqn:D.
    + destruct (IH _ _ Hin) as [v [A B]]. exists v; split; [right; assumption | assumption].
    + destruct Hin as [<-|Hin].
      * exists v0. split; [left; reflexivity|]. split; [reflexivity|]. split; [apply is_empty_false; assumption|].
        intros Hd. rewrite Hd in D. simpl in D. apply pos_mem_false in D. exact D.
      * destruct (IH _ _ Hin) as [v [A [B [C Dd]]]]. exists v. split; [right; assumption|].
        split; [assumption|]. split; [assumption|]. intros Hd Hs. apply (Dd Hd). right; assumption.
Qed.

Lemma build_from_nodup : forall c ids vs seen,
  NoDup (map vpos (filter (fun v => negb (dedup_kind c (v_kind v))) vs)) ->
  NoDup (map epos (build_from c ids vs seen)).
Proof.
  intros c ids. induction vs as [|v0 r IH]; intros seen Hnd; [constructor|].
  assert (Hnd' : NoDup (map vpos (filter (fun v => negb (dedup_kind c (v_kind v))) r))).
  { simpl in Hnd. destruct (negb (dedup_kind c (v_kind v0))); [inversion Hnd; assumption | assumption]. }
  simpl. destruct (is_empty (get ids (v_slot v0))) eqn:E0; [apply IH; assumption|].
  destruct (dedup_kind c (v_kind v0) && pos_mem (v_kind v0, v_slot v0) seen) eqn:D; [apply IH; assumption|].
  simpl. constructor; [|apply IH; assumption].
  intro Hin. apply in_map_iff in Hin. destruct Hin as [e [Hp He]].
  apply build_from_sound in He. destruct He as [v [Hv [-> [Hne Hd]]]].
  unfold epos in Hp; simpl in Hp. fold (vpos v) in Hp.
  destruct (dedup_kind c (v_kind v0)) eqn:K.
  - assert (Kv : dedup_kind c (v_kind v) = true).
    { unfold vpos in Hp. inversion Hp as [[Hk Hs]]. rewrite Hk. exact K. }
    apply (Hd Kv). left. unfold vpos in *. simpl in Hp. congruence.
  - simpl in Hnd. rewrite K in Hnd. simpl in Hnd. inversion Hnd as [|x l Hx Hl]; subst.
    apply Hx. apply in_map_iff. exists v. split; [exact Hp|].
    apply filter_In. split; [assumption|].
    unfold vpos in Hp. inversion Hp as [[Hk Hs]]. rewrite Hk, K. reflexivity.
Qed.

Definition listed_slots (st : structure) : list nat := map v_slot (list_visits st).

Lemma build_cache_covers : forall c st ids slot,
  In slot (listed_slots st) -> get ids slot <> "" -> In (get ids slot) (keys_of (build_cache c st ids)).
Proof.
  intros c st ids slot Hin Hne. unfold listed_slots in Hin. apply in_map_iff in Hin. destruct Hin as [v [<- Hv]].
  destruct (build_from_complete c ids (list_visits st) [] v Hv Hne) as [[e [He [_ Hi]]]|[]].
  unfold keys_of. apply in_map_iff. exists e. split; assumption.
Qed.

Lemma refresh_covered : forall c st s, Covered (listed_slots st) (refresh c st s).
Proof.
  intros c st s slot Hin Hne. unfold refresh, cache_keys in *; simpl in *. apply build_cache_covers; assumption.
Qed.

Lemma build_cache_keys_sound : forall c st ids x,
  In x (keys_of (build_cache c st ids)) -> x <> "" /\ exists slot, In slot (listed_slots st) /\ get ids slot = x.
Proof.
  intros c st ids x H. unfold keys_of in H. apply in_map_iff in H. destruct H as [e [<- He]].
  apply build_from_sound in He. destruct He as [v [Hv [-> [Hne _]]]]. cbn [mk_entry e_id]. split; [assumption|].
  exists (v_slot v). split; [unfold listed_slots; apply in_map_iff; exists v; split; auto | reflexivity].
Qed.
