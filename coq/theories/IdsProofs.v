(** IdsProofs.v — lemmas about the identifier-assignment model (property C13). *)
From Coq Require Import String Ascii List NArith Arith Bool Lia Permutation
     HexadecimalString HexadecimalN HexadecimalPos Hexadecimal.
From LC Require Import Common IdsDefs.
Import ListNotations.
Open Scope string_scope.
Open Scope list_scope.

(* ------------------------------------------------------------------------------------------------ basics *)

Lemma is_empty_true : forall s, is_empty s = true <-> s = "".
Proof. destruct s; simpl; split; intro H; try reflexivity; discriminate. Qed.
Lemma is_empty_false : forall s, is_empty s = false <-> s <> "".
Proof. destruct s; simpl; split; intro H; try discriminate; try congruence; auto. Qed.

Lemma kind_index_inj : forall a b, kind_index a = kind_index b -> a = b.
Proof. destruct a, b; simpl; intro H; try reflexivity; discriminate. Qed.
Lemma kind_eqb_eq : forall a b, kind_eqb a b = true <-> a = b.
Proof.
  unfold kind_eqb; intros a b; rewrite Nat.eqb_eq; split; [apply kind_index_inj | intros ->; reflexivity].
Qed.
Lemma kind_eqb_refl : forall a, kind_eqb a a = true.
Proof. intro a; apply kind_eqb_eq; reflexivity. Qed.

Lemma pos_eqb_eq : forall p q, pos_eqb p q = true <-> p = q.
Proof.
  intros [k s] [k' s']; unfold pos_eqb; simpl. rewrite andb_true_iff, kind_eqb_eq, Nat.eqb_eq.
  split; [intros [-> ->]; reflexivity | intro H; inversion H; auto].
Qed.
Lemma pos_mem_In : forall p l, pos_mem p l = true <-> In p l.
Proof.
  intros p l; unfold pos_mem; rewrite existsb_exists; split.
  - intros [q [Hq He]]. apply pos_eqb_eq in He; subst; assumption.
  - intro H; exists p; split; [assumption | apply pos_eqb_eq; reflexivity].
Qed.
Lemma pos_mem_false : forall p l, pos_mem p l = false <-> ~ In p l.
Proof.
  intros p l; rewrite <- pos_mem_In. destruct (pos_mem p l); split; intro H; try discriminate; try reflexivity.
  exfalso; apply H; reflexivity.
Qed.
Lemma str_mem_In : forall x l, str_mem x l = true <-> In x l.
Proof.
  intros x l; unfold str_mem; rewrite existsb_exists; split.
  - intros [y [Hy He]]. apply String.eqb_eq in He; subst; assumption.
  - intro H; exists x; split; [assumption | apply String.eqb_refl].
Qed.
Lemma str_mem_false : forall x l, str_mem x l = false <-> ~ In x l.
Proof.
  intros x l; rewrite <- str_mem_In. destruct (str_mem x l); split; intro H; try discriminate; try reflexivity.
  exfalso; apply H; reflexivity.
Qed.

(* ------------------------------------------------------------------------------------------------ id vector *)

Lemma set_length : forall ids n x, length (set ids n x) = length ids.
Proof. induction ids as [|y r IH]; intros [|n] x; simpl; auto. Qed.
Lemma get_set_same : forall ids n x, n < length ids -> get (set ids n x) n = x.
Proof.
  unfold get; induction ids as [|y r IH]; intros [|n] x H; simpl in *; try lia; auto.
  apply IH; lia.
Qed.
Lemma get_set_other : forall ids n m x, n <> m -> get (set ids n x) m = get ids m.
Proof.
  unfold get; induction ids as [|y r IH]; intros [|n] [|m] x H; simpl; auto; try congruence.
Qed.
Lemma get_set_cases : forall ids n m x, get (set ids n x) m = x \/ get (set ids n x) m = get ids m.
Proof.
  intros ids n m x. destruct (Nat.eq_dec n m) as [->|Hn].
  - destruct (lt_dec m (length ids)) as [Hl|Hl].
    + left; apply get_set_same; assumption.
    + right. unfold get. rewrite !nth_overflow; auto; rewrite ?set_length; lia.
  - right; apply get_set_other; assumption.
Qed.

(* ------------------------------------------------------------------------------------------------ hex *)

Lemma hex_injective : forall a b : N, hex a = hex b -> a = b.
Proof.
  unfold hex; intros a b H.
  apply HexadecimalN.Unsigned.to_uint_inj.
  assert (E : Some (N.to_hex_uint a) = Some (N.to_hex_uint b)).
  { rewrite <- (NilEmpty.usu (N.to_hex_uint a)), <- (NilEmpty.usu (N.to_hex_uint b)), H; reflexivity. }
  inversion E; reflexivity.
Qed.

Lemma string_of_uint_empty : forall d, NilEmpty.string_of_uint d = "" -> d = Nil.
Proof. destruct d; simpl; intro H; try reflexivity; discriminate. Qed.

Lemma hex_nonempty : forall n, hex n <> "".
Proof.
  unfold hex; intros n H. apply string_of_uint_empty in H.
  destruct n as [|p]; simpl in H; [discriminate|].
  exact (HexadecimalPos.Unsigned.to_uint_nonnil p H).
Qed.

(* ------------------------------------------------------------------------------------------------ makeUniqueId *)

Lemma mu_loop_true : forall fuel keys n id m,
  mu_loop fuel keys n = (id, m, true) -> ~ In id keys /\ id = hex m /\ (n <= m)%N.
Proof.
  induction fuel as [|f IH]; intros keys n id m H; simpl in H.
  - destruct (str_mem (hex n) keys) eqn:E; inversion H; subst.
    split; [apply str_mem_false; assumption | split; [reflexivity | lia]].
  - destruct (str_mem (hex n) keys) eqn:E.
    + apply IH in H. destruct H as [H1 [H2 H3]]. repeat split; auto; lia.
    + inversion H; subst. split; [apply str_mem_false; assumption | split; [reflexivity | lia]].
Qed.

Lemma mu_loop_false : forall fuel keys n id m,
  mu_loop fuel keys n = (id, m, false) -> forall k, k <= fuel -> In (hex (n + N.of_nat k)) keys.
Proof.
  induction fuel as [|f IH]; intros keys n id m H k Hk; simpl in H.
  - destruct (str_mem (hex n) keys) eqn:E; [|discriminate].
    assert (k = 0) by lia; subst. rewrite N.add_0_r. apply str_mem_In; assumption.
  - destruct (str_mem (hex n) keys) eqn:E; [|discriminate].
    destruct k as [|k].
    + rewrite N.add_0_r. apply str_mem_In; assumption.
    + replace (n + N.of_nat (S k))%N with (N.succ n + N.of_nat k)%N by lia.
      apply (IH keys (N.succ n) id m H k). lia.
Qed.

Lemma hex_seq_nodup : forall n k, NoDup (map (fun i => hex (n + N.of_nat i)) (seq 0 k)).
Proof.
  intros n k. apply FinFun.Injective_map_NoDup; [|apply seq_NoDup].
  intros i j H. apply hex_injective in H. lia.
Qed.

(* pigeonhole: |keys|+1 consecutive counters cannot all be keys *)
Lemma mu_loop_terminates : forall fuel keys n,
  length keys <= fuel -> snd (mu_loop fuel keys n) = true.
Proof.
  intros fuel keys n Hl. destruct (mu_loop fuel keys n) as [[id m] ok] eqn:E. simpl.
  destruct ok; [reflexivity|]. exfalso.
  pose proof (mu_loop_false _ _ _ _ _ E) as Hin.
  assert (Hincl : incl (map (fun i => hex (n + N.of_nat i)) (seq 0 (S fuel))) keys).
  { intros x Hx. apply in_map_iff in Hx. destruct Hx as [i [<- Hi]]. apply in_seq in Hi. apply Hin. lia. }
  pose proof (NoDup_incl_length (hex_seq_nodup n (S fuel)) Hincl) as Hlen.
  rewrite map_length, seq_length in Hlen. lia.
Qed.

Lemma make_unique_terminates : forall cache n, snd (make_unique cache n) = true.
Proof.
  intros cache n. unfold make_unique. apply mu_loop_terminates. unfold keys_of. rewrite map_length. lia.
Qed.

Lemma make_unique_fresh : forall cache n id m ok,
  make_unique cache n = (id, m, ok) -> ok = true /\ ~ In id (keys_of cache) /\ id = hex m /\ id <> "" /\ (n <= m)%N.
Proof.
  intros cache n id m ok H.
  pose proof (make_unique_terminates cache n) as Ht. rewrite H in Ht; simpl in Ht; subst ok.
  unfold make_unique in H. apply mu_loop_true in H. destruct H as [H1 [H2 H3]].
  repeat split; auto. subst id; apply hex_nonempty.
Qed.

(* ------------------------------------------------------------------------------------------------ one assignment step *)

Definition ids_of_state (s : state) := s_ids s.
Definition cache_keys (s : state) : list string := keys_of (a_cache (s_ann s)).

(* every non-empty id of a slot in [slots] is a key of the id list *)
Definition Covered (slots : list nat) (s : state) : Prop :=
  forall slot, In slot slots -> get (s_ids s) slot <> "" -> In (get (s_ids s) slot) (cache_keys s).

Lemma keys_of_app : forall a b, keys_of (a ++ b) = keys_of a ++ keys_of b.
Proof. intros; unfold keys_of; apply map_app. Qed.

Lemma assign_visit_spec : forall s v,
  let s' := assign_visit s v in
  (forall slot, slot <> v_slot v -> get (s_ids s') slot = get (s_ids s) slot) /\
  (get (s_ids s) (v_slot v) <> "" -> s' = s) /\
  (get (s_ids s) (v_slot v) = "" ->
     exists id, id <> "" /\ ~ In id (cache_keys s) /\ s_ids s' = set (s_ids s) (v_slot v) id /\
                cache_keys s' = cache_keys s ++ [id]) /\
  length (s_ids s') = length (s_ids s) /\
  a_err (s_ann s') = a_err (s_ann s) /\
  a_has_model (s_ann s') = a_has_model (s_ann s) /\
  (exists l, a_cache (s_ann s') = a_cache (s_ann s) ++ l).
Proof.
  intros s v s'. subst s'. unfold assign_visit.
  destruct (is_empty (get (s_ids s) (v_slot v))) eqn:E.
  - apply is_empty_true in E.
    destruct (make_unique (a_cache (s_ann s)) (a_counter (s_ann s))) as [[id n] ok] eqn:M.
    apply make_unique_fresh in M. destruct M as [Hok [Hfresh [Hhex [Hne _]]]]. subst ok. simpl.
    repeat split.
    + intros slot Hs. apply get_set_other. congruence.
    + intro H; congruence.
    + intros _. exists id. repeat split; auto. unfold cache_keys; simpl. rewrite keys_of_app; reflexivity.
    + apply set_length.
    + rewrite orb_false_r; reflexivity.
    + eexists; reflexivity.
  - apply is_empty_false in E. repeat split; auto.
    + intro H; congruence.
    + exists []; rewrite app_nil_r; reflexivity.
Qed.

Lemma assign_visit_preserves : forall s v slot,
  get (s_ids s) slot <> "" -> get (s_ids (assign_visit s v)) slot = get (s_ids s) slot.
Proof.
  intros s v slot H. destruct (assign_visit_spec s v) as [Ho [Hk _]].
  destruct (Nat.eq_dec slot (v_slot v)) as [->|Hn]; [rewrite Hk; auto | apply Ho; assumption].
Qed.

Lemma assign_visit_covered : forall slots s v,
  Covered slots s -> Covered slots (assign_visit s v).
Proof.
  intros slots s v HC slot Hin Hne.
  destruct (assign_visit_spec s v) as [Ho [Hk [Hnew _]]].
  destruct (string_dec (get (s_ids s) (v_slot v)) "") as [He|He].
  - destruct (Hnew He) as [id [Hid [Hfr [Hset Hkeys]]]]. rewrite Hkeys.
    destruct (Nat.eq_dec slot (v_slot v)) as [->|Hn].
    + rewrite Hset in *. destruct (get_set_cases (s_ids s) (v_slot v) (v_slot v) id) as [G|G].
      * rewrite G. apply in_or_app; right; left; reflexivity.
      * rewrite G, He in Hne. congruence.
    + rewrite (Ho slot Hn) in *. apply in_or_app; left. apply HC; assumption.
  - rewrite (Hk He) in *. apply HC; assumption.
Qed.

(* ------------------------------------------------------------------------------------------------ a sequence of steps *)

Lemma assign_visits_cons : forall s v vs, assign_visits s (v :: vs) = assign_visits (assign_visit s v) vs.
Proof. reflexivity. Qed.

Lemma assign_visits_preserves : forall vs s slot,
  get (s_ids s) slot <> "" -> get (s_ids (assign_visits s vs)) slot = get (s_ids s) slot.
Proof.
  induction vs as [|v vs IH]; intros s slot H; [reflexivity|].
  rewrite assign_visits_cons, IH; rewrite assign_visit_preserves; auto.
Qed.

Lemma assign_visits_length : forall vs s, length (s_ids (assign_visits s vs)) = length (s_ids s).
Proof.
  induction vs as [|v vs IH]; intros s; [reflexivity|].
  rewrite assign_visits_cons, IH. destruct (assign_visit_spec s v) as [_ [_ [_ [H _]]]]; exact H.
Qed.

Lemma assign_visits_err : forall vs s, a_err (s_ann (assign_visits s vs)) = a_err (s_ann s).
Proof.
  induction vs as [|v vs IH]; intros s; [reflexivity|].
  rewrite assign_visits_cons, IH. destruct (assign_visit_spec s v) as [_ [_ [_ [_ [H _]]]]]; exact H.
Qed.

Lemma assign_visits_has_model : forall vs s, a_has_model (s_ann (assign_visits s vs)) = a_has_model (s_ann s).
Proof.
  induction vs as [|v vs IH]; intros s; [reflexivity|].
  rewrite assign_visits_cons, IH. destruct (assign_visit_spec s v) as [_ [_ [_ [_ [_ [H _]]]]]]; exact H.
Qed.

Lemma assign_visits_covered : forall slots vs s, Covered slots s -> Covered slots (assign_visits s vs).
Proof.
  induction vs as [|v vs IH]; intros s H; [assumption|].
  rewrite assign_visits_cons. apply IH, assign_visit_covered, H.
Qed.

Lemma assign_visits_untouched : forall vs s slot,
  ~ In slot (map v_slot vs) -> get (s_ids (assign_visits s vs)) slot = get (s_ids s) slot.
Proof.
  induction vs as [|v vs IH]; intros s slot H; [reflexivity|].
  rewrite assign_visits_cons, IH.
  - destruct (assign_visit_spec s v) as [Ho _]. apply Ho. intro E; apply H; left; auto.
  - intro E; apply H; right; assumption.
Qed.

Lemma assign_visits_cache_grows : forall vs s, exists l, a_cache (s_ann (assign_visits s vs)) = a_cache (s_ann s) ++ l.
Proof.
  induction vs as [|v vs IH]; intros s; [exists []; rewrite app_nil_r; reflexivity|].
  rewrite assign_visits_cons. destruct (IH (assign_visit s v)) as [l Hl].
  destruct (assign_visit_spec s v) as [_ [_ [_ [_ [_ [_ [l0 H0]]]]]]].
  exists (l0 ++ l). rewrite Hl, H0, app_assoc; reflexivity.
Qed.

(* completeness: every visited slot that exists holds an id afterwards *)
Lemma assign_visits_complete : forall vs s v,
  In v vs -> v_slot v < length (s_ids s) -> get (s_ids (assign_visits s vs)) (v_slot v) <> "".
Proof.
  induction vs as [|v0 vs IH]; intros s v Hin Hl; [destruct Hin|].
  rewrite assign_visits_cons. destruct Hin as [->|Hin].
  - assert (Hne : get (s_ids (assign_visit s v)) (v_slot v) <> "").
    { destruct (assign_visit_spec s v) as [_ [Hk [Hnew _]]].
      destruct (string_dec (get (s_ids s) (v_slot v)) "") as [He|He].
      - destruct (Hnew He) as [id [Hid [_ [Hset _]]]]. rewrite Hset, get_set_same; assumption.
      - rewrite (Hk He); assumption. }
    rewrite assign_visits_preserves; assumption.
  - apply IH; [assumption|]. destruct (assign_visit_spec s v0) as [_ [_ [_ [H _]]]]. rewrite H; assumption.
Qed.

(* freshness: an id handed out during the sequence is carried by no other covered slot afterwards, and is
   not a key of the id list the sequence started from *)
Lemma assign_visits_fresh : forall slots vs s,
  Covered slots s ->
  (forall v, In v vs -> In (v_slot v) slots /\ v_slot v < length (s_ids s)) ->
  forall slot, get (s_ids s) slot = "" -> get (s_ids (assign_visits s vs)) slot <> "" ->
    ~ In (get (s_ids (assign_visits s vs)) slot) (cache_keys s) /\
    forall slot', In slot' slots -> slot' <> slot ->
      get (s_ids (assign_visits s vs)) slot' <> get (s_ids (assign_visits s vs)) slot.
Proof.
  intros slots. induction vs as [|v vs IH]; intros s HC Hvs slot He Hne.
  - simpl in Hne. congruence.
  - rewrite assign_visits_cons in *.
    set (s1 := assign_visit s v) in *.
    assert (HC1 : Covered slots s1) by (apply assign_visit_covered; assumption).
    assert (Hvs1 : forall v', In v' vs -> In (v_slot v') slots /\ v_slot v' < length (s_ids s1)).
    { intros v' Hv'. destruct (Hvs v' (or_intror Hv')) as [A B]. split; [assumption|].
      subst s1. destruct (assign_visit_spec s v) as [_ [_ [_ [H _]]]]. rewrite H; assumption. }
    destruct (assign_visit_spec s v) as [Ho [Hk [Hnew [_ [_ [_ [l0 Hgrow]]]]]]]. fold s1 in Ho, Hk, Hnew, Hgrow.
    assert (Hsub : forall x, In x (cache_keys s) -> In x (cache_keys s1)).
    { intros x Hx. unfold cache_keys in *. rewrite Hgrow, keys_of_app. apply in_or_app; left; assumption. }
    destruct (Nat.eq_dec slot (v_slot v)) as [Heq|Hneq].
    + (* the id of [slot] is handed out at this step *)
      subst slot. destruct (Hnew He) as [id [Hid [Hfr [Hset Hkeys]]]].
      destruct (Hvs v (or_introl eq_refl)) as [Hin Hlt].
      assert (G1 : get (s_ids s1) (v_slot v) = id) by (rewrite Hset; apply get_set_same; assumption).
      assert (G2 : get (s_ids (assign_visits s1 vs)) (v_slot v) = id).
      { rewrite assign_visits_preserves; rewrite G1; auto. }
      rewrite G2. split; [assumption|].
      intros slot' Hin' Hd.
      destruct (string_dec (get (s_ids s1) slot') "") as [E1|E1].
      * destruct (string_dec (get (s_ids (assign_visits s1 vs)) slot') "") as [E2|E2].
        -- rewrite E2. congruence.
        -- destruct (IH s1 HC1 Hvs1 slot' E1 E2) as [_ Hdiff].
           specialize (Hdiff (v_slot v) Hin (fun e => Hd (eq_sym e))). rewrite G2 in Hdiff. congruence.
      * rewrite assign_visits_preserves by assumption.
        rewrite (Ho slot' Hd) in *. intro Habs. apply Hfr. rewrite <- Habs. apply HC; assumption.
    + (* handed out later *)
      assert (E1 : get (s_ids s1) slot = "") by (rewrite (Ho slot Hneq); assumption).
      destruct (IH s1 HC1 Hvs1 slot E1 Hne) as [Hk1 Hd1]. split; [|assumption].
      intro Habs; apply Hk1, Hsub, Habs.
Qed.

(* ------------------------------------------------------------------------------------------------ the id list *)

Definition epos (e : entry) : kind * nat := (e_kind e, e_slot e).
Definition vpos (v : visit) : kind * nat := (v_kind v, v_slot v).

Lemma build_from_complete : forall c ids vs seen v,
  In v vs -> get ids (v_slot v) <> "" ->
  (exists e, In e (build_from c ids vs seen) /\ epos e = vpos v /\ e_id e = get ids (v_slot v))
  \/ In (vpos v) seen.
Proof.
  intros c ids. induction vs as [|v0 r IH]; intros seen v Hin Hne; [destruct Hin|].
  simpl. destruct (is_empty (get ids (v_slot v0))) eqn:E0.
  - apply is_empty_true in E0. destruct Hin as [->|Hin]; [congruence|]. apply IH; assumption.
  - destruct (dedup_kind c (v_kind v0) && pos_mem (v_kind v0, v_slot v0) seen) eqn:D.
    + destruct Hin as [->|Hin]; [|apply IH; assumption].
      right. apply andb_true_iff in D. destruct D as [_ D]. apply pos_mem_In in D. exact D.
    + destruct Hin as [->|Hin].
      * left. eexists; split; [left; reflexivity|]. split; reflexivity.
      * destruct (IH ((v_kind v0, v_slot v0) :: seen) v Hin Hne) as [[e [He [Hp Hi]]]|Hs].
        -- left. exists e; split; [right; assumption|]. split; assumption.
        -- destruct Hs as [Hs|Hs]; [|right; assumption].
           left. exists (mk_entry (get ids (v_slot v0)) v0). split; [left; reflexivity|].
           unfold epos, vpos in *; simpl. inversion Hs. split; [reflexivity|]. reflexivity.
Qed.

Lemma build_from_sound : forall c ids vs seen e,
  In e (build_from c ids vs seen) ->
  exists v, In v vs /\ e = mk_entry (get ids (v_slot v)) v /\ get ids (v_slot v) <> "" /\
            (dedup_kind c (v_kind v) = true -> ~ In (vpos v) seen).
Proof.
  intros c ids. induction vs as [|v0 r IH]; intros seen e Hin; [destruct Hin|].
  simpl in Hin. destruct (is_empty (get ids (v_slot v0))) eqn:E0.
  - destruct (IH _ _ Hin) as [v [A B]]. exists v; split; [right; assumption | assumption].
  - destruct (dedup_kind c (v_kind v0) && pos_mem (v_kind v0, v_slot v0) seen) eqn:D.
    + destruct (IH _ _ Hin) as [v [A B]]. exists v; split; [right; assumption | assumption].
    + destruct Hin as [<-|Hin].
      * exists v0. split; [left; reflexivity|]. split; [reflexivity|]. split; [apply is_empty_false; assumption|].
        intros Hd. rewrite Hd in D. simpl in D. apply pos_mem_false in D. exact D.
      * destruct (IH _ _ Hin) as [v [A [B [C Dd]]]]. exists v. split; [right; assumption|].
        split; [assumption|]. split; [assumption|]. intros Hd Hs. apply (Dd Hd). right; assumption.
Qed.

Lemma build_from_nodup : forall c ids vs seen,
  NoDup (map vpos (filter (fun v => negb (dedup_kind c (v_kind v))) vs)) ->
  NoDup (map epos (build_from c ids vs seen)).
Proof.
  intros c ids. induction vs as [|v0 r IH]; intros seen Hnd; [constructor|].
  assert (Hnd' : NoDup (map vpos (filter (fun v => negb (dedup_kind c (v_kind v))) r))).
  { simpl in Hnd. destruct (negb (dedup_kind c (v_kind v0))); [inversion Hnd; assumption | assumption]. }
  simpl. destruct (is_empty (get ids (v_slot v0))) eqn:E0; [apply IH; assumption|].
  destruct (dedup_kind c (v_kind v0) && pos_mem (v_kind v0, v_slot v0) seen) eqn:D; [apply IH; assumption|].
  simpl. constructor; [|apply IH; assumption].
  intro Hin. apply in_map_iff in Hin. destruct Hin as [e [Hp He]].
  apply build_from_sound in He. destruct He as [v [Hv [-> [Hne Hd]]]].
  unfold epos in Hp; simpl in Hp. fold (vpos v) in Hp.
  destruct (dedup_kind c (v_kind v0)) eqn:K.
  - assert (Kv : dedup_kind c (v_kind v) = true).
    { unfold vpos in Hp. inversion Hp as [[Hk Hs]]. rewrite Hk. exact K. }
    apply (Hd Kv). left. unfold vpos in *. simpl in Hp. congruence.
  - simpl in Hnd. rewrite K in Hnd. simpl in Hnd. inversion Hnd as [|x l Hx Hl]; subst.
    apply Hx. apply in_map_iff. exists v. split; [exact Hp|].
    apply filter_In. split; [assumption|].
    unfold vpos in Hp. inversion Hp as [[Hk Hs]]. rewrite Hk, K. reflexivity.
Qed.

Definition listed_slots (st : structure) : list nat := map v_slot (list_visits st).

Lemma build_cache_covers : forall c st ids slot,
  In slot (listed_slots st) -> get ids slot <> "" -> In (get ids slot) (keys_of (build_cache c st ids)).
Proof.
  intros c st ids slot Hin Hne. unfold listed_slots in Hin. apply in_map_iff in Hin. destruct Hin as [v [<- Hv]].
  destruct (build_from_complete c ids (list_visits st) [] v Hv Hne) as [[e [He [_ Hi]]]|[]].
  unfold keys_of. apply in_map_iff. exists e. split; assumption.
Qed.

Lemma refresh_covered : forall c st s, Covered (listed_slots st) (refresh c st s).
Proof.
  intros c st s slot Hin Hne. unfold refresh, cache_keys in *; simpl in *. apply build_cache_covers; assumption.
Qed.

Lemma build_cache_keys_sound : forall c st ids x,
  In x (keys_of (build_cache c st ids)) -> x <> "" /\ exists slot, In slot (listed_slots st) /\ get ids slot = x.
Proof.
  intros c st ids x H. unfold keys_of in H. apply in_map_iff in H. destruct H as [e [<- He]].
  apply build_from_sound in He. destruct He as [v [Hv [-> [Hne _]]]]. cbn [mk_entry e_id]. split; [assumption|].
  exists (v_slot v). split; [unfold listed_slots; apply in_map_iff; exists v; split; auto | reflexivity].
Qed.

(* ------------------------------------------------------------------------------------------------ the traversals meet the same positions *)

Lemma opt_vis_in : forall k o v, In v (opt_vis k o) <-> exists s, o = Some s /\ v = vis k s.
Proof.
  intros k [s|] v; simpl; split; intro H.
  - destruct H as [<-|[]]. eauto.
  - destruct H as [s' [E ->]]. inversion E; auto.
  - destruct H.
  - destruct H as [s' [E _]]; discriminate.
Qed.

Ltac inl := repeat first [setoid_rewrite in_app_iff | setoid_rewrite in_flat_map | setoid_rewrite in_map_iff
                         | setoid_rewrite filter_In | setoid_rewrite opt_vis_in | progress simpl In].
Ltac inlr := repeat (rewrite in_app_iff in * || rewrite in_flat_map in * || rewrite in_map_iff in * || rewrite filter_In in * || simpl In in *).
Ltac brk := repeat match goal with
  | H : _ \/ _ |- _ => destruct H
  | H : exists _, _ |- _ => destruct H
  | H : _ /\ _ |- _ => destruct H
  | H : False |- _ => destruct H
  end.

Lemma in_if_list : forall (A : Type) (b : bool) (l : list A) x, In x (if b then l else []) <-> b = true /\ In x l.
Proof. intros A [|] l x; simpl; split; intro H; try tauto. destruct H; discriminate. Qed.

Lemma in_import_slots : forall st s, In s (import_slots st) <->
  (exists k, In k (st_comps st) /\ cs_imp k = Some s) \/ (exists u, In u (st_units st) /\ us_imp u = Some s).
Proof.
  intros st s. unfold import_slots. rewrite in_app_iff, !in_flat_map. split.
  - intros [[k [Hk H]]|[u [Hu H]]]; [left; exists k | right; exists u]; split; auto.
    + destruct (cs_imp k); simpl in H; [destruct H as [->|[]]; reflexivity | destruct H].
    + destruct (us_imp u); simpl in H; [destruct H as [->|[]]; reflexivity | destruct H].
  - intros [[k [Hk H]]|[u [Hu H]]]; [left; exists k | right; exists u]; split; auto; rewrite H; left; reflexivity.
Qed.

(* the id-carrying positions of a structure, as a predicate; [selc] says which components have a component_ref *)
Definition UnitsSpec (u : units_s) (p : kind * nat) : Prop :=
  p = (KUnits, us_slot u) \/ (exists i, In i (us_items u) /\ p = (KUnit, i)).
Definition CompSpec (selc : comp_s -> bool) (k : comp_s) (p : kind * nat) : Prop :=
  p = (KComp, cs_slot k) \/ (selc k = true /\ p = (KCompRef, cs_enc k))
  \/ (exists v, In v (cs_vars k) /\ (p = (KVar, vs_slot v) \/ exists e, In e (vs_eqs v) /\ (p = (KMap, es_map e) \/ p = (KConn, es_conn e))))
  \/ (exists r, In r (cs_resets k) /\ (p = (KReset, rs_slot r) \/ p = (KTestValue, rs_tv r) \/ p = (KResetValue, rs_rv r))).
Definition PosSpec (selc : comp_s -> bool) (st : structure) (p : kind * nat) : Prop :=
  p = (KModel, st_model st) \/ p = (KEncaps, st_enc st)
  \/ (exists s, In s (import_slots st) /\ p = (KImport, s))
  \/ (exists u, In u (st_units st) /\ UnitsSpec u p)
  \/ (exists k, In k (st_comps st) /\ CompSpec selc k p).

Ltac witness :=
  first
    [ match goal with |- exists x, vpos x = (?k, ?s) /\ _ => exists (vis k s); split; [reflexivity|] end;
      inl; solve [firstorder eauto]
    | match goal with Hv : In ?v (cs_vars _), He : In ?e (vs_eqs ?v) |- exists x, vpos x = (?k, ?s) /\ _ =>
        exists (vis2 k s (vs_slot v) (es_other e)); split; [reflexivity|] end;
      inl; solve [firstorder eauto] ].

Lemma in_list_visits : forall st p, In p (map vpos (list_visits st)) <-> PosSpec (fun _ => true) st p.
Proof.
  intros st p. unfold PosSpec, UnitsSpec, CompSpec. setoid_rewrite in_import_slots.
  unfold list_visits, list_units, list_comp, list_var, list_reset.
  rewrite in_map_iff. split.
  - intros [v [<- Hv]]. repeat (progress (inlr; try rewrite opt_vis_in in *; brk; subst)); unfold vpos; simpl.
    all: solve [firstorder eauto].
  - intro H. brk; subst.
    all: witness.
Qed.

Local Opaque import_slots.
Lemma in_positions_gen : forall selc st p, In p (positions_gen selc st) <-> PosSpec selc st p.
Proof.
  intros selc st p. unfold PosSpec, UnitsSpec, CompSpec, positions_gen. split.
  - intro H. repeat (progress (inlr; brk; subst)). all: solve [firstorder eauto].
  - intro H. brk; subst; inl. all: solve [firstorder eauto].
Qed.

Ltac inlf := repeat first [setoid_rewrite in_app_iff | setoid_rewrite in_flat_map | setoid_rewrite in_map_iff
                          | setoid_rewrite filter_In | setoid_rewrite opt_vis_in | setoid_rewrite in_if_list
                          | setoid_rewrite andb_true_iff | progress simpl In].

(* the positions doSetComponentTreeTypeIds visits in one component, restricted to the selected kinds *)
Lemma in_assign_comp : forall sel k p,
  In p (map vpos (assign_comp_visits sel k)) <-> sel (fst p) = true /\ CompSpec in_hierarchy k p.
Proof.
  intros sel k p. unfold CompSpec, assign_comp_visits. rewrite in_map_iff. split.
  - intros [v [<- Hv]].
    repeat (progress (inlr; try rewrite in_if_list in *; try rewrite andb_true_iff in *; brk; subst)); unfold vpos; simpl.
    all: solve [firstorder eauto].
  - intros [Hs H]. brk; subst; simpl in Hs.
    all: first
      [ match goal with |- exists x, vpos x = (?k, ?s) /\ _ => exists (vis k s); split; [reflexivity|] end;
        inlf; solve [firstorder eauto]
      | match goal with Hv : In ?v (cs_vars _), He : In ?e (vs_eqs ?v) |- exists x, vpos x = (?k, ?s) /\ _ =>
          exists (vis2 k s (vs_slot v) (es_other e)); split; [reflexivity|] end;
        inlf; solve [firstorder eauto] ].
Qed.

Lemma in_map_flat_map : forall (A B C : Type) (g : B -> C) (f : A -> list B) l p,
  In p (map g (flat_map f l)) <-> exists x, In x l /\ In p (map g (f x)).
Proof.
  intros. rewrite in_map_iff. split.
  - intros [y [<- Hy]]. apply in_flat_map in Hy. destruct Hy as [x [Hx Hy]]. exists x; split; auto. apply in_map; assumption.
  - intros [x [Hx Hp]]. apply in_map_iff in Hp. destruct Hp as [y [<- Hy]]. exists y; split; auto. apply in_flat_map; eauto.
Qed.

Lemma in_comp_tree_visits : forall sel st p,
  In p (map vpos (flat_map (assign_comp_visits sel) (st_comps st))) <->
  sel (fst p) = true /\ exists k, In k (st_comps st) /\ CompSpec in_hierarchy k p.
Proof.
  intros. rewrite in_map_flat_map. setoid_rewrite in_assign_comp. firstorder.
Qed.

Lemma in_import_visits : forall st p, In p (map vpos (import_visits st)) <-> exists s, In s (import_slots st) /\ p = (KImport, s).
Proof.
  intros. unfold import_visits. rewrite map_map. rewrite in_map_iff. unfold vpos; simpl. firstorder.
Qed.
Lemma in_units_visits : forall st p, In p (map vpos (units_visits st)) <-> exists u, In u (st_units st) /\ p = (KUnits, us_slot u).
Proof.
  intros. unfold units_visits. rewrite map_map. rewrite in_map_iff. unfold vpos; simpl. firstorder.
Qed.
Lemma in_unit_visits : forall st p, In p (map vpos (unit_visits st)) <-> exists u, In u (st_units st) /\ exists i, In i (us_items u) /\ p = (KUnit, i).
Proof.
  intros. unfold unit_visits. rewrite in_map_flat_map. setoid_rewrite map_map. setoid_rewrite in_map_iff.
  unfold vpos; simpl. firstorder.
Qed.

Lemma in_assign_all : forall st p, In p (map vpos (assign_all_visits st)) <-> PosSpec in_hierarchy st p.
Proof.
  intros st p. unfold assign_all_visits. rewrite !map_app, !in_app_iff.
  rewrite in_import_visits, in_units_visits, in_unit_visits, in_comp_tree_visits.
  unfold PosSpec, UnitsSpec. simpl. firstorder.
Qed.

(* assignIds(type) visits exactly the positions of that kind that assignAllIds visits *)
Lemma in_assign_type : forall st k p, k <> KMath ->
  (In p (map vpos (assign_type_visits st k)) <-> fst p = k /\ PosSpec in_hierarchy st p).
Proof.
  intros st k p Hk.
  assert (Tree : forall k0, In p (map vpos (flat_map (assign_comp_visits (kind_eqb k0)) (st_comps st))) <->
                            fst p = k0 /\ exists c, In c (st_comps st) /\ CompSpec in_hierarchy c p).
  { intro k0. rewrite in_comp_tree_visits, kind_eqb_eq. intuition. }
  unfold PosSpec, UnitsSpec, CompSpec in *.
  destruct k; try congruence; unfold assign_type_visits;
    rewrite ?Tree, ?in_import_visits, ?in_units_visits, ?in_unit_visits; simpl; clear Tree.
  all: split; intro H; brk; subst; simpl in *; try discriminate; try solve [firstorder eauto].
Qed.

(* ------------------------------------------------------------------------------------------------ consequences for slots *)

Lemma PosSpec_mono : forall st p, PosSpec in_hierarchy st p -> PosSpec (fun _ => true) st p.
Proof. unfold PosSpec, CompSpec. firstorder. Qed.

Lemma pos_listed : forall st p, In p (map vpos (list_visits st)) -> In (snd p) (listed_slots st).
Proof.
  intros st p H. apply in_map_iff in H. destruct H as [v [<- Hv]]. unfold listed_slots. apply in_map_iff. exists v; auto.
Qed.

Lemma listed_pos : forall st slot, In slot (listed_slots st) -> exists k, In (k, slot) (map vpos (list_visits st)).
Proof.
  intros st slot H. apply in_map_iff in H. destruct H as [v [<- Hv]]. exists (v_kind v). apply in_map_iff. exists v; auto.
Qed.

Lemma assign_all_visits_listed : forall st v, In v (assign_all_visits st) -> In (v_slot v) (listed_slots st).
Proof.
  intros st v H. apply (pos_listed st (vpos v)). apply in_list_visits, PosSpec_mono, in_assign_all.
  apply in_map; assumption.
Qed.

Lemma assign_type_visits_listed : forall st k v, In v (assign_type_visits st k) -> In (v_slot v) (listed_slots st).
Proof.
  intros st k v H. destruct (kind_eqb k KMath) eqn:E.
  - apply kind_eqb_eq in E; subst. destruct H.
  - apply (pos_listed st (vpos v)). apply in_list_visits, PosSpec_mono.
    assert (Hk : k <> KMath) by (intro; subst; rewrite kind_eqb_refl in E; discriminate).
    apply (in_assign_type st k (vpos v) Hk). apply in_map; assumption.
Qed.

Lemma assign_type_visits_kind : forall st k v, In v (assign_type_visits st k) -> v_kind v = k.
Proof.
  intros st k v H. destruct (kind_eqb k KMath) eqn:E.
  - apply kind_eqb_eq in E; subst. destruct H.
  - assert (Hk : k <> KMath) by (intro; subst; rewrite kind_eqb_refl in E; discriminate).
    apply (in_map vpos) in H. apply (in_assign_type st k (vpos v) Hk) in H. exact (proj1 H).
Qed.

Lemma slots_in_range_listed : forall st n slot, slots_in_range st n = true -> In slot (listed_slots st) -> slot < n.
Proof.
  intros st n slot H Hin. unfold slots_in_range in H. rewrite forallb_forall in H.
  apply Nat.ltb_lt. apply H. apply in_or_app; left; exact Hin.
Qed.

Lemma pos_nodup_In : forall l p, In p (pos_nodup l) <-> In p l.
Proof.
  induction l as [|q r IH]; intro p; simpl; [tauto|].
  destruct (pos_mem q r) eqn:E.
  - rewrite IH. split; [auto|]. intros [<-|H]; [apply pos_mem_In; assumption | assumption].
  - simpl. rewrite IH. tauto.
Qed.
Lemma pos_nodup_NoDup : forall l, NoDup (pos_nodup l).
Proof.
  induction l as [|q r IH]; simpl; [constructor|].
  destruct (pos_mem q r) eqn:E; [assumption|].
  constructor; [|assumption]. rewrite pos_nodup_In. apply pos_mem_false; assumption.
Qed.

(* the annotator's listing meets exactly the positions of the independent traversal *)
Lemma listing_positions : forall st p, In p (map vpos (list_visits st)) <-> In p (positions st).
Proof.
  intros st p. unfold positions. rewrite pos_nodup_In. unfold positions_raw.
  rewrite in_list_visits, in_positions_gen. tauto.
Qed.

Lemma all_slots_cases : forall st slot, In slot (all_slots st) <-> In slot (listed_slots st) \/ In slot (math_slots st).
Proof.
  intros st slot. unfold all_slots. rewrite in_app_iff. split; intros [H|H]; auto; left.
  - apply in_map_iff in H. destruct H as [p [<- Hp]]. apply pos_listed. apply listing_positions; assumption.
  - destruct (listed_pos st slot H) as [k Hk]. apply listing_positions in Hk.
    apply in_map_iff. exists (k, slot); auto.
Qed.

(* ------------------------------------------------------------------------------------------------ update / setModel / refresh keep the ids *)

Lemma update_ids : forall c st s, s_ids (update c st s) = s_ids s.
Proof.
  intros; unfold update. destruct (negb (a_has_model (s_ann s))); [destruct (a_hash (s_ann s)); reflexivity|].
  destruct (opt_str_eqb _ _); reflexivity.
Qed.
Lemma update_err : forall c st s, a_err (s_ann (update c st s)) = a_err (s_ann s).
Proof.
  intros; unfold update. destruct (negb (a_has_model (s_ann s))); [destruct (a_hash (s_ann s)); reflexivity|].
  destruct (opt_str_eqb _ _); reflexivity.
Qed.
Lemma update_has_model : forall c st s, a_has_model (s_ann (update c st s)) = a_has_model (s_ann s).
Proof.
  intros; unfold update. destruct (negb (a_has_model (s_ann s))); [destruct (a_hash (s_ann s)); reflexivity|].
  destruct (opt_str_eqb _ _); reflexivity.
Qed.
Lemma set_model_ids : forall c st s, s_ids (set_model c st s) = s_ids s.
Proof. intros; unfold set_model. rewrite update_ids. reflexivity. Qed.
Lemma set_model_err : forall c st s, a_err (s_ann (set_model c st s)) = a_err (s_ann s).
Proof. intros; unfold set_model. rewrite update_err. reflexivity. Qed.
Lemma pre_assign_ids : forall c st s, s_ids (pre_assign c st s) = s_ids s.
Proof. intros; unfold pre_assign. destruct (fx_refresh c); reflexivity. Qed.
Lemma pre_assign_err : forall c st s, a_err (s_ann (pre_assign c st s)) = a_err (s_ann s).
Proof. intros; unfold pre_assign. destruct (fx_refresh c); reflexivity. Qed.

(* ------------------------------------------------------------------------------------------------ the generic assignment theorem *)

(* one statement for assignAllIds and assignIds(type): [s1] is the state the loops start from, [vs] the visits *)
Section AssignSeq.
  Variable st : structure.
  Variable s1 : state.
  Variable vs : list visit.
  Hypothesis Hrange : slots_in_range st (length (s_ids s1)) = true.
  Hypothesis Hvs : forall v, In v vs -> In (v_slot v) (listed_slots st).
  Let s2 := assign_visits s1 vs.

  Lemma seq_complete : forall v, In v vs -> get (s_ids s2) (v_slot v) <> "".
  Proof.
    intros v Hv. apply assign_visits_complete; [assumption|].
    apply (slots_in_range_listed st); auto.
  Qed.

  Lemma seq_preserves : forall slot, get (s_ids s1) slot <> "" -> get (s_ids s2) slot = get (s_ids s1) slot.
  Proof. intros; apply assign_visits_preserves; assumption. Qed.

  Lemma seq_only_visited : forall slot, ~ In slot (map v_slot vs) -> get (s_ids s2) slot = get (s_ids s1) slot.
  Proof. intros; apply assign_visits_untouched; assumption. Qed.

  (* freshness, given that the id list covers the ids of the model when the loops start *)
  Lemma seq_fresh : Covered (listed_slots st) s1 ->
    forall slot, get (s_ids s1) slot = "" -> get (s_ids s2) slot <> "" ->
      (forall slot', In slot' (listed_slots st) -> get (s_ids s1) slot' <> get (s_ids s2) slot) /\
      (forall slot', In slot' (listed_slots st) -> slot' <> slot -> get (s_ids s2) slot' <> get (s_ids s2) slot).
  Proof.
    intros HC slot He Hne.
    assert (Hvs' : forall v, In v vs -> In (v_slot v) (listed_slots st) /\ v_slot v < length (s_ids s1)).
    { intros v Hv. split; [auto|]. apply (slots_in_range_listed st); auto. }
    destruct (assign_visits_fresh (listed_slots st) vs s1 HC Hvs' slot He Hne) as [Hk Hd].
    split; [|exact Hd].
    intros slot' Hin Habs.
    destruct (string_dec (get (s_ids s1) slot') "") as [E|E].
    - rewrite E in Habs. fold s2 in Hne. congruence.
    - apply Hk. fold s2. rewrite <- Habs. apply HC; assumption.
  Qed.

  (* ... and w.r.t. every id of the model, MathML included, when no MathML element carries an id *)
  Lemma seq_fresh_all : Covered (listed_slots st) s1 ->
    (forall m, In m (math_slots st) -> get (s_ids s1) m = "") ->
    forall slot, get (s_ids s1) slot = "" -> get (s_ids s2) slot <> "" ->
      (forall slot', In slot' (all_slots st) -> get (s_ids s1) slot' <> get (s_ids s2) slot) /\
      (forall slot', In slot' (all_slots st) -> slot' <> slot -> get (s_ids s2) slot' <> get (s_ids s2) slot).
  Proof.
    intros HC Hmath slot He Hne. destruct (seq_fresh HC slot He Hne) as [F1 F2].
    split; intros slot' Hin.
    - apply all_slots_cases in Hin. destruct Hin as [Hin|Hin]; [apply F1; assumption|].
      rewrite (Hmath slot' Hin). fold s2 in Hne. congruence.
    - intro Hd. apply all_slots_cases in Hin. destruct Hin as [Hin|Hin]; [apply F2; assumption|].
      destruct (in_dec Nat.eq_dec slot' (listed_slots st)) as [Hl|Hl]; [apply F2; assumption|].
      rewrite seq_only_visited.
      + rewrite (Hmath slot' Hin). fold s2 in Hne. congruence.
      + intro Hv. apply Hl. apply in_map_iff in Hv. destruct Hv as [v [<- Hv]]. apply Hvs; assumption.
  Qed.
End AssignSeq.
