(** AnalysisTopoProofs.v — clause W5 of C05: the order in which check() types the equations is a topological
    order of the dependency relation among the equations that are solved directly.

    The rank is attached to the VARIABLE an equation computes (positions in mInternalVariables are stable, positions
    of equations are not: the grouping of NLA systems erases equations).  Dependencies on states (equations of type
    ODE) and on variables computed by NLA systems carry no constraint. *)
From Coq Require Import List Bool Arith PeanoNat Lia Permutation.
From LC Require Import AnalysisDefs AnalysisSpec AnalysisProofs AnalysisWfProofs AnalysisOwnProofs AnalysisConfluenceProofs AnalysisDefinerProofs AnalysisDepProofs.
Import ListNotations.
Local Open Scope bool_scope.

(* an equation that is a node of the ordering problem / that is the target of an ordering constraint *)
Definition node (e : ieq) : Prop := ie_type e <> EUnknown /\ ie_type e <> ENla.
Definition direct (e : ieq) : Prop := ie_type e <> EUnknown /\ ie_type e <> ENla /\ ie_type e <> EOde.

Definition ranked (s : system) (ivs : list ivar) (es : list ieq) (rv : nat -> nat) : Prop :=
  forall e e' d p u, In e es -> In e' es -> node e -> direct e' -> In p (ie_unknown e) -> In u (ie_unknown e') ->
    In d (ie_deps e) -> iv_cls (geti ivs u) = cls_of s d -> u <> p -> rv u < rv p.

Record topo_inv (s : system) (ivs : list ivar) (es : list ieq) (rv : nat -> nat) (T : nat) : Prop := {
  ti_known : forall e d u, In e es -> In d (ie_deps e) -> u < length ivs -> iv_cls (geti ivs u) = cls_of s d -> is_known ivs u = true;
  ti_bound : forall e u, In e es -> direct e -> In u (ie_unknown e) -> rv u < T;
  ti_rank : ranked s ivs es rv }.

Lemma remove_first_incl : forall r l, incl (remove_first r l) l.
Proof.
  intros r l. induction l as [|x t IH]; cbn; [apply incl_refl|].
  destruct (vref_eqb x r); [apply incl_tl, incl_refl|]. intros y [->|Hy]; [left; reflexivity|right; apply IH; exact Hy].
Qed.
Lemma remove_first_cls_incl : forall s k l, incl (remove_first_cls s k l) l.
Proof.
  intros s k l. induction l as [|x t IH]; cbn; [apply incl_refl|].
  destruct (v_cls (get_var s x) =? k); [apply incl_tl, incl_refl|]. intros y [->|Hy]; [left; reflexivity|right; apply IH; exact Hy].
Qed.
Lemma dep_remove_fold_incl : forall s ivs unk d, incl (fold_left (fun d p => dep_remove dependency_fix s (geti ivs p) d) unk d) d.
Proof.
  intros s ivs unk. induction unk as [|p r IH]; intro d; cbn [fold_left]; [apply incl_refl|].
  eapply incl_tran; [apply IH|]. unfold dep_remove. destruct dependency_fix; [apply remove_first_cls_incl|apply remove_first_incl].
Qed.

Lemma known_type : forall ivs q, is_known ivs q = true <-> iv_type (geti ivs q) <> VUnknown.
Proof.
  intros ivs q. unfold is_known. split.
  - intros H K. rewrite K in H. discriminate.
  - intro H. destruct (vtype_eqb (iv_type (geti ivs q)) VUnknown) eqn:E; [|reflexivity]. apply vtype_eqb_eq in E. contradiction.
Qed.

Lemma check_topo : forall s nla st e st' e' b pre post rv T,
  check s nla st e = (st', e', b) -> own_inv (cs_ivs st) (pre ++ e :: post) -> ivs_ok s (cs_ivs st) ->
  topo_inv s (cs_ivs st) (pre ++ e :: post) rv T ->
  exists rv' T', topo_inv s (cs_ivs st') (pre ++ e' :: post) rv' T'.
Proof.
  intros s nla st e st' e' b pre post rv T H Hown Hok [Tk Tb Tr].
  assert (He : eq_inv (cs_ivs st) e).
  { pose proof (oi_bounds _ _ Hown) as HB. rewrite Forall_forall in HB. apply HB. apply in_mid. auto. }
  destruct (check_inv _ _ _ _ _ _ _ H He) as (Hev & He').
  assert (Hcl : forall p, iv_cls (geti (cs_ivs st') p) = iv_cls (geti (cs_ivs st) p)) by (intro p; eapply cls_stable; exact Hev).
  destruct (etype_eqb (ie_type e) EUnknown) eqn:Et.
  2:{ unfold check in H. rewrite Et in H. cbn [negb] in H. inversion H; subst. exists rv, T. constructor; assumption. }
  apply etype_eqb_eq in Et.
  assert (Hu0 : ie_unknown e = []) by (apply (oi_untyped _ _ Hown e); [apply in_mid; auto|exact Et]).
  destruct (check_deps _ _ _ _ _ _ _ H Et He) as (_ & _ & Cu & Ct).
  set (ivs := cs_ivs st) in *. set (ivs' := cs_ivs st') in *.
  assert (Hlen : length ivs' = length ivs) by apply Hev.
  assert (Hdeps : incl (ie_deps e') (deps1 ivs e)).
  { destruct (etype_eqb (ie_type e') EUnknown) eqn:Et'.
    - apply etype_eqb_eq in Et'. rewrite (Cu Et'). apply incl_refl.
    - assert (K : ie_type e' <> EUnknown) by (intro K; rewrite K in Et'; discriminate).
      destruct (Ct K) as (-> & _). apply dep_remove_fold_incl. }
  (* the dependencies stay on known variables, provided knowledge is monotone *)
  assert (Hknown : (forall q, is_known ivs q = true -> is_known ivs' q = true) ->
            forall x d u, In x (pre ++ e' :: post) -> In d (ie_deps x) -> u < length ivs' -> iv_cls (geti ivs' u) = cls_of s d -> is_known ivs' u = true).
  { intros Hm x d u Hx Hd Hu Hc. rewrite Hlen in Hu. rewrite Hcl in Hc. apply in_mid in Hx.
    assert (Hold : forall x0, In x0 (pre ++ e :: post) -> In d (ie_deps x0) -> is_known ivs' u = true).
    { intros x0 Hx0 Hd0. apply Hm. apply (Tk x0 d u); assumption. }
    destruct Hx as [Hx|[->|Hx]]; [apply (Hold x); [apply in_mid; auto|exact Hd]| |apply (Hold x); [apply in_mid; auto|exact Hd]].
    apply Hdeps in Hd. unfold deps1 in Hd. apply in_app_iff in Hd. destruct Hd as [Hd|Hd]; [apply (Hold e); [apply in_mid; auto|exact Hd]|].
    apply in_map_iff in Hd. destruct Hd as (i & <- & Hi). apply filter_In in Hi. destruct Hi as (Hi & Hki).
    destruct He as (I1 & _). rewrite Forall_forall in I1. specialize (I1 i Hi).
    destruct (ivs_ok_geti _ _ _ Hok I1) as (_ & K & _). rewrite K in Hc.
    rewrite (cls_inj s ivs u i Hok Hu I1 Hc). apply Hm. exact Hki. }
  destruct (check_cases _ _ _ _ _ _ _ H Et He) as [(A1 & A2 & A3 & A4)|[(p & A)|(inits & A)]]; fold ivs in *; fold ivs' in *.
  - (* nothing typed *)
    exists rv, T. assert (Hm : forall q, is_known ivs q = true -> is_known ivs' q = true).
    { intros q Hq. apply known_type in Hq. apply known_type. destruct A4 as (_ & A4). destruct (A4 q) as (_ & [K|[(K1 & K2)|K]]); rewrite K || rewrite K2; try assumption; discriminate. }
    constructor.
    + apply Hknown. exact Hm.
    + intros x u Hx Hdx Hux. apply in_mid in Hx. destruct Hx as [Hx|[->|Hx]]; [| destruct Hdx as (K & _); contradiction |]; apply (Tb x u); try assumption; apply in_mid; auto.
    + intros x x' d p0 u Hx Hx' Nx Dx' Hp Hu Hd Hc Hne. rewrite Hcl in Hc. apply in_mid in Hx, Hx'.
      assert (x <> e') by (intros ->; destruct Nx as (K & _); contradiction).
      assert (x' <> e') by (intros ->; destruct Dx' as (K & _); contradiction).
      apply (Tr x x' d p0 u); try assumption; apply in_mid; tauto.
  - (* one variable typed *)
    destruct A as (A1 & A2 & A3 & A4 & A5 & A6 & A7 & A8 & A9 & A10 & A11). rewrite Hu0 in A2. cbn [app] in A2.
    assert (Hm : forall q, is_known ivs q = true -> is_known ivs' q = true).
    { intros q Hq. apply known_type in Hq. apply known_type. destruct (Nat.eq_dec q p) as [->|Hqp]; [|rewrite (A6 q Hqp); exact Hq].
      destruct A9 as [(K & _)|(_ & K)]; [contradiction|rewrite K; exact Hq]. }
    (* nobody else computes p *)
    assert (Hfree : forall x, In x pre \/ In x post -> ~ In p (ie_unknown x)).
    { intros x Hx Hpx.
      assert (Ho : owners (pre ++ e :: post) p = []).
      { destruct (oi_own _ _ Hown p A1) as (O1 & _ & _). apply O1.
        destruct A8 as [(_ & K)|(K1 & K2)]; [left; rewrite K; reflexivity|].
        pose proof (oi_odes _ _ Hown e p (proj2 (in_mid e pre e post) (or_intror (or_introl eq_refl))) K1) as Ko.
        destruct (iv_type (geti ivs p)) eqn:Ty; cbn in Ko; try discriminate; try (left; reflexivity); [right; split; [reflexivity|exact K2]|].
        exfalso. destruct A9 as [(K & _)|(_ & K)]; [discriminate|]. rewrite K in A10. destruct A10 as [K'|[K'|K']]; discriminate. }
      assert (Hin : In x (owners (pre ++ e :: post) p)).
      { unfold owners. apply filter_In. split; [apply in_mid; tauto|apply mem_nat_In; exact Hpx]. }
      rewrite Ho in Hin. destruct Hin. }
    exists (fun x => if x =? p then T else rv x), (S T).
    assert (Hrv : forall x u, In x pre \/ In x post -> In u (ie_unknown x) -> (if u =? p then T else rv u) = rv u).
    { intros x u Hx Hu. destruct (Nat.eqb_spec u p) as [->|_]; [exfalso; apply (Hfree x Hx Hu)|reflexivity]. }
    constructor.
    + apply Hknown. exact Hm.
    + intros x u Hx Hdx Hux. apply in_mid in Hx. destruct Hx as [Hx|[->|Hx]].
      * rewrite (Hrv x u (or_introl Hx) Hux). apply Nat.lt_lt_succ_r. apply (Tb x u); try assumption; apply in_mid; auto.
      * rewrite A2 in Hux. destruct Hux as [<-|[]]. rewrite Nat.eqb_refl. lia.
      * rewrite (Hrv x u (or_intror Hx) Hux). apply Nat.lt_lt_succ_r. apply (Tb x u); try assumption; apply in_mid; auto.
    + intros x x' d p0 u Hx Hx' Nx Dx' Hp Hu Hd Hc Hne. rewrite Hcl in Hc. apply in_mid in Hx, Hx'.
      assert (Hx'e : x' = e' -> False).
      { intros ->. rewrite A2 in Hu. destruct Hu as [<-|[]].
        (* p was unknown, so nothing depended on it *)
        assert (Hpu : iv_type (geti ivs p) = VUnknown).
        { destruct A9 as [(K & _)|(K1 & K2)]; [exact K|]. exfalso.
          destruct Dx' as (D1 & D2 & D3).
          destruct A11 as [K|K].
          - rewrite K2 in K. destruct A8 as [(_ & K')|(K' & _)]; [contradiction|].
            pose proof (oi_odes _ _ Hown e p (proj2 (in_mid e pre e post) (or_intror (or_introl eq_refl))) K') as Ko. rewrite K in Ko. discriminate.
          - rewrite K2 in K.
            assert (Kc : comp_type (iv_type (geti ivs p)) = true).
            { destruct (iv_type (geti ivs p)), (ie_type e'); cbn in K; try discriminate; try reflexivity; contradiction. }
            destruct (oi_own _ _ Hown p A1) as (_ & O2 & _). destruct (O2 (or_introl Kc)) as (e0 & O & _).
            assert (Hin : In e0 (owners (pre ++ e :: post) p)) by (rewrite O; left; reflexivity).
            unfold owners in Hin. apply filter_In in Hin. destruct Hin as (Hin & Hmem). apply mem_nat_In in Hmem. apply in_mid in Hin.
            destruct Hin as [Hin|[->|Hin]]; [apply (Hfree e0 (or_introl Hin) Hmem)|rewrite Hu0 in Hmem; destruct Hmem|apply (Hfree e0 (or_intror Hin) Hmem)]. }
        assert (Hxin : In x pre \/ In x post).
        { destruct Hx as [Hx|[->|Hx]]; [tauto| |tauto]. exfalso. rewrite A2 in Hp. destruct Hp as [<-|[]]. apply Hne. reflexivity. }
        assert (Kk : is_known ivs p = true) by (apply (Tk x d p); [apply in_mid; tauto|exact Hd|exact A1|exact Hc]).
        apply known_type in Kk. contradiction. }
      assert (Hx'in : In x' pre \/ In x' post) by (destruct Hx' as [K|[K|K]]; [tauto|contradiction|tauto]).
      rewrite (Hrv x' u Hx'in Hu).
      destruct Hx as [Hx|[->|Hx]].
      * rewrite (Hrv x p0 (or_introl Hx) Hp). apply (Tr x x' d p0 u); try assumption; apply in_mid; tauto.
      * rewrite A2 in Hp. destruct Hp as [<-|[]]. rewrite Nat.eqb_refl. apply (Tb x' u); try assumption; apply in_mid; tauto.
      * rewrite (Hrv x p0 (or_intror Hx) Hp). apply (Tr x x' d p0 u); try assumption; apply in_mid; tauto.
  - (* initialised variables become the unknowns of an NLA equation *)
    destruct A as (A1 & A2 & A3 & A4 & A5 & A6 & A7).
    exists rv, T. assert (Hm : forall q, is_known ivs q = true -> is_known ivs' q = true).
    { intros q Hq. apply known_type in Hq. apply known_type. destruct (in_dec Nat.eq_dec q inits) as [Hi|Hi].
      - destruct (A6 q Hi) as (_ & _ & K & _). rewrite K. discriminate.
      - destruct (A7 q Hi) as (K & _). rewrite K. exact Hq. }
    constructor.
    + apply Hknown. exact Hm.
    + intros x u Hx Hdx Hux. apply in_mid in Hx. destruct Hx as [Hx|[->|Hx]]; [| destruct Hdx as (_ & K & _); contradiction |]; apply (Tb x u); try assumption; apply in_mid; auto.
    + intros x x' d p0 u Hx Hx' Nx Dx' Hp Hu Hd Hc Hne. rewrite Hcl in Hc. apply in_mid in Hx, Hx'.
      assert (x <> e') by (intros ->; destruct Nx as (_ & K); contradiction).
      assert (x' <> e') by (intros ->; destruct Dx' as (_ & K & _); contradiction).
      apply (Tr x x' d p0 u); try assumption; apply in_mid; tauto.
Qed.
