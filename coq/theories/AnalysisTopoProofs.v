(** AnalysisTopoProofs.v — clause W5 of C05: the order in which check() types the equations is a topological
    order of the dependency relation among the equations that are solved directly.

    The rank is attached to the VARIABLE an equation computes (positions in mInternalVariables are stable, positions
    of equations are not: the grouping of NLA systems erases equations).  Dependencies on states (equations of type
    ODE) and on variables computed by NLA systems carry no constraint. *)
From Coq Require Import List Bool Arith PeanoNat Lia Permutation.
From LC Require Import AnalysisDefs AnalysisSpec AnalysisProofs AnalysisWfProofs AnalysisOwnProofs AnalysisConfluenceProofs AnalysisDefinerProofs AnalysisDepProofs.
Import ListNotations.
Local Open Scope bool_scope.

(* an equation that is a node of the ordering problem / that is the target of an ordering constraint *)
Definition node (e : ieq) : Prop := ie_type e <> EUnknown /\ ie_type e <> ENla.
Definition direct (e : ieq) : Prop := ie_type e <> EUnknown /\ ie_type e <> ENla /\ ie_type e <> EOde.

Definition ranked (s : system) (ivs : list ivar) (es : list ieq) (rv : nat -> nat) : Prop :=
  forall e e' d p u, In e es -> In e' es -> node e -> direct e' -> In p (ie_unknown e) -> In u (ie_unknown e') ->
    In d (ie_deps e) -> iv_cls (geti ivs u) = cls_of s d -> u <> p -> rv u < rv p.

Record topo_inv (s : system) (ivs : list ivar) (es : list ieq) (rv : nat -> nat) (T : nat) : Prop := {
  ti_known : forall e d u, In e es -> In d (ie_deps e) -> u < length ivs -> iv_cls (geti ivs u) = cls_of s d -> is_known ivs u = true;
  ti_bound : forall e u, In e es -> direct e -> In u (ie_unknown e) -> rv u < T;
  ti_rank : ranked s ivs es rv }.

Lemma remove_first_incl : forall r l, incl (remove_first r l) l.
Proof.
  intros r l. induction l as [|x t IH]; cbn; [apply incl_refl|].
  destruct (vref_eqb x r); [apply incl_tl, incl_refl|]. intros y [->|Hy]; [left; reflexivity|right; apply IH; exact Hy].
Qed.
Lemma remove_first_cls_incl : forall s k l, incl (remove_first_cls s k l) l.
Proof.
  intros s k l. induction l as [|x t IH]; cbn; [apply incl_refl|].
  destruct (v_cls (get_var s x) =? k); [apply incl_tl, incl_refl|]. intros y [->|Hy]; [left; reflexivity|right; apply IH; exact Hy].
Qed.
Lemma dep_remove_fold_incl : forall s ivs unk d, incl (fold_left (fun d p => dep_remove dependency_fix s (geti ivs p) d) unk d) d.
Proof.
  intros s ivs unk. induction unk as [|p r IH]; intro d; cbn [fold_left]; [apply incl_refl|].
  eapply incl_tran; [apply IH|]. unfold dep_remove. destruct dependency_fix; [apply remove_first_cls_incl|apply remove_first_incl].
Qed.

Lemma known_type : forall ivs q, is_known ivs q = true <-> iv_type (geti ivs q) <> VUnknown.
Proof.
  intros ivs q. unfold is_known. split.
  - intros H K. rewrite K in H. discriminate.
  - intro H. destruct (vtype_eqb (iv_type (geti ivs q)) VUnknown) eqn:E; [|reflexivity]. apply vtype_eqb_eq in E. contradiction.
Qed.

Lemma check_topo : forall s nla st e st' e' b pre post rv T,
  check s nla st e = (st', e', b) -> own_inv (cs_ivs st) (pre ++ e :: post) -> ivs_ok s (cs_ivs st) ->
  topo_inv s (cs_ivs st) (pre ++ e :: post) rv T ->
  exists rv' T', topo_inv s (cs_ivs st') (pre ++ e' :: post) rv' T'.
Proof.
  intros s nla st e st' e' b pre post rv T H Hown Hok [Tk Tb Tr].
  assert (He : eq_inv (cs_ivs st) e).
  { pose proof (oi_bounds _ _ Hown) as HB. rewrite Forall_forall in HB. apply HB. apply in_mid. auto. }
  destruct (check_inv _ _ _ _ _ _ _ H He) as (Hev & He').
  assert (Hcl : forall p, iv_cls (geti (cs_ivs st') p) = iv_cls (geti (cs_ivs st) p)) by (intro p; eapply cls_stable; exact Hev).
  destruct (etype_eqb (ie_type e) EUnknown) eqn:Et.
  2:{ unfold check in H. rewrite Et in H. cbn [negb] in H. inversion H; subst. exists rv, T. constructor; assumption. }
  apply etype_eqb_eq in Et.
  assert (Hu0 : ie_unknown e = []) by (apply (oi_untyped _ _ Hown e); [apply in_mid; auto|exact Et]).
  destruct (check_deps _ _ _ _ _ _ _ H Et He) as (_ & _ & Cu & Ct).
  pose proof (check_cases _ _ _ _ _ _ _ H Et He) as HC. cbv zeta in HC.
  set (ivs := cs_ivs st) in *. set (ivs' := cs_ivs st') in *.
  assert (Hlen : length ivs' = length ivs) by apply Hev.
  assert (Hdeps : incl (ie_deps e') (deps1 ivs e)).
  { destruct (etype_eqb (ie_type e') EUnknown) eqn:Et'.
    - apply etype_eqb_eq in Et'. rewrite (Cu Et'). apply incl_refl.
    - assert (K : ie_type e' <> EUnknown) by (intro K; rewrite K in Et'; discriminate).
      destruct (Ct K) as (-> & _). apply dep_remove_fold_incl. }
  (* the dependencies stay on known variables, provided knowledge is monotone *)
  assert (Hknown : (forall q, is_known ivs q = true -> is_known ivs' q = true) ->
            forall x d u, In x (pre ++ e' :: post) -> In d (ie_deps x) -> u < length ivs' -> iv_cls (geti ivs' u) = cls_of s d -> is_known ivs' u = true).
  { intros Hm x d u Hx Hd Hu Hc. rewrite Hlen in Hu. rewrite Hcl in Hc. apply in_mid in Hx.
    assert (Hold : forall x0, In x0 (pre ++ e :: post) -> In d (ie_deps x0) -> is_known ivs' u = true).
    { intros x0 Hx0 Hd0. apply Hm. apply (Tk x0 d u); assumption. }
    destruct Hx as [Hx|[->|Hx]]; [apply (Hold x); [apply in_mid; auto|exact Hd]| |apply (Hold x); [apply in_mid; auto|exact Hd]].
    apply Hdeps in Hd. unfold deps1 in Hd. apply in_app_iff in Hd. destruct Hd as [Hd|Hd]; [apply (Hold e); [apply in_mid; auto|exact Hd]|].
    apply in_map_iff in Hd. destruct Hd as (i & <- & Hi). apply filter_In in Hi. destruct Hi as (Hi & Hki).
    destruct He as (I1 & _). rewrite Forall_forall in I1. specialize (I1 i Hi).
    destruct (ivs_ok_geti _ _ _ Hok I1) as (_ & K & _). rewrite K in Hc.
    rewrite (cls_inj s ivs u i Hok Hu I1 Hc). apply Hm. exact Hki. }
  destruct HC as [(A1 & A2 & A3 & A4)|[(p & A)|(inits & A)]].
  - (* nothing typed *)
    exists rv, T. assert (Hm : forall q, is_known ivs q = true -> is_known ivs' q = true).
    { intros q Hq. apply known_type in Hq. apply known_type. destruct A4 as (_ & A4). destruct (A4 q) as (_ & [K|[(K1 & K2)|K]]); rewrite K || rewrite K2; try assumption; discriminate. }
    constructor.
    + apply Hknown. exact Hm.
    + intros x u Hx Hdx Hux. apply in_mid in Hx. destruct Hx as [Hx|[->|Hx]]; [| destruct Hdx as (K & _); contradiction |]; apply (Tb x u); try assumption; apply in_mid; auto.
    + intros x x' d p0 u Hx Hx' Nx Dx' Hp Hu Hd Hc Hne. rewrite Hcl in Hc. apply in_mid in Hx, Hx'.
      assert (x <> e') by (intros ->; destruct Nx as (K & _); contradiction).
      assert (x' <> e') by (intros ->; destruct Dx' as (K & _); contradiction).
      apply (Tr x x' d p0 u); try assumption; apply in_mid; tauto.
  - (* one variable typed *)
    destruct A as (A1 & A2 & A3 & A4 & A5 & A6 & A7 & A8 & A9 & A10 & A11). rewrite Hu0 in A2. cbn [app] in A2.
    assert (Hm : forall q, is_known ivs q = true -> is_known ivs' q = true).
    { intros q Hq. apply known_type in Hq. apply known_type. destruct (Nat.eq_dec q p) as [->|Hqp]; [|rewrite (A6 q Hqp); exact Hq].
      destruct A9 as [(K & _)|(_ & K)]; [contradiction|rewrite K; exact Hq]. }
    (* nobody else computes p *)
    assert (Hfree : forall x, In x pre \/ In x post -> ~ In p (ie_unknown x)).
    { intros x Hx Hpx.
      assert (Ho : owners (pre ++ e :: post) p = []).
      { destruct (oi_own _ _ Hown p A1) as (O1 & _ & _). apply O1.
        destruct A8 as [(_ & K)|(K1 & K2)]; [left; rewrite K; reflexivity|].
        pose proof (oi_odes _ _ Hown e p (proj2 (in_mid e pre e post) (or_intror (or_introl eq_refl))) K1) as Ko.
        destruct (iv_type (geti ivs p)) eqn:Ty; cbn in Ko; try discriminate; try (left; reflexivity); [right; split; [reflexivity|exact K2]|].
        exfalso. destruct A9 as [(K & _)|(_ & K)]; [discriminate|]. rewrite K in A10. destruct A10 as [K'|[K'|K']]; discriminate. }
      assert (Hin : In x (owners (pre ++ e :: post) p)).
      { unfold owners. apply filter_In. split; [apply in_mid; tauto|apply mem_nat_In; exact Hpx]. }
      rewrite Ho in Hin. destruct Hin. }
    exists (fun x => if x =? p then T else rv x), (S T).
    assert (Hrv : forall x u, In x pre \/ In x post -> In u (ie_unknown x) -> (if u =? p then T else rv u) = rv u).
    { intros x u Hx Hu. destruct (Nat.eqb_spec u p) as [->|_]; [exfalso; apply (Hfree x Hx Hu)|reflexivity]. }
    constructor.
    + apply Hknown. exact Hm.
    + intros x u Hx Hdx Hux. apply in_mid in Hx. destruct Hx as [Hx|[->|Hx]].
      * rewrite (Hrv x u (or_introl Hx) Hux). apply Nat.lt_lt_succ_r. apply (Tb x u); try assumption; apply in_mid; auto.
      * rewrite A2 in Hux. destruct Hux as [<-|[]]. rewrite Nat.eqb_refl. lia.
      * rewrite (Hrv x u (or_intror Hx) Hux). apply Nat.lt_lt_succ_r. apply (Tb x u); try assumption; apply in_mid; auto.
    + intros x x' d p0 u Hx Hx' Nx Dx' Hp Hu Hd Hc Hne. rewrite Hcl in Hc. apply in_mid in Hx, Hx'.
      assert (Hx'e : x' = e' -> False).
      { intros ->. rewrite A2 in Hu. destruct Hu as [<-|[]].
        (* p was unknown, so nothing depended on it *)
        assert (Hpu : iv_type (geti ivs p) = VUnknown).
        { destruct A9 as [(K & _)|(K1 & K2)]; [exact K|]. exfalso.
          destruct Dx' as (D1 & D2 & D3).
          destruct A11 as [K|K].
          - rewrite K2 in K. destruct A8 as [(_ & K')|(K' & _)]; [contradiction|].
            pose proof (oi_odes _ _ Hown e p (proj2 (in_mid e pre e post) (or_intror (or_introl eq_refl))) K') as Ko. rewrite K in Ko. discriminate.
          - rewrite K2 in K.
            assert (Kc : comp_type (iv_type (geti ivs p)) = true).
            { destruct (iv_type (geti ivs p)), (ie_type e'); cbn in K; try discriminate; try reflexivity; contradiction. }
            destruct (oi_own _ _ Hown p A1) as (_ & O2 & _). destruct (O2 (or_introl Kc)) as (e0 & O & _).
            assert (Hin : In e0 (owners (pre ++ e :: post) p)) by (rewrite O; left; reflexivity).
            unfold owners in Hin. apply filter_In in Hin. destruct Hin as (Hin & Hmem). apply mem_nat_In in Hmem. apply in_mid in Hin.
            destruct Hin as [Hin|[->|Hin]]; [apply (Hfree e0 (or_introl Hin) Hmem)|rewrite Hu0 in Hmem; destruct Hmem|apply (Hfree e0 (or_intror Hin) Hmem)]. }
        assert (Hxin : In x pre \/ In x post).
        { destruct Hx as [Hx|[->|Hx]]; [tauto| |tauto]. exfalso. rewrite A2 in Hp. destruct Hp as [<-|[]]. apply Hne. reflexivity. }
        assert (Kk : is_known ivs p = true) by (apply (Tk x d p); [apply in_mid; tauto|exact Hd|exact A1|exact Hc]).
        apply known_type in Kk. contradiction. }
      assert (Hx'in : In x' pre \/ In x' post) by (destruct Hx' as [K|[K|K]]; [tauto|contradiction|tauto]).
      rewrite (Hrv x' u Hx'in Hu).
      destruct Hx as [Hx|[->|Hx]].
      * rewrite (Hrv x p0 (or_introl Hx) Hp). apply (Tr x x' d p0 u); try assumption; apply in_mid; tauto.
      * rewrite A2 in Hp. destruct Hp as [<-|[]]. rewrite Nat.eqb_refl. apply (Tb x' u); try assumption; apply in_mid; tauto.
      * rewrite (Hrv x p0 (or_intror Hx) Hp). apply (Tr x x' d p0 u); try assumption; apply in_mid; tauto.
  - (* initialised variables become the unknowns of an NLA equation *)
    destruct A as (A1 & A2 & A3 & A4 & A5 & A6 & A7).
    exists rv, T. assert (Hm : forall q, is_known ivs q = true -> is_known ivs' q = true).
    { intros q Hq. apply known_type in Hq. apply known_type. destruct (in_dec Nat.eq_dec q inits) as [Hi|Hi].
      - destruct (A6 q Hi) as (_ & _ & K & _). rewrite K. discriminate.
      - destruct (A7 q Hi) as (K & _). rewrite K. exact Hq. }
    constructor.
    + apply Hknown. exact Hm.
    + intros x u Hx Hdx Hux. apply in_mid in Hx. destruct Hx as [Hx|[->|Hx]]; [| destruct Hdx as (_ & K & _); contradiction |]; apply (Tb x u); try assumption; apply in_mid; auto.
    + intros x x' d p0 u Hx Hx' Nx Dx' Hp Hu Hd Hc Hne. rewrite Hcl in Hc. apply in_mid in Hx, Hx'.
      assert (x <> e') by (intros ->; destruct Nx as (_ & K); contradiction).
      assert (x' <> e') by (intros ->; destruct Dx' as (_ & K & _); contradiction).
      apply (Tr x x' d p0 u); try assumption; apply in_mid; tauto.
Qed.

Lemma sweep_topo : forall s nla es pre st st' es' b,
  sweep s nla st es = (st', es', b) -> own_inv (cs_ivs st) (pre ++ es) -> ivs_ok s (cs_ivs st) ->
  (exists rv T, topo_inv s (cs_ivs st) (pre ++ es) rv T) ->
  exists rv' T', topo_inv s (cs_ivs st') (pre ++ es') rv' T'.
Proof.
  intros s nla es. induction es as [|e r IH]; intros pre st st' es' b H Hown Hok Hti; cbn in H.
  - inversion H; subst. exact Hti.
  - destruct (check s nla st e) as [[st1 e1] b1] eqn:Hc.
    destruct (sweep s nla st1 r) as [[st2 r1] b2] eqn:Hs.
    inversion H; subst. clear H. destruct Hti as (rv & T & Hti).
    pose proof (check_own _ _ _ _ _ _ _ pre r Hc Hown) as H1.
    pose proof (check_topo _ _ _ _ _ _ _ pre r rv T Hc Hown Hok Hti) as T1.
    assert (He : eq_inv (cs_ivs st) e).
    { pose proof (oi_bounds _ _ Hown) as HB. rewrite Forall_forall in HB. apply HB. apply in_mid. auto. }
    destruct (check_inv _ _ _ _ _ _ _ Hc He) as (Hev & _).
    pose proof (evolves_ivs_ok _ _ _ Hok Hev) as Hok1.
    change (pre ++ e1 :: r) with (pre ++ [e1] ++ r) in H1, T1. rewrite app_assoc in H1, T1.
    pose proof (IH _ _ _ _ _ Hs H1 Hok1 T1) as H2. rewrite <- app_assoc in H2. exact H2.
Qed.

Lemma loop_topo : forall s fuel loopn nla st es st' es',
  loop s fuel loopn nla st es = Some (st', es') ->
  Forall (fun v => iv_external v = false) (cs_ivs st) -> own_inv (cs_ivs st) es -> ivs_ok s (cs_ivs st) ->
  (exists rv T, topo_inv s (cs_ivs st) es rv T) ->
  exists rv' T', topo_inv s (cs_ivs st') es' rv' T'.
Proof.
  intros s fuel. induction fuel as [|f IH]; intros loopn nla st es st' es' H Hne Hown Hok Hti; [discriminate|].
  cbn [loop] in H. destruct (sweep s nla st es) as [[st1 es1] rel] eqn:Hs.
  pose proof (sweep_own _ _ _ [] _ _ _ _ Hs Hown) as H1. cbn [app] in H1.
  pose proof (sweep_topo _ _ _ [] _ _ _ _ Hs Hown Hok Hti) as T1. cbn [app] in T1.
  destruct (sweep_inv _ _ _ _ _ _ _ Hs (oi_bounds _ _ Hown)) as (Hev & _).
  pose proof (noext_evolves _ _ _ Hev Hne) as Hne1.
  pose proof (evolves_ivs_ok _ _ _ Hok Hev) as Hok1.
  destruct rel; [eapply IH; eassumption|].
  destruct ((loopn =? 1) || (loopn =? 3)); [eapply IH; eassumption|].
  assert (Hmark : map (fun v => if iv_external v && vtype_eqb (iv_type v) VUnknown then set_type v VInitialised else v) (cs_ivs st1) = cs_ivs st1).
  { clear - Hne1. induction (cs_ivs st1) as [|v r IHr]; cbn; [reflexivity|]. inversion Hne1; subst.
    rewrite H1. cbn. rewrite IHr by assumption. reflexivity. }
  destruct (loopn =? 2).
  - rewrite Hmark in H. destruct (existsb iv_external (cs_ivs st1)).
    + eapply IH; [exact H| | | |]; cbn [cs_ivs]; assumption.
    + inversion H; subst. cbn [cs_ivs]. exact T1.
  - inversion H; subst. exact T1.
Qed.

Lemma ranked_same2 : forall s ivs ivs2 es es2 rv,
  evolves s ivs ivs2 -> (forall e2, In e2 es2 -> exists e, In e es /\ same2 e e2) ->
  ranked s ivs es rv -> ranked s ivs2 es2 rv.
Proof.
  intros s ivs ivs2 es es2 rv Hev Hpull Hr x x' d p u Hx Hx' Nx Dx' Hp Hu Hd Hc Hne.
  destruct (Hpull x Hx) as (y & Hy & (S1 & S2 & S3 & S4 & S5) & S6 & S7).
  destruct (Hpull x' Hx') as (y' & Hy' & (R1 & R2 & R3 & R4 & R5) & R6 & R7).
  rewrite (cls_stable _ _ _ u Hev) in Hc.
  apply (Hr y y' d p u); try assumption.
  - destruct Nx as (N1 & N2). split; tauto.
  - destruct Dx' as (N1 & N2 & N3). repeat split; tauto.
  - rewrite <- S3. exact Hp.
  - rewrite <- R3. exact Hu.
  - rewrite <- S2. exact Hd.
Qed.

(* ------------------------------------------------------------------ a ranking empties the peeling *)

Lemma filter_length_le' : forall {A} (f : A -> bool) l, length (filter f l) <= length l.
Proof. intros A f l. induction l as [|x r IH]; cbn; [lia|]. destruct (f x); cbn; lia. Qed.

Lemma filter_length_lt' : forall {A} (f : A -> bool) l x, In x l -> f x = false -> length (filter f l) < length l.
Proof.
  intros A f l x. induction l as [|y r IH]; intros Hin Hf; [destruct Hin|]. cbn.
  destruct Hin as [->|Hin].
  - rewrite Hf. pose proof (filter_length_le' f r). lia.
  - specialize (IH Hin Hf). destruct (f y); cbn; lia.
Qed.

Lemma min_elem : forall {A} (m : A -> nat) l, l <> [] -> exists e, In e l /\ forall e', In e' l -> m e <= m e'.
Proof.
  intros A m l. induction l as [|x r IH]; intro Hne; [contradiction|].
  destruct r as [|y r'].
  - exists x. split; [left; reflexivity|]. intros e' [<-|[]]. lia.
  - destruct IH as (e & He & Hmin); [discriminate|].
    destruct (Nat.le_gt_cases (m x) (m e)) as [Hle|Hgt].
    + exists x. split; [left; reflexivity|]. intros e' [<-|He']; [lia|]. specialize (Hmin e' He'). lia.
    + exists e. split; [right; exact He|]. intros e' [<-|He']; [lia|]. apply Hmin. exact He'.
Qed.

Lemma peel_ranked : forall wn r (rk : nat -> nat) nodes,
  (forall e p, In e nodes -> In p (order_edges wn r e) -> In p (map ae_pos nodes) -> rk p < rk (ae_pos e)) ->
  forall fuel rem, incl rem nodes -> length rem <= fuel -> peel (S fuel) wn r rem = [].
Proof.
  intros wn r rk nodes Hrk. induction fuel as [|f IH]; intros rem Hin Hlen.
  - destruct rem; [reflexivity|cbn in Hlen; lia].
  - destruct rem as [|a rem']; [reflexivity|].
    set (rem := a :: rem') in *. cbn [peel].
    set (next := filter (fun e => existsb (fun p => mem_nat p (map ae_pos rem)) (order_edges wn r e)) rem).
    destruct (min_elem (fun e => rk (ae_pos e)) rem) as (e & He & Hmin); [discriminate|].
    assert (Hfe : existsb (fun p => mem_nat p (map ae_pos rem)) (order_edges wn r e) = false).
    { destruct (existsb _ (order_edges wn r e)) eqn:E; [|reflexivity]. exfalso.
      apply existsb_exists in E. destruct E as (p & Hp & Hm). apply mem_nat_In in Hm.
      apply in_map_iff in Hm. destruct Hm as (e' & <- & He').
      assert (K : rk (ae_pos e') < rk (ae_pos e)).
      { apply Hrk; [apply Hin; exact He|exact Hp|apply in_map; apply Hin; exact He']. }
      specialize (Hmin e' He'). cbv beta in Hmin. lia. }
    pose proof (filter_length_lt' (fun e => existsb (fun p => mem_nat p (map ae_pos rem)) (order_edges wn r e)) rem e He Hfe) as Hlt. fold next in Hlt.
    destruct (Nat.eqb_spec (length next) (length rem)) as [E|_]; [lia|].
    apply IH.
    + intros x Hx. apply Hin. unfold next in Hx. apply filter_In in Hx. apply Hx.
    + lia.
Qed.

(* ------------------------------------------------------------------ the packaging *)

Lemma package_topo : forall s ty voi ivs es rv,
  eqs_fin ivs es -> single es -> Forall (fun v => iv_external v = false) ivs -> ivs_ok s ivs -> dependency_fix = true ->
  Forall (dep_ok s ivs) es -> ranked s ivs es rv ->
  wf_topological false (package s ty voi ivs es) = true.
Proof.
  intros s ty voi ivs es rv Hfe Hsingle Hne Hok Hfx Hdep Hrank.
  assert (Fe : forall c, In c (map core es) -> fst c <> EUnknown /\ snd c <> [] /\
                 forall p, In p (snd c) -> p < length ivs /\ computed_type (iv_type (geti ivs p)) = true).
  { intros c Hc. apply in_map_iff in Hc. destruct Hc as (e & <- & He). exact (Hfe e He). }
  unfold package.
  set (consts := filter (fun p => vtype_eqb (iv_type (geti ivs p)) VConstant) (seq 0 (length ivs))).
  set (dum := map (new_var_eq ivs) consts).
  set (es3 := es ++ dum).
  set (avs := make_avars es3 ivs 0 0 0).
  set (F := make_aeq s ivs es3 avs).
  set (aeqs := filter_map F (seq 0 (length es3))).
  set (pop := map ae_pos aeqs).
  set (r := mkResult ty [] voi _ _ _ _).
  assert (Hreqs : r_eqs r = map (clean_deps pop) aeqs) by reflexivity.
  assert (Hat : forall q, q < length ivs -> forall t, atype_of (geti ivs q) = Some t -> t <> AExternal /\
            exists a, lookup_avar avs q = Some a /\ av_type a = t /\ av_var a = iv_var (geti ivs q) /\ av_eqs a = eqs_of es3 q).
  { intros q Hq t Ht. split.
    - unfold atype_of in Ht. rewrite (noext_geti _ q Hne) in Ht. destruct (iv_type (geti ivs q)); inversion Ht; discriminate.
    - destruct (make_avars_lookup es3 ivs 0 0 0 q t) as (a & A1 & _ & A3 & A4 & A5); [lia|lia|rewrite Nat.sub_0_r; exact Ht|].
      rewrite Nat.sub_0_r in A4. exists a. auto. }
  assert (Hcomp : forall q, q < length ivs -> computed_type (iv_type (geti ivs q)) = true -> exists t, atype_of (geti ivs q) = Some t).
  { intros q Hq Hc. unfold atype_of. rewrite (noext_geti _ q Hne). destruct (iv_type (geti ivs q)); cbn in Hc; try discriminate; eauto. }
  assert (Havs : forall q a, In (q, a) avs -> q < length ivs /\ av_var a = iv_var (geti ivs q) /\ av_eqs a = eqs_of es3 q).
  { intros q a Hin. destruct (make_avars_In _ _ _ _ _ _ _ Hin) as (_ & Hq & _ & Hv & He). rewrite Nat.sub_0_r in Hv. cbn in Hq. auto. }
  assert (HF : forall j y, j < length es3 -> F j = Some y -> j < length es /\ ae_pos y = j /\
            ae_type y = qtype_of (ie_type (gete es j)) /\
            ae_deps y = dep_fold (dep_lookup dependency_fix s ivs avs) (ie_deps (gete es j)) []).
  { intros j y Hj3 Hy. destruct (Nat.lt_ge_cases j (length es)) as [Hj|Hj].
    - assert (Hg : gete es3 j = gete es j) by (unfold gete, es3; apply app_nth1; exact Hj).
      assert (Hin : In (core (gete es j)) (map core es)) by (apply in_map; apply nth_In; exact Hj).
      destruct (Fe _ Hin) as (E1 & E2 & E3). cbn [core fst snd] in E1, E2, E3.
      destruct (ie_unknown (gete es j)) as [|p rest] eqn:Eu; [contradiction|].
      destruct (E3 p (or_introl eq_refl)) as (P1 & P2). destruct (Hcomp p P1 P2) as (t & Ht).
      destruct (Hat p P1 t Ht) as (Hx & a0 & L0 & T0 & _).
      destruct (make_aeq_typed2 s ivs es3 avs j p a0 rest) as (x & X1 & X2 & X3 & X4 & X5); try (rewrite Hg; assumption); try assumption.
      { rewrite T0. exact Hx. }
      destruct (make_aeq_typed s ivs es3 avs j p a0 rest) as (x' & X1' & _ & _ & _ & X5'); try (rewrite Hg; assumption); try assumption.
      { rewrite T0. exact Hx. }
      rewrite X1 in X1'. inversion X1'; subst x'.
      unfold F in Hy. rewrite X1 in Hy. inversion Hy; subst y. rewrite Hg in *. auto.
    - exfalso.
      unfold es3 in Hj3. rewrite app_length in Hj3.
      assert (Hg : gete es3 j = nth (j - length es) dum dieq) by (unfold gete, es3; apply app_nth2; lia).
      assert (Hin : In (nth (j - length es) dum dieq) dum) by (apply nth_In; lia).
      unfold dum in Hin. apply in_map_iff in Hin. destruct Hin as (c & Hc1 & Hc2).
      unfold consts in Hc2. apply filter_In in Hc2. destruct Hc2 as (Hc2 & Hc3). apply in_seq in Hc2. apply vtype_eqb_eq in Hc3.
      assert (Ht : atype_of (geti ivs c) = Some AConstant) by (unfold atype_of; rewrite (noext_geti _ c Hne), Hc3; reflexivity).
      destruct (Hat c (proj2 Hc2) _ Ht) as (_ & a0 & L0 & T0 & _).
      assert (Hg' : gete es3 j = new_var_eq ivs c) by (rewrite Hg; unfold dum; symmetry; exact Hc1).
      unfold F in Hy. rewrite (make_aeq_dummy s ivs es3 avs j c a0) in Hy; [discriminate|rewrite Hg'; reflexivity|rewrite Hg'; reflexivity|exact L0|rewrite T0; discriminate]. }
  assert (Haeqs : forall y, In y aeqs -> exists j, j < length es3 /\ F j = Some y).
  { intros y Hy. unfold aeqs in Hy.
    assert (G : forall l, In y (filter_map F l) -> exists j, In j l /\ F j = Some y).
    { induction l as [|j l IH]; intro K; [destruct K|]. cbn [filter_map] in K.
      destruct (F j) as [y'|] eqn:Fj; [destruct K as [<-|K]; [exists j; split; [left; reflexivity|exact Fj]|]|];
        destruct (IH K) as (j' & J1 & J2); exists j'; split; [right; exact J1|exact J2|right; exact J1|exact J2]. }
    destruct (G _ Hy) as (j & J1 & J2). apply in_seq in J1. exists j. split; [lia|exact J2]. }
  assert (Hlook : forall d p, p < length ivs -> iv_cls (geti ivs p) = cls_of s d -> dep_lookup dependency_fix s ivs avs d = lookup_avar avs p).
  { intros d p Hp Hc. unfold dep_lookup. rewrite Hfx. f_equal.
    destruct (ivar_of_spec s ivs d Hok) as (I1 & I2).
    { rewrite <- Hc. apply in_map. apply geti_In. exact Hp. }
    eapply cls_inj; [exact Hok|exact I1|exact Hp|congruence]. }
  (* every equation of the result comes from a typed internal equation *)
  assert (Hres : forall x, In x (r_eqs r) -> exists j, j < length es /\ ae_pos x = j /\ ae_type x = qtype_of (ie_type (gete es j)) /\
            incl (ae_deps x) (dep_fold (dep_lookup dependency_fix s ivs avs) (ie_deps (gete es j)) [])).
  { intros x Hx. rewrite Hreqs in Hx. apply in_map_iff in Hx. destruct Hx as (y & <- & Hy).
    destruct (Haeqs y Hy) as (j & Hj3 & Fj). destruct (HF j y Hj3 Fj) as (Hj & Y1 & Y2 & Y3).
    exists j. split; [exact Hj|]. split; [exact Y1|]. split; [exact Y2|]. cbn [clean_deps ae_deps]. rewrite <- Y3.
    intros z Hz. apply filter_In in Hz. apply Hz. }
  unfold wf_topological. cbn [orb negb].
  set (nodes := filter (fun e => negb (q_nla e)) (r_eqs r)).
  rewrite (peel_ranked false r (fun j => rv (hd 0 (ie_unknown (gete es j)))) nodes); [reflexivity| |apply incl_refl|apply le_n].
  intros x p' Hx Hp' _. unfold nodes in Hx. apply filter_In in Hx. destruct Hx as (Hx & Hxn).
  destruct (Hres x Hx) as (j & Hj & X1 & X2 & X3). rewrite X1.
  set (e := gete es j) in *. assert (Hein : In e es) by (apply nth_In; exact Hj).
  assert (Hcin : In (core e) (map core es)) by (apply in_map; exact Hein).
  destruct (Fe _ Hcin) as (E1 & E2 & E3). cbn [core fst snd] in E1, E2, E3.
  assert (Nx : node e).
  { split; [exact E1|]. intro K. unfold q_nla in Hxn. rewrite X2, K in Hxn. discriminate. }
  destruct (ie_unknown e) as [|p rest] eqn:Eu; [contradiction|].
  assert (Hp1 : ie_unknown e = [p]) by (apply (Hsingle e p Hein (proj1 Nx) (proj2 Nx)); rewrite Eu; left; reflexivity).
  (* the edge *)
  unfold order_edges in Hp'. apply filter_In in Hp'. destruct Hp' as (Hp'd & Hp'f).
  destruct (find_aeq r p') as [x'|] eqn:Ef; [|discriminate].
  unfold find_aeq in Ef. apply find_some in Ef. destruct Ef as (Hx' & Epos). apply Nat.eqb_eq in Epos.
  destruct (Hres x' Hx') as (j' & Hj' & X1' & X2' & _). rewrite Epos in X1'. subst j'.
  set (e' := gete es p') in *. assert (He'in : In e' es) by (apply nth_In; exact Hj').
  assert (Hc'in : In (core e') (map core es)) by (apply in_map; exact He'in).
  destruct (Fe _ Hc'in) as (E1' & _ & _). cbn [core fst] in E1'.
  assert (Dx' : direct e').
  { cbn [orb] in Hp'f. apply andb_true_iff in Hp'f. destruct Hp'f as (Q1 & Q2). unfold q_ode, q_nla in Q1, Q2. rewrite X2' in Q1, Q2.
    split; [exact E1'|]. split; intro K; rewrite K in *; discriminate. }
  apply X3 in Hp'd. destruct (dep_fold_spec (dep_lookup dependency_fix s ivs avs) (ie_deps e) []) as (Gin & _).
  apply Gin in Hp'd. destruct Hp'd as [[]|(d & a' & Hd & Hl & Hja)].
  rewrite Forall_forall in Hdep. destruct (Hdep e Hein) as (id & c & q & _ & _ & _ & DS).
  destruct (DS d Hd) as (_ & S2 & (u & U1 & U2)).
  rewrite (Hlook d u U1 U2) in Hl. apply lookup_avar_In in Hl. destruct (Havs _ _ Hl) as (_ & _ & Q3).
  rewrite Q3 in Hja. unfold eqs_of in Hja. apply filter_In in Hja. destruct Hja as (_ & Hmem). apply mem_nat_In in Hmem.
  assert (Hg' : gete es3 p' = e') by (unfold gete, es3, e'; apply app_nth1; exact Hj').
  rewrite Hg' in Hmem.
  assert (Hu1 : ie_unknown e' = [u]).
  { destruct Dx' as (D1 & D2 & _). apply (Hsingle e' u He'in D1 D2 Hmem). }
  rewrite Hu1. cbn [hd].
  apply (Hrank e e' d p u); try assumption.
  - rewrite Eu. left. reflexivity.
  - intros ->. apply (S2 p); [rewrite Eu; left; reflexivity|]. symmetry. exact U2.
Qed.

(* ------------------------------------------------------------------ the theorem *)

Lemma finish_topo : forall s voi ivs es vidx rv,
  own_inv ivs es -> Forall (fun v => iv_external v = false) ivs -> ivs_ok s ivs ->
  dependency_fix = true ->
  (forall ivs2, evolves s ivs ivs2 -> forall e1 e2, In e1 es -> same_dep e1 e2 -> ie_type e2 <> EUnknown -> dep_ok s ivs2 e2) ->
  ranked s ivs es rv ->
  valid_type (r_type (finish s voi ivs es vidx)) = true ->
  wf_topological false (finish s voi ivs es vidx) = true.
Proof.
  intros s voi ivs es vidx rv Hown Hne Hok Hfx Hdep Hrank Hvalid. unfold finish in *.
  destruct (validate_vars ivs vidx) as [[ivs1 vidx1] iss1] eqn:Ev.
  destruct iss1 as [|i1 ir1].
  2:{ cbn in Hvalid. destruct (existsb _ ivs1); [destruct (existsb _ ivs1)|]; discriminate. }
  destruct (fold_left requalify_step (nla_group ivs1 es) (ivs1, [], [], [])) as [[[ivs2 es2] ov] iss2] eqn:Er.
  destruct iss2 as [|i2 ir2]; [|discriminate].
  destruct (finish_weak s _ _ _ _ _ _ _ _ Hown Hne Ev Er) as (Hev2 & Hne2 & Hpull & Hfe & Hsingle).
  pose proof (evolves_ivs_ok _ _ _ Hok Hev2) as Hok2.
  assert (Hdep2 : Forall (dep_ok s ivs2) es2).
  { rewrite Forall_forall. intros e2 He2. destruct (Hpull e2 He2) as (e1 & He1 & (S1 & _)).
    apply (Hdep ivs2 Hev2 e1 e2 He1 S1). apply (Hfe e2 He2). }
  pose proof (ranked_same2 s ivs ivs2 es es2 rv Hev2 Hpull Hrank) as Hrank2.
  destruct (model_type voi ivs2 es2); try discriminate; apply (package_topo s _ voi ivs2 es2 rv); assumption.
Qed.

(** Result-level W5: in every valid result the equations that are solved directly (every equation that is not part of
    an NLA system) can be ordered so that each one comes after the direct, non-ODE equations it depends on: the
    order in which check() typed the variables they compute is such an order.  Dependencies on states (equations of
    type ODE) are no constraint - they may be cyclic, x' = y, y' = x - and neither are dependencies on variables
    computed by NLA systems (clause 51, which does fail on the library, is not claimed).
    [dependency_fix = true]: that an equation does not depend on the variable it computes itself (a cycle of length
    one) is established through the repaired bookkeeping, which compares equivalence classes (AnalysisDepProofs);
    with the comparison of variable pointers (C05-dependency-lost-on-retarget) it is not established. *)
Theorem result_wf_topological : forall s r,
  analyse s = Done r -> valid_type (r_type r) = true -> dependency_fix = true -> unique_ids s ->
  wf_topological false r = true.
Proof.
  intros s r H Hvalid Hfx Huniq. unfold analyse, analyse_ext in H.
  destruct (negb (resolvable s)); [discriminate|].
  destruct (build s) as [[ivs0 es0]|] eqn:Eb; [|discriminate].
  destruct (check_inits s ivs0 0 s); [|inversion H; subst; discriminate].
  cbn [fold_left] in H.
  destruct (vs_issues (analyse_asts s ivs0 es0)) eqn:Ei; [|inversion H; subst; discriminate].
  destruct (loop s (loop_fuel es0) 1 false (mkCs (vs_ivs (analyse_asts s ivs0 es0)) 0 0) es0) as [[st es1]|] eqn:El; [|discriminate].
  inversion H; subst r. clear H.
  destruct (own_inv_initial _ _ _ Eb) as (H0 & Hlen).
  destruct (build_spec _ _ _ Eb) as (B1 & B2 & B3). pose proof (build_fresh _ _ _ Eb) as B4.
  pose proof (build_built _ _ _ Eb) as Hbuilt.
  destruct (analyse_asts_inv s ivs0 es0 B1 B3 B4 B2 Ei) as ((Hok & _ & _ & _ & Hne) & _).
  assert (HA : Forall asts_iv ivs0).
  { eapply Forall_impl; [|exact B4]. intros v ([T|T] & _ & I); split; try exact I; rewrite T; reflexivity. }
  assert (Hpos : forall e d, In e es0 -> In d (ie_diffs e) -> ivar_of s ivs0 (snd d) < length ivs0).
  { intros e d He Hd. rewrite Forall_forall in B2. destruct (B2 e He) as (D & _). rewrite Forall_forall in D.
    destruct (D d Hd) as (_ & R). apply ivar_of_spec; [exact B1|]. apply B3; [exact R|]. apply in_range_comp in R. apply R. }
  destruct (analyse_asts_types s ivs0 es0 HA Hpos) as (T1 & T2 & _).
  set (ivs := vs_ivs (analyse_asts s ivs0 es0)) in *.
  assert (Htypes : forall q, asts_type (iv_type (geti ivs q)) = true).
  { intro q. apply (Forall_geti (fun v => asts_type (iv_type v) = true)); [|reflexivity].
    eapply Forall_impl; [|exact T1]. intros v (A & _). exact A. }
  assert (Hn0 : nonempty_inv ivs es0).
  { intros p _ K. specialize (Htypes p). rewrite K in Htypes. discriminate. }
  assert (Hc0 : noconst ivs).
  { intros q K. specialize (Htypes q). rewrite K in Htypes. discriminate. }
  pose proof (loop_own _ _ _ _ _ _ _ _ El Hne H0) as Hown.
  pose proof (loop_nonempty _ _ _ _ _ _ _ _ El Hne H0 Hn0) as Hn1.
  pose proof (loop_noconst _ _ _ _ _ _ _ _ El (oi_bounds _ _ H0) Hc0) as Hc1.
  destruct (loop_inv _ _ _ _ _ _ _ _ El (oi_bounds _ _ H0)) as (Hev & _).
  pose proof (noext_evolves _ _ _ Hev Hne) as Hne1.
  (* the dependency invariant through the loop *)
  assert (Hcl0 : forall p, iv_cls (geti ivs p) = iv_cls (geti ivs0 p)).
  { intro p. unfold geti. rewrite <- (map_nth iv_cls ivs divar p), <- (map_nth iv_cls ivs0 divar p), T2. reflexivity. }
  assert (Hu0 : Forall uinv es0).
  { eapply Forall_impl; [|exact B2]. intros e (_ & _ & _ & _ & U & _) _. exact U. }
  assert (Hb0 : Forall (vbounded (length ivs)) es0).
  { eapply Forall_impl; [|exact B2]. intros e (_ & V & _). unfold vbounded. rewrite Hlen. exact V. }
  assert (Hd0 : Forall2 (dep_inv s ivs) es0 es0).
  { assert (G : forall l, Forall (fun e => exists cq, built_ok s ivs0 cq e) l -> Forall (eq_ok s (length ivs0)) l -> Forall2 (dep_inv s ivs) l l).
    { induction l as [|e l IH]; intros F1 F2; constructor; inversion F1; inversion F2; subst; [|apply IH; assumption].
      destruct H2 as (cq & _ & Dn & Nd & _). destruct H6 as (_ & _ & _ & _ & U & Ty).
      constructor.
      - exact Nd.
      - apply incl_refl.
      - rewrite Dn. constructor.
      - intros p Hp. left. exact Hp.
      - rewrite Dn. intros d [].
      - intro K. contradiction.
      - intro K. contradiction.
      - reflexivity. }
    apply G; [|exact B2].
    clear - Hbuilt. induction Hbuilt; constructor; [exists x; assumption|assumption]. }
  pose proof (loop_dep _ _ _ _ es0 _ _ _ _ El Hfx Hok (oi_bounds _ _ H0) Hu0 Hb0 Hd0) as Hd1.
  cbn [cs_ivs] in *.
  assert (Hti0 : exists rv T, topo_inv s ivs es0 rv T).
  { exists (fun _ => 0), 0.
    assert (Hun : forall e, In e es0 -> ie_type e = EUnknown /\ ie_deps e = []).
    { intros e He. rewrite Forall_forall in B2. destruct (B2 e He) as (_ & _ & _ & _ & _ & Ty). split; [exact Ty|].
      destruct (Forall2_In_r _ _ _ _ Hbuilt He) as (cq & _ & _ & Dn & _). exact Dn. }
    constructor.
    - intros e d u He Hd. rewrite (proj2 (Hun e He)) in Hd. destruct Hd.
    - intros e u He (K & _). exfalso. apply K. apply (Hun e He).
    - intros e e' d p u He _ (K & _). exfalso. apply K. apply (Hun e He). }
  destruct (loop_topo _ _ _ _ _ _ _ _ El Hne H0 Hok Hti0) as (rv & T & [_ _ Hrank]).
  cbn [cs_ivs] in Hrank.
  apply (finish_topo s _ _ _ _ rv); try assumption.
  - eapply evolves_ivs_ok; eassumption.
  - intros ivs2 Hev2 e1 e2 He1 (S1 & S2 & S3 & S4 & S5) Hty2.
    destruct (Forall2_In_r _ _ _ _ Hd1 He1) as (e0 & He0 & [Dn Di Dd Dc Ds Do Dv Did]).
    destruct (Forall2_In_r _ _ _ _ Hbuilt He0) as ((c, q) & Hcq & Bid & _ & _ & Bb & Br). cbn [fst snd] in *.
    assert (Hty1 : ie_type e1 <> EUnknown) by (intro K; apply Hty2; apply S5; exact K).
    assert (Hcl2 : forall p, iv_cls (geti ivs2 p) = iv_cls (geti (cs_ivs st) p)) by (intro p; eapply cls_stable; exact Hev2).
    assert (HclL : forall p, iv_cls (geti (cs_ivs st) p) = iv_cls (geti ivs0 p)).
    { intro p. rewrite (cls_stable _ _ _ p Hev). apply Hcl0. }
    exists (q_id q), c, q. split; [rewrite S1, Did; exact Bid|]. split; [apply find_eqn_unique; assumption|]. split.
    + intros k Hk. apply Br in Hk. unfold pcls in Hk. apply in_map_iff in Hk. destruct Hk as (p & Pk & Pin).
      destruct (Dc p Pin) as [Pv|[Pu|Pd]].
      * left. exists p. split; [rewrite S3; apply Dv; assumption|]. rewrite Hcl2, HclL. exact Pk.
      * left. exists p. split; [rewrite S3; exact Pu|]. rewrite Hcl2, HclL. exact Pk.
      * right. rewrite S2. rewrite HclL, Pk in Pd. exact Pd.
    + intros d Hd. rewrite S2 in Hd. destruct (Ds d Hd) as (p & P1 & P2 & P3). split; [|split].
      * apply Br. unfold pcls. apply in_map_iff. exists p. split; [|exact P1]. rewrite P3, HclL. reflexivity.
      * intros u Hu. rewrite S3 in Hu. rewrite Hcl2. apply Do; assumption.
      * exists p. split; [|rewrite Hcl2; symmetry; exact P3].
        rewrite Forall_forall in Bb. specialize (Bb p P1). destruct Hev2 as (L2 & _). destruct Hev as (L1 & _). cbn [cs_ivs] in *. lia.
Qed.
