(** Proof depth round 5 (C19): Model::clean is idempotent, on every model (no ownership or
    tag-uniqueness hypothesis), and commutes with the "is empty" test. *)
From Coq Require Import String Ascii List Bool Arith Lia.
From LC Require Import IfaceDefs IfaceSpec IfaceProofs.
Import ListNotations.

Lemma kept_app a b : kept (a ++ b) = kept a ++ kept b.
Proof. unfold kept. apply flat_map_app. Qed.

(** pruning a pruned tree changes nothing *)
Lemma prune_prune c : prune (prune c) = prune c.
Proof.
  induction c as [t i vs ks IH] using comp_ind'. cbn [prune]. f_equal.
  induction IH as [|k ks Hk Hks IHks]; [reflexivity|]. cbn [flat_map].
  destruct (emptyb k) eqn:Ek; cbn [app].
  - exact IHks.
  - cbn [flat_map]. rewrite emptyb_prune, Ek, Hk. cbn [app]. f_equal. exact IHks.
Qed.

Lemma kept_kept ks : kept (kept ks) = kept ks.
Proof.
  induction ks as [|k ks IH]; [reflexivity|]. unfold kept at 2 3. cbn [flat_map]. fold (kept ks).
  rewrite kept_app, IH. f_equal. destruct (emptyb k) eqn:Ek; [reflexivity|].
  unfold kept. cbn [flat_map]. rewrite emptyb_prune, Ek, prune_prune. reflexivity.
Qed.

(** nothing that survives is empty, at any depth *)
Lemma kept_none_empty ks : forall k, In k (kept ks) -> emptyb k = false.
Proof.
  induction ks as [|c cs IH]; intros k Hk; [destruct Hk|]. unfold kept in Hk. cbn [flat_map] in Hk.
  apply in_app_or in Hk. destruct Hk as [Hk|Hk]; [|now apply IH].
  destruct (emptyb c) eqn:Ec; [destruct Hk|]. destruct Hk as [<-|[]]. now rewrite emptyb_prune.
Qed.

Lemma orphan_fields m u :
  u_tag (orphan_removed m u) = u_tag u /\ units_empty (orphan_removed m u) = units_empty u.
Proof.
  unfold orphan_removed. destruct (existsb (Nat.eqb (u_tag u)) (m_units m) && units_empty u); split; reflexivity.
Qed.

Lemma units_removed_orphan m h t :
  units_removed (map (orphan_removed m) h) t = units_removed h t.
Proof.
  unfold units_removed. induction h as [|u h IH]; [reflexivity|]. cbn [map uget].
  destruct (orphan_fields m u) as [A B]. rewrite A. destruct (Nat.eqb (u_tag u) t); [exact B | exact IH].
Qed.

Lemma filter_idem {A} (f : A -> bool) l : filter f (filter f l) = filter f l.
Proof.
  induction l as [|a l IH]; [reflexivity|]. cbn. destruct (f a) eqn:E; cbn; [rewrite E; now f_equal | exact IH].
Qed.

Lemma existsb_filter_sub {A} (p f : A -> bool) l : existsb p (filter f l) = true -> existsb p l = true.
Proof.
  induction l as [|a l IH]; [trivial|]. cbn. destruct (f a); cbn; intros H.
  - apply orb_true_iff in H. apply orb_true_iff. destruct H; [now left | right; now apply IH].
  - apply orb_true_iff. right. now apply IH.
Qed.

Lemma orphan_orphan m u :
  orphan_removed (clean_model m) (orphan_removed m u) = orphan_removed m u.
Proof.
  unfold orphan_removed at 1. destruct (orphan_fields m u) as [A B]. rewrite A, B.
  destruct (existsb (Nat.eqb (u_tag u)) (m_units (clean_model m)) && units_empty u) eqn:E; [|reflexivity].
  apply andb_true_iff in E. destruct E as [E1 E2]. rewrite clean_units in E1.
  apply existsb_filter_sub in E1. unfold orphan_removed. rewrite E1, E2. reflexivity.
Qed.

Lemma model_ext (a b : model) :
  m_tag a = m_tag b -> m_heap a = m_heap b -> m_units a = m_units b -> m_comps a = m_comps b ->
  m_ext a = m_ext b -> a = b.
Proof. destruct a, b. cbn. intros; subst; reflexivity. Qed.

(** clean() twice = clean() once: components, units list, every units object (parent included), the rest. *)
Theorem clean_idempotent m : clean_model (clean_model m) = clean_model m.
Proof.
  assert (C : m_comps (clean_model (clean_model m)) = m_comps (clean_model m)).
  { rewrite (clean_comps (clean_model m)), (clean_comps m). apply kept_kept. }
  assert (U : m_units (clean_model (clean_model m)) = m_units (clean_model m)).
  { unfold clean_model. cbn [m_units m_heap].
    rewrite (filter_ext _ (fun t => negb (units_removed (m_heap m) t))).
    - apply filter_idem.
    - intros t. now rewrite units_removed_orphan. }
  assert (H : m_heap (clean_model (clean_model m)) = m_heap (clean_model m)).
  { change (m_heap (clean_model (clean_model m)))
      with (map (orphan_removed (clean_model m)) (map (orphan_removed m) (m_heap m))).
    change (m_heap (clean_model m)) with (map (orphan_removed m) (m_heap m)).
    rewrite map_map. apply map_ext. intros u. apply orphan_orphan. }
  apply model_ext; [reflexivity | exact H | exact U | exact C | reflexivity].
Qed.

(** after clean(), no component of the tree, at any depth, is empty by the boolean the code computes, and a
    second clean_comp on any surviving top-level component returns it unchanged with "not empty". *)
Theorem clean_fixpoint_comps m :
  forall c, In c (m_comps (clean_model m)) -> clean_comp c = (c, false).
Proof.
  intros c Hc. rewrite clean_comp_spec. rewrite clean_comps in Hc.
  rewrite (kept_none_empty _ _ Hc). f_equal.
  unfold kept in Hc. apply in_flat_map in Hc. destruct Hc as [k [_ Hk]].
  destruct (emptyb k); [destruct Hk|]. destruct Hk as [<-|[]]. apply prune_prune.
Qed.
