(** ExternalWitness.v — kernel-checked witnesses (vm_compute) for C20: refutations on the faithful model and
    non-vacuity examples. *)
From Coq Require Import List Bool Arith PeanoNat Lia.
From LC Require Import AnalysisDefs AnalysisSpec AnalysisWfProofs ExternalDefs ExternalEmitProofs.
Import ListNotations.
Local Open Scope bool_scope.

Definition V (n : nat) : expr := EVar n.

(** c0: t, x (initial value), k (initial value), y;  dx/dt = k (op) 1001;  y = x (op) 1002
    c1: t' ~ t, z, y' ~ y;                            z = t' (op) (y' (op) 1003) *)
Definition sysA : system :=
  [ mkComp [mkVar 0 0 INone; mkVar 1 1 IConst; mkVar 2 2 IConst; mkVar 3 3 INone]
           [mkEqn 1001 (EDiff 0 1) (EOp (V 2) ECn); mkEqn 1002 (V 3) (EOp (V 1) ECn)];
    mkComp [mkVar 0 0 INone; mkVar 4 4 INone; mkVar 3 3 INone]
           [mkEqn 1003 (V 4) (EOp (V 0) (EOp (V 3) ECn))] ].

Definition mark_voi : list xmark := [mkXmark (XLocal (0, 0)) []].               (* the variable of integration *)
Definition mark_voi_member : list xmark := [mkXmark (XLocal (1, 0)) []].        (* its equivalent in c1 *)
Definition mark_z_dep_y : list xmark := [mkXmark (XLocal (1, 1)) [XLocal (0, 3)]].
Definition mark_y_nonprimary : list xmark := [mkXmark (XLocal (1, 2)) []].
Definition mark_k : list xmark := [mkXmark (XLocal (0, 2)) []].
Definition mark_foreign : list xmark := [mkXmark (XForeign 0) [XForeign 1]].

Definition result_of (x : xresult) : option result := match xr_outcome x with Done r => Some r | _ => None end.
Definition ext_classes (s : system) (r : result) : list nat :=
  map (fun a => cls_of s (av_var a)) (filter (fun a => atype_eqb (av_type a) AExternal) (all_avars r)).

(** DEFECT C20-voi-marked-external, on the model of the code BEFORE the repair: marking the variable of integration
    gives the message, and yet the analysed model has one more variable: an EXTERNAL one, of the class of the
    variable of integration, computed by no equation; hasExternalVariables() is true. *)
Lemma voi_marked_unfixed :
  match result_of (analyse_x false sysA []), result_of (analyse_x false sysA mark_voi) with
  | Some r0, Some r1 =>
      valid_type (r_type r0) = true /\ valid_type (r_type r1) = true /\
      xr_messages (analyse_x false sysA mark_voi) = [mkXissue XVoi (XLocal (0, 0))] /\
      length (r_vars r1) = S (length (r_vars r0)) /\
      xr_has_ext (analyse_x false sysA mark_voi) = true /\
      exists a, In a (r_vars r1) /\ av_type a = AExternal /\ voi_class sysA r1 = Some (cls_of sysA (av_var a)) /\ av_eqs a = []
  | _, _ => False
  end.
Proof.
  vm_compute. repeat split; try reflexivity.
  eexists. split; [right; right; left; reflexivity|]. repeat split; reflexivity.
Qed.

(** ... and with the repair the same marking changes nothing but the message *)
Lemma voi_marked_fixed :
  xr_outcome (analyse_x true sysA mark_voi) = xr_outcome (analyse_x true sysA []) /\
  xr_outcome (analyse_x true sysA mark_voi_member) = xr_outcome (analyse_x true sysA []) /\
  xr_has_ext (analyse_x true sysA mark_voi) = false /\
  xr_messages (analyse_x true sysA mark_voi) = [mkXissue XVoi (XLocal (0, 0))] /\
  xr_messages (analyse_x true sysA mark_voi_member) = [mkXissue XVoi (XLocal (0, 0))].
Proof. vm_compute. repeat split; reflexivity. Qed.

(** non-vacuity of externals_exact / marking_messages: a constant, a non-primary member and a foreign variable *)
Lemma marks_examples :
  option_map (ext_classes sysA) (result_of (analyse_x true sysA mark_k)) = Some [2] /\
  option_map (ext_classes sysA) (result_of (analyse_x true sysA mark_y_nonprimary)) = Some [3] /\
  xr_messages (analyse_x true sysA mark_y_nonprimary) = [mkXissue XUsePrimary (XLocal (0, 3))] /\
  xr_outcome (analyse_x true sysA mark_foreign) = xr_outcome (analyse_x true sysA []) /\
  xr_messages (analyse_x true sysA mark_foreign) = [mkXissue XDifferentModel (XForeign 0)] /\
  option_map (fun r => definition_of sysA r 1) (result_of (analyse_x true sysA mark_z_dep_y)) =
  option_map (fun r => definition_of sysA r 1) (result_of (analyse_x true sysA [])) /\
  depends_on sysA 1 [2] = true /\ depends_on sysA 2 [4] = true.
Proof. vm_compute. repeat split; reflexivity. Qed.

(** addDependency: itself / an equivalent / a variable of another model / a repetition are refused *)
Lemma add_dependency_example :
  make_mark sysA (XLocal (1, 1)) [XLocal (0, 1); XLocal (0, 3); XLocal (1, 0); XLocal (1, 1); XForeign 1; XLocal (0, 3); XLocal (1, 2)] =
  (mkXmark (XLocal (1, 1)) [XLocal (0, 1); XLocal (0, 3); XLocal (1, 0); XLocal (1, 2)], [true; true; true; false; false; false; true]).
Proof. vm_compute. reflexivity. Qed.

(* ------------------------------------------------------------------ rescue *)

(** sysA with the constant k left without a value: under-constrained, k is reported unused; marking k external
    makes the model valid, k is the external variable *)
Definition sysA_no_k : system :=
  [ mkComp [mkVar 0 0 INone; mkVar 1 1 IConst; mkVar 2 2 INone; mkVar 3 3 INone]
           [mkEqn 1001 (EDiff 0 1) (EOp (V 2) ECn); mkEqn 1002 (V 3) (EOp (V 1) ECn)];
    mkComp [mkVar 0 0 INone; mkVar 4 4 INone; mkVar 3 3 INone]
           [mkEqn 1003 (V 4) (EOp (V 0) (EOp (V 3) ECn))] ].

Lemma rescue_example :
  option_map (fun r => (r_type r, r_issues r)) (result_of (analyse_x true sysA_no_k [])) =
    Some (MUnderconstrained, [mkIssue RUnused (0, 2)]) /\
  option_map (fun r => (r_type r, ext_classes sysA_no_k r)) (result_of (analyse_x true sysA_no_k mark_k)) = Some (MOde, [2]).
Proof. vm_compute. split; reflexivity. Qed.

(** "a model whose only reported problem is unused variables becomes valid when they are marked" is FALSE as such:
    x (initial value) with x = 1001 and x = 1002, and two variables that occur nowhere.  The analyser only reports the
    unused variables; once they are marked the over-constraint on x shows. *)
Definition sysU : system :=
  [ mkComp [mkVar 0 0 IConst; mkVar 1 1 INone; mkVar 2 2 INone] [mkEqn 1001 (V 0) ECn; mkEqn 1002 (V 0) ECn] ].
Definition mark_unused : list xmark := [mkXmark (XLocal (0, 1)) []; mkXmark (XLocal (0, 2)) []].

Lemma rescue_naive_refuted :
  option_map (fun r => (r_type r, map is_rule (r_issues r))) (result_of (analyse_x true sysU [])) =
    Some (MUnderconstrained, [RUnused; RUnused]) /\
  option_map (fun r => (r_type r, map is_rule (r_issues r))) (result_of (analyse_x true sysU mark_unused)) =
    Some (MOverconstrained, [RComputedTwice]).
Proof. vm_compute. split; reflexivity. Qed.

(* ------------------------------------------------------------------ emission order *)

Definition acyclic_byb (r : result) (rank : nat -> nat) : bool :=
  forallb (fun e =>
    forallb (fun d => match find_aeq r d with
                      | Some de => qtype_eqb (ae_type de) QOde || (rank d <? rank (ae_pos e))
                      | None => true end) (ae_deps e)
    && forallb (fun sib => rank sib =? rank (ae_pos e)) (ae_sibs e)) (r_eqs r).

Lemma acyclic_byb_sound : forall r rank, acyclic_byb r rank = true -> acyclic_by r rank.
Proof.
  intros r rank H. unfold acyclic_byb in H. rewrite forallb_forall in H. split.
  - intros e d de He Hd Hde Hode. specialize (H e He). apply andb_true_iff in H. destruct H as (H & _).
    rewrite forallb_forall in H. specialize (H d Hd). rewrite Hde in H. apply orb_true_iff in H. destruct H as [H|H].
    + exfalso. apply Hode. destruct (ae_type de); try discriminate; reflexivity.
    + apply Nat.ltb_lt. exact H.
  - intros e sib He Hs. specialize (H e He). apply andb_true_iff in H. destruct H as (_ & H).
    rewrite forallb_forall in H. apply Nat.eqb_eq. apply H. exact Hs.
Qed.

(** non-vacuity of callback_after_dependencies: z marked with declared dependency y.  The dependency graph is acyclic
    (rank = position), computeVariables emits y's equation and then the callback for z. *)
Lemma callback_order_example :
  match result_of (analyse_x true sysA mark_z_dep_y) with
  | Some r =>
      acyclic_by r (fun p => p) /\ NoDup (all_pos r) /\
      b_vars (method_bodies r sibling_fix) = [SEq 1; SEq 2] /\
      option_map ae_type (find_aeq r 2) = Some QExternal /\ option_map ae_deps (find_aeq r 2) = Some [1] /\
      option_map ae_type (find_aeq r 1) = Some QAlgebraic
  | None => False
  end.
Proof.
  vm_compute result_of. split; [apply acyclic_byb_sound; vm_compute; reflexivity|].
  split; [vm_compute; repeat constructor; cbn; intuition discriminate|]. vm_compute. repeat split; reflexivity.
Qed.

(** ... but in initialiseVariables the callback for z is emitted while the equation of its declared dependency y (an
    algebraic equation) is emitted nowhere in that method, which is the first to run: known finding
    C20-initialise-callback-before-dependencies *)
Definition init_uncomputed_dependency (r : result) : bool :=
  let body := eq_positions (b_init (method_bodies r sibling_fix)) in
  existsb (fun x => match find_aeq r x with
                    | Some e => qtype_eqb (ae_type e) QExternal
                                && existsb (fun d => match find_aeq r d with
                                                     | Some de => (qtype_eqb (ae_type de) QAlgebraic || qtype_eqb (ae_type de) QVarBasedConst
                                                                   || qtype_eqb (ae_type de) QNla)
                                                                  && negb (mem_nat d body)
                                                     | None => false end) (ae_deps e)
                    | None => false end) body.

Lemma initialise_refuted :
  option_map init_uncomputed_dependency (result_of (analyse_x true sysA mark_z_dep_y)) = Some true.
Proof. vm_compute. reflexivity. Qed.

(** A declared dependency that is itself computed from the external variable (z = y + 1001; y = k + 1002; y marked
    with declared dependency z): no rank exists, and computeVariables emits the callback for y BEFORE the equation of
    its declared dependency z: known finding C20-cyclic-declared-dependency *)
Definition sysC : system :=
  [ mkComp [mkVar 0 0 INone; mkVar 1 1 INone; mkVar 2 2 IConst]
           [mkEqn 1001 (V 0) (EOp (V 1) ECn); mkEqn 1002 (V 1) (EOp (V 2) ECn)] ].
Definition mark_cyclic : list xmark := [mkXmark (XLocal (0, 1)) [XLocal (0, 0)]].

Lemma cyclic_refuted :
  match result_of (analyse_x true sysC mark_cyclic) with
  | Some r =>
      valid_type (r_type r) = true /\
      b_vars (method_bodies r sibling_fix) = [SEq 1; SEq 0] /\
      option_map ae_type (find_aeq r 1) = Some QExternal /\ option_map ae_deps (find_aeq r 1) = Some [0] /\
      ordered_from r false [] (all_pos r) [] (eq_positions (b_vars (method_bodies r sibling_fix))) = false /\
      forall rank, ~ acyclic_by r rank
  | None => False
  end.
Proof.
  vm_compute result_of. repeat split; try (vm_compute; reflexivity).
  intros rank (A1 & _).
  assert (H1 : rank 0 < rank 1).
  { apply (A1 (mkAeq 1 (Some 1002) QExternal [(0, 1)] [0] None []) 0 (mkAeq 0 (Some 1001) QAlgebraic [(0, 0)] [1] None []));
      [right; left; reflexivity|left; reflexivity|reflexivity|discriminate]. }
  assert (H2 : rank 1 < rank 0).
  { apply (A1 (mkAeq 0 (Some 1001) QAlgebraic [(0, 0)] [1] None []) 1 (mkAeq 1 (Some 1002) QExternal [(0, 1)] [0] None []));
      [left; reflexivity|left; reflexivity|reflexivity|discriminate]. }
  lia.
Qed.

(* ------------------------------------------------------------------ independent_unchanged: an instance *)

(** a = 1001; b = a + 1002; c = 1003; d = c + 1004, with a marked: c and d are not linked to a and keep (type,
    equations); b, which reads a, changes (computed constant -> algebraic) *)
Definition sysI : system :=
  [ mkComp [mkVar 0 0 INone; mkVar 1 1 INone; mkVar 2 2 INone; mkVar 3 3 INone]
           [mkEqn 1001 (V 0) ECn; mkEqn 1002 (V 1) (EOp (V 0) ECn); mkEqn 1003 (V 2) ECn; mkEqn 1004 (V 3) (EOp (V 2) ECn)] ].
Definition mark_a : list xmark := [mkXmark (XLocal (0, 0)) []].

Lemma independent_example :
  match result_of (analyse_x true sysI []), result_of (analyse_x true sysI mark_a) with
  | Some r0, Some r1 =>
      valid_type (r_type r0) = true /\ valid_type (r_type r1) = true /\
      depends_on sysI 2 (marked_classes sysI mark_a) = false /\ depends_on sysI 3 (marked_classes sysI mark_a) = false /\
      definition_of sysI r1 2 = definition_of sysI r0 2 /\ definition_of sysI r1 3 = definition_of sysI r0 3 /\
      depends_on sysI 1 (marked_classes sysI mark_a) = true /\
      definition_of sysI r0 1 = Some (ACompConst, [(Some 1002, QVarBasedConst)]) /\
      definition_of sysI r1 1 = Some (AAlgebraic, [(Some 1002, QAlgebraic)])
  | _, _ => False
  end.
Proof. vm_compute. repeat split; reflexivity. Qed.

(* ------------------------------------------------------------------ dependencies of NLA siblings *)

(** t, x (state), a and b (initial guesses), k (constant), c;   c = k (op) 1001;  a (op) b = 1002 (op) t;  a (op) b = 1003 (op) c;
    dx/dt = 1004 (op) a.  With k marked as external, c is no longer a computed constant: the NLA system {1002, 1003} needs it.
    DEFECT C20-nla-sibling-dependencies (code before the repair): computeRates calls findRoot for the system right away,
    because equation 1002, reached first, has no dependency; the equation of c (and the callback for k) are emitted nowhere
    in initialiseVariables / computeComputedConstants / computeRates.  With the repair they come first. *)
Definition sysS : system :=
  [ mkComp [mkVar 0 0 INone; mkVar 1 1 IConst; mkVar 2 2 IConst; mkVar 3 3 IConst; mkVar 4 4 IConst; mkVar 5 5 INone]
           [mkEqn 1001 (V 5) (EOp (V 4) ECn); mkEqn 1002 (EOp (V 2) (V 3)) (EOp ECn (V 0));
            mkEqn 1003 (EOp (V 2) (V 3)) (EOp ECn (V 5)); mkEqn 1004 (EDiff 0 1) (EOp ECn (V 2))] ].
Definition mark_k4 : list xmark := [mkXmark (XLocal (0, 4)) []].

Definition ids_of (r : result) (l : list stmt) : list (option nat * qtype) :=
  filter_map (fun p => option_map (fun e => (ae_id e, ae_type e)) (find_aeq r p)) (eq_positions l).

Lemma sibling_dependencies_witness :
  match result_of (analyse_x true sysS mark_k4) with
  | Some r =>
      valid_type (r_type r) = true /\
      (* before the repair: findRoot, then the rate *)
      ids_of r (b_rates (method_bodies r false)) = [(Some 1002, QNla); (Some 1004, QOde)] /\
      ids_of r (b_init (method_bodies r false) ++ b_consts (method_bodies r false)) = [(None, QExternal)] /\
      (* with the repair: the callback for k, c, findRoot, the rate *)
      ids_of r (b_rates (method_bodies r true)) = [(None, QExternal); (Some 1001, QAlgebraic); (Some 1002, QNla); (Some 1004, QOde)] /\
      (* c's equation is a dependency of the sibling 1003 only *)
      map (fun e => (ae_id e, ae_type e, ae_deps e, ae_sibs e)) (filter (fun e => qtype_eqb (ae_type e) QNla) (r_eqs r)) =
        [(Some 1002, QNla, [], [2]); (Some 1003, QNla, [0], [1])]
  | None => False
  end.
Proof. vm_compute. repeat split; reflexivity. Qed.
