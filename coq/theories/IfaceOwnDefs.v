(** IfaceOwnDefs.v — C19, second part of the model: the public API that moves Units objects between models.

    linkUnits / hasUnlinkedUnits / clean read `units->parent()`; whether that answer is consistent with the
    models' units lists depends on the history of these calls.  Transcribed as the code is now (model.cpp):
      ModelImpl::findUnits(name), ModelImpl::findUnits(UnitsPtr) (identity first, then equals()),
      Model::addUnits, removeUnits(index) / (name) / (UnitsPtr), removeAllUnits, takeUnits(index) / (name),
      replaceUnits(index, u) / (name, u) / (old, new), and the death of a model (parent() is a weak pointer).
    Variable::setUnits does not touch any of this (a variable only holds the object).
    No proofs in this file. *)
From Coq Require Import String List Bool Arith.
From LC Require Import IfaceDefs.
Import ListNotations.
Local Open Scope string_scope.

(** [us_heap]: every Units object ([u_owner] = tag of the model parent() answers; None: no parent or the
    model is dead).  [us_models]: the live models with their units lists.  [us_class]: Units::equals as a
    partition — two objects are equal iff they carry the same class (the calls below never change a units'
    content, so the classes are constant along a history). *)
Record ustate := mkUS { us_heap : list uobj; us_models : list (nat * list nat); us_class : list (nat * nat) }.

Inductive uop :=
| OAdd (m u : nat)                          (* m->addUnits(u) *)
| ORemoveIdx (m i : nat)                    (* m->removeUnits(i) *)
| ORemoveName (m : nat) (n : string)        (* m->removeUnits(name) *)
| ORemovePtr (m u : nat)                    (* m->removeUnits(u) *)
| ORemoveAll (m : nat)                      (* m->removeAllUnits() *)
| OTakeIdx (m i : nat)                      (* m->takeUnits(i) *)
| OTakeName (m : nat) (n : string)          (* m->takeUnits(name) *)
| OReplaceIdx (m i u : nat)                 (* m->replaceUnits(i, u) *)
| OReplaceName (m : nat) (n : string) (u : nat)
| OReplacePtr (m old u : nat)               (* m->replaceUnits(old, u) *)
| ODestroy (m : nat).                       (* the last reference to model m is dropped *)

(** result of one call *)
Inductive ures := RBool (b : bool) | RPtr (u : option nat) | RVoid | RInvalid.

(* ---- small list functions *)
Fixpoint remove_at {A} (i : nat) (l : list A) : list A :=
  match l, i with
  | [], _ => []
  | _ :: r, 0 => r
  | x :: r, S j => x :: remove_at j r
  end.

Fixpoint insert_at {A} (i : nat) (x : A) (l : list A) : list A :=
  match i, l with
  | 0, _ => x :: l
  | S j, y :: r => y :: insert_at j x r
  | S _, [] => [x]
  end.

Fixpoint index_where {A} (p : A -> bool) (l : list A) : nat :=       (* position of the first match, else length *)
  match l with
  | [] => 0
  | x :: r => if p x then 0 else S (index_where p r)
  end.

(* ---- state access *)
Fixpoint lists_get (ms : list (nat * list nat)) (m : nat) : option (list nat) :=
  match ms with
  | [] => None
  | (k, l) :: r => if Nat.eqb k m then Some l else lists_get r m
  end.

Fixpoint lists_set (ms : list (nat * list nat)) (m : nat) (l : list nat) : list (nat * list nat) :=
  match ms with
  | [] => []
  | (k, l0) :: r => if Nat.eqb k m then (k, l) :: r else (k, l0) :: lists_set r m l
  end.

Definition set_owner_obj (t : nat) (o : option nat) (u : uobj) : uobj :=
  if Nat.eqb (u_tag u) t then mkU (u_tag u) (u_name u) (u_id u) (u_nunit u) (u_import u) o else u.

Definition set_owner (s : ustate) (t : nat) (o : option nat) : ustate :=
  mkUS (map (set_owner_obj t o) (us_heap s)) (us_models s) (us_class s).

Definition set_list (s : ustate) (m : nat) (l : list nat) : ustate :=
  mkUS (us_heap s) (lists_set (us_models s) m l) (us_class s).

(** units->parent(): the owner, provided that model is alive *)
Definition owner_of (s : ustate) (t : nat) : option nat :=
  match uget (us_heap s) t with
  | Some u => match u_owner u with
              | Some m => match lists_get (us_models s) m with Some _ => Some m | None => None end
              | None => None
              end
  | None => None
  end.

Fixpoint class_get (cs : list (nat * nat)) (t : nat) : option nat :=
  match cs with
  | [] => None
  | (k, c) :: r => if Nat.eqb k t then Some c else class_get r t
  end.

(** a->equals(b) for two Units objects *)
Definition units_equal (s : ustate) (a b : nat) : bool :=
  Nat.eqb a b ||
  match class_get (us_class s) a, class_get (us_class s) b with
  | Some x, Some y => Nat.eqb x y
  | _, _ => false
  end.

Definition name_is (s : ustate) (n : string) (t : nat) : bool :=
  match uget (us_heap s) t with Some u => String.eqb (u_name u) n | None => false end.

(** ModelImpl::findUnits(name) - mUnits.begin() *)
Definition find_name_idx (s : ustate) (l : list nat) (n : string) : nat := index_where (name_is s n) l.

(** ModelImpl::findUnits(UnitsPtr) - mUnits.begin(): std::find by identity, else find_if by equals *)
Definition find_ptr_idx (s : ustate) (l : list nat) (u : nat) : nat :=
  let i := index_where (Nat.eqb u) l in
  if Nat.ltb i (length l) then i else index_where (fun t => units_equal s t u) l.

(** Model::removeUnits(size_t): (state, status) *)
Definition remove_idx (s : ustate) (m i : nat) : ustate * bool :=
  match lists_get (us_models s) m with
  | None => (s, false)
  | Some l =>
      match nth_error l i with
      | Some u => (set_list (set_owner s u None) m (remove_at i l), true)    (* the found object loses its parent; erase *)
      | None => (s, false)
      end
  end.

(** Model::removeUnits(const UnitsPtr &) *)
Definition remove_ptr (s : ustate) (m u : nat) : ustate * bool :=
  match lists_get (us_models s) m with
  | None => (s, false)
  | Some l => remove_idx s m (find_ptr_idx s l u)
  end.

(** Model::takeUnits(size_t) *)
Definition take_idx (s : ustate) (m i : nat) : ustate * option nat :=
  match lists_get (us_models s) m with
  | None => (s, None)
  | Some l =>
      match nth_error l i with
      | Some u => (set_owner (fst (remove_idx s m i)) u None, Some u)
      | None => (s, None)
      end
  end.

(** Model::replaceUnits(size_t, const UnitsPtr &) *)
Definition replace_idx (s : ustate) (m i u : nat) : ustate * bool :=
  match lists_get (us_models s) m with
  | None => (s, false)
  | Some l =>
      match nth_error l i with
      | None => (s, false)                                    (* oldUnits == nullptr *)
      | Some old =>
          if Nat.eqb old u then (s, true)
          else
            let '(s1, idx) :=
              match owner_of s u with
              | Some m' =>                                    (* the replacement leaves the model that holds it *)
                  let s1 := fst (remove_ptr s m' u) in
                  (s1, match lists_get (us_models s1) m with
                       | Some l1 => index_where (Nat.eqb old) l1
                       | None => i
                       end)
              | None => (s, i)
              end in
            let '(s2, ok) := remove_idx s1 m idx in
            if ok then
              match lists_get (us_models s2) m with
              | Some l2 => (set_owner (set_list s2 m (insert_at idx u l2)) u (Some m), true)
              | None => (s2, false)
              end
            else (s2, false)
      end
  end.

Definition has_obj (s : ustate) (u : nat) : bool := match uget (us_heap s) u with Some _ => true | None => false end.

(** One call.  Calls on a model that is not alive, or with a units tag that names no object, are not calls the
    C++ can make: [RInvalid], state unchanged (the generator never issues them). *)
Definition step (s : ustate) (o : uop) : ustate * ures :=
  match o with
  | OAdd m u =>
      match lists_get (us_models s) m with
      | None => (s, RInvalid)
      | Some _ =>
          if negb (has_obj s u) then (s, RInvalid) else
          let s1 := match owner_of s u with
                    | Some m' => if Nat.eqb m' m then s else fst (remove_ptr s m' u)   (* move to this model *)
                    | None => s
                    end in
          match lists_get (us_models s1) m with
          | Some l1 => (set_owner (set_list s1 m (l1 ++ [u])) u (Some m), RBool true)
          | None => (s1, RInvalid)
          end
      end
  | ORemoveIdx m i =>
      match lists_get (us_models s) m with
      | None => (s, RInvalid)
      | Some _ => let r := remove_idx s m i in (fst r, RBool (snd r))
      end
  | ORemoveName m n =>
      match lists_get (us_models s) m with
      | None => (s, RInvalid)
      | Some l => let r := remove_idx s m (find_name_idx s l n) in (fst r, RBool (snd r))
      end
  | ORemovePtr m u =>
      match lists_get (us_models s) m with
      | None => (s, RInvalid)
      | Some _ => if negb (has_obj s u) then (s, RInvalid) else let r := remove_ptr s m u in (fst r, RBool (snd r))
      end
  | ORemoveAll m =>
      match lists_get (us_models s) m with
      | None => (s, RInvalid)
      | Some l => (set_list (fold_left (fun acc t => set_owner acc t None) l s) m [], RVoid)
      end
  | OTakeIdx m i =>
      match lists_get (us_models s) m with
      | None => (s, RInvalid)
      | Some _ => let r := take_idx s m i in (fst r, RPtr (snd r))
      end
  | OTakeName m n =>
      match lists_get (us_models s) m with
      | None => (s, RInvalid)
      | Some l => let r := take_idx s m (find_name_idx s l n) in (fst r, RPtr (snd r))
      end
  | OReplaceIdx m i u =>
      match lists_get (us_models s) m with
      | None => (s, RInvalid)
      | Some _ => if negb (has_obj s u) then (s, RInvalid) else let r := replace_idx s m i u in (fst r, RBool (snd r))
      end
  | OReplaceName m n u =>
      match lists_get (us_models s) m with
      | None => (s, RInvalid)
      | Some l => if negb (has_obj s u) then (s, RInvalid)
                  else let r := replace_idx s m (find_name_idx s l n) u in (fst r, RBool (snd r))
      end
  | OReplacePtr m old u =>
      match lists_get (us_models s) m with
      | None => (s, RInvalid)
      | Some l => if negb (has_obj s u) || negb (has_obj s old) then (s, RInvalid)
                  else let r := replace_idx s m (find_ptr_idx s l old) u in (fst r, RBool (snd r))
      end
  | ODestroy m =>
      match lists_get (us_models s) m with
      | None => (s, RInvalid)
      | Some _ => (mkUS (us_heap s) (filter (fun e => negb (Nat.eqb (fst e) m)) (us_models s)) (us_class s), RVoid)
      end
  end.

Fixpoint run_ops (s : ustate) (os : list uop) : ustate * list ures :=
  match os with
  | [] => (s, [])
  | o :: r => let '(s1, x) := step s o in let '(s2, xs) := run_ops s1 r in (s2, x :: xs)
  end.

(** The call re-adds a units object to the model that already lists it (then listed twice: the behaviour the
    test-suite pins for containers; outside C09's claim and outside [reach_owned]). *)
Definition readds (s : ustate) (o : uop) : bool :=
  match o with
  | OAdd m u => match lists_get (us_models s) m with Some l => existsb (Nat.eqb u) l | None => false end
  | _ => false
  end.

Fixpoint any_readd (s : ustate) (os : list uop) : bool :=
  match os with
  | [] => false
  | o :: r => readds s o || any_readd (fst (step s o)) r
  end.

(** what the model sees as owner: the heap with dead owners blanked (what the C++ state dump shows) *)
Definition visible_heap (s : ustate) : list uobj :=
  map (fun u => mkU (u_tag u) (u_name u) (u_id u) (u_nunit u) (u_import u) (owner_of s (u_tag u))) (us_heap s).

(** The linking view of model [m] in state [s] (tree and outside variables supplied by the caller). *)
Definition model_view (s : ustate) (m : nat) (comps : list comp) (ext : list extvar) : model :=
  mkM m (visible_heap s) (match lists_get (us_models s) m with Some l => l | None => [] end) comps ext.
