(** AnalysisRound7Proofs.v — proof depth round 7 (C05): the sweep over mInternalEquations is compositional over
    concatenation, and the result of the do/while does not depend on which sufficient fuel is supplied. *)
From Coq Require Import List Bool Arith Lia.
From LC Require Import AnalysisDefs AnalysisProofs.
Import ListNotations.

(** One sweep over [es1 ++ es2] is the sweep over [es1] followed by the sweep over [es2] from the state the first
    one leaves; the equation lists concatenate and the progress flags are or-ed. *)
Lemma sweep_app : forall s nla es1 es2 st,
  sweep s nla st (es1 ++ es2) =
  let '(st1, r1, b1) := sweep s nla st es1 in
  let '(st2, r2, b2) := sweep s nla st1 es2 in
  (st2, r1 ++ r2, b1 || b2).
Proof.
  induction es1 as [|e r IH]; intros es2 st; simpl.
  - destruct (sweep s nla st es2) as [[st2 r2] b2]. reflexivity.
  - destruct (check s nla st e) as [[st1 e1] b].
    rewrite IH.
    destruct (sweep s nla st1 r) as [[st2 r1] b2].
    destruct (sweep s nla st2 es2) as [[st3 r2] b3].
    simpl. rewrite orb_assoc. reflexivity.
Qed.

(** Any two amounts of fuel on which the loop returns give the same result. *)
Lemma loop_fuel_deterministic : forall s f1 f2 loopn nla st es r1 r2,
  loop s f1 loopn nla st es = Some r1 -> loop s f2 loopn nla st es = Some r2 -> r1 = r2.
Proof.
  intros s f1 f2 loopn nla st es r1 r2 H1 H2.
  destruct (Nat.le_ge_cases f1 f2) as [L|L].
  - pose proof (loop_fuel_monotone _ _ _ _ _ _ _ H1 (f2 - f1)) as H.
    replace (f1 + (f2 - f1)) with f2 in H by lia. congruence.
  - pose proof (loop_fuel_monotone _ _ _ _ _ _ _ H2 (f1 - f2)) as H.
    replace (f2 + (f1 - f2)) with f1 in H by lia. congruence.
Qed.
