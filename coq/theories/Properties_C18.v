(** Properties_C18.v — statements only.  Each theorem is closed by [exact <lemma>] and followed by
    Print Assumptions.  C18: variable-equivalence queries agree with the connection graph, regardless
    of where the objects live in memory, of the order of the queries and of their repetition.

    Models: KeyDefs.v (cache keys, memo cache), GraphDefs.v (weak equivalence lists, the search,
    the construction API).  Vocabulary of the statements: EquivSpec.v. *)
From Coq Require Import List Arith Bool NArith Relations.
From LC Require Import KeyDefs GraphDefs EquivSpec KeyProofs GraphProofs EquivSeqProofs EquivRound5Proofs.
Import ListNotations.

(** *** 1. "regardless of where the objects happen to live in memory": the cache key *)

(** The pairing function the old comment appealed to is injective over the unbounded naturals. *)
Theorem C18_cantor_injective : forall a b c d : N, cantor a b = cantor c d -> sort2 a b = sort2 c d.
Proof. exact KeyProofs.cantor_injective. Qed.
Print Assumptions C18_cantor_injective.

(** Computed in uintptr_t (code before commit 00f1ed0) it is not: two different pairs of 16-aligned
    addresses below 2^47, all four inside a 7 MiB span, with the same key. *)
Theorem C18_key64_refuted :
  exists a b c d : N,
    (a mod 16 = 0 /\ b mod 16 = 0 /\ c mod 16 = 0 /\ d mod 16 = 0)%N /\
    (a < 2 ^ 47 /\ b < 2 ^ 47 /\ c < 2 ^ 47 /\ d < 2 ^ 47)%N /\
    (max4 a b c d - min4 a b c d < 7 * 2 ^ 20)%N /\
    sort2 a b <> sort2 c d /\
    key64 a b = key64 c d.
Proof. exact KeyProofs.key64_refuted. Qed.
Print Assumptions C18_key64_refuted.

Theorem C18_key64_not_injective : ~ inj_unordered key64.
Proof. exact KeyProofs.key64_not_injective. Qed.
Print Assumptions C18_key64_not_injective.

(** ... although it agrees with the true pairing while nothing wraps (so small examples never show it). *)
Theorem C18_key64_partial : forall a b : N, (a + b < 2 ^ 31)%N -> key64 a b = cantor a b.
Proof. exact KeyProofs.key64_small. Qed.
Print Assumptions C18_key64_partial.

(** The key of the current code (ordered pair of the two addresses) is injective on unordered pairs. *)
Theorem C18_pairkey_injective : inj_unordered pairkey.
Proof. exact KeyProofs.pairkey_injective. Qed.
Print Assumptions C18_pairkey_injective.

(** *** 2. "regardless of the order in which pairs are queried and of how often": the memo cache *)

(** For ANY key function injective on unordered pairs of addresses, any injective placement of the
    objects, any symmetric memoised function, any cache content that satisfies the invariant and
    any sequence of queries (any order, any repetition): the answers are the un-memoised ones. *)
Theorem C18_cache_correct :
  forall (V R K : Type) (addr : V -> N),
    (forall x y : V, addr x = addr y -> x = y) ->
    forall nkey : N -> N -> K, inj_unordered nkey ->
    forall compute : V -> V -> R, (forall a b : V, compute a b = compute b a) ->
    forall keqb : K -> K -> bool, (forall k k' : K, keqb k k' = true <-> k = k') ->
    forall (qs : list (V * V)) (c : cache K R),
      cache_inv (fun a b : V => nkey (addr a) (addr b)) compute c ->
      answers keqb (fun a b : V => nkey (addr a) (addr b)) compute c qs =
      map (fun q : V * V => compute (fst q) (snd q)) qs.
Proof. exact KeyProofs.cache_correct. Qed.
Print Assumptions C18_cache_correct.

Theorem C18_cache_history_independent :
  forall (V R K : Type) (addr : V -> N),
    (forall x y : V, addr x = addr y -> x = y) ->
    forall nkey : N -> N -> K, inj_unordered nkey ->
    forall compute : V -> V -> R, (forall a b : V, compute a b = compute b a) ->
    forall keqb : K -> K -> bool, (forall k k' : K, keqb k k' = true <-> k = k') ->
    forall (qs : list (V * V)) (a b : V),
      fst (query keqb (fun a0 b0 : V => nkey (addr a0) (addr b0)) compute
             (snd (run keqb (fun a0 b0 : V => nkey (addr a0) (addr b0)) compute [] qs)) a b) = compute a b.
Proof. exact KeyProofs.cache_history_independent. Qed.
Print Assumptions C18_cache_history_independent.

(** Conversely a single collision between two pairs with different answers makes the cache lie. *)
Theorem C18_collision_breaks_cache :
  forall (V K R : Type) (keqb : K -> K -> bool), (forall k k' : K, keqb k k' = true <-> k = k') ->
  forall (key : V -> V -> K) (compute : V -> V -> R) (a b c d : V),
    key a b = key c d -> compute a b <> compute c d ->
    answers keqb key compute [] [(a, b); (c, d)] = [compute a b; compute a b] /\
    answers keqb key compute [] [(a, b); (c, d)] <> map (fun q : V * V => compute (fst q) (snd q)) [(a, b); (c, d)].
Proof. exact KeyProofs.collision_breaks_cache. Qed.
Print Assumptions C18_collision_breaks_cache.

(** The old key on the witness addresses: variables 0~1 equivalent, 2 and 3 unrelated; (0,1) then
    (2,3) answers "equivalent" for (2,3).  The current key answers correctly. *)
Theorem C18_key64_cache_refuted :
  model_queries_key64 w_addr 4 w_graph [(0, 1); (2, 3)] = [Some true; Some true] /\
  are_equivalent 4 w_graph 2 3 = Some false /\
  model_queries w_addr 4 w_graph [(0, 1); (2, 3)] = [Some true; Some false].
Proof. exact GraphProofs.key64_cache_refuted. Qed.
Print Assumptions C18_key64_cache_refuted.

(** *** 3. The graph search (haveEquivalentVariables with the shared testedVariables vector) *)

(** Whatever the fuel, a result [true] is a chain from the argument to the receiver ... *)
Theorem C18_dfs_sound :
  forall (g : graph) (t fuel cur : nat) (T T' : list nat),
    dfs fuel g t cur T = Some (true, T') -> reach g cur t.
Proof. exact GraphProofs.dfs_sound. Qed.
Print Assumptions C18_dfs_sound.

(** ... and a result [false] of the outermost call means there is none. *)
Theorem C18_dfs_complete :
  forall (g : graph) (t fuel cur : nat) (T' : list nat),
    dfs fuel g t cur [] = Some (false, T') -> ~ reach g cur t.
Proof. exact GraphProofs.dfs_complete. Qed.
Print Assumptions C18_dfs_complete.

(** Fuel: as many units as the model has variables always produce a result (never [None]), so the
    two theorems above are not true "by exhaustion". *)
Theorem C18_dfs_fuel_enough :
  forall (g : graph) (t n : nat), bounded g n ->
  forall fuel cur : nat, cur < n -> n <= fuel ->
    exists (b : bool) (T' : list nat), dfs fuel g t cur [] = Some (b, T').
Proof. exact GraphProofs.dfs_fuel_enough. Qed.
Print Assumptions C18_dfs_fuel_enough.

Theorem C18_dfs_correct :
  forall (g : graph) (t n : nat), bounded g n ->
  forall fuel cur : nat, cur < n -> n <= fuel ->
    exists (b : bool) (T' : list nat),
      dfs fuel g t cur [] = Some (b, T') /\ (b = true <-> reach g cur t).
Proof. exact GraphProofs.dfs_correct. Qed.
Print Assumptions C18_dfs_correct.

(** *** 4. The query functions *)

(** hasEquivalentVariable(v, false): v is in the list enumerated by equivalentVariable(i). *)
Theorem C18_has_direct_iff : forall g a b, has_direct g a (Some b) = true <-> edge g a b.
Proof. exact GraphProofs.has_direct_iff. Qed.
Print Assumptions C18_has_direct_iff.

(** hasEquivalentVariable(v, true): a different variable linked by a chain of equivalences. *)
Theorem C18_has_equiv_iff_connected :
  forall g n fuel a b, symmetric g -> bounded g n -> b < n -> n <= fuel ->
    exists r, has_equivalent fuel g a (Some b) true = Some r /\ (r = true <-> a <> b /\ connected g a b).
Proof. exact GraphProofs.has_equiv_iff_connected. Qed.
Print Assumptions C18_has_equiv_iff_connected.

(** areEquivalentVariables (utilities.cpp): the same variable, or linked by a chain. *)
Theorem C18_are_equiv_iff_same_or_connected :
  forall g n fuel a b, symmetric g -> bounded g n -> b < n -> n <= fuel ->
    exists r, are_equivalent fuel g a b = Some r /\ (r = true <-> a = b \/ connected g a b).
Proof. exact GraphProofs.are_equiv_iff_same_or_connected. Qed.
Print Assumptions C18_are_equiv_iff_same_or_connected.

Theorem C18_fuel_irrelevant :
  forall g n f1 f2 a b, symmetric g -> bounded g n -> b < n -> n <= f1 -> n <= f2 ->
    are_equivalent f1 g a b = are_equivalent f2 g a b.
Proof. exact GraphProofs.are_equivalent_fuel_irrelevant. Qed.
Print Assumptions C18_fuel_irrelevant.

(** AnalyserModel::areEquivalentVariables with the current key: for every placement of the objects
    at distinct addresses and every history of queries, the i-th answer is "same or connected". *)
Theorem C18_model_queries_connected :
  forall (addr : nat -> N) g n fuel qs,
    (forall x y, addr x = addr y -> x = y) ->
    symmetric g -> bounded g n -> n <= fuel -> in_range n qs ->
    forall i a b, nth_error qs i = Some (a, b) ->
      exists r, nth_error (model_queries addr fuel g qs) i = Some (Some r) /\
                (r = true <-> a = b \/ connected g a b).
Proof. exact GraphProofs.model_queries_connected. Qed.
Print Assumptions C18_model_queries_connected.

(** *** 5. "for every model": graphs built by any history of addEquivalence, removeEquivalence,
    removeAllEquivalences and variable destruction *)

(** The construction API keeps the weak lists symmetric and inside the model. *)
Theorem C18_build_symmetric :
  forall n ops, Forall (op_below n) ops ->
    (dead_empty (build ops) /\ symmetric (build ops)) /\ bounded (build ops) n.
Proof. exact GraphProofs.build_inv. Qed.
Print Assumptions C18_build_symmetric.

(** End to end, no hypothesis on the graph left: all three queries on every constructible graph. *)
Theorem C18_built_queries_correct :
  forall n ops, Forall (op_below n) ops ->
    let g := freeze n (build ops) in
    (forall a b, b < n ->
       exists r, has_equivalent n g a (Some b) true = Some r /\ (r = true <-> a <> b /\ connected g a b)) /\
    (forall a b, has_equivalent n g a (Some b) false = Some true <-> edge g a b) /\
    (forall (addr : nat -> N) qs, (forall x y, addr x = addr y -> x = y) -> in_range n qs ->
       forall i a b, nth_error qs i = Some (a, b) ->
         exists r, nth_error (model_queries addr n g qs) i = Some (Some r) /\ (r = true <-> a = b \/ connected g a b)).
Proof. exact GraphProofs.built_queries_correct. Qed.
Print Assumptions C18_built_queries_correct.

(** *** 6. Histories: edits of the graph (addEquivalence, removeEquivalence, removeAllEquivalences,
    destruction) interleaved with questions through all four query functions *)

(** Every edit keeps the weak lists well-formed (symmetric, duplicate-free, no variable lists itself, a
    destroyed variable has no list) and changes the connection graph exactly as [spec_edge] says. *)
Theorem C18_step_wf : forall g o, wf g ->
  wf (step g o) /\ (forall x y, edge (step g o) x y <-> spec_edge g o x y).
Proof. exact GraphProofs.step_wf. Qed.
Print Assumptions C18_step_wf.

(** For EVERY history of edits and questions over the variables of a model, starting from the model
    without equivalences: the list of answers is, question by question, the right answer on the graph
    as it is when the question is asked ([graph_trace]: the edits so far applied) - never an answer
    about an earlier graph.  [answered (g,k,a,b) r]: r is [Some r0] (no fuel exhaustion) and r0 is
    "different and connected in g" / "listed in g" / "same or connected in g" according to k. *)
Theorem C18_history_correct : forall n h, Forall (event_below n) h ->
  Forall2 answered (graph_trace n empty_graph h) (run_history n empty_graph [] h).
Proof. exact GraphProofs.history_correct. Qed.
Print Assumptions C18_history_correct.

(** The graphs of the trace evolve by [spec_edge], stay well-formed and inside the model, and
    destroyed variables stay destroyed. *)
Theorem C18_history_step_edges : forall n g o, wf g -> bounded g n -> op_below n o ->
  (wf (freeze n (step g o)) /\ bounded (freeze n (step g o)) n) /\
  (forall x y, edge (freeze n (step g o)) x y <-> spec_edge g o x y) /\
  (forall x, alive (freeze n (step g o)) x = true -> alive g x = true).
Proof. exact GraphProofs.history_step_edges. Qed.
Print Assumptions C18_history_step_edges.

(** Non-vacuity of the history theorem, on the scenario a per-variable memo gets wrong: chain 0-1-2-3,
    ask (0,3); remove the remote link 1-2, ask again; put it back; clear variable 2. *)
Example C18_history_nonvacuous :
  run_history 4 empty_graph [] ex_history =
    [Some true; Some true; Some false; Some false; Some false; Some true; Some true; Some true;
     Some false; Some true; Some false] /\
  Forall (event_below 4) ex_history.
Proof. exact GraphProofs.history_nonvacuous. Qed.
Print Assumptions C18_history_nonvacuous.

(** *** 7. Identifiers play no part: any interleaving of identifier operations (4-argument addEquivalence,
    set / remove mapping and connection identifiers on direct, indirect or unrelated pairs, printing and
    re-parsing the model) can be deleted from a history without changing a single answer. *)
Theorem C18_ids_irrelevant : forall n h, Forall (event_below n) h ->
  run_history n empty_graph [] h = run_history n empty_graph [] (strip_ids h).
Proof. exact GraphProofs.ids_irrelevant. Qed.
Print Assumptions C18_ids_irrelevant.

Example C18_ids_nonvacuous :
  run_history 3 empty_graph [] ex_id_history =
    [Some true; Some false; Some false; Some false; Some false; Some false] /\
  Forall (event_below 3) ex_id_history /\
  strip_ids ex_id_history =
    [Edit (AddEq 0 1); Edit (AddEq 1 2); Ask QIndirect 0 2; Edit (RemEq 1 2);
     Ask QIndirect 0 2; Ask QIndirect 2 0; Ask QCached 0 2; Edit (RemAll 0); Ask QIndirect 0 1; Ask QUtil 1 0].
Proof. exact GraphProofs.ids_nonvacuous. Qed.
Print Assumptions C18_ids_nonvacuous.

(** *** 8. The analyser's own use of the cache: ANY finite sequence of areEquivalentVariables queries (any pairs,
    any order, any repetition) against a fixed connection graph, from the empty cache of a new AnalyserModel.
    [seq_run] folds the model's [query] over the list (it is [model_queries], second theorem);
    [cache_consistent n g c]: every entry of c is the right answer for a pair of variables of the model that has
    that key; [right_answer g a b r]: r = Some r0 with r0 = true <-> a = b \/ connected g a b. *)
Theorem C18_any_query_sequence_consistent :
  forall n g qs, symmetric g -> bounded g n -> in_range n qs ->
  forall k,
    cache_consistent n g (fst (seq_run n g (firstn k qs))) /\
    Forall2 (fun q r => right_answer g (fst q) (snd q) r) (firstn k qs) (snd (seq_run n g (firstn k qs))).
Proof. exact EquivSeqProofs.any_query_sequence_consistent. Qed.
Print Assumptions C18_any_query_sequence_consistent.

Theorem C18_seq_run_is_model_queries :
  forall n g qs, snd (seq_run n g qs) = model_queries heap_addr n g qs.
Proof. exact EquivSeqProofs.seq_run_is_model_queries. Qed.
Print Assumptions C18_seq_run_is_model_queries.

(** After any two histories of queries the same question gets the same answer, and it is the right one. *)
Theorem C18_answers_history_independent :
  forall n g qs1 qs2 a b, symmetric g -> bounded g n ->
  in_range n qs1 -> in_range n qs2 -> a < n -> b < n ->
  fst (query pair_eqb (model_key heap_addr) (are_equivalent n g) (fst (seq_run n g qs1)) a b) =
  fst (query pair_eqb (model_key heap_addr) (are_equivalent n g) (fst (seq_run n g qs2)) a b) /\
  right_answer g a b (fst (query pair_eqb (model_key heap_addr) (are_equivalent n g) (fst (seq_run n g qs1)) a b)).
Proof. exact EquivSeqProofs.answers_history_independent. Qed.
Print Assumptions C18_answers_history_independent.

Example C18_seq_nonvacuous :
  snd (seq_run 4 ex_seq_graph ex_seq) = [Some true; Some true; Some false; Some true; Some true] /\
  length (fst (seq_run 4 ex_seq_graph ex_seq)) = 3 /\
  symmetric ex_seq_graph /\ bounded ex_seq_graph 4 /\ in_range 4 ex_seq.
Proof. exact EquivSeqProofs.seq_nonvacuous. Qed.
Print Assumptions C18_seq_nonvacuous.

(** *** 9. Structural laws of the memo cache, for EVERY key function (injective or not), every memoised
    function and every starting cache (std::map with find-before-emplace). *)

(** Composition: a history of queries cut anywhere is the first part followed by the second part run on the
    cache the first part left. *)
Theorem C18_cache_run_app :
  forall (V K R : Type) (keqb : K -> K -> bool) (key : V -> V -> K) (compute : V -> V -> R)
         (qs1 qs2 : list (V * V)) (c : cache K R),
    run keqb key compute c (qs1 ++ qs2) =
    (fst (run keqb key compute c qs1) ++ fst (run keqb key compute (snd (run keqb key compute c qs1)) qs2),
     snd (run keqb key compute (snd (run keqb key compute c qs1)) qs2)).
Proof. exact EquivRound5Proofs.run_app. Qed.
Print Assumptions C18_cache_run_app.

(** An entry once stored answers the same for ever: no later query overwrites or shadows it. *)
Theorem C18_cache_entries_stable :
  forall (V K R : Type) (keqb : K -> K -> bool), (forall k k' : K, keqb k k' = true <-> k = k') ->
  forall (key : V -> V -> K) (compute : V -> V -> R) (qs : list (V * V)) (c : cache K R) (k : K) (r : R),
    lookup keqb k c = Some r -> lookup keqb k (snd (run keqb key compute c qs)) = Some r.
Proof. exact EquivRound5Proofs.run_entries_stable. Qed.
Print Assumptions C18_cache_entries_stable.

(** The association list stays a map (no key twice) and grows by at most one entry per query. *)
Theorem C18_cache_keys_nodup :
  forall (V K R : Type) (keqb : K -> K -> bool), (forall k k' : K, keqb k k' = true <-> k = k') ->
  forall (key : V -> V -> K) (compute : V -> V -> R) (qs : list (V * V)) (c : cache K R),
    NoDup (map fst c) ->
    NoDup (map fst (snd (run keqb key compute c qs))) /\
    length c <= length (snd (run keqb key compute c qs)) <= length c + length qs.
Proof. exact EquivRound5Proofs.run_keys_nodup. Qed.
Print Assumptions C18_cache_keys_nodup.

(** Non-vacuity: chain 0-1-2, 3 isolated, 4 linked then destroyed; too little fuel is [None], not [false]. *)
Example C18_nonvacuous :
  let g := freeze 5 (build ex_ops) in
  has_equivalent 5 g 0 (Some 2) true = Some true /\ has_equivalent 5 g 0 (Some 2) false = Some false /\
  has_equivalent 5 g 0 (Some 3) true = Some false /\ has_equivalent 5 g 0 (Some 0) true = Some false /\
  are_equivalent 5 g 0 0 = Some true /\ eqv g 2 = [1] /\
  connected g 0 2 /\ Forall (op_below 5) ex_ops /\
  dfs 2 g 0 2 [] = None.
Proof. exact GraphProofs.nonvacuous. Qed.
Print Assumptions C18_nonvacuous.
