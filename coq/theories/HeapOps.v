(** HeapOps.v — C09: what the building blocks of [step] (repaired code, [fixed = true]) do to the invariant. *)
From Coq Require Import List String Bool Arith PeanoNat Lia Relations.
From LC Require Import HeapDefs HeapBase HeapInv.
Import ListNotations.

Lemma inv_ext : forall s s', (forall y, getd s' y = getd s y) -> Inv s -> Inv s'.
Proof.
  intros s s' E I. apply inv_transport with (s := s); auto.
  - intros K k. unfold children. rewrite E. reflexivity.
  - intros y. unfold parent_of. rewrite E. reflexivity.
  - intros y. unfold kindd. rewrite E. reflexivity.
  - intros a b. unfold eqs_of. rewrite !E. apply (inv_eq s I).
  - intros a. unfold eqs_of. rewrite E. apply (inv_en s I).
Qed.

Section Ops.
  Variable seq : state -> nat -> nat -> bool.

  (* ---------------------------------------------------------------------------------------------- hasAncestor *)

  Lemma has_ancestor_false : forall s f x a, has_ancestor s f x a = Some false -> ~ anc s x a.
  Proof.
    intros s f. induction f as [|f IH]; intros x a H Hanc; cbn in H; [discriminate|].
    destruct (parent_of s x) as [p|] eqn:E.
    - destruct (Nat.eqb_spec p a) as [->|Hne]; [discriminate|].
      inversion Hanc as [y Hxy|y z Hxy Hyz]; subst; unfold par in Hxy; rewrite E in Hxy; inversion Hxy; subst.
      + contradiction.
      + eapply IH; eauto.
    - destruct (anc_first _ _ _ Hanc) as [p Hp]. unfold par in Hp. congruence.
  Qed.

  Lemma has_ancestor_true : forall s f x a, has_ancestor s f x a = Some true -> anc s x a.
  Proof.
    intros s f. induction f as [|f IH]; intros x a H; cbn in H; [discriminate|].
    destruct (parent_of s x) as [p|] eqn:E; [|discriminate].
    destruct (Nat.eqb_spec p a) as [->|Hne].
    - apply t1n_step. exact E.
    - eapply Relation_Operators.t1n_trans; [exact E|]. apply IH. assumption.
  Qed.

  (* ---------------------------------------------------------------------------------------------- detach *)

  Lemma detach_at_spec : forall s K k i s' x,
    detach_at s K k i = Some (s', x) -> nth_error (children s K k) i = Some x /\ s' = detached s K k i x.
  Proof.
    intros s K k i s' x H. unfold detach_at in H. destruct (nth_error (children s K k) i) as [y|] eqn:E; [|discriminate].
    inversion H; subst. split; reflexivity.
  Qed.

  Lemma detach_at_none : forall s K k i, detach_at s K k i = None -> nth_error (children s K k) i = None.
  Proof.
    intros s K k i H. unfold detach_at in H. destruct (nth_error (children s K k) i); [discriminate|reflexivity].
  Qed.

  Lemma detached_members : forall s K k i x, Inv s -> nth_error (children s K k) i = Some x ->
    forall K' k' y, In y (children (detached s K k i x) K' k') <-> In y (children s K' k') /\ y <> x.
  Proof.
    intros s K k i x I Hn K' k' y.
    assert (Hin : In x (children s K k)) by (eapply nth_error_In; eauto).
    assert (Hk : inr s k) by (eapply children_inr; eauto).
    rewrite detached_children by assumption.
    destruct (Nat.eqb_spec k k') as [<-|Hkk]; cbn.
    - destruct (ck_eqb K K') eqn:EK.
      + apply ck_eqb_eq in EK. subst K'. split.
        * intros H. split; [eapply remove_nth_in; eauto|]. intros ->. eapply remove_nth_notin; eauto. apply (inv_nd s I).
        * intros [H Hne]. eapply remove_nth_keeps; eauto.
      + split; [|tauto]. intros H. split; [assumption|]. intros ->.
        destruct (inv_unique s I _ _ _ _ _ Hin H) as [E _]. subst. rewrite ck_eqb_refl in EK. discriminate.
    - split; [|tauto]. intros H. split; [assumption|]. intros ->.
      destruct (inv_unique s I _ _ _ _ _ Hin H) as [_ E]. contradiction.
  Qed.

  Lemma detached_handles : forall s K k i x, handles (detached s K k i x) = handles s.
  Proof. reflexivity. Qed.

  (* ---------------------------------------------------------------------------------------------- lookup by pointer *)

  Lemma find_child_spec : forall s K k x i,
    find_child true seq s K k x = Some i ->
    exists y, nth_error (children s K k) i = Some y /\ (In x (children s K k) -> y = x).
  Proof.
    intros s K k x i H. unfold find_child in H. cbn [orb] in H.
    destruct (index_of x (children s K k)) as [j|] eqn:E.
    - inversion H; subst. exists x. split; [apply index_of_some; assumption|auto].
    - apply find_index_some in H. destruct H as [y [Hy _]]. exists y. split; [assumption|].
      intros Hin. exfalso. eapply index_of_none; eauto.
  Qed.

  Lemma find_child_in : forall s K k x, In x (children s K k) ->
    exists i, find_child true seq s K k x = Some i /\ nth_error (children s K k) i = Some x.
  Proof.
    intros s K k x Hin. destruct (index_of_in _ _ Hin) as [i Hi]. exists i. unfold find_child. cbn [orb].
    rewrite Hi. split; [reflexivity|apply index_of_some; assumption].
  Qed.

  Lemma remove_ptr_local_spec : forall s K k x s',
    remove_ptr_local true seq s K k x = Some s' ->
    exists i y, nth_error (children s K k) i = Some y /\ s' = detached s K k i y /\ (In x (children s K k) -> y = x).
  Proof.
    intros s K k x s' H. unfold remove_ptr_local in H. cbn [orb] in H.
    destruct (find_child true seq s K k x) as [i|] eqn:E; [|discriminate].
    destruct (find_child_spec _ _ _ _ _ E) as [y [Hy Hx]].
    unfold detach_at in H. rewrite Hy in H. cbn in H. inversion H; subst. exists i, y. auto.
  Qed.

  Lemma remove_ptr_local_in : forall s K k x, In x (children s K k) ->
    exists i, nth_error (children s K k) i = Some x /\ remove_ptr_local true seq s K k x = Some (detached s K k i x).
  Proof.
    intros s K k x Hin. destruct (find_child_in _ _ _ _ Hin) as [i [Hf Hn]]. exists i. split; [assumption|].
    unfold remove_ptr_local. cbn [orb]. rewrite Hf. unfold detach_at. rewrite Hn. reflexivity.
  Qed.

  (* ---------------------------------------------------------------------------------------------- leaving a parent *)

  Definition left_state (s s1 : state) (x : nat) : Prop :=
    Inv s1 /\ parent_of s1 x = None /\ (forall y, y <> x -> parent_of s1 y = parent_of s y) /\
    (forall K' k' y, In y (children s1 K' k') <-> In y (children s K' k') /\ y <> x) /\
    same_shape s s1 /\ handles s1 = handles s /\ (forall y, eqs_of s1 y = eqs_of s y).

  Lemma leave_parent_spec : forall s K x keep, Inv s -> kindd s x = child_kind K ->
    (exists p, parent_of s x = Some p /\ keep = Some p /\ leave_parent true seq s K x keep = s) \/
    left_state s (leave_parent true seq s K x keep) x.
  Proof.
    intros s K x keep I Hk. unfold leave_parent. destruct (parent_of s x) as [p|] eqn:E.
    - destruct (oeqb (Some p) keep) eqn:EK.
      + left. exists p. destruct keep as [q|]; cbn in EK; [|discriminate]. apply Nat.eqb_eq in EK. subst. auto.
      + right. destruct (inv_ln s I _ _ E) as [K' HK'].
        assert (K' = K). { apply child_kind_inj. destruct (inv_ty s I _ _ _ HK') as [A _]. congruence. } subst K'.
        destruct (remove_ptr_local_in _ _ _ _ HK') as [i [Hn ->]].
        assert (Hx : inr s x) by (eapply parent_inr; eauto).
        unfold left_state. split; [|split; [|split; [|split; [|split; [|split]]]]].
        * apply detached_inv; assumption.
        * rewrite detached_parent by assumption. rewrite Nat.eqb_refl. reflexivity.
        * intros y Hy. rewrite detached_parent by assumption. destruct (Nat.eqb_spec x y); [congruence|reflexivity].
        * apply detached_members; assumption.
        * apply detached_shape.
        * reflexivity.
        * intros y. apply detached_eqs.
    - right. unfold left_state. split; [|split; [|split; [|split; [|split; [|split]]]]]; auto.
      + intros K' k' y. split; [|tauto]. intros H. split; [assumption|]. intros ->.
        apply (inv_cp s I) in H. congruence.
      + apply same_shape_refl.
  Qed.

  (* ---------------------------------------------------------------------------------------------- attach *)

  Lemma attach_inv : forall s K k c,
    Inv s -> inr s k -> lists (kindd s k) K = true -> inr s c -> kindd s c = child_kind K ->
    ~ In c (children s K k) -> c <> k -> ~ anc s k c ->
    Inv (attach true seq s K k c).
  Proof.
    intros s K k c I Hk Hlk Hc Hkc Hni Hne Hanc. unfold attach.
    destruct (leave_parent_spec s K c (Some k) I Hkc) as [[p [Hp [Hkp _]]]|L].
    - exfalso. inversion Hkp; subst p. destruct (inv_ln s I _ _ Hp) as [K' HK'].
      assert (K' = K). { apply child_kind_inj. destruct (inv_ty s I _ _ _ HK') as [A _]. congruence. } subst K'. contradiction.
    - set (s1 := leave_parent true seq s K c (Some k)) in *.
      destruct L as [I1 [P1 [PO [M1 [[SL SK] [_ _]]]]]].
      assert (Hk1 : inr s1 k) by (unfold inr; rewrite SL; exact Hk).
      assert (Hc1 : inr s1 c) by (unfold inr; rewrite SL; exact Hc).
      assert (E : push_child (set_parent_of s1 c (Some k)) K k c = attached s1 K k c (children s1 K k ++ [c])).
      { unfold push_child, attached. rewrite children_set_parent_of. reflexivity. }
      rewrite E. apply attached_inv; auto.
      + rewrite SK. assumption.
      + rewrite SK. assumption.
      + apply app_one_nodup; [apply (inv_nd s1 I1)|]. intros H. apply M1 in H. tauto.
      + intros y. rewrite in_app_iff. cbn. intuition.
      + intros H. apply Hanc. eapply anc_mono; [|exact H]. intros a p Hp. unfold par in *.
        destruct (Nat.eq_dec a c) as [->|Hac]; [congruence|]. rewrite PO in Hp by assumption. exact Hp.
  Qed.

  Lemma lists_leaf : forall K, K <> CComps -> forall K', lists (child_kind K) K' = false.
  Proof. intros K H K'. destruct K, K'; cbn; try reflexivity; contradiction. Qed.

  Lemma no_anc_leaf : forall s K k c, Inv s -> K <> CComps -> kindd s c = child_kind K -> ~ anc s k c.
  Proof.
    intros s K k c I HK Hc. apply inv_leaf_no_desc; [assumption|]. intros K'. rewrite Hc. apply lists_leaf. assumption.
  Qed.

  Lemma no_anc_model : forall s k c, Inv s -> kindd s k = KModel -> ~ anc s k c.
  Proof.
    intros s k c I Hk H. destruct (anc_first _ _ _ H) as [p Hp]. unfold par in Hp.
    rewrite (inv_model_root s I k Hk) in Hp. discriminate.
  Qed.

  Lemma lister_not_leaf : forall s K k c, K <> CComps -> lists (kindd s k) K = true -> kindd s c = child_kind K -> c <> k.
  Proof.
    intros s K k c HK Hl Hc ->. rewrite Hc in Hl. rewrite lists_leaf in Hl by assumption. discriminate.
  Qed.

  (** extensional reordering of two field updates *)
  Lemma getd_set_parent_children : forall s K k l x p y,
    getd (set_parent_of (set_children s K k l) x p) y = getd (set_children (set_parent_of s x p) K k l) y.
  Proof.
    intros. unfold set_parent_of, set_children. rewrite !getd_upd, !length_upd.
    destruct (Nat.eqb x y && Nat.ltb x (List.length (objs s))); destruct (Nat.eqb k y && Nat.ltb k (List.length (objs s)));
      try reflexivity. destruct K; reflexivity.
  Qed.

  (* ---------------------------------------------------------------------------------------------- replace *)

  Lemma replace_at_inv : forall s K k io c s' b,
    Inv s -> inr s c -> kindd s c = child_kind K ->
    replace_at true seq s K k io (Some c) = LDone (s', b) -> Inv s'.
  Proof.
    intros s K k io c s' b I Hc Hkc H. unfold replace_at in H.
    destruct io as [i|]; [|discriminate].
    destruct (nth_error (children s K k) i) as [old|] eqn:Hn; [|discriminate].
    assert (Hold : In old (children s K k)) by (eapply nth_error_In; eauto).
    assert (Hk : inr s k) by (eapply children_inr; eauto).
    destruct (inv_ty s I _ _ _ Hold) as [Hko Hlk].
    assert (Hpo : parent_of s old = Some k) by (eapply inv_cp; eauto).
    assert (Epold : (if ck_eqb K CComps then parent_of s old else Some k) = Some k) by (destruct (ck_eqb K CComps); auto).
    rewrite Epold in H. clear Epold.
    destruct (ck_eqb K CComps && Nat.eqb c k) eqn:Eself; [discriminate|].
    destruct (if ck_eqb K CComps then has_ancestor s (fuel_of s) k c else Some false) as [[|]|] eqn:Ha; try discriminate.
    destruct (Nat.eqb_spec old c) as [->|Hoc].
    { inversion H; subst. assumption. }
    (* side conditions on cycles *)
    assert (Hne : c <> k).
    { destruct (ck_eqb K CComps) eqn:EK.
      - cbn in Eself. apply Nat.eqb_neq in Eself. assumption.
      - eapply lister_not_leaf; eauto. intros ->. discriminate. }
    assert (Hanc : ~ anc s k c).
    { destruct (ck_eqb K CComps) eqn:EK.
      - eapply has_ancestor_false; eauto.
      - eapply no_anc_leaf; eauto. intros ->. discriminate. }
    (* the replacement leaves whatever holds it *)
    destruct (leave_parent_spec s K c None I Hkc) as [[p [_ [Hkp _]]]|L]; [discriminate|].
    set (s1 := leave_parent true seq s K c None) in *.
    destruct L as [I1 [P1 [PO [M1 [[SL SK] [_ _]]]]]].
    assert (Hold1 : In old (children s1 K k)) by (apply M1; split; assumption).
    assert (Hj : forall j, (match parent_of s c with Some _ => index_of old (children s1 K k) | None => Some i end) = Some j ->
                           nth_error (children s1 K k) j = Some old).
    { intros j Hj. destruct (parent_of s c) eqn:Epc.
      - apply index_of_some. assumption.
      - inversion Hj; subst j. subst s1. unfold leave_parent. rewrite Epc. assumption. }
    destruct (match parent_of s c with Some _ => index_of old (children s1 K k) | None => Some i end) as [j|] eqn:Ej.
    2:{ inversion H; subst. assumption. }
    specialize (Hj j eq_refl).
    unfold replace_core, detach_at in H. rewrite Hj in H. inversion H; subst s' b. clear H.
    fold (detached s1 K k j old).
    pose proof (detached_inv s1 K k j old I1 Hj) as I2.
    pose proof (detached_members s1 K k j old I1 Hj) as M2.
    destruct (detached_shape s1 K k j old) as [SL2 SK2].
    assert (Hold1x : inr s1 old) by (unfold inr; rewrite SL; eapply parent_inr; eauto).
    pose proof (fun y => detached_parent s1 K k j old y Hold1x) as P2.
    remember (detached s1 K k j old) as s2 eqn:Es2. clear Es2.
    eapply inv_ext.
    { intros y. unfold insert_child. apply getd_set_parent_children. }
    fold (attached s2 K k c (insert_nth j c (children s2 K k))).
    apply attached_inv; auto.
    - unfold inr. rewrite SL2, SL. exact Hk.
    - unfold inr. rewrite SL2, SL. exact Hc.
    - rewrite P2. destruct (Nat.eqb_spec old c); [contradiction|assumption].
    - rewrite SK2, SK. assumption.
    - rewrite SK2, SK. assumption.
    - apply insert_nth_nodup; [apply (inv_nd s2 I2)|]. intros Hin. apply M2 in Hin. destruct Hin as [Hin _].
      apply M1 in Hin. tauto.
    - intros y. apply insert_nth_in.
    - intros Hk2. apply Hanc. eapply anc_mono; [|exact Hk2]. intros a p Hp. unfold par in *.
      rewrite P2 in Hp.
      destruct (Nat.eqb old a); [discriminate|].
      destruct (Nat.eq_dec a c) as [->|Hac]; [congruence|]. rewrite PO in Hp by assumption. exact Hp.
  Qed.

  Lemma replace_at_null : forall s K k io, replace_at true seq s K k io None = LRefused \/ False.
  Proof.
    intros. left. unfold replace_at. destruct io; [|reflexivity]. destruct (nth_error (children s K k) n); reflexivity.
  Qed.

  (* ---------------------------------------------------------------------------------------------- deep search *)

  Lemma deep_done : forall {A} fuel s (f : nat -> local A) k a,
    deep fuel s f k = LDone a -> exists k', f k' = LDone a.
  Proof.
    intros A fuel s f. induction fuel as [|fu IH]; intros k a H; cbn [deep] in H; [discriminate|].
    revert H. generalize (children s CComps k). intros l. induction l as [|c t IHl]; intros H; cbn in H; [discriminate|].
    destruct (f c) as [a'| |] eqn:Ef.
    - inversion H; subst. eauto.
    - destruct (deep fu s f c) as [a'| |] eqn:Ed.
      + inversion H; subst. eapply IH; eauto.
      + apply IHl. assumption.
      + discriminate.
    - discriminate.
  Qed.

  Lemma with_deep_done : forall {A} s dp (f : nat -> local A) k a,
    with_deep s dp f k = LDone a -> exists k', f k' = LDone a.
  Proof.
    intros A s dp f k a H. unfold with_deep in H. destruct (f k) as [a'| |] eqn:Ef.
    - inversion H; subst. eauto.
    - destruct dp; [|discriminate]. eapply deep_done; eauto.
    - discriminate.
  Qed.

  (* ---------------------------------------------------------------------------------------------- equivalences *)

  Lemma remove_first_iff : forall x l y, NoDup l -> (In y (remove_first x l) <-> In y l /\ y <> x).
  Proof.
    intros x l y Hnd. unfold remove_first. destruct (index_of x l) as [i|] eqn:E.
    - apply index_of_some in E. split.
      + intros H. split; [eapply remove_nth_in; eauto|]. intros ->. eapply remove_nth_notin; eauto.
      + intros [H Hne]. eapply remove_nth_keeps; eauto.
    - split; [|tauto]. intros H. split; [assumption|]. intros ->. eapply index_of_none; eauto.
  Qed.

  Lemma remove_first_nodup : forall x l, NoDup l -> NoDup (remove_first x l).
  Proof. intros x l H. unfold remove_first. destruct (index_of x l); [apply remove_nth_nodup|]; assumption. Qed.

  (** states that differ from [s] only in equivalence lists *)
  Definition eq_edit (s s' : state) : Prop :=
    (forall K k, children s' K k = children s K k) /\ (forall y, parent_of s' y = parent_of s y) /\
    (forall y, kindd s' y = kindd s y) /\ List.length (objs s') = List.length (objs s) /\ handles s' = handles s.

  Lemma eq_edit_refl : forall s, eq_edit s s.
  Proof. intros s. repeat split; auto. Qed.

  Lemma eq_edit_trans : forall a b c, eq_edit a b -> eq_edit b c -> eq_edit a c.
  Proof.
    intros a b c [C1 [P1 [K1 [L1 H1]]]] [C2 [P2 [K2 [L2 H2]]]]. repeat split; intros; congruence.
  Qed.

  Lemma eq_edit_set : forall s x l, eq_edit s (set_eqs_of s x l).
  Proof.
    intros. repeat split; intros.
    - apply children_set_eqs_of.
    - apply parent_set_eqs_of.
    - unfold kindd. apply kind_set_eqs_of.
    - apply length_set_eqs_of.
  Qed.

  Lemma eq_edit_inv : forall s s', Inv s -> eq_edit s s' ->
    (forall a b, In b (eqs_of s' a) -> In a (eqs_of s' b)) -> (forall a, NoDup (eqs_of s' a)) -> Inv s'.
  Proof. intros s s' I [C [P [K _]]] E N. eapply inv_transport; eauto. Qed.

  Lemma set_equiv_to_spec : forall s a b s' r, inr s a -> set_equiv_to s a b = (s', r) ->
    eq_edit s s' /\
    (forall z y, In y (eqs_of s' z) <-> In y (eqs_of s z) \/ (r = true /\ z = a /\ y = b)) /\
    (r = negb (memb b (eqs_of s a))) /\
    ((forall z, NoDup (eqs_of s z)) -> forall z, NoDup (eqs_of s' z)).
  Proof.
    intros s a b s' r Ha H. unfold set_equiv_to in H. destruct (memb b (eqs_of s a)) eqn:M; inversion H; subst; clear H.
    - repeat split; auto; try tauto. intros [?|[? _]]; [assumption|discriminate].
    - apply memb_false in M. repeat split; try apply eq_edit_set.
      + intros Hy. rewrite eqs_set_eqs_of in Hy. rewrite (ltb_inr _ _ Ha), andb_true_r in Hy.
        destruct (Nat.eqb_spec a z) as [<-|Hne]; [|left; assumption].
        apply in_app_iff in Hy. destruct Hy as [Hy|[<-|[]]]; [left; assumption|right; auto].
      + intros Hy. rewrite eqs_set_eqs_of. rewrite (ltb_inr _ _ Ha), andb_true_r.
        destruct (Nat.eqb_spec a z) as [<-|Hne].
        * apply in_app_iff. destruct Hy as [Hy|[_ [_ ->]]]; [left; assumption|right; left; reflexivity].
        * destruct Hy as [Hy|[_ [E _]]]; [assumption|congruence].
      + intros N z. rewrite eqs_set_eqs_of. destruct (Nat.eqb a z && Nat.ltb a (List.length (objs s))) eqn:Ez; [|apply N].
        apply app_one_nodup; [apply N|assumption].
  Qed.

  Lemma unset_equiv_to_spec : forall s a b s' r, (forall z, NoDup (eqs_of s z)) -> unset_equiv_to s a b = (s', r) ->
    eq_edit s s' /\
    (forall z y, In y (eqs_of s' z) <-> In y (eqs_of s z) /\ ~ (z = a /\ y = b)) /\
    (r = memb b (eqs_of s a)) /\
    (forall z, NoDup (eqs_of s' z)).
  Proof.
    intros s a b s' r N H. unfold unset_equiv_to in H. destruct (memb b (eqs_of s a)) eqn:M; inversion H; subst; clear H.
    - assert (Ha : inr s a).
      { apply memb_true in M. destruct (Nat.lt_ge_cases a (List.length (objs s))) as [L|G]; [exact L|].
        unfold eqs_of in M. rewrite getd_oob in M; [destruct M|unfold inr; lia]. }
      repeat split; try apply eq_edit_set.
      + rewrite eqs_set_eqs_of in H. rewrite (ltb_inr _ _ Ha), andb_true_r in H.
        destruct (Nat.eqb_spec a z) as [<-|Hne]; [|assumption]. apply remove_first_iff in H; [tauto|apply N].
      + rewrite eqs_set_eqs_of in H. rewrite (ltb_inr _ _ Ha), andb_true_r in H.
        destruct (Nat.eqb_spec a z) as [<-|Hne]; [|intros [E _]; congruence].
        apply remove_first_iff in H; [|apply N]. intros [_ E]. tauto.
      + intros [Hy Hn]. rewrite eqs_set_eqs_of. rewrite (ltb_inr _ _ Ha), andb_true_r.
        destruct (Nat.eqb_spec a z) as [<-|Hne]; [|assumption]. apply remove_first_iff; [apply N|]. split; [assumption|].
        intros ->. apply Hn. auto.
      + intros z. rewrite eqs_set_eqs_of. destruct (Nat.eqb a z && Nat.ltb a (List.length (objs s))); [|apply N].
        apply remove_first_nodup. apply N.
    - apply memb_false in M. repeat split; auto; try tauto.
      intros [-> ->]. contradiction.
  Qed.

  Lemma add_equivalence_inv : forall s a b s' r, Inv s -> inr s a -> inr s b ->
    add_equivalence s a b = (s', r) -> Inv s' /\ eq_edit s s'.
  Proof.
    intros s a b s' r I Ha Hb H. unfold add_equivalence in H.
    destruct (set_equiv_to s a b) as [s1 can1] eqn:E1.
    destruct (set_equiv_to_spec _ _ _ _ _ Ha E1) as [D1 [M1 [R1 N1]]].
    assert (Hb1 : inr s1 b) by (unfold inr; destruct D1 as [_ [_ [_ [L _]]]]; rewrite L; exact Hb).
    destruct (set_equiv_to s1 b a) as [s2 can2] eqn:E2.
    destruct (set_equiv_to_spec _ _ _ _ _ Hb1 E2) as [D2 [M2 [R2 N2]]].
    pose proof (inv_en s I) as N0. specialize (N1 N0). specialize (N2 N1).
    destruct (can1 && negb can2) eqn:EC.
    - (* only the first half could be added: undo it *)
      destruct (unset_equiv_to s2 a b) as [s3 r3] eqn:E3.
      destruct (unset_equiv_to_spec _ _ _ _ _ N2 E3) as [D3 [M3 [R3 N3]]].
      inversion H; subst s' r. cbn [fst].
      assert (D : eq_edit s s3) by (eapply eq_edit_trans; [eapply eq_edit_trans|]; eauto).
      split; [|exact D]. apply andb_true_iff in EC. destruct EC as [C1 C2]. apply negb_true_iff in C2. subst can1 can2.
      eapply eq_edit_inv; eauto.
      intros x y Hy. apply M3 in Hy. destruct Hy as [Hy Hn]. apply M2 in Hy.
      destruct Hy as [Hy|[? _]]; [|discriminate]. apply M1 in Hy. destruct Hy as [Hy|[_ [-> ->]]]; [|exfalso; apply Hn; auto].
      apply M3. split.
      + apply M2. left. apply M1. left. apply (inv_eq s I). assumption.
      + intros [-> ->]. (* y = a, x = b: then b in eqs a originally, contradiction with can1 *)
        apply (inv_eq s I) in Hy. symmetry in R1. apply negb_true_iff in R1. apply memb_false in R1. contradiction.
    - inversion H; subst s' r.
      assert (D : eq_edit s s2) by (eapply eq_edit_trans; eauto).
      split; [|exact D]. eapply eq_edit_inv; eauto.
      intros x y Hy. apply M2 in Hy. apply M2. destruct Hy as [Hy|[C2 [-> ->]]].
      + apply M1 in Hy. destruct Hy as [Hy|[C1 [-> ->]]].
        * left. apply M1. left. apply (inv_eq s I). assumption.
        * (* a gained b; then b must have gained a, or had it *)
          rewrite C1 in EC. cbn in EC. apply negb_false_iff in EC. right. auto.
      + (* b gained a: a has b now (gained or had) *)
        left. apply M1. destruct can1 eqn:C1; [right; auto|].
        left. symmetry in R1. apply negb_false_iff in R1. apply memb_true in R1. assumption.
  Qed.

  Lemma remove_equivalence_inv : forall s a b s' r, Inv s ->
    remove_equivalence s a b = (s', r) -> Inv s' /\ eq_edit s s'.
  Proof.
    intros s a b s' r I H. unfold remove_equivalence in H.
    destruct (unset_equiv_to s a b) as [s1 r1] eqn:E1.
    destruct (unset_equiv_to_spec _ _ _ _ _ (inv_en s I) E1) as [D1 [M1 [R1 N1]]].
    destruct r1.
    - destruct (unset_equiv_to_spec _ _ _ _ _ N1 H) as [D2 [M2 [R2 N2]]].
      assert (D : eq_edit s s') by (eapply eq_edit_trans; eauto). split; [|exact D].
      eapply eq_edit_inv; eauto.
      intros x y Hy. apply M2 in Hy. destruct Hy as [Hy Hn2]. apply M1 in Hy. destruct Hy as [Hy Hn1].
      apply M2. split; [apply M1; split|].
      + apply (inv_eq s I). assumption.
      + intros [-> ->]. apply Hn2. auto.
      + intros [-> ->]. apply Hn1. auto.
    - inversion H; subst s' r. symmetry in R1. apply memb_false in R1.
      split; [|exact D1]. eapply eq_edit_inv; eauto.
      intros x y Hy. apply M1 in Hy. destruct Hy as [Hy _]. apply M1. split; [apply (inv_eq s I); assumption|].
      intros [-> ->]. apply R1. apply (inv_eq s I). assumption.
  Qed.

  Lemma fold_unset_spec : forall v l s, (forall z, NoDup (eqs_of s z)) ->
    let s' := fold_left (fun s' w => fst (unset_equiv_to s' w v)) l s in
    eq_edit s s' /\ (forall z, NoDup (eqs_of s' z)) /\
    (forall z y, In y (eqs_of s' z) <-> In y (eqs_of s z) /\ ~ (In z l /\ y = v)).
  Proof.
    intros v l. induction l as [|w t IH]; intros s N; cbn [fold_left].
    - split; [apply eq_edit_refl|split; [assumption|]]. intros z y.
      split; [intros H; split; [assumption|intros [[] _]]|tauto].
    - destruct (unset_equiv_to s w v) as [s1 r1] eqn:E1. cbn [fst].
      destruct (unset_equiv_to_spec _ _ _ _ _ N E1) as [D1 [M1 [_ N1]]].
      destruct (IH s1 N1) as [D2 [N2 M2]].
      split; [eapply eq_edit_trans; eauto|split; [assumption|]]. intros z y. split.
      + intros H. apply M2 in H. destruct H as [H Hn]. apply M1 in H. destruct H as [H Hn1]. split; [assumption|].
        intros [[<-|Hin] ->]; [apply Hn1; auto|apply Hn; auto].
      + intros [Hy Hn]. apply M2. split; [apply M1; split; [assumption|]|].
        * intros [-> ->]. apply Hn. split; [left; reflexivity|reflexivity].
        * intros [Hin ->]. apply Hn. split; [right; assumption|reflexivity].
  Qed.

  Lemma remove_all_equivalences_inv : forall s v, Inv s -> Inv (remove_all_equivalences s v) /\ eq_edit s (remove_all_equivalences s v).
  Proof.
    intros s v I. unfold remove_all_equivalences.
    destruct (fold_unset_spec v (eqs_of s v) s (inv_en s I)) as [D1 [N1 M1]].
    set (s1 := fold_left (fun s' w => fst (unset_equiv_to s' w v)) (eqs_of s v) s) in *.
    assert (D : eq_edit s (set_eqs_of s1 v [])) by (eapply eq_edit_trans; [exact D1|apply eq_edit_set]).
    split; [|exact D].
    assert (Q : forall z y, In y (eqs_of (set_eqs_of s1 v []) z) -> In y (eqs_of s z) /\ z <> v /\ y <> v).
    { intros z y Hy. rewrite eqs_set_eqs_of in Hy.
      destruct (Nat.eqb v z && Nat.ltb v (List.length (objs s1))) eqn:Ez; [destruct Hy|].
      apply M1 in Hy. destruct Hy as [Hy Hn].
      assert (Hzv : z <> v).
      { intros ->. rewrite Nat.eqb_refl in Ez. cbn [andb] in Ez. apply Nat.ltb_ge in Ez.
        destruct D1 as [_ [_ [_ [LL _]]]]. rewrite LL in Ez.
        unfold eqs_of in Hy. rewrite getd_oob in Hy; [destruct Hy|unfold inr; lia]. }
      split; [assumption|split; [assumption|]].
      intros ->. apply Hn. split; [|reflexivity]. apply (inv_eq s I). assumption. }
    eapply eq_edit_inv; eauto.
    - intros a b Hb. destruct (Q _ _ Hb) as [Hin [Ha Hbv]].
      rewrite eqs_set_eqs_of. replace (Nat.eqb v b) with false by (symmetry; apply Nat.eqb_neq; congruence). cbn [andb].
      apply M1. split; [apply (inv_eq s I); assumption|]. intros [_ ->]. congruence.
    - intros a. rewrite eqs_set_eqs_of. destruct (Nat.eqb v a && Nat.ltb v (List.length (objs s1))); [constructor|apply N1].
  Qed.

End Ops.
