(** EntTreeDefs.v — value-level model of libcellml's object model as the Printer and the Parser see it
    (C02; reused by C14).  No proofs here.

    One value of [model] stands for one libcellml::Model together with everything reachable from it
    through the getters the printer uses:

      model      name, id, encapsulation id, units list, top-level components      (src/model.cpp)
      units      name, id, import source + import reference (kept independently, src/importedentity.cpp),
                 unit children (reference, prefix, exponent, multiplier, id)        (src/units.cpp)
      component  name, id, encapsulation id, import source + reference, math string, variables, resets,
                 child components                                                  (src/component.cpp)
      variable   name, id, NAME of its units object (None: no units object), initial value, interface
      reset      id, order (None: not set), variable / test variable, test value + id, reset value + id
      equivalences: the model carries ONE ordered list of undirected edges between variables, each with its
                 mapping id and connection id.  A variable is named by the index path of its component
                 (positions in m_comps / in the child lists) and its position in that component.
                 The list order stands for the per-variable order of Variable::equivalentVariable(i): the
                 equivalents of a variable are the edges that mention it, in list order.  (Every state the
                 API can reach arises this way: the state after any history of addEquivalence /
                 removeEquivalence equals the state after adding the surviving edges in the order of their
                 last addition; src/variable.cpp: setEquivalentTo pushes at the back of both lists.)
                 Mapping and connection ids are stored on both sides by every public setter
                 (Variable::addEquivalence/4, setEquivalenceMappingId, setEquivalenceConnectionId), so one
                 value per edge suffices.

    Scope restrictions (stated, not hidden):
      * every equivalent variable lives inside the model (the printer would otherwise print the name of a
        foreign component, or no component_2 at all);
      * identity of ImportSource objects is a [nat] tag; two imports with the same tag denote the same
        object (and then carry the same url and id);
      * doubles are carried as their canonical decimal text (17 significant digits, what printf %.17g
        gives: this determines the double); [num_one] is the text of 1.0.  Rounding to 15 digits and
        reading back are functions of the environment [env] (PrintDefs.v), never computed here;
      * a reset's variable is described by its NAME and by whether it is a variable of the reset's own
        component ([VSame]) or not ([VOther]: another component's variable or a parent-less one). *)
From Coq Require Import String List Bool ZArith Arith.
From LCGen Require UnitTables.
Import ListNotations.
Local Open Scope string_scope.
Local Open Scope bool_scope.
Local Open Scope list_scope.

Definition num := string.
Definition num_one : num := "1".

Record unitdef := { ud_ref : string; ud_prefix : string; ud_exp : num; ud_mult : num; ud_id : string }.

Record isrc := { is_tag : nat; is_url : string; is_id : string }.

Record units := { u_name : string; u_id : string; u_src : option isrc; u_ref : string;
                  u_defs : list unitdef }.

Record variable := { v_name : string; v_id : string; v_units : option string; v_init : string;
                     v_iface : string }.

Inductive vref := VSame (name : string) | VOther (name : string).
Definition vref_name (r : vref) : string := match r with VSame n => n | VOther n => n end.

Record reset := { r_id : string; r_order : option Z; r_var : option vref; r_test : option vref;
                  r_tv : string; r_tv_id : string; r_rv : string; r_rv_id : string }.

(** everything of a component except its child components *)
Record cshell := { c_name : string; c_id : string; c_encid : string;
                   c_src : option isrc; c_ref : string; c_math : string;
                   c_vars : list variable; c_resets : list reset }.

Inductive component := Comp (s : cshell) (kids : list component).

Definition shell (c : component) : cshell := match c with Comp s _ => s end.
Definition kids (c : component) : list component := match c with Comp _ k => k end.
Definition cname (c : component) : string := c_name (shell c).

(** a variable: index path of its component from the top level, then its position among the variables *)
Definition vpath := (list nat * nat)%type.

Record eqv := { e_a : vpath; e_b : vpath; e_mid : string; e_cid : string }.

Record model := { m_name : string; m_id : string; m_encid : string;
                  m_units : list units; m_comps : list component; m_eqv : list eqv }.

Definition empty_model : model :=
  {| m_name := ""; m_id := ""; m_encid := ""; m_units := []; m_comps := []; m_eqv := [] |}.

(** * Paths *)

Fixpoint path_eqb (p q : list nat) : bool :=
  match p, q with
  | [], [] => true
  | a :: p', b :: q' => Nat.eqb a b && path_eqb p' q'
  | _, _ => false
  end.

Definition vpath_eqb (a b : vpath) : bool := path_eqb (fst a) (fst b) && Nat.eqb (snd a) (snd b).

(** component at an index path *)
Fixpoint comp_at (cs : list component) (p : list nat) : option component :=
  match p with
  | [] => None
  | i :: p' => match nth_error cs i with
               | None => None
               | Some c => match p' with [] => Some c | _ => comp_at (kids c) p' end
               end
  end.

Definition var_at (cs : list component) (v : vpath) : option variable :=
  match comp_at cs (fst v) with
  | Some c => nth_error (c_vars (shell c)) (snd v)
  | None => None
  end.

(** component names from the top level down (the way harness/common/dump.hpp names a variable) *)
Fixpoint names_along (cs : list component) (p : list nat) : list string :=
  match p with
  | [] => []
  | i :: p' => match nth_error cs i with
               | None => []
               | Some c => cname c :: names_along (kids c) p'
               end
  end.

Definition vpath_names (cs : list component) (v : vpath) : list string * string :=
  (names_along cs (fst v), match var_at cs v with Some x => v_name x | None => "" end).

(** all components in the order of the printer's traversals (a component, then its subtree), with paths *)
Fixpoint flat_c (p : list nat) (c : component) : list (list nat * component) :=
  match c with
  | Comp _ ks =>
    (p, c) :: (fix go (j : nat) (l : list component) : list (list nat * component) :=
                 match l with
                 | [] => []
                 | k :: r => flat_c (p ++ [j]) k ++ go (S j) r
                 end) 0 ks
  end.

Fixpoint flat_cs (p : list nat) (j : nat) (l : list component) : list (list nat * component) :=
  match l with
  | [] => []
  | k :: r => flat_c (p ++ [j]) k ++ flat_cs p (S j) r
  end.

Definition all_comps (cs : list component) : list (list nat * component) := flat_cs [] 0 cs.

(** * Standard unit names: src/utilities.h standardUnitsList, REGENERATED into LCGen.UnitTables on every run *)
Definition is_standard_unit_name (n : string) : bool :=
  existsb (fun p => String.eqb n (fst p)) LCGen.UnitTables.standard_units_list.

(* src/utilities.cpp: isStandardUnit(units) *)
Definition is_standard_unit (u : units) : bool :=
  match u_defs u with [] => is_standard_unit_name (u_name u) | _ => false end.

Definition is_import_units (u : units) : bool := match u_src u with Some _ => true | None => false end.
Definition is_import_comp (c : component) : bool := match c_src (shell c) with Some _ => true | None => false end.
