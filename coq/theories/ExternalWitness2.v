(** ExternalWitness2.v — a corner in which the placeholder-equation clause of C20 fails (model and library agree). *)
From Coq Require Import List Bool Arith.
From LC Require Import AnalysisDefs AnalysisSpec ExternalDefs ExternalWitness.
Import ListNotations.
Local Open Scope bool_scope.

(** t, x and y (both with an initial value);  dx/dt (op) dy/dt = 1001.  One equation for two rates: neither state ever gets
    an index, the equation is never typed and is silently dropped, and the analyser calls the model a VALID ODE model whose
    two states are computed by no equation (C05's domain; the Generator then dereferences state->equation(0) = null).
    Marking x as external makes x an EXTERNAL variable — without any placeholder equation. *)
Definition sysD : system :=
  [ mkComp [mkVar 0 0 INone; mkVar 1 1 IConst; mkVar 2 2 IConst] [mkEqn 1001 (EOp (EDiff 0 1) (EDiff 0 2)) ECn] ].
Definition mark_x : list xmark := [mkXmark (XLocal (0, 1)) []].

Lemma placeholder_refuted :
  match result_of (analyse_x true sysD []), result_of (analyse_x true sysD mark_x) with
  | Some r0, Some r1 =>
      r_type r0 = MOde /\ map (fun a => (av_var a, av_eqs a)) (r_states r0) = [((0, 1), []); ((0, 2), [])] /\ r_eqs r0 = [] /\
      r_type r1 = MOde /\ map (fun a => (av_var a, av_type a, av_eqs a)) (r_vars r1) = [((0, 1), AExternal, [])] /\ r_eqs r1 = []
  | _, _ => False
  end.
Proof. vm_compute. repeat split; reflexivity. Qed.

(** x*x (op) e = 1001;  y*y (op) e = 1002 (all three with an initial guess).  Unmarked: one NLA system of two equations
    (they share e).  With e marked as external the two equations share nothing that is left: two NLA systems, no
    siblings, a valid NLA model — the grouping is computed after the external unknowns have been pruned. *)
Definition sysN : system :=
  [ mkComp [mkVar 0 0 IConst; mkVar 1 1 IConst; mkVar 2 2 IConst]
           [mkEqn 1001 (EOp (EOp (EVar 0) (EVar 0)) (EVar 2)) ECn; mkEqn 1002 (EOp (EOp (EVar 1) (EVar 1)) (EVar 2)) ECn] ].
Definition mark_e : list xmark := [mkXmark (XLocal (0, 2)) []].

Lemma grouping_example :
  let nla r := map (fun e => (ae_id e, ae_vars e, ae_nla e, ae_sibs e)) (filter (fun e => qtype_eqb (ae_type e) QNla) (r_eqs r)) in
  option_map (fun r => (r_type r, nla r)) (result_of (analyse_x true sysN [])) =
    Some (MNla, [(Some 1001, [(0, 0); (0, 2)], Some 0, [1]); (Some 1002, [(0, 1); (0, 2)], Some 0, [0])]) /\
  option_map (fun r => (r_type r, nla r)) (result_of (analyse_x true sysN mark_e)) =
    Some (MNla, [(Some 1001, [(0, 0)], Some 0, []); (Some 1002, [(0, 1)], Some 1, [])]).
Proof. vm_compute. split; reflexivity. Qed.

(** dx/dt = 1001 with x uninitialised: under-constrained ("used in an ODE, but not initialised").  Marking x as external
    did NOT rescue it before the repair ([analyse_xg true false false]): the third pass only looks at external variables
    of type UNKNOWN, x is SHOULD_BE_STATE. *)
Definition sysE : system := [ mkComp [mkVar 0 0 INone; mkVar 1 1 INone] [mkEqn 1001 (EDiff 0 1) ECn] ].

Lemma uninitialised_state_not_rescued :
  option_map (fun r => (r_type r, r_issues r)) (result_of (analyse_xg true false false sysE [])) = Some (MUnderconstrained, [mkIssue RStateNotInit (0, 1)]) /\
  option_map (fun r => (r_type r, r_issues r)) (result_of (analyse_xg true false false sysE mark_x)) = Some (MUnderconstrained, [mkIssue RStateNotInit (0, 1)]).
Proof. vm_compute. split; reflexivity. Qed.

(** ... and with the repair (fixes/C20-uninitialised-state-rescue.diff) x becomes the external variable of a valid model,
    its ODE the placeholder equation *)
Lemma uninitialised_state_rescued :
  option_map (fun r => (r_type r, r_issues r)) (result_of (analyse_x true sysE [])) = Some (MUnderconstrained, [mkIssue RStateNotInit (0, 1)]) /\
  option_map (fun r => (r_type r, map (fun a => (av_var a, av_type a, av_eqs a)) (r_vars r), map (fun e => (ae_id e, ae_type e)) (r_eqs r)))
             (result_of (analyse_x true sysE mark_x)) = Some (MOde, [((0, 1), AExternal, [0])], [(Some 1001, QExternal)]).
Proof. vm_compute. split; reflexivity. Qed.
