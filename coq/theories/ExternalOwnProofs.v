(** ExternalOwnProofs.v — C05's "one definer" invariant (AnalysisOwnProofs.own_inv) carried through a loop that runs
    WITH external variables (C05 proves it for loops without any): the third pass only turns UNKNOWN into INITIALISED,
    two types for which the invariant asks the same thing.  First step towards the placeholder-equation clause of C20. *)
From Coq Require Import List Bool Arith PeanoNat Lia.
From LC Require Import AnalysisDefs AnalysisSpec AnalysisProofs AnalysisWfProofs AnalysisOwnProofs
                       ExternalDefs ExternalMarkProofs ExternalProofs.
Import ListNotations.
Local Open Scope bool_scope.

Definition third_pass_map (v : ivar) : ivar :=
  if iv_external v && vtype_eqb (iv_type v) VUnknown then set_type v VInitialised else v.

Lemma third_pass_map_spec : forall v,
  (iv_type (third_pass_map v) = iv_type v \/ (iv_type v = VUnknown /\ iv_type (third_pass_map v) = VInitialised)) /\
  has_index (third_pass_map v) = has_index v.
Proof.
  intro v. unfold third_pass_map. destruct (iv_external v && vtype_eqb (iv_type v) VUnknown) eqn:E.
  - apply andb_true_iff in E. destruct E as (_ & E). apply vtype_eqb_eq in E. split; [right; split; [exact E|reflexivity]|reflexivity].
  - split; [left; reflexivity|reflexivity].
Qed.

Lemma third_pass_evolves : forall s ivs, evolves s ivs (map third_pass_map ivs).
Proof.
  intros s ivs. apply map_evolves. intro v. unfold third_pass_map.
  destruct (iv_external v && vtype_eqb (iv_type v) VUnknown) eqn:E; [|apply step_ok_refl].
  apply andb_true_iff in E. destruct E as (_ & E). apply vtype_eqb_eq in E. apply set_type_step. rewrite E.
  unfold tok. repeat split; intros; try discriminate; auto.
Qed.

Lemma own_inv_third_pass : forall ivs es, own_inv ivs es -> own_inv (map third_pass_map ivs) es.
Proof.
  intros ivs es [U O I W B].
  assert (G : forall p, p < length ivs -> geti (map third_pass_map ivs) p = third_pass_map (geti ivs p)).
  { intros p Hp. apply geti_map. exact Hp. }
  constructor.
  - exact U.
  - intros e p He Hp. specialize (O e p He Hp).
    destruct (Nat.lt_ge_cases p (length ivs)) as [L|L].
    + rewrite (G p L). destruct (third_pass_map_spec (geti ivs p)) as ([E|(E1 & E2)] & _); [rewrite E; exact O|].
      rewrite E1 in O. discriminate.
    + rewrite geti_beyond by (rewrite map_length; exact L). rewrite geti_beyond in O by exact L. exact O.
  - intros p Hp Hc. rewrite map_length in Hp. rewrite (G p Hp) in *.
    destruct (third_pass_map_spec (geti ivs p)) as ([E|(E1 & E2)] & Hi).
    + rewrite Hi. apply I; [exact Hp|]. rewrite <- E. exact Hc.
    + rewrite E2 in Hc. discriminate.
  - intros p Hp. rewrite map_length in Hp. specialize (W p Hp). unfold own_at in *. cbv zeta in *. rewrite (G p Hp).
    destruct (third_pass_map_spec (geti ivs p)) as ([E|(E1 & E2)] & Hi).
    + rewrite E, Hi. exact W.
    + rewrite E2, Hi. destruct W as (W1 & _ & _). split; [|split].
      * intros _. apply W1. left. rewrite E1. reflexivity.
      * intros [K|(K & _)]; discriminate.
      * intro K. discriminate.
  - eapply Forall_impl; [|exact B]. intros e He. eapply eq_inv_evolves; [apply (third_pass_evolves (@nil comp))|exact He].
Qed.

(** AnalysisOwnProofs.loop_own without its "no external variable" hypothesis *)
Lemma loop_own_ext : forall s fuel loopn nla st es st' es',
  loop s fuel loopn nla st es = Some (st', es') -> own_inv (cs_ivs st) es -> own_inv (cs_ivs st') es'.
Proof.
  intros s fuel. induction fuel as [|f IH]; intros loopn nla st es st' es' H Hinv; [discriminate|].
  cbn [loop] in H. destruct (sweep s nla st es) as [[st1 es1] rel] eqn:Hs.
  pose proof (sweep_own _ _ _ [] _ _ _ _ Hs Hinv) as H1. cbn [app] in H1.
  destruct rel; [eapply IH; eassumption|].
  destruct ((loopn =? 1) || (loopn =? 3)); [eapply IH; eassumption|].
  change (fun v : ivar => if iv_external v && vtype_eqb (iv_type v) VUnknown then set_type v VInitialised else v) with third_pass_map in H.
  destruct (loopn =? 2).
  - destruct (existsb iv_external (cs_ivs st1)).
    + eapply IH; [exact H|]. cbn [cs_ivs]. apply own_inv_third_pass. exact H1.
    + inversion H; subst. cbn [cs_ivs]. apply own_inv_third_pass. exact H1.
  - inversion H; subst. exact H1.
Qed.

(* re-marking does not touch what the invariant looks at *)
Lemma own_inv_remark : forall f ivs es, own_inv ivs es -> own_inv (remark f 0 ivs) es.
Proof.
  intros f ivs es [U O I W B].
  assert (T : forall p, iv_type (geti (remark f 0 ivs) p) = iv_type (geti ivs p)) by (intro p; apply remark_type).
  assert (X : forall p, has_index (geti (remark f 0 ivs) p) = has_index (geti ivs p)).
  { intro p. destruct (Nat.lt_ge_cases p (length ivs)) as [L|L].
    - rewrite remark_geti by exact L. destruct (f (0 + p)); reflexivity.
    - rewrite !geti_beyond by (rewrite ?remark_length; exact L). reflexivity. }
  constructor.
  - exact U.
  - intros e p He Hp. rewrite T. eapply O; eassumption.
  - intros p Hp Hc. rewrite remark_length in Hp. rewrite T in Hc. rewrite X. apply I; assumption.
  - intros p Hp. rewrite remark_length in Hp. eapply own_at_same; [apply T|apply X|reflexivity|apply W; exact Hp].
  - eapply Forall_impl; [|exact B]. intros e (A1 & A2 & A3 & A4 & A5). unfold eq_inv. rewrite remark_length.
    split; [exact A1|]. split; [exact A2|]. split; [exact A3|]. split; [|exact A5].
    eapply Forall_impl; [|exact A4]. intros p Hp. rewrite T. exact Hp.
Qed.

(* the rescue of uninitialised external states, before the loop (no variable has an index yet):
   SHOULD_BE_STATE -> STATE without index; nothing owns either *)
Lemma own_inv_rescue : forall b ivs es, (forall p, has_index (geti ivs p) = false) ->
  own_inv ivs es -> own_inv (map (state_rescue b) ivs) es.
Proof.
  intros b ivs es Hnoidx [U O I W B].
  assert (G : forall p, p < length ivs -> geti (map (state_rescue b) ivs) p = state_rescue b (geti ivs p)) by (intros; apply geti_map; assumption).
  assert (Hidx : forall v, has_index (state_rescue b v) = has_index v).
  { intro v. unfold has_index. destruct (state_rescue_keeps b v) as (_ & _ & _ & Ix & _). rewrite Ix. reflexivity. }
  constructor.
  - exact U.
  - intros e p He Hp. specialize (O e p He Hp). destruct (Nat.lt_ge_cases p (length ivs)) as [L|L].
    + rewrite (G p L). destruct (state_rescue_keeps b (geti ivs p)) as (_ & _ & _ & _ & [E|(E1 & E2)]); [rewrite E; exact O|rewrite E2; reflexivity].
    + rewrite geti_beyond by (rewrite map_length; exact L). rewrite geti_beyond in O by exact L. exact O.
  - intros p Hp Hc. rewrite map_length in Hp. rewrite (G p Hp) in *. rewrite Hidx.
    destruct (state_rescue_keeps b (geti ivs p)) as (_ & _ & _ & _ & [E|(E1 & E2)]).
    + apply I; [exact Hp|]. rewrite <- E. exact Hc.
    + rewrite E2 in Hc. discriminate.
  - intros p Hp. rewrite map_length in Hp. specialize (W p Hp). unfold own_at in *. cbv zeta in *. rewrite (G p Hp), Hidx.
    destruct (state_rescue_keeps b (geti ivs p)) as (_ & _ & _ & _ & [E|(E1 & E2)]).
    + rewrite E. exact W.
    + destruct W as (W1 & _ & _). assert (Ho : owners es p = []) by (apply W1; left; rewrite E1; reflexivity).
      rewrite E2, (Hnoidx p). split; [intros _; exact Ho|]. split.
      * intros [K|(_ & K)]; discriminate.
      * intro K. discriminate.
  - eapply Forall_impl; [|exact B]. intros e He. eapply eq_inv_evolves; [apply (state_rescue_evolves (@nil comp) b)|exact He].
Qed.

(** One definer WITH external variables: when the do/while loop of the marked analysis stops, every internal variable
    that was given a direct type (computed constant, algebraic, a state that received its index) is listed in
    mUnknownVariables of exactly one equation, which lists nothing else and has the matching type; an NLA unknown with an
    initial guess only by NLA equations; every other variable (in particular an external variable that the third pass
    turned into INITIALISED) by none. *)
Theorem one_definer_with_externals : forall s marks b ivs0 es0 st es1,
  marks_in_range s marks -> build s = Some (ivs0, es0) ->
  let U := vs_ivs (analyse_asts s ivs0 es0) in
  loop s (loop_fuel es0) 1 false (mkCs (map (state_rescue b) (remark (eff s ivs0 U marks) 0 U)) 0 0) es0 = Some (st, es1) ->
  own_inv (cs_ivs st) es1.
Proof.
  intros s marks b ivs0 es0 st es1 _ Hb U Hl.
  destruct (own_inv_initial _ _ _ Hb) as (H0 & _).
  eapply loop_own_ext; [exact Hl|]. cbn [cs_ivs]. apply own_inv_rescue; [|apply own_inv_remark; exact H0].
  (* no internal variable has an index before the loop *)
  intro p.
  destruct (build_spec _ _ _ Hb) as (B1 & B2 & B3). pose proof (build_fresh _ _ _ Hb) as B4.
  assert (HA : Forall asts_iv ivs0).
  { eapply Forall_impl; [|exact B4]. intros v ([T|T] & _ & I); split; try exact I; rewrite T; reflexivity. }
  assert (Hpos : forall e d, In e es0 -> In d (ie_diffs e) -> ivar_of s ivs0 (snd d) < length ivs0).
  { intros e d He Hd. rewrite Forall_forall in B2. destruct (B2 e He) as (D & _). rewrite Forall_forall in D.
    destruct (D d Hd) as (_ & R). apply ivar_of_spec; [exact B1|]. apply B3; [exact R|]. apply in_range_comp in R. apply R. }
  destruct (analyse_asts_types s ivs0 es0 HA Hpos) as (T1 & _ & _). fold U in T1.
  destruct (Nat.lt_ge_cases p (length U)) as [L|L].
  - rewrite remark_geti by exact L. rewrite Forall_forall in T1. destruct (T1 _ (geti_In _ _ L)) as (_ & Ix).
    unfold has_index. destruct (eff s ivs0 U marks (0 + p)); cbn; rewrite Ix; reflexivity.
  - rewrite geti_beyond by (rewrite remark_length; exact L). reflexivity.
Qed.
