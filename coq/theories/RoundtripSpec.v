(** RoundtripSpec.v — the vocabulary of property C02: [canon] (what a round trip is allowed to change),
    [printable] (the hypotheses under which the round trip preserves content; every conjunct is executable, so
    the check evaluates the same predicate on each generated model), [content_eq] (content up to child order).
    Definitions only; the lemmas are in RoundtripProofs.v. *)
From Coq Require Import String Ascii List Bool ZArith Arith Permutation.
From LC Require Import Common NumDefs XmlDefs EntTreeDefs PrintDefs LoadDefs.
Import ListNotations.
Local Open Scope string_scope.
Local Open Scope bool_scope.
Local Open Scope list_scope.

Section Spec.
Variable E : env.

(** * canon: the two things a round trip legitimately normalises *)

(** a double is written with 15 significant digits and read back; 1.0 is not written at all *)
Definition round15 (x : num) : num :=
  if String.eqb x num_one then num_one
  else match to_double E (show15 E x) with Some y => y | None => x end.

(** mathematics comes back as the serialisation of each math element followed by a newline *)
Definition canon_math (s : string) : string :=
  fold_left (fun acc k => (acc ++ math_text E k ++ String c_lf EmptyString)%string) (math_kids E ident s) "".

Definition canon_unitdef (d : unitdef) : unitdef :=
  {| ud_ref := ud_ref d; ud_prefix := ud_prefix d; ud_exp := round15 (ud_exp d); ud_mult := round15 (ud_mult d); ud_id := ud_id d |}.

Definition canon_units (u : units) : units :=
  {| u_name := u_name u; u_id := u_id u; u_src := u_src u; u_ref := u_ref u; u_defs := map canon_unitdef (u_defs u) |}.

Definition canon_reset (r : reset) : reset :=
  {| r_id := r_id r; r_order := r_order r; r_var := r_var r; r_test := r_test r;
     r_tv := canon_math (r_tv r); r_tv_id := r_tv_id r; r_rv := canon_math (r_rv r); r_rv_id := r_rv_id r |}.

Definition canon_shell (s : cshell) : cshell :=
  {| c_name := c_name s; c_id := c_id s; c_encid := c_encid s; c_src := c_src s; c_ref := c_ref s;
     c_math := canon_math (c_math s); c_vars := c_vars s; c_resets := map canon_reset (c_resets s) |}.

Fixpoint canon_comp (c : component) : component :=
  match c with Comp s ks => Comp (canon_shell s) (map canon_comp ks) end.

Definition canon (m : model) : model :=
  {| m_name := m_name m; m_id := m_id m; m_encid := m_encid m; m_units := map canon_units (m_units m);
     m_comps := map canon_comp (m_comps m); m_eqv := m_eqv m |}.

(** * printable *)

Definition opt_str_eqb (a : option string) (b : option string) : bool :=
  match a, b with Some x, Some y => String.eqb x y | None, None => true | _, _ => false end.

(** a string the printer can put between quotes: XML characters only; and, while the printer does not escape
    ([fixed = false]), one that the XML reader gives back unchanged (no & < double-quote TAB LF CR) *)
Definition str_ok (fixed : bool) (s : string) : bool :=
  no_ctrl s && (fixed || opt_str_eqb (decode_attr s) (Some s)).

(** a double whose 15-digit text is plain, is a CellML real and converts (finite, not "inf" / "nan") *)
Definition num_ok (x : num) : bool :=
  String.eqb x num_one
  || (opt_str_eqb (decode_attr (show15 E x)) (Some (show15 E x)) && is_real (show15 E x)
      && match to_double E (show15 E x) with Some _ => true | None => false end).

Definition conv_is (c : conv Z) (z : Z) : bool := match c with Value y => Z.eqb y z | _ => false end.
Definition order_ok (z : Z) : bool :=
  opt_str_eqb (decode_attr (show_int E z)) (Some (show_int E z)) && conv_is (to_int (show_int E z)) z.

(** every element of a math tree is MathML (or CellML 2.0), the only prefixed attribute is cellml:units on cn *)
Fixpoint ns_clean (x : xml) : bool :=
  match x with
  | Elem ns nm attrs ks =>
    (String.eqb ns MATHML_NS || String.eqb ns CELLML_2_0_NS)
    && forallb (fun a => String.eqb (a_ns a) ""
                         || (String.eqb nm "cn" && String.eqb ns MATHML_NS && String.eqb (a_name a) "units"
                             && String.eqb (a_ns a) CELLML_2_0_NS)) attrs
    && (fix go (l : list xml) : bool := match l with [] => true | k :: r => ns_clean k && go r end) ks
  | _ => true
  end.

(** attribute values inside a math tree are XML characters (they came out of an XML parser) *)
Fixpoint attrs_no_ctrl (x : xml) : bool :=
  match x with
  | Elem _ _ attrs ks =>
    forallb (fun a => no_ctrl (a_val a)) attrs
    && (fix go (l : list xml) : bool := match l with [] => true | k :: r => attrs_no_ctrl k && go r end) ks
  | _ => true
  end.

(** the string is empty, or printMath accepts it and what it yields are math elements *)
Definition math_ok (s : string) : bool :=
  negb (nonempty s)
  || match norm_math E s with
     | Some xs => forallb (fun x => is_mathml "math" x && ns_clean x && attrs_no_ctrl x) xs
     | None => false
     end.

(** the string yields at least one element (so that the value block is written again after a round trip) *)
Definition has_math (s : string) : bool := match math_kids E ident s with [] => false | _ => true end.

Definition unitdef_ok (fixed : bool) (d : unitdef) : bool :=
  str_ok fixed (ud_ref d) && str_ok fixed (ud_prefix d) && str_ok fixed (ud_id d)
  && String.eqb (prefix_store (ud_prefix d)) (ud_prefix d)     (* not an integer text of value 0: Units::addUnit never stores one *)
  && num_ok (ud_exp d) && num_ok (ud_mult d).

Definition isrc_ok (fixed : bool) (i : isrc) : bool := str_ok fixed (is_url i) && str_ok fixed (is_id i).

Definition units_ok (fixed : bool) (u : units) : bool :=
  str_ok fixed (u_name u) && str_ok fixed (u_id u) && str_ok fixed (u_ref u)
  && match u_src u with
     | Some i => isrc_ok fixed i
                 && match u_defs u with [] => true | _ => false end          (* imported_units_childless *)
     | None => nonempty (u_name u)                                           (* units_named *)
               && negb (is_standard_unit u)                                  (* no_std_named_childless_units (row 29) *)
               && negb (nonempty (u_ref u))                                  (* no import reference without a source *)
               && forallb (unitdef_ok fixed) (u_defs u)
     end.

Definition variable_ok (fixed : bool) (us : list units) (v : variable) : bool :=
  str_ok fixed (v_name v) && str_ok fixed (v_id v) && str_ok fixed (v_init v) && str_ok fixed (v_iface v)
  && nonempty (v_name v)
  && match v_units v with
     | Some n => str_ok fixed n && nonempty n && (is_standard_unit_name n || has_units_named us n)
     | None => false
     end.

Definition vref_ok (fixed : bool) (vs : list variable) (r : option vref) : bool :=
  match r with
  | None => true
  | Some (VSame n) => has_var vs n && str_ok fixed n
  | Some (VOther _) => false                                                 (* resets refer to their own component's variables *)
  end.

Definition reset_ok (fixed : bool) (vs : list variable) (r : reset) : bool :=
  str_ok fixed (r_id r) && str_ok fixed (r_tv_id r) && str_ok fixed (r_rv_id r)
  && match r_order r with Some z => order_ok z | None => false end
  && vref_ok fixed vs (r_var r) && vref_ok fixed vs (r_test r)
  && (has_math (r_tv r) || nonempty (r_tv_id r)) && (has_math (r_rv r) || nonempty (r_rv_id r))
  && math_ok (r_tv r) && math_ok (r_rv r).

Fixpoint names_distinct (l : list string) : bool :=
  match l with [] => true | x :: r => negb (existsb (String.eqb x) r) && names_distinct r end.

(** a variable of an imported component can only come back as the bare placeholder the parser makes up *)
Definition placeholder (v : variable) : bool :=
  negb (nonempty (v_id v)) && negb (nonempty (v_init v)) && negb (nonempty (v_iface v))
  && match v_units v with None => true | Some _ => false end.

Definition shell_ok (fixed : bool) (us : list units) (s : cshell) : bool :=
  str_ok fixed (c_name s) && str_ok fixed (c_id s) && str_ok fixed (c_encid s) && str_ok fixed (c_ref s)
  && nonempty (c_name s)
  && names_distinct (map v_name (c_vars s))
  && match c_src s with
     | Some i => isrc_ok fixed i
                 && forallb (fun v => placeholder v && nonempty (v_name v) && str_ok fixed (v_name v)) (c_vars s)
                 && match c_resets s with [] => true | _ => false end
                 && negb (nonempty (c_math s))
     | None => negb (nonempty (c_ref s))
               && forallb (variable_ok fixed us) (c_vars s)
               && forallb (reset_ok fixed (c_vars s)) (c_resets s)
               && math_ok (c_math s)
     end.

Fixpoint comp_ok (fixed : bool) (us : list units) (c : component) : bool :=
  match c with
  | Comp s ks => shell_ok fixed us s
                 && (fix go (l : list component) : bool := match l with [] => true | k :: r => comp_ok fixed us k && go r end) ks
  end.

(** an encapsulation id can only be written where a component_ref / the encapsulation element is written *)
Definition enc_ids_representable (m : model) : bool :=
  forallb (fun c => match kids c with [] => negb (nonempty (c_encid (shell c))) | _ => true end) (m_comps m)
  && (existsb (fun c => match kids c with [] => false | _ => true end) (m_comps m) || negb (nonempty (m_encid m))).

(** same ImportSource object, same url and id *)
Definition all_sources (m : model) : list isrc :=
  flat_map (fun u => match u_src u with Some i => [i] | None => [] end) (m_units m)
  ++ flat_map (fun pc => match c_src (shell (snd pc)) with Some i => [i] | None => [] end) (all_comps (m_comps m)).

Definition sources_consistent (m : model) : bool :=
  forallb (fun i => forallb (fun j => negb (Nat.eqb (is_tag i) (is_tag j))
                                     || (String.eqb (is_url i) (is_url j) && String.eqb (is_id i) (is_id j)))
                            (all_sources m)) (all_sources m).

(** equivalences *)
Definition vpath_valid (cs : list component) (v : vpath) : bool :=
  match var_at cs v with Some _ => true | None => false end.

Definition unordered_ppair_eqb (a b : list nat * list nat) : bool :=
  ppair_eqb a b || ppair_eqb a (snd b, fst b).

Definition e_pair (e : eqv) : list nat * list nat := (fst (e_a e), fst (e_b e)).

Fixpoint edges_distinct (l : list eqv) : bool :=
  match l with
  | [] => true
  | e :: r => negb (existsb (same_edge (e_a e) (e_b e)) r) && edges_distinct r
  end.

Definition one_cid_per_pair (l : list eqv) : bool :=
  forallb (fun e => forallb (fun e' => negb (unordered_ppair_eqb (e_pair e) (e_pair e')) || String.eqb (e_cid e) (e_cid e')) l) l.

(** an imported component's variables are exactly the ones a connection mentions (the others are not written) *)
Definition placeholders_connected (m : model) : bool :=
  forallb (fun pc => negb (is_import_comp (snd pc))
                     || forallb (fun vi => existsb (fun e => vpath_eqb (e_a e) (fst pc, vi) || vpath_eqb (e_b e) (fst pc, vi)) (m_eqv m))
                                (seq 0 (length (c_vars (shell (snd pc))))))
          (all_comps (m_comps m)).

(** before fix C02-crossed-map-variables the parser's test for repeated map_variables compares the two variable
    NAMES in sorted order and forgets which side each belongs to: x--y and y--x between the same two components
    count as a repetition *)
Definition edge_names (cs : list component) (e : eqv) : string * string :=
  sort2 (var_name_at cs (e_a e)) (var_name_at cs (e_b e)).

Definition no_crossed_names (m : model) : bool :=
  forallb (fun e => forallb (fun e' => same_edge (e_a e) (e_b e) e'
                                      || negb (unordered_ppair_eqb (e_pair e) (e_pair e'))
                                      || negb (String.eqb (fst (edge_names (m_comps m) e)) (fst (edge_names (m_comps m) e'))
                                               && String.eqb (snd (edge_names (m_comps m) e)) (snd (edge_names (m_comps m) e'))))
                            (m_eqv m)) (m_eqv m).

Definition eqv_ok (fixed : bool) (m : model) : bool :=
  forallb (fun e => vpath_valid (m_comps m) (e_a e) && vpath_valid (m_comps m) (e_b e)
                    && negb (path_eqb (fst (e_a e)) (fst (e_b e)))                      (* no connection of a component to itself *)
                    && str_ok fixed (e_mid e) && str_ok fixed (e_cid e)) (m_eqv m)
  && edges_distinct (m_eqv m) && one_cid_per_pair (m_eqv m) && placeholders_connected m
  && (fixed || no_crossed_names m).

Definition printableb (fixed : bool) (m : model) : bool :=
  str_ok fixed (m_name m) && str_ok fixed (m_id m) && str_ok fixed (m_encid m)
  && nonempty (m_name m)
  && forallb (units_ok fixed) (m_units m)
  && forallb (comp_ok fixed (m_units m)) (m_comps m)
  && names_distinct (map (fun pc => cname (snd pc)) (all_comps (m_comps m)))
  && enc_ids_representable m
  && sources_consistent m
  && eqv_ok fixed m.

Definition printable (fixed : bool) (m : model) : Prop := printableb fixed m = true.

(** the fragments reached by the staged proofs *)
Definition no_imports (m : model) : bool :=
  forallb (fun u => negb (is_import_units u)) (m_units m)
  && forallb (fun pc => negb (is_import_comp (snd pc))) (all_comps (m_comps m)).
Definition no_hierarchy (m : model) : bool := forallb (fun c => match kids c with [] => true | _ => false end) (m_comps m).
Definition no_connections (m : model) : bool := match m_eqv m with [] => true | _ => false end.
Definition flat (m : model) : bool := no_imports m && no_hierarchy m && no_connections m.

End Spec.

(** * content_eq: equality up to the order of children (units, unit children, components at every level,
      variables, resets, equivalences) and up to the identity numbers of import sources *)

Definition src_eq (a b : option isrc) : Prop :=
  match a, b with
  | Some i, Some j => is_url i = is_url j /\ is_id i = is_id j
  | None, None => True
  | _, _ => False
  end.

Definition units_eq (u u' : units) : Prop :=
  u_name u = u_name u' /\ u_id u = u_id u' /\ src_eq (u_src u) (u_src u') /\ u_ref u = u_ref u'
  /\ Permutation (u_defs u) (u_defs u').

Definition shell_eq (s s' : cshell) : Prop :=
  c_name s = c_name s' /\ c_id s = c_id s' /\ c_encid s = c_encid s' /\ src_eq (c_src s) (c_src s')
  /\ c_ref s = c_ref s' /\ c_math s = c_math s'
  /\ Permutation (c_vars s) (c_vars s') /\ Permutation (c_resets s) (c_resets s').

(** [perm_rel R l l']: l' can be reordered so that it is pointwise R-related to l *)
Definition perm_rel {A : Type} (R : A -> A -> Prop) (l l' : list A) : Prop :=
  exists l'', Permutation l' l'' /\ Forall2 R l l''.

Inductive comp_eq : component -> component -> Prop :=
| CompEq : forall s s' ks ks' ks'',
    shell_eq s s' -> Permutation ks' ks'' -> Forall2 comp_eq ks ks'' -> comp_eq (Comp s ks) (Comp s' ks').

(** an equivalence as content: the two variables by their names (component names from the top level, variable
    name) with the mapping and connection ids; both orientations, so that the comparison is one Permutation *)
Definition edge_content (cs : list component) (e : eqv) : list ((list string * string) * (list string * string) * string * string) :=
  [ (vpath_names cs (e_a e), vpath_names cs (e_b e), e_mid e, e_cid e);
    (vpath_names cs (e_b e), vpath_names cs (e_a e), e_mid e, e_cid e) ].

Definition content_eq (m m' : model) : Prop :=
  m_name m = m_name m' /\ m_id m = m_id m' /\ m_encid m = m_encid m'
  /\ perm_rel units_eq (m_units m) (m_units m')
  /\ perm_rel comp_eq (m_comps m) (m_comps m')
  /\ Permutation (flat_map (edge_content (m_comps m)) (m_eqv m)) (flat_map (edge_content (m_comps m')) (m_eqv m')).
