(** IdsProofs3.v — look-ups against the independent traversal, and the printer side (property C13). *)
From Coq Require Import String Ascii List NArith Arith Bool Lia Permutation.
From LC Require Import Common IdsDefs IdsProofs IdsProofs2.
Import ListNotations.
Open Scope string_scope.
Open Scope list_scope.

(* ------------------------------------------------------------------------------------------------ the id list against the positions *)

Lemma pos_nodupb_NoDup : forall l, pos_nodupb l = true -> NoDup l.
Proof.
  induction l as [|p r IH]; simpl; intro H; [constructor|].
  apply andb_true_iff in H. destruct H as [H1 H2]. constructor; [|apply IH; assumption].
  apply pos_mem_false. destruct (pos_mem p r); [discriminate | reflexivity].
Qed.

Section Cache.
  Variable c : cfg.
  Variable st : structure.
  Variable ids : list string.
  Hypothesis Honce : visits_once c st = true.
  Let cache := build_cache c st ids.

  Lemma cache_sound : forall e, In e cache ->
    e_id e = get ids (e_slot e) /\ e_id e <> "" /\ In (epos e) (positions st).
  Proof.
    intros e He. apply build_from_sound in He. destruct He as [v [Hv [-> [Hne _]]]].
    cbn [mk_entry e_id e_slot]. split; [reflexivity|]. split; [assumption|].
    apply listing_positions. apply in_map_iff. exists v. split; [reflexivity | assumption].
  Qed.

  Lemma cache_complete : forall p, In p (positions st) -> get ids (snd p) <> "" ->
    exists e, In e cache /\ epos e = p /\ e_id e = get ids (snd p).
  Proof.
    intros p Hp Hne. apply listing_positions, in_map_iff in Hp. destruct Hp as [v [<- Hv]].
    destruct (build_from_complete c ids (list_visits st) [] v Hv Hne) as [[e [He [Hp Hi]]]|[]].
    exists e. repeat split; assumption.
  Qed.

  Lemma cache_nodup : NoDup (map epos cache).
  Proof.
    apply build_from_nodup. apply pos_nodupb_NoDup. exact Honce.
  Qed.

  (* --- item(id) --- *)

  Lemma item_of_some : forall id e, item_of cache id = Some e ->
    In e cache /\ e_id e = id /\ forall e', In e' cache -> e_id e' = id -> e' = e.
  Proof.
    intros id e H. unfold item_of in H. destruct (items_of cache id) as [|e0 [|e1 r]] eqn:E; try discriminate.
    inversion H; subst e0. unfold items_of in E.
    assert (Hin : In e (filter (fun e => String.eqb (e_id e) id) cache)) by (rewrite E; left; reflexivity).
    apply filter_In in Hin. destruct Hin as [Hc Hi]. apply String.eqb_eq in Hi. repeat split; auto.
    intros e' He' Hi'. assert (H' : In e' (filter (fun e => String.eqb (e_id e) id) cache)).
    { apply filter_In; split; [assumption | apply String.eqb_eq; assumption]. }
    rewrite E in H'. destruct H' as [<-|[]]. reflexivity.
  Qed.

  (* item(id) returns exactly the position carrying the id *)
  Theorem item_exact : forall id e, item_of cache id = Some e ->
    e_id e = id /\ id <> "" /\ get ids (e_slot e) = id /\ In (epos e) (positions st) /\
    forall p, In p (positions st) -> get ids (snd p) = id -> p = epos e.
  Proof.
    intros id e H. destruct (item_of_some id e H) as [Hc [Hi Hu]].
    destruct (cache_sound e Hc) as [S1 [S2 S3]]. repeat split; auto; try congruence.
    intros p Hp Hg. assert (Hne : get ids (snd p) <> "") by congruence.
    destruct (cache_complete p Hp Hne) as [e' [He' [Hp' Hi']]].
    rewrite (Hu e' He') in Hp' by congruence. congruence.
  Qed.

  Lemma filter_le_one : forall (A B : Type) (f : A -> B) (g : A -> bool) (l : list A) (p : B),
    NoDup (map f l) -> (forall x, In x (filter g l) -> f x = p) -> length (filter g l) <= 1.
  Proof.
    intros A B f g. induction l as [|a r IH]; intros p Hnd Hall; simpl; [lia|].
    inversion Hnd as [|x l' Hx Hr]; subst. simpl in Hall. destruct (g a) eqn:G.
    - simpl. assert (Hr0 : filter g r = []).
      { destruct (filter g r) as [|b t] eqn:E; [reflexivity|]. exfalso.
        assert (Hb : In b (filter g r)) by (rewrite E; left; reflexivity).
        apply Hx. apply in_map_iff. exists b. split.
        - rewrite (Hall b (or_intror (or_introl eq_refl))), (Hall a (or_introl eq_refl)). reflexivity.
        - apply filter_In in Hb. apply Hb. }
      rewrite Hr0. simpl. lia.
    - apply (IH p Hr). intros x Hxin. apply Hall. assumption.
  Qed.

  (* ... and it does return it whenever exactly one position carries the id *)
  Theorem item_found : forall id p, id <> "" -> In p (positions st) -> get ids (snd p) = id ->
    (forall q, In q (positions st) -> get ids (snd q) = id -> q = p) ->
    exists e, item_of cache id = Some e /\ epos e = p.
  Proof.
    intros id p Hne Hp Hg Hu.
    assert (Hne' : get ids (snd p) <> "") by congruence.
    destruct (cache_complete p Hp Hne') as [e [He [Hpe Hie]]].
    assert (Hall : forall x, In x (items_of cache id) -> epos x = p).
    { intros x Hx. apply filter_In in Hx. destruct Hx as [Hxc Hxi]. apply String.eqb_eq in Hxi.
      destruct (cache_sound x Hxc) as [S1 [S2 S3]]. apply Hu; [assumption|]. unfold epos; simpl. congruence. }
    pose proof (filter_le_one _ _ epos (fun e => String.eqb (e_id e) id) cache p cache_nodup Hall) as Hle.
    assert (Hin : In e (items_of cache id)).
    { apply filter_In. split; [assumption|]. apply String.eqb_eq. congruence. }
    unfold item_of. unfold items_of in *. destruct (filter (fun e0 => String.eqb (e_id e0) id) cache) as [|e0 [|e1 r]] eqn:E.
    - destruct Hin.
    - destruct Hin as [->|[]]. exists e. split; [reflexivity | assumption].
    - simpl in Hle. lia.
  Qed.

  (* behaviour on duplicates, as coded: no item *)
  Theorem item_duplicate : forall id p q, In p (positions st) -> In q (positions st) -> p <> q ->
    get ids (snd p) = id -> get ids (snd q) = id -> item_of cache id = None.
  Proof.
    intros id p q Hp Hq Hd Gp Gq. destruct (item_of cache id) as [e|] eqn:E; [|reflexivity].
    destruct (item_exact id e E) as [_ [_ [_ [_ Hu]]]]. rewrite (Hu p Hp Gp), (Hu q Hq Gq) in Hd. congruence.
  Qed.

  (* item(id, index) returns a position that carries the id *)
  Theorem item_index_carrier : forall id i e, item_index_of cache id i = Some e ->
    e_id e = id /\ get ids (e_slot e) = id /\ In (epos e) (positions st).
  Proof.
    intros id i e H. unfold item_index_of in H. apply nth_error_In in H. apply filter_In in H.
    destruct H as [Hc Hi]. apply String.eqb_eq in Hi. destruct (cache_sound e Hc) as [S1 [S2 S3]].
    repeat split; auto; congruence.
  Qed.

  (* --- itemCount / ids / duplicateIds --- *)

  Lemma Permutation_filter : forall (A : Type) (f : A -> bool) (l l' : list A),
    Permutation l l' -> Permutation (filter f l) (filter f l').
  Proof.
    intros A f l l' H. induction H; simpl.
    - constructor.
    - destruct (f x); [constructor|]; assumption.
    - destruct (f x), (f y); auto using perm_swap, perm_skip, Permutation_refl.
    - eapply Permutation_trans; eassumption.
  Qed.

  Definition carries (x : string) (p : kind * nat) : bool := String.eqb (get ids (snd p)) x.

  Lemma cache_positions_perm :
    Permutation (map epos cache) (filter (fun p => negb (is_empty (get ids (snd p)))) (positions st)).
  Proof.
    apply NoDup_Permutation.
    - exact cache_nodup.
    - apply NoDup_filter. apply pos_nodup_NoDup.
    - intro p. rewrite filter_In, in_map_iff. split.
      + intros [e [<- He]]. destruct (cache_sound e He) as [S1 [S2 S3]]. split; [assumption|].
        unfold epos; simpl. rewrite <- S1. apply negb_true_iff, is_empty_false. assumption.
      + intros [Hp Hne]. apply negb_true_iff, is_empty_false in Hne.
        destruct (cache_complete p Hp Hne) as [e [He [Hpe _]]]. exists e; split; assumption.
  Qed.

  (* itemCount(id) = number of positions of the independent traversal that carry the id *)
  Theorem item_count_exact : forall x, x <> "" ->
    item_count_of cache x = length (filter (carries x) (positions st)).
  Proof.
    intros x Hne. unfold item_count_of, items_of.
    assert (E1 : length (filter (fun e => String.eqb (e_id e) x) cache) = length (filter (carries x) (map epos cache))).
    { clear Hne. assert (G : forall l, (forall e, In e l -> e_id e = get ids (e_slot e)) ->
                 length (filter (fun e => String.eqb (e_id e) x) l) = length (filter (carries x) (map epos l))).
      { induction l as [|e r IH]; intro Hs; simpl; [reflexivity|].
        unfold carries at 1. unfold epos at 1. simpl. rewrite <- (Hs e (or_introl eq_refl)).
        destruct (String.eqb (e_id e) x); simpl; rewrite IH; auto; intros; apply Hs; right; assumption. }
      apply G. intros e He. apply (cache_sound e He). }
    rewrite E1.
    rewrite (Permutation_length (Permutation_filter _ (carries x) _ _ cache_positions_perm)).
    f_equal. clear E1. induction (positions st) as [|p r IH]; simpl; [reflexivity|].
    destruct (is_empty (get ids (snd p))) eqn:E; simpl.
    - apply is_empty_true in E. unfold carries at 2. rewrite E.
      destruct (String.eqb "" x) eqn:E2; [apply String.eqb_eq in E2; congruence | assumption].
    - destruct (carries x p); [f_equal|]; assumption.
  Qed.

  Lemma insert_uniq_In : forall x l y, In y (insert_uniq x l) <-> y = x \/ In y l.
  Proof.
    intros x. induction l as [|z r IH]; intro y; simpl; [intuition|].
    destruct (String.eqb x z) eqn:E.
    - apply String.eqb_eq in E; subst. simpl. intuition.
    - destruct (str_ltb x z); simpl; [intuition|]. rewrite IH. intuition.
  Qed.
  Lemma sort_uniq_In : forall l y, In y (sort_uniq l) <-> In y l.
  Proof.
    induction l as [|x r IH]; intro y; simpl; [tauto|]. rewrite insert_uniq_In, IH. intuition.
  Qed.

  (* ids() lists exactly the non-empty identifiers met by the independent traversal *)
  Theorem ids_exact : forall x, In x (ids_of cache) <-> x <> "" /\ exists p, In p (positions st) /\ get ids (snd p) = x.
  Proof.
    intro x. unfold ids_of. rewrite sort_uniq_In. unfold keys_of. rewrite in_map_iff. split.
    - intros [e [<- He]]. destruct (cache_sound e He) as [S1 [S2 S3]]. split; [assumption|].
      exists (epos e). split; [assumption|]. unfold epos; simpl. congruence.
    - intros [Hne [p [Hp Hg]]]. assert (Hne' : get ids (snd p) <> "") by congruence.
      destruct (cache_complete p Hp Hne') as [e [He [_ Hi]]].
      exists e. split; [congruence | assumption].
  Qed.

  (* duplicateIds() lists exactly the identifiers carried by two or more positions *)
  Theorem duplicate_ids_exact : forall x, In x (duplicate_ids_of cache) <->
    x <> "" /\ 2 <= length (filter (carries x) (positions st)).
  Proof.
    intro x. unfold duplicate_ids_of. rewrite filter_In, ids_exact. split.
    - intros [[Hne _] Hc]. split; [assumption|]. apply Nat.ltb_lt in Hc. rewrite item_count_exact in Hc by assumption. lia.
    - intros [Hne Hc]. split.
      + split; [assumption|]. destruct (filter (carries x) (positions st)) as [|p r] eqn:E; [simpl in Hc; lia|].
        assert (Hp : In p (filter (carries x) (positions st))) by (rewrite E; left; reflexivity).
        apply filter_In in Hp. destruct Hp as [Hp Hcar]. exists p. split; [assumption|]. apply String.eqb_eq. exact Hcar.
      + apply Nat.ltb_lt. rewrite item_count_exact by assumption. lia.
  Qed.
End Cache.

(* ------------------------------------------------------------------------------------------------ update() *)

(* the id list is rebuilt exactly when the stored hash differs from the hash of the model *)
Theorem update_refreshes_iff_hash_changes : forall c st s, a_has_model (s_ann s) = true ->
  (a_hash (s_ann s) = Some (hash_string c st (s_ids s)) -> update c st s = s) /\
  (a_hash (s_ann s) <> Some (hash_string c st (s_ids s)) ->
     a_cache (s_ann (update c st s)) = build_cache c st (s_ids s) /\
     a_hash (s_ann (update c st s)) = Some (hash_string c st (s_ids s))).
Proof.
  intros c st s Hm. unfold update. rewrite Hm. simpl. split; intro H.
  - rewrite H. simpl. rewrite String.eqb_refl. reflexivity.
  - destruct (a_hash (s_ann s)) as [h|] eqn:E; simpl.
    + destruct (String.eqb h (hash_string c st (s_ids s))) eqn:E2.
      * apply String.eqb_eq in E2. congruence.
      * split; reflexivity.
    + split; reflexivity.
Qed.

(* ------------------------------------------------------------------------------------------------ printer *)

Lemma make_unique_print_spec : forall idset id ok, make_unique_print idset = (id, ok) ->
  ok = true /\ ~ In id idset /\ id <> "".
Proof.
  intros idset id ok H. unfold make_unique_print in H.
  destruct (mu_loop (length idset) idset 11852373) as [[id0 n] ok0] eqn:M. inversion H; subst.
  pose proof (mu_loop_terminates (length idset) idset 11852373 (le_n _)) as T. rewrite M in T. simpl in T. subst ok.
  apply mu_loop_true in M. destruct M as [M1 [M2 _]]. repeat split; auto. subst id. apply hex_nonempty.
Qed.

(* what printModel(model, true) writes on the printed elements:
   - an element that has an identifier keeps it;
   - an element without one receives a non-empty identifier that is not in the set the printer started from
     (all identifiers the model carries outside MathML) and differs from every other generated one;
   - all loops terminate. *)
Lemma print_ids_from_spec : forall ids ps idset l ok, print_ids_from ids ps idset = (l, ok) ->
  ok = true /\ length l = length ps /\
  (forall p x, In (p, x) (combine ps l) -> get ids (snd p) <> "" -> x = get ids (snd p)) /\
  (forall p x, In (p, x) (combine ps l) -> get ids (snd p) = "" -> x <> "" /\ ~ In x idset) /\
  NoDup (map snd (filter (fun px => is_empty (get ids (snd (fst px)))) (combine ps l))).
Proof.
  intros ids. induction ps as [|p r IH]; intros idset l ok H; simpl in H.
  - inversion H; subst. simpl. repeat split; auto; try (intros; contradiction). constructor.
  - destruct (is_empty (get ids (snd p))) eqn:E.
    + destruct (make_unique_print idset) as [id ok1] eqn:M.
      destruct (print_ids_from ids r (id :: idset)) as [l' ok'] eqn:R. inversion H; subst. clear H.
      apply make_unique_print_spec in M. destruct M as [-> [Mf Mn]].
      destruct (IH _ _ _ R) as [-> [Hl [Hk [Hn Hd]]]]. apply is_empty_true in E.
      split; [reflexivity|]. split; [simpl; congruence|]. split; [|split].
      * intros q x [Hq|Hq] Hne; [inversion Hq; subst; congruence | eapply Hk; eauto].
      * intros q x [Hq|Hq] He; [inversion Hq; subst; split; assumption|].
        destruct (Hn q x Hq He) as [A B]. split; [assumption|]. intro; apply B; right; assumption.
      * simpl. rewrite E. apply is_empty_true in E. simpl. constructor; [|assumption].
        intro Hin. apply in_map_iff in Hin. destruct Hin as [[q x] [Hx Hq]]. simpl in Hx; subst x.
        apply filter_In in Hq. destruct Hq as [Hq He]. simpl in He. apply is_empty_true in He.
        destruct (Hn q id Hq He) as [_ B]. apply B. left; reflexivity.
    + destruct (print_ids_from ids r idset) as [l' ok'] eqn:R. inversion H; subst. clear H.
      destruct (IH _ _ _ R) as [-> [Hl [Hk [Hn Hd]]]]. apply is_empty_false in E.
      split; [reflexivity|]. split; [simpl; congruence|]. split; [|split].
      * intros q x [Hq|Hq] Hne; [inversion Hq; subst; reflexivity | eapply Hk; eauto].
      * intros q x [Hq|Hq] He; [inversion Hq; subst; congruence | eapply Hn; eauto].
      * simpl. apply is_empty_false in E. rewrite E. assumption.
Qed.

Theorem print_ids_unique : forall st ids l ok, print_ids st ids = (l, ok) ->
  ok = true /\ length l = length (print_positions st ids) /\
  (forall p x, In (p, x) (combine (print_positions st ids) l) -> get ids (snd p) = "" ->
     x <> "" /\ ~ In x (list_ids st ids)) /\
  NoDup (map snd (filter (fun px => is_empty (get ids (snd (fst px)))) (combine (print_positions st ids) l))).
Proof.
  intros st ids l ok H. unfold print_ids in H. apply print_ids_from_spec in H. tauto.
Qed.

(* the model value is an input only: identifiers that exist are written unchanged (the functional model
   cannot change its argument; on the implementation purity is observed by the correspondence run) *)
Theorem print_ids_pure : forall st ids l ok, print_ids st ids = (l, ok) ->
  forall p x, In (p, x) (combine (print_positions st ids) l) -> get ids (snd p) <> "" -> x = get ids (snd p).
Proof.
  intros st ids l ok H. unfold print_ids in H. apply print_ids_from_spec in H. tauto.
Qed.

(* the set the printer starts from holds every identifier of the model outside MathML *)
Lemma list_ids_complete : forall st ids slot, In slot (listed_slots st) -> get ids slot <> "" -> In (get ids slot) (list_ids st ids).
Proof.
  intros st ids slot Hin Hne. unfold list_ids. apply filter_In. split.
  - unfold listed_slots in Hin. apply in_map_iff in Hin. destruct Hin as [v [<- Hv]].
    apply in_map_iff. exists v. split; [reflexivity | assumption].
  - apply negb_true_iff, is_empty_false. assumption.
Qed.
