(** GenDefs.v — executable model of libcellml's expression printer (C03).  No proofs.

    Transcribes /repo/src/generator.cpp (as the code is now):
      generateDoubleCode, GeneratorImpl::isNegativeNumber, isRelationalOperator, isAndOperator, isOrOperator,
      isXorOperator, isLogicalOperator, isPlusOperator, isMinusOperator, isTimesOperator, isDivideOperator,
      isPowerOperator, isRootOperator, isPiecewiseStatement, generateOperatorCode, generateMinusUnaryCode,
      generateOneParameterFunctionCode, generateTwoParameterFunctionCode, generatePiecewiseIfCode,
      generatePiecewiseElseCode, generateCode;
    and /repo/src/utilities.cpp: replace (first occurrence), convertToDouble + areEqual as used on printed text.

    The profile (operator strings and has*Operator flags) is LCGen.ProfileStrings, regenerated from
    generatorprofile.cpp on every run.

    Scope notes (stated, not hidden):
    * The model is the generator *without* an analyser model (Generator::equationCode, mModel == nullptr):
      a CI prints its variable's name, DIFF prints "d<x>/d<t>".  With a model a CI prints
      <array>[<index>] instead, a token-for-token substitution.
    * A null child where the C++ dereferences it (a crash) is printed as the marker "<null>"; the predicates
      answer false on null.  Correspondence cases never contain such shapes.
    * convertToDouble(text) followed by areEqual(value, k) is modelled on the exact decimal value of the text
      (NumDefs.real_parts); areEqual compares 15-significant-digit renderings of doubles, so the two agree on
      every literal of at most 15 significant digits, which is what the generators emit. *)
From Coq Require Import String Ascii List Bool Arith ZArith.
From LC Require Import NumDefs AstDefs.
From LCGen Require Export ProfileStrings.
Import ListNotations.
Local Open Scope string_scope.
Local Open Scope bool_scope.

(** ** strings *)

(* if s = pre ++ r then Some r *)
Fixpoint prefix_drop (pre s : string) : option string :=
  match pre with
  | EmptyString => Some s
  | String a pre' =>
      match s with
      | EmptyString => None
      | String b s' => if Ascii.eqb a b then prefix_drop pre' s' else None
      end
  end.

Definition starts_with (pre s : string) : bool :=
  match prefix_drop pre s with Some _ => true | None => false end.

(* utilities.cpp: replace — the first occurrence only *)
Fixpoint replace_first (s from to : string) : string :=
  match prefix_drop from s with
  | Some r => to ++ r
  | None =>
      match s with
      | EmptyString => EmptyString
      | String c s' => String c (replace_first s' from to)
      end
  end.

Fixpoint contains_char (c : ascii) (s : string) : bool :=
  match s with
  | EmptyString => false
  | String d r => Ascii.eqb d c || contains_char c r
  end.

(* generator.cpp: generateDoubleCode.  value.find('e'): lower case only. *)
Definition double_code (v : string) : string :=
  if contains_char "." v then v
  else if contains_char "e" v then
         let (a, b) := split_at "e" v in a ++ ".0" ++ "e" ++ b
       else v ++ ".0".

(** ** numeric value of printed text: convertToDouble(text, d) && areEqual(d, num/den) *)
Definition text_is_number (s : string) (num den : Z) : bool :=
  match real_parts s with
  | Some (neg, m, e) =>
      let sm := if neg then (- m)%Z else m in
      if (0 <=? e)%Z then (sm * 10 ^ e * den =? num)%Z
      else (sm * den =? num * 10 ^ (- e))%Z
  | None => false
  end.

Section Gen.
Variable p : profile.

(** ** the predicates of generateOperatorCode *)

(* isNegativeNumber: CN whose converted value is < 0.0 ("-0" is not) *)
Definition is_negative_number (a : ast) : bool :=
  match a with
  | Node CN v _ _ =>
      match real_parts v with
      | Some (neg, m, _) => neg && negb (m =? 0)%Z
      | None => false   (* C++: convertToDouble fails and an uninitialised double is compared *)
      end
  | _ => false
  end.

Definition is_relational (a : ast) : bool :=
  match a with
  | Node EQ _ _ _ => has_eq_operator p
  | Node NEQ _ _ _ => has_neq_operator p
  | Node LT _ _ _ => has_lt_operator p
  | Node LEQ _ _ _ => has_leq_operator p
  | Node GT _ _ _ => has_gt_operator p
  | Node GEQ _ _ _ => has_geq_operator p
  | _ => false
  end.

Definition is_and (a : ast) : bool := match a with Node AND _ _ _ => has_and_operator p | _ => false end.
Definition is_or (a : ast) : bool := match a with Node OR _ _ _ => has_or_operator p | _ => false end.
Definition is_xor (a : ast) : bool := match a with Node XOR _ _ _ => has_xor_operator p | _ => false end.
Definition is_logical (a : ast) : bool := is_and a || is_or a || is_xor a.
Definition is_plus (a : ast) : bool := match a with Node PLUS _ _ _ => true | _ => false end.
Definition is_minus (a : ast) : bool := match a with Node MINUS _ _ _ => true | _ => false end.
Definition is_times (a : ast) : bool := match a with Node TIMES _ _ _ => true | _ => false end.
Definition is_divide (a : ast) : bool := match a with Node DIVIDE _ _ _ => true | _ => false end.
Definition is_power (a : ast) : bool := match a with Node POWER _ _ _ => has_power_operator p | _ => false end.
Definition is_root (a : ast) : bool := match a with Node ROOT _ _ _ => has_power_operator p | _ => false end.
Definition is_piecewise (a : ast) : bool :=
  match a with Node PIECEWISE _ _ _ => has_conditional_operator p | _ => false end.

(* the recurring groups *)
Definition rel_log_pw (a : ast) : bool := is_relational a || is_logical a || is_piecewise a.
(* "else if (isPlusOperator(x) || isMinusOperator(x)) { if (x->rightChild() != nullptr) ..." *)
Definition pm_with_right (a : ast) : bool := (is_plus a || is_minus a) && has_right a.
Definition plus_with_right (a : ast) : bool := is_plus a && has_right a.

(** generateOperatorCode, the parenthesisation decisions.  [t] is the type of the operator node, [l] [r] its
    children, [rcode] the code already generated for the right child (MINUS looks at its first character).
    One match arm per "if (isXxxOperator(ast))" branch, in the order of the source. *)
Definition paren_left (t : ty) (l r : ast) : bool :=
  match t with
  | PLUS => rel_log_pw l
  | MINUS => rel_log_pw l
  | TIMES => rel_log_pw l || pm_with_right l
  | DIVIDE => rel_log_pw l || pm_with_right l
  | AND => has_and_operator p &&
           (is_relational l || is_or l || is_xor l || is_piecewise l || pm_with_right l || is_power l || is_root l)
  | OR => has_or_operator p &&
          (is_relational l || is_and l || is_xor l || is_piecewise l || pm_with_right l || is_power l || is_root l)
  | XOR => has_xor_operator p &&
           (is_relational l || is_and l || is_or l || is_piecewise l || pm_with_right l || is_power l || is_root l)
  | POWER => has_power_operator p &&
             (is_relational l || is_logical l || is_minus l || is_times l || is_divide l || is_piecewise l
              || plus_with_right l)
  | _ => false
  end.

Definition paren_right (t : ty) (l r : ast) (rcode : string) : bool :=
  match t with
  | PLUS => rel_log_pw r
  | MINUS => is_negative_number r || is_relational r || is_logical r || is_minus r || is_piecewise r
             || starts_with (minus_string p) rcode || plus_with_right r
  | TIMES => rel_log_pw r || pm_with_right r
  | DIVIDE => is_relational r || is_logical r || is_times r || is_divide r || is_piecewise r || pm_with_right r
  | AND => has_and_operator p &&
           (is_relational r || is_or r || is_xor r || is_piecewise r || pm_with_right r || is_power r || is_root r)
  | OR => has_or_operator p &&
          (is_relational r || is_and r || is_xor r || is_piecewise r || pm_with_right r || is_power r || is_root r)
  | XOR => has_xor_operator p &&
           (is_relational r || is_and r || is_or r || is_piecewise r || pm_with_right r || is_power r || is_root r)
  | POWER => has_power_operator p &&
             (is_relational r || is_logical r || is_minus l (* sic: the source tests astLeftChild here *)
              || is_times r || is_divide r || is_power r || is_root r || is_piecewise r || plus_with_right r)
  | _ => false
  end.

Definition parens (s : string) : string := "(" ++ s ++ ")".
Definition wrap (b : bool) (s : string) : string := if b then parens s else s.

(* generateOperatorCode for every operator but ROOT (which only comes here when hasPowerOperator) *)
Definition operator_code (t : ty) (op : string) (l r : ast) (lcode rcode : string) : string :=
  wrap (paren_left t l r) lcode ++ op ++ wrap (paren_right t l r rcode) rcode.

(* generateOperatorCode, the isRootOperator(ast) branch: l is the DEGREE node, ll its child *)
Definition root_operator_code (op : string) (l r : ast) (lcode rcode : string) : string :=
  let ll := left_of l in
  let pr := is_relational r || is_logical r || is_minus r || is_times r || is_divide r || is_piecewise r
            || plus_with_right r in
  let pl := is_relational ll || is_logical ll || is_minus ll || is_times ll || is_divide ll || is_power ll
            || is_root ll || is_piecewise ll || plus_with_right ll in
  wrap pr rcode ++ op ++ "(1.0/" ++ wrap pl lcode ++ ")".

(* generateMinusUnaryCode *)
Definition paren_unary_minus (l : ast) : bool :=
  is_relational l || is_logical l || is_plus l || is_minus l || is_piecewise l.
Definition minus_unary_code (l : ast) (lcode : string) : string :=
  minus_string p ++ wrap (paren_unary_minus l) lcode.

Definition one_param (f code : string) : string := f ++ "(" ++ code ++ ")".
Definition two_param (f c1 c2 : string) : string := f ++ "(" ++ c1 ++ ", " ++ c2 ++ ")".

(* mPiecewiseIfString / mPiecewiseElseString are not assigned by loadProfile: they keep their default "" *)
Definition piecewise_if_string : string := "".
Definition piecewise_else_string : string := "".

Definition piecewise_if_code (condition value : string) : string :=
  replace_first
    (replace_first (if has_conditional_operator p then conditional_operator_if_string p else piecewise_if_string)
                   "[CONDITION]" condition)
    "[IF_STATEMENT]" value.

Definition piecewise_else_code (value : string) : string :=
  replace_first (if has_conditional_operator p then conditional_operator_else_string p else piecewise_else_string)
                "[ELSE_STATEMENT]" value.

Definition null_marker : string := "<null>".

(* an operator that is printed infix when the profile has it, as a two-parameter function otherwise *)
Definition op_or_fun (has : bool) (t : ty) (s : string) (l r : ast) (lcode rcode : string) : string :=
  if has then operator_code t s l r lcode rcode else two_param s lcode rcode.

(** generateCode *)
Fixpoint gen (a : ast) : string :=
  match a with
  | Null => null_marker
  | Node t v l r =>
      let f1 (s : string) := one_param s (gen l) in
      let f2 (s : string) := two_param s (gen l) (gen r) in
      match t with
      | EQUALITY => operator_code t (equality_string p) l r (gen l) (gen r)
      | EQ => op_or_fun (has_eq_operator p) t (eq_string p) l r (gen l) (gen r)
      | NEQ => op_or_fun (has_neq_operator p) t (neq_string p) l r (gen l) (gen r)
      | LT => op_or_fun (has_lt_operator p) t (lt_string p) l r (gen l) (gen r)
      | LEQ => op_or_fun (has_leq_operator p) t (leq_string p) l r (gen l) (gen r)
      | GT => op_or_fun (has_gt_operator p) t (gt_string p) l r (gen l) (gen r)
      | GEQ => op_or_fun (has_geq_operator p) t (geq_string p) l r (gen l) (gen r)
      | AND => op_or_fun (has_and_operator p) t (and_string p) l r (gen l) (gen r)
      | OR => op_or_fun (has_or_operator p) t (or_string p) l r (gen l) (gen r)
      | XOR => op_or_fun (has_xor_operator p) t (xor_string p) l r (gen l) (gen r)
      | NOT => if has_not_operator p then not_string p ++ gen l else f1 (not_string p)
      | PLUS => if is_nil r then gen l else operator_code t (plus_string p) l r (gen l) (gen r)
      | MINUS => if is_nil r then minus_unary_code l (gen l) else operator_code t (minus_string p) l r (gen l) (gen r)
      | TIMES => operator_code t (times_string p) l r (gen l) (gen r)
      | DIVIDE => operator_code t (divide_string p) l r (gen l) (gen r)
      | POWER =>
          let sv := gen r in
          if text_is_number sv 1 2 then f1 (square_root_string p)
          else if text_is_number sv 2 1 && negb (str_is_empty (square_string p)) then f1 (square_string p)
          else if has_power_operator p then operator_code t (power_string p) l r (gen l) sv
          else power_string p ++ "(" ++ gen l ++ ", " ++ sv ++ ")"
      | ROOT =>
          if is_nil r then f1 (square_root_string p)
          else if text_is_number (gen l) 2 1 then square_root_string p ++ "(" ++ gen r ++ ")"
          else if has_power_operator p then root_operator_code (power_string p) l r (gen l) (gen r)
          else
            (* rootValueAst = DIVIDE (CN "1.0") (astLeftChild->leftChild()) *)
            let ll := left_of l in
            let one := Node CN "1.0" Null Null in
            power_string p ++ "(" ++ gen r ++ ", "
              ++ operator_code DIVIDE (divide_string p) one ll "1.0"
                   (match l with Node _ _ ll' _ => gen ll' | Null => null_marker end)
              ++ ")"
      | ABS => f1 (absolute_value_string p)
      | EXP => f1 (exponential_string p)
      | LN => f1 (natural_logarithm_string p)
      | LOG =>
          if is_nil r then f1 (common_logarithm_string p)
          else
            let sv := gen l in
            if text_is_number sv 10 1 then common_logarithm_string p ++ "(" ++ gen r ++ ")"
            else natural_logarithm_string p ++ "(" ++ gen r ++ ")/" ++ natural_logarithm_string p ++ "(" ++ sv ++ ")"
      | CEILING => f1 (ceiling_string p)
      | FLOOR => f1 (floor_string p)
      | MIN => f2 (min_string p)
      | MAX => f2 (max_string p)
      | REM => f2 (rem_string p)
      | DIFF => "d" ++ gen r ++ "/d" ++ gen l      (* mModel == nullptr *)
      | SIN => f1 (sin_string p)
      | COS => f1 (cos_string p)
      | TAN => f1 (tan_string p)
      | SEC => f1 (sec_string p)
      | CSC => f1 (csc_string p)
      | COT => f1 (cot_string p)
      | SINH => f1 (sinh_string p)
      | COSH => f1 (cosh_string p)
      | TANH => f1 (tanh_string p)
      | SECH => f1 (sech_string p)
      | CSCH => f1 (csch_string p)
      | COTH => f1 (coth_string p)
      | ASIN => f1 (asin_string p)
      | ACOS => f1 (acos_string p)
      | ATAN => f1 (atan_string p)
      | ASEC => f1 (asec_string p)
      | ACSC => f1 (acsc_string p)
      | ACOT => f1 (acot_string p)
      | ASINH => f1 (asinh_string p)
      | ACOSH => f1 (acosh_string p)
      | ATANH => f1 (atanh_string p)
      | ASECH => f1 (asech_string p)
      | ACSCH => f1 (acsch_string p)
      | ACOTH => f1 (acoth_string p)
      | PIECEWISE =>
          match r with
          | Null => gen l ++ piecewise_else_code (nan_string p)
          | Node PIECE _ _ _ => gen l ++ piecewise_else_code (gen r ++ piecewise_else_code (nan_string p))
          | _ => gen l ++ piecewise_else_code (gen r)
          end
      | PIECE => piecewise_if_code (gen r) (gen l)
      | OTHERWISE => gen l
      | CI => v                                     (* mModel == nullptr: variable->name() *)
      | CN => double_code v
      | DEGREE => gen l
      | LOGBASE => gen l
      | BVAR => gen l
      | TRUE => true_string p
      | FALSE => false_string p
      | E => e_string p
      | PI => pi_string p
      | INF => inf_string p
      | NAN => nan_string p
      end
  end.

End Gen.

Definition gen_C : ast -> string := gen profile_C.
Definition gen_Py : ast -> string := gen profile_Py.
