(** ValidImportProofs.v — C04 proofs: the main equivalence for worlds whose model 0 has RESOLVED component imports.
    What validateComponent checks through a resolved import is the import TARGET only (in its own model, with the reset
    variables decided by component NAME), then whatever that target imports — never the components the target
    encapsulates (finding C04-imported-component-children).  [Checked] says exactly that. *)
From Coq Require Import String Ascii List Bool Arith Lia.
From LC Require Import Common NumDefs MathDefs ValidDefs ValidSpec ValidLeaf ValidMathProofs ValidCompProofs ValidConnProofs
  ValidUnitsProofs ValidProofs.
Import ListNotations.
Local Open Scope string_scope.
Local Open Scope list_scope.
Local Open Scope nat_scope.

(** the epoch validateComponent pushes when it follows the import of component [c] of model [mi] *)
Definition comp_epoch (hist : list epoch) (mi : nat) (c : cinfo) (s : isrc) (mj : nat) : epoch :=
  mkEp (c_name c) (importee_url hist (is_url s)) (is_url s) mi (Some mj).

Section Imports.
  Variable q : bool.
  Variable W : world.

  (** a component as validateComponent accepts it: its own content (CompOKop: names, ids, variables, resets, math — or, for
      an import, reference and import source), and when its import source has a model: the reference hits, the url-based
      cycle test does not fire, and the TARGET is accepted in the same way in its own model *)
  Inductive Checked : nat -> list epoch -> cinfo -> Prop :=
  | Checked_intro : forall mi hist c,
      CompOKop q W mi c ->
      (forall s cref mj, c_imp c = Some (s, cref) -> is_model s = Some mj ->
         exists ic, find_comp (model_at W mj) cref = Some ic
                    /\ import_cycle hist (comp_epoch hist mi c s mj) = false
                    /\ Checked mj (hist ++ [comp_epoch hist mi c s mj]) (c_info ic)) ->
      Checked mi hist c.

  (** imports point forward in the world: the well-foundedness the recursion needs *)
  Definition imports_forward : Prop :=
    forall mi c s cref mj, In c (model_comps (model_at W mi)) -> c_imp (c_info c) = Some (s, cref) -> is_model s = Some mj ->
                           mi < mj /\ mj < length W.

  Lemma name_nil : forall (c : cinfo),
    (if is_ident (c_name c) then [] else [if is_import_c c then V_IMPORT_COMPONENT_NAME_VALUE else V_COMPONENT_NAME_VALUE]) = []
    <-> IsIdent (c_name c).
  Proof. intro c. rewrite <- is_ident_iff. destruct (is_ident (c_name c)); split; intro H; try reflexivity; discriminate H. Qed.

  (** silent => accepted, for any fuel *)
  Lemma checked_of_nil : forall fuel mi hist c, validate_component q fuel W mi hist c = [] -> Checked mi hist c.
  Proof.
    induction fuel as [|f IH]; intros mi hist c H; [discriminate H|].
    destruct (c_imp c) as [[s cref]|] eqn:Eimp.
    - destruct (is_model s) as [mj|] eqn:Em.
      + cbn [validate_component] in H. rewrite Eimp, Em in H. rewrite !app_nil_iff in H.
        destruct H as [H1 [H2 [H3 [H4 H5]]]].
        constructor.
        * unfold CompOKop, XmlName. rewrite Eimp. apply name_nil in H1. apply (if_nil_iff (is_xml_name (c_id c)) V_XML_ID_ATTRIBUTE) in H2.
          apply (if_nil_iff (is_ident cref) V_IMPORT_COMPONENT_COMPONENT_REFERENCE_VALUE) in H3. apply is_ident_iff in H3.
          apply validate_import_source_nil in H4. split; [exact H1 | split; [exact H2 | split; [exact H3 | exact H4]]].
        * intros s' cref' mj' E1 E2. rewrite Eimp in E1. assert (s' = s /\ cref' = cref) as [-> ->] by (inversion E1; split; reflexivity).
          assert (mj' = mj) as -> by congruence.
          destruct (find_comp (model_at W mj) cref) as [ic|]; [|discriminate H5]. exists ic. split; [reflexivity|].
          fold (comp_epoch hist mi c s mj) in H5. destruct (import_cycle hist (comp_epoch hist mi c s mj)); [discriminate H5|].
          split; [reflexivity|]. apply IH. exact H5.
      + constructor.
        * apply (validate_component_nil q f W mi hist c); [unfold unresolved; rewrite Eimp; exact Em | exact H].
        * intros s' cref' mj' E1 E2. rewrite Eimp in E1. assert (s' = s) as -> by (inversion E1; reflexivity). rewrite Em in E2. discriminate E2.
    - constructor.
      + apply (validate_component_nil q f W mi hist c); [unfold unresolved; rewrite Eimp; exact I | exact H].
      + intros s' cref' mj' E1. rewrite Eimp in E1. discriminate E1.
  Qed.

  (* ---------------------------------------------------------------- the target of find_comp is a component of the model *)

  Fixpoint find_comp_list (n : string) (ks : list comp) : option comp :=
    match ks with
    | [] => None
    | k :: r => match find_comp_in n k with Some x => Some x | None => find_comp_list n r end
    end.

  Lemma find_comp_in_unfold : forall n i kids,
    find_comp_in n (Comp i kids) =
    match find (fun k => String.eqb (c_name (c_info k)) n) kids with Some k => Some k | None => find_comp_list n kids end.
  Proof.
    intros. cbn [find_comp_in]. destruct (find _ kids); [reflexivity|].
    induction kids as [|k r IH]; [reflexivity|]. cbn [find_comp_list]. destruct (find_comp_in n k); [reflexivity | exact IH].
  Qed.

  Lemma find_comp_in_sound : forall n c x, find_comp_in n c = Some x -> In x (comp_all c).
  Proof.
    intro n. induction c as [i kids IH] using comp_ind2. intros x H. rewrite find_comp_in_unfold in H. rewrite comp_all_unfold. right.
    destruct (find (fun k => String.eqb (c_name (c_info k)) n) kids) as [k|] eqn:E.
    - inversion H; subst. apply find_some in E. destruct E as [E _]. apply in_flat_map. exists x. split; [exact E|].
      destruct x. rewrite comp_all_unfold. left. reflexivity.
    - clear E. induction kids as [|k r IHr]; [discriminate H|]. cbn [find_comp_list] in H. inversion IH; subst.
      cbn [flat_map]. apply in_or_app. destruct (find_comp_in n k) eqn:Ek.
      + inversion H; subst. left. apply H2. reflexivity.
      + right. apply IHr; assumption.
  Qed.

  Lemma find_comp_sound : forall m n x, find_comp m n = Some x -> In x (model_comps m).
  Proof.
    intros m n x H. unfold find_comp in H. unfold model_comps.
    destruct (find (fun k => String.eqb (c_name (c_info k)) n) (m_comps m)) as [k|] eqn:E.
    - inversion H; subst. apply find_some in E. destruct E as [E _]. apply in_flat_map. exists x. split; [exact E|].
      destruct x. rewrite comp_all_unfold. left. reflexivity.
    - clear E. induction (m_comps m) as [|k r IHr]; [discriminate H|]. cbn [flat_map]. apply in_or_app.
      destruct (find_comp_in n k) eqn:Ek.
      + inversion H; subst. left. apply (find_comp_in_sound n k x Ek).
      + right. apply IHr. exact H.
  Qed.

  (** accepted => silent, with the fuel validateModel gives, when imports point forward *)
  Lemma nil_of_checked : imports_forward ->
    forall fuel mi hist c, In c (model_comps (model_at W mi)) -> mi < length W -> length W < fuel + mi ->
                           Checked mi hist (c_info c) -> validate_component q fuel W mi hist (c_info c) = [].
  Proof.
    intros Hfw. induction fuel as [|f IH]; intros mi hist c Hc Hmi Hfuel HC; [lia|].
    inversion HC as [mi' hist' c' Hop Himp]; subst mi' hist' c'.
    destruct (c_imp (c_info c)) as [[s cref]|] eqn:Eimp.
    - destruct (is_model s) as [mj|] eqn:Em.
      + destruct (Himp s cref mj eq_refl Em) as [ic [Hf [Hcy Hrec]]].
        destruct (Hfw mi c s cref mj Hc Eimp Em) as [Hlt Hlen].
        cbn [validate_component]. rewrite Eimp, Em, Hf. fold (comp_epoch hist mi (c_info c) s mj). rewrite Hcy.
        unfold CompOKop in Hop. rewrite Eimp in Hop. destruct Hop as [A [B [C D]]].
        rewrite !app_nil_iff. repeat split.
        * apply name_nil. exact A.
        * apply (if_nil_iff (is_xml_name (c_id (c_info c))) V_XML_ID_ATTRIBUTE). exact B.
        * apply (if_nil_iff (is_ident cref) V_IMPORT_COMPONENT_COMPONENT_REFERENCE_VALUE). apply is_ident_iff. exact C.
        * apply validate_import_source_nil. exact D.
        * apply IH; [apply (find_comp_sound _ _ _ Hf) | exact Hlen | lia | exact Hrec].
      + apply (validate_component_nil q f W mi hist (c_info c)); [unfold unresolved; rewrite Eimp; exact Em | exact Hop].
    - apply (validate_component_nil q f W mi hist (c_info c)); [unfold unresolved; rewrite Eimp; exact I | exact Hop].
  Qed.
End Imports.

(* ------------------------------------------------------------------ the main equivalence with resolved component imports *)

Section MainResolved.
  Variable fx : fixes.
  Variable ueq : world -> string -> string -> option bool.

  (** what a resolved component import of model 0 adds to WF: the reference hits and the target is accepted *)
  Definition ImportTargetOK (W : world) (c : cinfo) : Prop :=
    forall s cref mj, c_imp c = Some (s, cref) -> is_model s = Some mj ->
      exists ic, find_comp (model_at W mj) cref = Some ic
                 /\ import_cycle [] (comp_epoch [] 0 c s mj) = false
                 /\ Checked (fx_math_qual fx) W mj [comp_epoch [] 0 c s mj] (c_info ic).

  Definition WFr (W : world) : Prop :=
    WF fx ueq W /\ Forall (fun c => ImportTargetOK W (c_info c)) (model_comps (model_at W 0)).

  Lemma checked_top_iff : forall W c, Repr (model_at W 0) ->
    NoDup (map (fun c => c_name (c_info c)) (model_comps (model_at W 0))) -> In c (model_comps (model_at W 0)) ->
    (Checked (fx_math_qual fx) W 0 [] (c_info c) <-> CompOK (fx_math_qual fx) W 0 (c_info c) /\ ImportTargetOK W (c_info c)).
  Proof.
    intros W c HR Hn Hc. set (q := fx_math_qual fx). set (m := model_at W 0).
    assert (Hop : CompOKop q W 0 (c_info c) <-> CompOK q W 0 (c_info c)).
    { unfold CompOKop, CompOK. fold m. destruct (c_imp (c_info c)); [tauto|].
      assert (HF : Forall (ResetOKop q m (model_locs m) (c_info c)) (c_resets (c_info c)) <->
                   Forall (ResetOK q m (c_info c)) (c_resets (c_info c))).
      { rewrite !Forall_forall. split; intros H r Hr; apply (reset_ok_iff q m c r HR Hn Hc); apply H; exact Hr. }
      rewrite HF. tauto. }
    split.
    - intro H. inversion H as [mi hist c' H1 H2]; subst. split; [apply Hop; exact H1 | exact H2].
    - intros [H1 H2]. constructor; [apply Hop; exact H1 | exact H2].
  Qed.

  Lemma trees_pass_resolved : forall W, Repr (model_at W 0) -> imports_forward W -> 0 < length W ->
    (validate_trees (fx_math_qual fx) (comp_fuel W) W [] (m_comps (model_at W 0)) = [] <->
     Forall (fun c => CompOK (fx_math_qual fx) W 0 (c_info c) /\ ImportTargetOK W (c_info c)) (model_comps (model_at W 0))
     /\ NoDup (map (fun c => c_name (c_info c)) (model_comps (model_at W 0)))).
  Proof.
    intros W HR Hfw Hlen. unfold comp_fuel. rewrite validate_trees_nil. unfold tree_ok. fold (model_comps (model_at W 0)).
    set (m := model_at W 0) in *. set (q := fx_math_qual fx).
    assert (Hfine : forall c, In c (model_comps m) -> (comp_fine q (S (length W)) W c <-> Checked q W 0 [] (c_info c))).
    { intros c Hc. unfold comp_fine. split; [apply checked_of_nil|]. apply (nil_of_checked q W Hfw); [exact Hc | exact Hlen | lia]. }
    assert (Hnames : Forall (fun c => Checked q W 0 [] (c_info c)) (model_comps m) -> nenames (model_comps m) = map cname (model_comps m)).
    { apply nenames_all. intros c H. inversion H as [mi hist c' [Hid _] _]; subst. apply IsIdent_nonempty. exact Hid. }
    split.
    - intros [H1 [H2 _]].
      assert (Hch : Forall (fun c => Checked q W 0 [] (c_info c)) (model_comps m)).
      { rewrite Forall_forall in *. intros c Hc. apply (Hfine c Hc). apply H1. exact Hc. }
      rewrite (Hnames Hch) in H2. split; [|exact H2].
      rewrite Forall_forall in *. intros c Hc. apply (checked_top_iff W c HR H2 Hc). apply Hch. exact Hc.
    - intros [H1 H2].
      assert (Hch : Forall (fun c => Checked q W 0 [] (c_info c)) (model_comps m)).
      { rewrite Forall_forall in *. intros c Hc. apply (checked_top_iff W c HR H2 Hc). apply H1. exact Hc. }
      split; [|split].
      + rewrite Forall_forall in *. intros c Hc. apply (Hfine c Hc). apply Hch. exact Hc.
      + rewrite (Hnames Hch). exact H2.
      + intros n _ [].
  Qed.

  (** THE MAIN EQUIVALENCE with resolved component imports (units imports of model 0 still unresolved) *)
  Theorem validate_nil_iff_resolved : forall W, Repr (model_at W 0) -> units_stay_local (model_at W 0) ->
    imports_forward W -> 0 < length W ->
    (validate fx ueq false W = [] <-> WFr W /\ IdsOK fx W /\ OrdersOK fx W).
  Proof.
    intros W HR Hu Hfw Hlen. rewrite validate_nil_raw. unfold validate_raw. cbv zeta.
    rewrite !app_nil_iff, !plains_nil.
    rewrite (if_nil_iff (is_ident (m_name (model_at W 0))) V_MODEL_NAME_VALUE), is_ident_iff.
    rewrite (if_nil_iff (is_xml_name (m_id (model_at W 0))) V_XML_ID_ATTRIBUTE).
    rewrite (trees_pass_resolved W HR Hfw Hlen), (units_pass_nil W Hu).
    unfold IdsOK, OrdersOK, WFr.
    assert (Hsplit : Forall (fun c => CompOK (fx_math_qual fx) W 0 (c_info c) /\ ImportTargetOK W (c_info c)) (model_comps (model_at W 0))
                     <-> Forall (fun c => CompOK (fx_math_qual fx) W 0 (c_info c)) (model_comps (model_at W 0))
                         /\ Forall (fun c => ImportTargetOK W (c_info c)) (model_comps (model_at W 0))).
    { rewrite !Forall_forall. split; [intro H; split; intros c Hc; apply (H c Hc) | intros [H1 H2] c Hc; split; [apply H1 | apply H2]; exact Hc]. }
    rewrite Hsplit. split.
    - intros [H1 [H2 [[[H3 H3'] H4] [[H5 [H6 [H7 H8]]] [H9 [H10 H11]]]]]]. split; [|split; assumption].
      apply (validate_connections_nil ueq W (ifaces_valid fx W H3)) in H9.
      split; [constructor; assumption | exact H3'].
    - intros [[[A1 A2 A3 A4 A5 A6 A7 A8 A9] A10] [B C]]. repeat split; try assumption.
      apply (validate_connections_nil ueq W (ifaces_valid fx W A3)). exact A9.
  Qed.
End MainResolved.
