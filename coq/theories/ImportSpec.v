(** ImportSpec.v — specifications for C07 (no proofs): what "every transitive import can be satisfied"
    means, what the importer's own traversal demands, and the hypotheses that separate the two. *)
From Coq Require Import String Ascii List Bool Arith.
From LC Require Import ImportDefs.
Import ListNotations.
Local Open Scope string_scope.
Local Open Scope list_scope.

(* the model a file parses to, if it does *)
Definition fs_model (fs : fsys) (k : string) : option model :=
  match fs_get fs k with Parsed _ m => Some m | _ => None end.

Definition refs_of (u : units) : list string := match u with ULocal _ r => r | UImp _ _ _ _ => [] end.

(* ------------------------------------------------------------------------------------------ the property's notion *)

Section Resolvable.
  Variable fs : fsys.

  (* (A premise "the referenced units exists and is satisfiable" is written as two premises, existence and
     "whatever is found is satisfiable", so that the generated induction principles carry the hypothesis.) *)

  (* [RU o cm u]: the units [u] of model [cm] (owned by [o]: its URLs are relative to the file of [o]) can be satisfied: an import finds its file, the file is a CellML
     model holding the referenced units, and that units can be satisfied in turn; a local units needs every
     units it references (other than the standard ones) to exist in its model and to be satisfiable.
     The definition is inductive: an entity that depends on itself has no derivation. *)
  Inductive RU : owner -> model -> units -> Prop :=
  | RU_imp : forall o cm n sid url ref sm su,
      fs_model fs (key_of o url) = Some sm ->
      find_units (m_units sm) ref = Some su ->
      RU (Some (key_of o url)) sm su ->
      RU o cm (UImp n sid url ref)
  | RU_local : forall o cm n refs,
      (forall r, In r refs -> is_std r = false -> find_units (m_units cm) r <> None) ->
      (forall r cu, In r refs -> is_std r = false -> find_units (m_units cm) r = Some cu -> RU o cm cu) ->
      RU o cm (ULocal n refs).

  (* [RC o cm c]: the component [c] of model [cm] (owned by [o]: URLs are relative to its file) can be satisfied: its
     import (if any) finds file and component, which can be satisfied; the units of its variables exist and can be
     satisfied; so can its children. *)
  Inductive RC : owner -> model -> comp -> Prop :=
  | RC_local : forall o cm n used kids,
      (forall un, In un used -> is_std un = false -> find_units (m_units cm) un <> None) ->
      (forall un su, In un used -> is_std un = false -> find_units (m_units cm) un = Some su -> RU o cm su) ->
      (forall k, In k kids -> RC o cm k) ->
      RC o cm (Comp n None used kids)
  | RC_imp : forall o cm n sid url ref used kids sm sc,
      fs_model fs (key_of o url) = Some sm ->
      find_comp (m_comps sm) ref = Some sc ->
      RC (Some (key_of o url)) sm sc ->
      (forall un, In un used -> is_std un = false -> find_units (m_units cm) un <> None) ->
      (forall un su, In un used -> is_std un = false -> find_units (m_units cm) un = Some su -> RU o cm su) ->
      (forall k, In k kids -> RC o cm k) ->
      RC o cm (Comp n (Some (sid, url, ref)) used kids).

  (* the import of an imported component alone (its children in the importing model are looked at separately) *)
  Definition RCimport (o : owner) (c : comp) : Prop :=
    match c with
    | Comp _ (Some (_, url, ref)) _ _ =>
      exists sm sc, fs_model fs (key_of o url) = Some sm /\ find_comp (m_comps sm) ref = Some sc /\
                    RC (Some (key_of o url)) sm sc
    | Comp _ None _ _ => True
    end.

  (* every transitive import of the model given to resolveImports can be satisfied *)
  Definition Resolvable (m0 : model) : Prop :=
    (forall u, In u (imported_units m0) -> RU None m0 u) /\
    (forall c, In c (imported_comps m0) -> RCimport None c).
End Resolvable.

(* ------------------------------------------------------------------------------------------ what the code demands *)

Definition fcontent (fs : fsys) (m0 : model) (o : owner) : option model :=
  match o with None => Some m0 | Some k => fs_model fs k end.

(* utilities.cpp: checkForImportCycles, with the library read as the file system it caches *)
Definition cycs (fs : fsys) (m0 : model) (hist : list epoch) (h : epoch) : bool :=
  existsb (fun e =>
             String.eqb (e_dst h) (e_src e)
             || (String.eqb (e_src e) origin_ref
                 && match fcontent fs m0 (e_srcm e), e_dstm h with
                    | Some a, Some k => match fs_model fs k with Some b => model_equals a b | None => false end
                    | _, _ => false
                    end)) hist.

Section CodeSpec.
  Variable fs : fsys.
  Variable m0 : model.

  (* [FU o hist u]: ImporterImpl::fetchUnits(u) answers true when called for a units of the model [o] with
     history [hist], on an importer whose library caches (part of) [fs] *)
  Inductive FU : owner -> list epoch -> units -> Prop :=
  | FU_local : forall o hist n refs, FU o hist (ULocal n refs)
  | FU_imp : forall o hist n sid url ref sm su,
      fs_model fs (key_of o url) = Some sm ->
      cycs fs m0 hist (fetch_epoch o url) = false ->
      find_units (m_units sm) ref = Some su ->
      FU (Some (key_of o url)) (hist ++ [fetch_epoch o url]) su ->
      (forall r, In r (refs_of su) -> is_std r = false -> find_units (m_units sm) r <> None) ->
      (forall r cu, In r (refs_of su) -> is_std r = false -> find_units (m_units sm) r = Some cu ->
                    FU (Some (key_of o url)) (hist ++ [fetch_epoch o url]) cu) ->
      FU o hist (UImp n sid url ref).

  (* [FC o hist c]: ImporterImpl::fetchComponent(c) answers true *)
  Inductive FC : owner -> list epoch -> comp -> Prop :=
  | FC_noreq : forall o hist c, requires_imports c = false -> FC o hist c
  | FC_local : forall o hist n used kids,
      (forall k, In k kids -> FC o hist k) -> FC o hist (Comp n None used kids)
  | FC_imp : forall o hist n sid url ref used kids sm sc,
      fs_model fs (key_of o url) = Some sm ->
      cycs fs m0 hist (fetch_epoch o url) = false ->
      find_comp (m_comps sm) ref = Some sc ->
      FC (Some (key_of o url)) (hist ++ [fetch_epoch o url]) sc ->
      (forall k, In k (ckids sc) -> FC (Some (key_of o url)) (hist ++ [fetch_epoch o url]) k) ->
      (forall un, In un (cused sc) -> is_std un = false -> find_units (m_units sm) un <> None) ->
      (forall un su, In un (cused sc) -> is_std un = false -> find_units (m_units sm) un = Some su ->
                     FU (Some (key_of o url)) (hist ++ [fetch_epoch o url]) su) ->
      FC o hist (Comp n (Some (sid, url, ref)) used kids).

  (* what resolveImports(m0) on a fresh importer demands *)
  Definition CodeResolvable : Prop :=
    (forall u, In u (imported_units m0) -> FU None [] u) /\
    (forall c, In c (imported_comps m0) -> FC None [] c).
End CodeSpec.

(* ------------------------------------------------------------------------------------------ hypotheses *)

(* no file carries parser errors (K35: they are only seen by the call that loads the file) *)
Definition NoErrs (fs : fsys) : Prop := forall k errs m, fs_get fs k = Parsed errs m -> errs = [].

Definition only_std (u : units) : Prop := forall r, In r (refs_of u) -> is_std r = true.
Definition is_local (u : units) : Prop := match u with ULocal _ _ => True | UImp _ _ _ _ => False end.

(* all components of a forest, and those that have a parent *)
Fixpoint subcomps (c : comp) : list comp :=
  match c with
  | Comp _ _ _ kids => c :: (fix go (l : list comp) : list comp :=
                               match l with [] => [] | k :: r => subcomps k ++ go r end) kids
  end.
Definition all_comps (m : model) : list comp := flat_map subcomps (m_comps m).
Definition child_comps (m : model) : list comp := flat_map (fun c => flat_map subcomps (ckids c)) (all_comps m).

(* Finding C07-unexamined-dependencies, as a hypothesis: in every file, the places the importer does not look
   into hold nothing that needs looking at —
     S1 a local units referenced by a local units references standard units only,
     S2 a local units used by a variable references standard units only,
     S3 the units used by an encapsulated (non top-level) component exist, are local and reference standard
        units only,
     S4 an imported component that is itself an encapsulated child has no children of its own. *)
Definition Shallow (fs : fsys) : Prop :=
  forall k sm, fs_model fs k = Some sm ->
    (forall u r cu, In u (m_units sm) -> is_local u -> In r (refs_of u) -> is_std r = false ->
                    find_units (m_units sm) r = Some cu -> is_local cu -> only_std cu) /\
    (forall c un su, In c (all_comps sm) -> In un (cused c) -> is_std un = false ->
                     find_units (m_units sm) un = Some su -> is_local su -> only_std su) /\
    (forall c un, In c (child_comps sm) -> In un (cused c) -> is_std un = false ->
                  exists su, find_units (m_units sm) un = Some su /\ is_local su /\ only_std su) /\
    (forall c, In c (child_comps sm) -> cimp c <> None -> ckids c = []).

(* URLs imported by a model, anywhere *)
Definition units_url (u : units) : list string := match u with UImp _ _ url _ => [url] | ULocal _ _ => [] end.
Definition comp_url (c : comp) : list string := match cimp c with Some (_, url, _) => [url] | None => [] end.
Definition import_urls (m : model) : list string :=
  flat_map units_url (m_units m) ++ flat_map comp_url (all_comps m).

(* The property's exclusion, as the hypothesis the code needs: files do not import from each other in a circle
   (there is a rank on files that every import of every file strictly decreases), and no file holds a model
   that Model::equals the model being resolved (the second disjunct of checkForImportCycles) *)
Definition AcyclicFiles (fs : fsys) : Prop :=
  exists rank : string -> nat,
    forall k sm url, fs_model fs k = Some sm -> In url (import_urls sm) -> rank (key_of (Some k) url) < rank k.

(* no file is stored under the marker ":this:" that the history uses for the origin model *)
Definition KeysOK (fs : fsys) : Prop := forall k sm, fs_model fs k = Some sm -> k <> origin_ref.

Definition NoTwin (fs : fsys) (m0 : model) : Prop :=
  forall k sm, fs_model fs k = Some sm -> model_equals m0 sm = false.

(* "No units and no component depends on itself", for the models an importer state can reach from m0: ranks on
   (model, entity name), bounded by Bu / Bc, that strictly decrease along unit references and along linked imports,
   and do not increase from a component to its encapsulated children.  (What hasUnresolvedImports / isDefined /
   the pre-flatten scan walk: they follow the links of the state, not the file system.) *)
Definition NoSelfDependence (st : state) (m0 : model) (urank crank : owner -> string -> nat) (Bu Bc : nat) : Prop :=
  (forall o n, urank o n < Bu) /\
  (forall o n, crank o n < Bc) /\
  (forall o cm n refs r cu, content st m0 o = Some cm -> In (ULocal n refs) (m_units cm) -> In r refs ->
     find_units (m_units cm) r = Some cu -> urank o (uname cu) < urank o n) /\
  (forall o cm n sid url ref sm iu, content st m0 o = Some cm -> In (UImp n sid url ref) (m_units cm) ->
     linked_model st o sid url = Some sm -> find_units (m_units sm) ref = Some iu ->
     urank (Some (key_of o url)) (uname iu) < urank o n) /\
  (forall o cm n sid url ref used kids sm ic, content st m0 o = Some cm ->
     In (Comp n (Some (sid, url, ref)) used kids) (all_comps cm) ->
     linked_model st o sid url = Some sm -> find_comp (m_comps sm) ref = Some ic ->
     crank (Some (key_of o url)) (cname ic) < crank o n) /\
  (forall o cm c k, content st m0 o = Some cm -> In c (all_comps cm) -> In k (ckids c) ->
     crank o (cname k) <= crank o (cname c)).

(* ------------------------------------------------------------------------------------------ resolved, structurally *)

Section Resolved.
  Variable st : state.

  (* [TU o cm u]: the links of [st] lead from the units [u] of model [cm] (owned by [o]) down to local units,
     through every import on the way: what Units::isResolved() looks for *)
  Inductive TU : owner -> model -> units -> Prop :=
  | TU_local : forall o cm n refs,
      (forall r cu, In r refs -> is_std r = false -> find_units (m_units cm) r = Some cu -> TU o cm cu) ->
      TU o cm (ULocal n refs)
  | TU_imp : forall o cm n sid url ref sm iu,
      linked_model st o sid url = Some sm ->
      find_units (m_units sm) ref = Some iu ->
      TU (Some (key_of o url)) sm iu ->
      TU o cm (UImp n sid url ref).

  (* the units used by the variables of a component and of all its descendants: leaves, or resolved imports *)
  Definition UsedOK (o : owner) (cm : model) (c : comp) : Prop :=
    forall c' un mu, In c' (subcomps c) -> In un (cused c') -> is_std un = false ->
                     find_units (m_units cm) un = Some mu ->
                     (is_local mu /\ only_std mu) \/ (~ is_local mu /\ TU o cm mu).

  (* [TC o cm c]: what Component::isResolved() looks for *)
  Inductive TC : owner -> model -> comp -> Prop :=
  | TC_imp : forall o cm n sid url ref used kids sm ic,
      linked_model st o sid url = Some sm ->
      find_comp (m_comps sm) ref = Some ic ->
      TC (Some (key_of o url)) sm ic ->
      (forall k, In k kids -> TC o cm k) ->        (* the placeholder's own children (tested since 0a59695) *)
      TC o cm (Comp n (Some (sid, url, ref)) used kids)
  | TC_local : forall o cm n used kids,
      UsedOK o cm (Comp n None used kids) ->
      (forall k, In k kids -> TC o cm k) ->
      TC o cm (Comp n None used kids).

  (* the import of a placeholder alone *)
  Definition TCI (o : owner) (c : comp) : Prop :=
    match c with
    | Comp _ (Some (sid, url, ref)) _ _ =>
      exists sm ic, linked_model st o sid url = Some sm /\ find_comp (m_comps sm) ref = Some ic /\
                    TC (Some (key_of o url)) sm ic
    | Comp _ None _ _ => True
    end.
End Resolved.

(* the origin model's own local entities, which hasUnresolvedImports() also walks: a local units referenced by a
   local units, and a local units used by a variable (anywhere in the component trees), reference standard units only *)
Definition OriginShallow (m0 : model) : Prop :=
  (forall u r cu, In u (m_units m0) -> is_local u -> In r (refs_of u) -> is_std r = false ->
                  find_units (m_units m0) r = Some cu -> is_local cu -> only_std cu) /\
  (forall c un su, In c (all_comps m0) -> In un (cused c) -> is_std un = false ->
                   find_units (m_units m0) un = Some su -> is_local su -> only_std su).

(* no two different files hold models that Model::equals each other (cf. NoTwin) *)
Definition NoTwinFiles (fs : fsys) : Prop :=
  forall k k' sm sm', fs_model fs k = Some sm -> fs_model fs k' = Some sm' -> k <> k' -> model_equals sm sm' = false.
