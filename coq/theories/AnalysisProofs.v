(** AnalysisProofs.v — lemmas about the analyser model (C05): termination of the do/while loop. *)
From Coq Require Import List Bool Arith PeanoNat Lia.
From LC Require Import AnalysisDefs AnalysisSpec.
Import ListNotations.
Local Open Scope bool_scope.

(* ------------------------------------------------------------------------------------------ small facts *)

Lemma etype_eqb_eq : forall a b, etype_eqb a b = true <-> a = b.
Proof. destruct a, b; cbn; split; intro H; try reflexivity; try discriminate. Qed.

Lemma etype_eqb_refl : forall a, etype_eqb a a = true.
Proof. destruct a; reflexivity. Qed.

Lemma vtype_eqb_eq : forall a b, vtype_eqb a b = true <-> a = b.
Proof. destruct a, b; cbn; split; intro H; try reflexivity; try discriminate. Qed.

(* ------------------------------------------------------------------------------------------ check *)

(** What check() does to the type of the equation: it returns true exactly when it gives a type to an equation
    that had none; otherwise the type is untouched. *)
Lemma check_type : forall s nla st e st' e' b,
  check s nla st e = (st', e', b) ->
  (b = true -> ie_type e = EUnknown /\ ie_type e' <> EUnknown) /\
  (b = false -> ie_type e' = ie_type e).
Proof.
  intros s nla st e st' e' b H. unfold check in H.
  destruct (etype_eqb (ie_type e) EUnknown) eqn:Ht; cbn [negb] in H.
  2:{ inversion H; subst. split; [discriminate | reflexivity]. }
  apply etype_eqb_eq in Ht. cbv zeta in H.
  match type of H with (if ?c then _ else _) = _ => destruct c end.
  { inversion H; subst. split; [discriminate|]. intros _. cbn. symmetry. exact Ht. }
  match type of H with (if ?c then _ else _) = _ => destruct c end.
  { inversion H; subst. split; [discriminate|]. intros _. cbn. symmetry. exact Ht. }
  match type of H with context [type_variables ?a ?b ?c ?d ?e ?f ?g] =>
    destruct (type_variables a b c d e f g) as [[st2 unk] ok] end.
  destruct ok; cbn [negb] in H.
  2:{ inversion H; subst. split; [discriminate|]. intros _. cbn. symmetry. exact Ht. }
  inversion H; subst. split; [|discriminate]. intros _. split; [exact Ht|]. cbn.
  match goal with |- ?t <> EUnknown => destruct t eqn:E end; try discriminate.
  exfalso. revert E.
  match goal with |- match ?lv with _ => _ end = _ -> _ => destruct lv end; [|discriminate].
  match goal with |- (if ?c then _ else _) = _ -> _ => destruct c end; [discriminate|].
  match goal with |- match ?t with _ => _ end = _ -> _ => destruct t end; discriminate.
Qed.

(* ------------------------------------------------------------------------------------------ sweep *)

Lemma count_unknown_cons : forall e r,
  count_unknown (e :: r) = (if etype_eqb (ie_type e) EUnknown then 1 else 0) + count_unknown r.
Proof. intros. unfold count_unknown. cbn. destruct (etype_eqb (ie_type e) EUnknown); reflexivity. Qed.

(** Each productive sweep types at least one equation; an unproductive one types none. *)
Lemma sweep_count : forall s nla es st st' es' b,
  sweep s nla st es = (st', es', b) ->
  length es' = length es /\
  (b = true -> count_unknown es' < count_unknown es) /\
  (b = false -> count_unknown es' = count_unknown es) /\
  count_unknown es' <= count_unknown es.
Proof.
  intros s nla es. induction es as [|e r IH]; intros st st' es' b H; cbn in H.
  - inversion H; subst. repeat split; try reflexivity; try discriminate; try lia.
  - destruct (check s nla st e) as [[st1 e1] b1] eqn:Hc.
    destruct (sweep s nla st1 r) as [[st2 r1] b2] eqn:Hs.
    inversion H; subst. clear H.
    destruct (IH _ _ _ _ Hs) as (Hl & Ht & Hf & Hle).
    destruct (check_type _ _ _ _ _ _ _ Hc) as (Hct & Hcf).
    rewrite !count_unknown_cons. cbn [length].
    destruct b1.
    + destruct (Hct eq_refl) as (H0 & H1). rewrite H0. cbn [etype_eqb].
      destruct (etype_eqb (ie_type e1) EUnknown) eqn:E1.
      { apply etype_eqb_eq in E1. contradiction. }
      cbn [orb]. repeat split; try lia; try discriminate.
    + rewrite (Hcf eq_refl). cbn [orb]. repeat split; try lia.
      * intro Hb. specialize (Ht Hb). lia.
      * intro Hb. specialize (Hf Hb). lia.
Qed.

(* ------------------------------------------------------------------------------------------ loop *)

Definition budget (loopn : nat) : nat :=
  match loopn with 1 => 4 | 2 => 3 | 3 => 2 | _ => 1 end.

(** The do/while terminates: count_unknown + (passes left) sweeps are enough, whatever the state. *)
Lemma loop_total : forall s fuel loopn nla st es,
  count_unknown es + budget loopn <= fuel -> loop s fuel loopn nla st es <> None.
Proof.
  intros s fuel. induction fuel as [|f IH]; intros loopn nla st es Hf.
  - exfalso. destruct loopn as [|[|[|[|n]]]]; cbn in Hf; lia.
  - cbn [loop]. destruct (sweep s nla st es) as [[st1 es1] rel] eqn:Hs.
    destruct (sweep_count _ _ _ _ _ _ _ Hs) as (_ & Ht & Hfa & _).
    destruct rel.
    + specialize (Ht eq_refl). apply IH. lia.
    + specialize (Hfa eq_refl).
      destruct ((loopn =? 1) || (loopn =? 3)) eqn:E13.
      { apply IH. rewrite Hfa.
        apply orb_true_iff in E13. destruct E13 as [E|E]; apply Nat.eqb_eq in E; subst; cbn in *; lia. }
      destruct (loopn =? 2) eqn:E2.
      { apply Nat.eqb_eq in E2. subst.
        destruct (existsb iv_external (cs_ivs st1)); [|discriminate].
        apply IH. rewrite Hfa. cbn in *. lia. }
      discriminate.
Qed.

Lemma loop_fuel_enough : forall s st es, loop s (loop_fuel es) 1 false st es <> None.
Proof. intros. apply loop_total. unfold loop_fuel. cbn. lia. Qed.

Lemma analyse_ext_terminates : forall s x, analyse_ext s x <> OutOfFuel.
Proof.
  intros s x. unfold analyse_ext.
  destruct (negb (resolvable s)); [discriminate|].
  destruct (build s) as [[ivs0 es0]|]; [|discriminate].
  destruct (check_inits s ivs0 0 s); [|discriminate].
  destruct (vs_issues _); [|discriminate].
  match goal with |- match ?l with _ => _ end <> _ => destruct l as [[st es1]|] eqn:E end; [discriminate|].
  exfalso. revert E. apply loop_fuel_enough.
Qed.

(** The fuel of the model is not what makes it stop: with more fuel the result is the same. *)
Lemma loop_fuel_monotone : forall s fuel loopn nla st es r,
  loop s fuel loopn nla st es = Some r -> forall k, loop s (fuel + k) loopn nla st es = Some r.
Proof.
  intros s fuel. induction fuel as [|f IH]; intros loopn nla st es r H k; [discriminate|].
  cbn [loop plus] in *. destruct (sweep s nla st es) as [[st1 es1] rel].
  destruct rel; [apply IH; exact H|].
  destruct ((loopn =? 1) || (loopn =? 3)); [apply IH; exact H|].
  destruct (loopn =? 2); [|exact H].
  destruct (existsb iv_external (cs_ivs st1)); [apply IH; exact H|exact H].
Qed.
