(** OrderDefs.v — the emission order of the generated methods, for C03 (values are only right if every statement
    comes after the statements computing what it reads).  No proofs.

    The transcription of /repo/src/generator.cpp  generateEquationCode (with remainingEquations,
    equationsForDependencies, includeComputedConstants, NLA siblings incl. the dependencies of the siblings),
    isToBeComputedAgain, isSomeConstant, AnalyserImpl::isStateRateBased and of the equation selection of
    addImplementationInitialiseVariablesMethodCode / ComputeComputedConstants / ComputeRates / ComputeVariables is
    REUSED from C20:  LC.ExternalDefs  (gen_eq, dep_wanted, system_deps, to_be_computed_again, is_some_constant,
    initialise_body, computed_constants_body, rates_body, variables_body, method_bodies) over the analysed model
    LC.AnalysisDefs.result (equations by position with type, computed variables, dependencies, NLA siblings;
    variables with type, index, initialising variable).  Added here:

    * [ordered_all]   the ordering claim for EVERY equation of a method body (C20's ordered_from only looks at
                      external equations): each dependency the generator wants stands earlier in the body (itself or
                      an NLA sibling of it) or was emitted by an earlier method; the dependencies of the NLA siblings
                      count for the findRoot call
    * [stmt_slots]    which array entries a statement assigns (what the tie compares with the generated C text)
    * what the dependency lists do NOT carry, as explicit data of a case: the rates an equation's code reads
      ([rate_reads], finding C03-rate-used-before-computed) and the variable an initial value names ([init_ref],
      finding C03-initial-value-reference-order), with the executable checks [rate_reads_ok], [init_refs_ok].

    Runtime contract assumed by the claims: initialiseVariables, computeComputedConstants, computeRates,
    computeVariables are called in this order (computeVariables after computeRates for an ODE model). *)
From Coq Require Import List Bool Arith.
From LC Require Import AnalysisDefs AnalysisSpec ExternalDefs.
Import ListNotations.
Local Open Scope bool_scope.

Section Order.
Variable r : result.

(* the generator as it is now in /repo (with the NLA-sibling repair) *)
Definition sfx : bool := sibling_fix.

Fixpoint ordered_all (icc : bool) (efd rem0 done : list nat) (code : list nat) : bool :=
  match code with
  | [] => true
  | p :: rest =>
      match find_aeq r p with
      | None => false
      | Some e =>
          (if is_some_constant e icc then true
           else forallb (fun d => match find_aeq r d with
                                  | Some de => negb (dep_wanted r icc efd de) || covered rem0 done d
                                  | None => true
                                  end) (system_deps r sfx e))
          && ordered_all icc efd rem0 (done ++ p :: ae_sibs e) rest
      end
  end.

(** array entries *)
Inductive slot : Set :=
| SlVariable (i : nat) | SlState (i : nat) | SlRate (i : nat)
| SlFindRoot (system : nat)          (* the call that solves NLA system n *)
| SlUnknown.

Definition var_slot (rate : bool) (v : vref) : slot :=
  match find (fun a => vref_eqb (av_var a) v) (r_states r) with
  | Some a => if rate then SlRate (av_index a) else SlState (av_index a)
  | None =>
      match find (fun a => vref_eqb (av_var a) v) (r_vars r) with
      | Some a => SlVariable (av_index a)
      | None => SlUnknown
      end
  end.

Definition eq_slots (p : nat) : list slot :=
  match find_aeq r p with
  | None => [SlUnknown]
  | Some e =>
      match ae_type e with
      | QNla => [match ae_nla e with Some n => SlFindRoot n | None => SlUnknown end]
      | QOde => map (var_slot true) (ae_vars e)
      | _ => map (var_slot false) (ae_vars e)
      end
  end.

Definition stmt_slots (s : stmt) : list slot :=
  match s with
  | SInit false i => [SlVariable i]
  | SInit true i => [SlState i]
  | SZero false i => [SlVariable i]
  | SZero true i => [SlRate i]
  | SEq p => eq_slots p
  end.

Definition body_slots (l : list stmt) : list slot := flat_map stmt_slots l.

(* the four method bodies of the generated implementation *)
Definition emission : bodies := method_bodies r sfx.

(** what the dependency lists do not say *)
Section Reads.
Variable rate_reads : nat -> list nat.     (* equation position -> positions of the ODEs whose RATE its code reads *)
Variable init_ref : nat -> option nat.     (* variable index -> index of the variable its initial_value names *)

(* walking computeRates: a rate is read only after the ODE computing it was emitted *)
Fixpoint rate_reads_ok (done : list nat) (code : list nat) : bool :=
  match code with
  | [] => true
  | p :: rest => forallb (fun q => mem_nat q done) (rate_reads p) && rate_reads_ok (done ++ [p]) rest
  end.

(* walking initialiseVariables: an initial value given by reference is assigned after the variable it names *)
Fixpoint init_refs_ok (done : list nat) (l : list stmt) : bool :=
  match l with
  | [] => true
  | SInit false i :: rest =>
      match init_ref i with Some j => mem_nat j done | None => true end && init_refs_ok (done ++ [i]) rest
  | SZero false i :: rest => init_refs_ok (done ++ [i]) rest
  | _ :: rest => init_refs_ok done rest
  end.
End Reads.

End Order.
