(** PyGramDefs.v — the Python instance of GramDefs / ReadDefs: how CPython reads a generated expression, and
    the intended reading / safe class under the built-in Python profile (profile_Py).  No proofs.
    In that profile every relational and logical operator is a function call (eq_func, and_func, ...), so the
    emitted language has only + - * / unary minus, calls and the conditional expression "x if c else y". *)
From Coq Require Import String List.
From LC Require Import AstDefs GenDefs GramDefs ReadDefs.

Definition lexPy : string -> option (list token) := lex LPy.
Definition parsePy : list token -> option tree := parse LPy.
Definition readPy : string -> option tree := read LPy.
Definition trPy : ast -> tree := tr profile_Py.
Definition lvlPy : ast -> nat := lvl profile_Py.
Definition safePy : ast -> bool := safe_b LPy profile_Py.
Definition reads_asPy : string -> ast -> bool := reads_as LPy profile_Py.
