(** EmitIndexProofs.v — C17, proof depth: (1) every index that the generated code can use to address an array cell is
    strictly below the declared COUNT / array size; (2) the converse of declared = defined: every function the C
    implementation defines is declared in the interface, or is a helper, or an NLA function.  No change to EmitDefs. *)
From Coq Require Import String Ascii List Bool Arith Lia.
From LC Require Import Common AstDefs GenDefs EmitDefs EmitProofs.
From LCGen Require Import AstTypes ProfileStrings.
Import ListNotations.
Local Open Scope string_scope.
Local Open Scope bool_scope.

(** * 1. index safety *)

Lemma index_in_range : forall (l : list avar) v, map av_index l = seq 0 (length l) -> In v l -> av_index v < length l.
Proof.
  intros l v H Hin. assert (I : In (av_index v) (map av_index l)) by now apply in_map.
  rewrite H in I. apply in_seq in I. lia.
Qed.

(* the array an analyser variable lives in, as generateVariableNameCode / addNlaSystemsCode choose it: states (and rates)
   for a STATE, variables for everything else; its declared length is STATE_COUNT resp. VARIABLE_COUNT *)
Definition array_length (m : amodel) (t : vtype) : nat :=
  match t with VState => length (am_states m) | _ => length (am_variables m) end.

(* the cells the generated code addresses are those of the model's analyser variables: every (type, index) an equation
   lists is the type and index of a state (type STATE) or of a variable (any other type) of the model *)
Definition refs_resolve (m : amodel) : Prop :=
  forall e t i, In e (am_equations m) -> In (t, i) (ae_vars e) ->
  exists v, av_index v = i /\ (if vtype_beq t VState then In v (am_states m) else In v (am_variables m)).

Lemma every_index_below_count : forall m, wf_indices m ->
  (forall v, In v (am_states m) -> av_index v < length (am_states m))
  /\ (forall v, In v (am_variables m) -> av_index v < length (am_variables m))
  /\ (refs_resolve m -> forall e t i, In e (am_equations m) -> In (t, i) (ae_vars e) -> i < array_length m t).
Proof.
  intros m [Ws Wv]. split; [|split].
  - intros v Hv. now apply index_in_range.
  - intros v Hv. now apply index_in_range.
  - intros R e t i He Hti. destruct (R e t i He Hti) as [v [<- Hv]]. unfold array_length.
    destruct t; simpl in Hv; try (now apply index_in_range).
Qed.

(* the declared numbers are those lengths: "STATE_COUNT = n" / "VARIABLE_COUNT = n" with n the bound above *)
Lemma count_constants_are_bounds : forall k m, has_odes m = true ->
  state_and_variable_count_code (prof k) m false =
  count_line k "STATE_COUNT" (array_length m VState) ++ count_line k "VARIABLE_COUNT" (array_length m VConstant).
Proof. intros k m H. destruct (counts_match k m) as [E _]. rewrite E, H. reflexivity. Qed.

(* NLA systems: findRoot<i> declares "double u[SIZE]" with SIZE = the number of unknowns of the system, and the loops of
   addNlaSystemsCode address u[j] for the positions j of the unknowns: every such j is below SIZE, and every unknown's
   own cell is below its array's COUNT *)
Lemma nla_indices_below_size : forall m idx size, wf_indices m -> refs_resolve m -> In (idx, size) (nla_systems m) ->
  exists e, In e (am_equations m) /\ ae_nla_index e = idx /\ size = length (ae_vars e)
            /\ (forall j, j < length (ae_vars e) -> j < size)
            /\ (forall t i, In (t, i) (ae_vars e) -> i < array_length m t).
Proof.
  intros m idx size W R H. destruct (nla_systems_sound m idx size H) as [e [He [_ [Hi Hs]]]].
  exists e. repeat split; auto; try lia.
  intros t i Hti. destruct (every_index_below_count m W) as [_ [_ B]]. exact (B R e t i He Hti).
Qed.

(** * 2. defined => declared, helper or NLA function (the converse of C17_declared_defined_once) *)

Lemma incl_of_forallb : forall (l1 l2 : list string),
  forallb (fun x => existsb (String.eqb x) l2) l1 = true -> forall s, In s l1 -> In s l2.
Proof.
  intros l1 l2 H s Hs. rewrite forallb_forall in H. specialize (H s Hs). apply existsb_exists in H as [y [Hy E]].
  apply String.eqb_eq in E. now subst.
Qed.

Lemma fixed_in_declared : forall (ode ext : bool) s,
  In s (((if ode then ["double * createStatesArray()"] else @nil string) ++ ["double * createVariablesArray()"; "void deleteArray(double *array)"])%list) ->
  In s (declared_C ode ext).
Proof. intros ode ext. apply incl_of_forallb. destruct ode; destruct ext; vm_compute; reflexivity. Qed.

Lemma skipn_in_declared : forall (ode ext : bool) s, In s (skipn (if ode then 3 else 2) (declared_C ode ext)) -> In s (declared_C ode ext).
Proof. intros ode ext. apply incl_of_forallb. destruct ode; destruct ext; vm_compute; reflexivity. Qed.

Lemma defined_split : forall m,
  defined_sigs profile_C m =
  (map (fun h => def_sig (function_string profile_C h)) (helpers_emitted profile_C m)
   ++ ((if has_odes m then ["double * createStatesArray()"] else @nil string) ++ ["double * createVariablesArray()"; "void deleteArray(double *array)"])
   ++ map def_sig (nla_templates profile_C m)
   ++ skipn (if has_odes m then 3 else 2) (declared_C (has_odes m) (am_has_ext m)))%list.
Proof.
  intros m. unfold defined_sigs, defined_templates. rewrite method_templates_split.
  rewrite <- (fixed_defined_C m), <- (model_methods_sigs_C m). rewrite !map_app, map_map, <- !app_assoc. reflexivity.
Qed.

Lemma defined_are_declared_or_internal : forall m s, In s (defined_sigs profile_C m) ->
  In s (declared_sigs profile_C m)
  \/ (exists h, In h (helpers_emitted profile_C m) /\ s = def_sig (function_string profile_C h))
  \/ In s (map def_sig (nla_templates profile_C m)).
Proof.
  intros m s H. rewrite defined_split in H. rewrite declared_sigs_table.
  apply in_app_or in H as [H | H].
  - right. left. apply in_map_iff in H as [h [E Hh]]. exists h. auto.
  - apply in_app_or in H as [H | H]; [left; now apply fixed_in_declared|].
    apply in_app_or in H as [H | H]; [right; right; exact H|]. left. now apply skipn_in_declared.
Qed.

(* interface and implementation agree both ways: the declared signatures are exactly the defined ones that are neither a
   helper's nor an NLA function's — and those two groups never collide with a declared one *)
Lemma declared_iff_defined : forall m s,
  In s (declared_sigs profile_C m) <->
  (In s (defined_sigs profile_C m)
   /\ (forall h, s <> def_sig (function_string profile_C h))
   /\ ~ In s (map def_sig (nla_templates profile_C m))).
Proof.
  intros m s. split.
  - intros H. split; [now apply declared_are_defined|]. rewrite declared_sigs_table in H. split.
    + intros h E. exact (helper_sigs_differ _ _ s h H (eq_sym E)).
    + intros Hin. pose proof (nla_count0 m s H) as C. apply (count_occ_not_In string_dec) in C. contradiction.
  - intros [Hd [Hh Hn]]. destruct (defined_are_declared_or_internal m s Hd) as [A | [[h [_ E]] | A]]; auto.
    + exfalso. exact (Hh h E).
    + contradiction.
Qed.

(** non-vacuity: the DAE example has an NLA system with one unknown in variables[1], VARIABLE_COUNT = 3 *)
Lemma index_example :
  wf_indices ex_model /\ refs_resolve ex_model /\ In (0, 1) (nla_systems ex_model)
  /\ array_length ex_model VAlgebraic = 3 /\ array_length ex_model VState = 1
  /\ In "void computeRates(double voi, double *states, double *rates, double *variables, ExternalVariable externalVariable)" (declared_sigs profile_C ex_model)
  /\ In "void findRoot0(double voi, double *states, double *rates, double *variables)" (defined_sigs profile_C ex_model)
  /\ ~ In "void findRoot0(double voi, double *states, double *rates, double *variables)" (declared_sigs profile_C ex_model).
Proof.
  split; [split; reflexivity|]. split.
  - intros e t i He Hti. simpl in He. destruct He as [<- | [<- | [<- | []]]]; simpl in Hti; destruct Hti as [E | []]; inversion E; subst.
    + exists (mkAvar 0 VState "x" "mV" "membrane"). simpl. auto.
    + exists (mkAvar 1 VAlgebraic "i_long_name" "uA_per_cm2" "membrane"). simpl. auto.
    + exists (mkAvar 2 VExternal "e" "dimensionless" "env"). simpl. auto.
  - repeat split; try (vm_compute; auto 10; fail).
    intros H. rewrite declared_sigs_table in H. revert H. apply (fun P => P).
    assert (E : existsb (String.eqb "void findRoot0(double voi, double *states, double *rates, double *variables)")
                        (declared_C (has_odes ex_model) (am_has_ext ex_model)) = false) by (vm_compute; reflexivity).
    intros H. assert (T : existsb (String.eqb "void findRoot0(double voi, double *states, double *rates, double *variables)")
                        (declared_C (has_odes ex_model) (am_has_ext ex_model)) = true)
      by (apply existsb_exists; eexists; split; [exact H | apply String.eqb_refl]).
    congruence.
Qed.
